import Blots.Lemmas.Separators
import Blots.Lemmas.DisplayInt
import Blots.Lemmas.DisplayExact
import Blots.Lemmas.DisplayRounding
import Blots.Lemmas.FixedRendering
/-
  C20 — Displayed numbers are well-formed and accurate to 15 significant digits.

  Statements only (helper lemmas live in `Blots/Lemmas`).  `Display.formatDisplayNumber ops`
  models `format_display_number` (`values.rs:18-210`) step by step; `ops : NumOps` are the
  float primitives it calls (`log10 floor round * / powi`).  The specification vocabulary
  (`isGrouped`, `stripCommas`, `decValue`, `ratEq`, `denotesExactly`) is in
  `Lemmas/NumSpec.lean` and does not mention the code model.

  What is proved, for ALL inputs and ALL `ops`:
    * NaN and the infinities are shown by name;
    * the comma grouping produces groups of three for every digit string, can be undone by
      removing the commas, keeps the first digit first, introduces no sign; hence every i64
      is rendered as sign + well-formed grouped numeral of its exact decimal digits;
    * on texts `[-]digits[.digits]` only the integer part is touched by the grouping;
    * trimming trailing zeros (and a then trailing point) never changes the denoted rational;
    * the integer path and the scientific path use no float operation at all;
    * every integral double below 2^53 that is shown in standard notation takes the integer
      path, and its text denotes it EXACTLY, with the sign shown exactly once.
    * UNDER NAMED HYPOTHESES (the standard model of float arithmetic `RoundingModel ops u`
      for `* /`, exactness of the magnitude step (H1), of `powi` (H2) and of `round` (H3) at
      the values used, no overflow): `round_to_significant_figures(x, 15)` is within
      `(½ + 3·u·10^15)` units of the 15th significant digit of `x` (`fraction_rounding_error`;
      less than one unit for `u = 2^-53`), and — with the text-level rendering step
      `FractionRendering`, PROVED for every finite rounded value (`fraction_rendering_holds`,
      `fixed_text_is_correctly_rounded`) — the displayed numeral denotes exactly
      `n/10^(14−e)`, `n` the integer `round` returned, within `(½ + u·10^15) < 0.62` units of
      `x`, whichever decade the rounded value falls in (`display_accuracy_fraction'`).
  What is NOT proved (and is false of the code on the pinned tree):
    * `display_accuracy_statement` — fewer than one unit of error in the 15th significant
      digit on the `fraction` path.  The path computes ⌊log10|x|⌋ with the float `log10`,
      which returns k for doubles up to a few dozen ulps below 10^k, k = 6..15 (e.g. bits
      412e847ffffffff4 = 999999.9999999986 ↦ "1,000,000", 1.397 units off; 41cdcd64ffffffec =
      999999999.9999976 ↦ "1,000,000,000", 2.38 units off).  The harness's exact referee finds
      these (key `c20.accuracy`).  The `…_partial` theorem below is the part of the accuracy
      claim that holds unconditionally: zero error on the integer path.
-/
namespace Blots.C20

open Blots Blots.Display Blots.NumSpec

/-! #### NaN and the infinities are shown by name -/

theorem special_values_named (ops : NumOps) (x : F64) :
    (x.isNaN = true → formatDisplayNumber ops x = "NaN".toList) ∧
    (x.isInf = true → x.neg = false → formatDisplayNumber ops x = "Infinity".toList) ∧
    (x.isInf = true → x.neg = true → formatDisplayNumber ops x = "-Infinity".toList) := by
  refine ⟨formatDisplayNumber_nan ops x, ?_, ?_⟩
  · intro h hs; rw [formatDisplayNumber_inf ops x h]; simp [hs]
  · intro h hs; rw [formatDisplayNumber_inf ops x h]; simp [hs]

example : (F64.nan).isNaN = true := by decide
example : (F64.negInf).isInf = true ∧ (F64.negInf).neg = true := by decide

/-! #### thousands separators: groups of three, for every digit string -/

/-- the grouped text is well-formed: read from the right, groups of exactly three digits
    separated by commas, then a leftmost group of one to three digits -/
theorem separators_wellformed (ds : List Char) (hne : ds ≠ [])
    (hd : ∀ c ∈ ds, isDigit c = true) : isGrouped (withCommas ds) = true :=
  withCommas_grouped ds hne hd

/-- removing the commas gives back the digits (the grouping loses and invents nothing) -/
theorem strip_separators (ds : List Char) (h : ∀ c ∈ ds, c ≠ ',') :
    stripCommas (withCommas ds) = ds :=
  withCommas_strip ds h

/-- the first character stays first: no leading comma, no new leading zero -/
theorem separators_keep_head (ds : List Char) :
    (withCommas ds).head? = ds.head? ∧
    (noLeadingZero ds = true → noLeadingZero (withCommas ds) = true) :=
  ⟨withCommas_head ds, withCommas_noLeadingZero ds⟩

/-- the grouping introduces nothing but commas -/
theorem separators_only_add_commas (ds : List Char) : ∀ c ∈ withCommas ds, c = ',' ∨ c ∈ ds :=
  mem_withCommas ds

example : withCommas "1234567".toList = "1,234,567".toList := by decide
example : isGrouped "1,234,567".toList = true ∧ isGrouped "1234".toList = false ∧
    isGrouped "1,23".toList = false ∧ isGrouped ",123".toList = false := by decide

/-- every i64 (every `Int`, in fact) is rendered as an optional minus sign followed by a
    well-formed grouped numeral whose digits are exactly the decimal digits of |i| -/
theorem integer_numeral_wellformed (i : Int) :
    ∃ body, formatIntegerWithSeparators i = (if i < 0 then ['-'] else []) ++ body ∧
      isGrouped body = true ∧
      stripCommas body = (F64.natDigits i.natAbs).toList ∧
      '-' ∉ body := by
  obtain ⟨body, h1, h2, h3, _⟩ := formatIntegerWithSeparators_spec i
  refine ⟨body, h1, h2, h3, ?_⟩
  have hb : body = withCommas (F64.natDigits i.natAbs).toList := by
    have h1' := formatIntegerWithSeparators_eq i
    rw [h1] at h1'
    exact List.append_cancel_left h1'
  rw [hb]
  apply withCommas_no_minus
  intro hmem
  exact absurd (natDigits_isDigit _ _ hmem) (by decide)

/-- removing the commas from the rendering of an integer gives `i64::to_string` -/
theorem integer_numeral_strip (i : Int) :
    stripCommas (formatIntegerWithSeparators i) = intToString i :=
  formatIntegerWithSeparators_strip i

example : formatIntegerWithSeparators (-1234567) = "-1,234,567".toList := by decide

/-- on a text `[-]digits[.digits]` only the integer digits are grouped; sign and fraction
    are kept as they are (so the sign appears once and the fraction has no separators) -/
theorem fraction_numeral_separators (ip rest : List Char) (h1 : ∀ c ∈ ip, c ≠ '.')
    (h2 : ip.head? ≠ some '-') (h3 : rest = [] ∨ rest.head? = some '.') :
    addThousandSeparators (ip ++ rest) = withCommas ip ++ rest ∧
    addThousandSeparators ('-' :: ip ++ rest) = '-' :: (withCommas ip ++ rest) :=
  ⟨addThousandSeparators_unsigned ip rest h1 h2 h3, addThousandSeparators_signed ip rest h1 h3⟩

example : addThousandSeparators "-1234567.891".toList = "-1,234,567.891".toList := by decide

/-! #### trimming trailing zeros does not change the denoted rational -/

theorem trim_zeros_value_preserving (ip fp : List Char) (hi : ∀ c ∈ ip, isDigit c = true)
    (hf : ∀ c ∈ fp, isDigit c = true) :
    ratEq (decValue (trimFraction (ip ++ '.' :: fp))) (decValue (ip ++ '.' :: fp)) ∧
    ratEq (decValue (trimEnd '.' (trimEnd '0' (ip ++ '.' :: fp)))) (decValue (ip ++ '.' :: fp)) :=
  ⟨trimFraction_value_digits ip fp hi hf, formatMantissa_trims_value_digits ip fp hi hf⟩

/-- a text without a decimal point is left alone -/
theorem trim_keeps_integers (s : List Char) (h : '.' ∉ s) : trimFraction s = s :=
  trimFraction_no_dot s h

example : trimFraction "12.500".toList = "12.5".toList ∧ trimFraction "12.000".toList = "12".toList ∧
    trimFraction "1200".toList = "1200".toList := by decide

/-! #### only the `fraction` path depends on float arithmetic -/

theorem integer_and_scientific_paths_use_no_float_op (ops₁ ops₂ : NumOps) (x : F64)
    (h : path x = .integer ∨ path x = .scientific) :
    formatDisplayNumber ops₁ x = formatDisplayNumber ops₂ x := by
  rcases h with h | h
  · rw [formatDisplayNumber_integer ops₁ x h, formatDisplayNumber_integer ops₂ x h]
  · rw [formatDisplayNumber_scientific ops₁ x h, formatDisplayNumber_scientific ops₂ x h]

example : path (F64.ofNatBits 0x412E848000000000) = .integer := by decide      -- 1000000.0
example : path (F64.ofNatBits 0x4415AF1D78B58C40) = .scientific := by decide   -- 1e20

/-! #### integers below 2^53 shown in standard notation are shown exactly -/

/-- an integral double of magnitude below 2^53 that is not sent to scientific notation
    takes the integer path … -/
theorem integral_takes_integer_path (x : F64) (hn : x.isNaN = false) (hi : x.isInf = false)
    (hz : F64.feq x F64.zero = false) (hint : x.isIntegral = true)
    (hlt : F64.flt x.abs twoPow53 = true) (hstd : path x ≠ .scientific) : path x = .integer :=
  Display.integral_takes_integer_path x hn hi hz hint hlt hstd

/-- … and on the integer path the text is: a minus sign iff the sign bit is set, then the
    grouped decimal digits of the exact integer value; it contains no other minus sign and
    denotes the double exactly -/
theorem int_display_exact (ops : NumOps) (x : F64) (h : path x = .integer) :
    denotesExactly (formatDisplayNumber ops x) x ∧
    ∃ body, formatDisplayNumber ops x = (if x.neg then ['-'] else []) ++ body ∧
      isGrouped body = true ∧ noLeadingZero body = true := by
  refine ⟨integer_path_exact ops x h, ?_⟩
  obtain ⟨htext, _, hpos, _⟩ := integer_path_text ops x h
  refine ⟨_, htext, withCommas_grouped _ (natDigits_ne_nil _) (natDigits_isDigit _), ?_⟩
  exact withCommas_noLeadingZero _ (natDigits_noLeadingZero _ hpos)

example : path (F64.ofNatBits 0xC132D687E3D70A3D) ≠ .integer := by decide     -- -1234567.89
example : path (F64.ofNatBits 0xC132D68700000000) = .integer := by decide     -- -1234567.0

/-! #### accuracy to 15 significant digits -/

/-- exact value of a finite double -/
def toRat (x : F64) : Rat :=
  (if x.neg then -1 else 1) * ((x.ratio.1 : Rat) / (x.ratio.2 : Rat))

def absRat (q : Rat) : Rat := if q < 0 then -q else q

/-- The well-formed numerals of the property and the rational each denotes: optional sign,
    integer digits grouped in threes, optional fraction; or mantissa `e` exponent. -/
inductive Denotes : List Char → Rat → Prop
  | standard (neg : Bool) (ip fp : List Char) :
      isGrouped ip = true → noLeadingZero ip = true → (∀ c ∈ fp, isDigit c = true) →
      Denotes ((if neg then ['-'] else []) ++ ip ++ (if fp = [] then [] else '.' :: fp))
        ((if neg then -1 else 1) * ((digitsVal (stripCommas ip ++ fp) : Rat) / (10 : Rat) ^ fp.length))
  | scientific (neg : Bool) (m : Char) (fp : List Char) (eneg : Bool) (es : List Char) :
      isDigit m = true → (∀ c ∈ fp, isDigit c = true) → es ≠ [] → (∀ c ∈ es, isDigit c = true) →
      Denotes ((if neg then ['-'] else []) ++ m :: (if fp = [] then [] else '.' :: fp) ++
                'e' :: (if eneg then ['-'] else []) ++ es)
        ((if neg then -1 else 1) * ((digitsVal (m :: fp) : Rat) / (10 : Rat) ^ fp.length) *
          (10 : Rat) ^ (if eneg then - (digitsVal es : Int) else (digitsVal es : Int)))

/-- THE FULL STATEMENT (not proved; false of the code on the pinned tree at the
    `c20.accuracy` witnesses when `ops` is the hardware/libm instance): every finite non-zero
    double is shown as a well-formed numeral within one unit of its 15th significant digit. -/
def display_accuracy_statement (ops : NumOps) : Prop :=
  ∀ x : F64, x.isFinite = true → x.isZero = false →
    ∃ v : Rat, Denotes (formatDisplayNumber ops x) v ∧
      ∃ k : Int, (10 : Rat) ^ k ≤ absRat (toRat x) ∧ absRat (toRat x) < (10 : Rat) ^ (k + 1) ∧
        absRat (v - toRat x) < (10 : Rat) ^ (k - 14)

/-- The proved part: on the integer path (every integral double below 2^53 in standard
    notation) the error is zero — the numeral denotes the double exactly — whatever the float
    primitives do.  Missing for the full statement: the `scientific` path (needs the 15-digit
    round trip `{:.14}` ∘ parse on the mantissa, not proved) and the `fraction` path (false as
    it stands, see the header). -/
theorem display_accuracy_partial (ops : NumOps) (x : F64) (h : path x = .integer) :
    denotesExactly (formatDisplayNumber ops x) x :=
  integer_path_exact ops x h

/-! #### the fraction path under the standard model of float arithmetic

  `RoundingModel ops u` (`Lemmas/Rounding.lean`): `fl(a∘b) = (a∘b)(1+δ)`, `|δ| ≤ u`, for
  `+ × /` on finite operands with finite, not underflowed results (binary64: `u = 2^-53`).
  The remaining float steps of the path are named hypotheses:
    (H1) `MagnitudeExact ops x e`  — `decimal_exponent(|x|)` is the true `e = ⌊log10 |x|⌋`
         (this is what fails at the `c20.accuracy` witnesses a few ulps below 10^k);
    (H2) `PowiExactAt ops (14 − e)` — `10f64.powi(14 − e)` is finite and exactly `10^(14−e)`
         (true of `f64::powi` for exponents of magnitude ≤ 22);
    (H3) `RoundExactAt ops p`       — `round` returns at `p = fl(x·scale)` a finite integer
         within ½ of `p`;
  plus "no overflow" (`hmf`, `hdf`: the product and the final quotient are finite).
  `toRat x = x.toRat` (`F64.toRat`) by `rfl`; `absRat q = |q|`. -/

/-- (H1) the magnitude step is exact at `x` -/
def MagnitudeExact (ops : NumOps) (x : F64) (e : Int) : Prop :=
  decimalExponent ops x.abs = e ∧
    (10 : Rat) ^ e ≤ absRat (toRat x) ∧ absRat (toRat x) < (10 : Rat) ^ (e + 1)

/-- `round_to_significant_figures(x, 15)` is within `(½ + 3·u·10^15)` units of the 15th
    significant digit of `x`: half a unit from `round`, relative errors `u` from `*` and `/` -/
theorem fraction_rounding_error (ops : NumOps) (u : Rat) (M : RoundingModel ops u)
    (hu : u ≤ 1 / 2) (x : F64) (e : Int) (hpath : path x = .fraction) (he : -5 ≤ e)
    (H1 : MagnitudeExact ops x e) (H2 : PowiExactAt ops (14 - e))
    (H3 : RoundExactAt ops (ops.mul x (ops.powi ten (14 - e))))
    (hmf : (ops.mul x (ops.powi ten (14 - e))).isFinite = true)
    (hdf : (roundToSignificantFigures ops x 15).isFinite = true) :
    absRat (toRat (roundToSignificantFigures ops x 15) - toRat x) ≤
      (1 / 2 + 3 * u * 10 ^ 15) * (10 : Rat) ^ (e - 14) := by
  obtain ⟨_, hn, hi, hz⟩ := formatDisplayNumber_fraction ops x hpath
  obtain ⟨h1, hlo, hhi⟩ := H1
  have habs : ∀ q : Rat, absRat q = |q| := ratAbs_eq
  rw [habs] at hlo hhi ⊢
  exact roundToSignificantFigures_error M hu x e (isFinite_of_not_nan_inf hn hi) hz hlo hhi he
    h1 H2 H3 hmf hdf

/-- for binary64 (`u = 2^-53`, `3·u·10^15 < 0.34`) that is less than one unit -/
theorem fraction_rounding_within_one_unit (ops : NumOps) (M : RoundingModel ops u64)
    (x : F64) (e : Int) (hpath : path x = .fraction) (he : -5 ≤ e)
    (H1 : MagnitudeExact ops x e) (H2 : PowiExactAt ops (14 - e))
    (H3 : RoundExactAt ops (ops.mul x (ops.powi ten (14 - e))))
    (hmf : (ops.mul x (ops.powi ten (14 - e))).isFinite = true)
    (hdf : (roundToSignificantFigures ops x 15).isFinite = true) :
    absRat (toRat (roundToSignificantFigures ops x 15) - toRat x) < (10 : Rat) ^ (e - 14) := by
  have h := fraction_rounding_error ops u64 M (by unfold u64; norm_num) x e hpath he H1 H2 H3 hmf hdf
  have hT : (0 : Rat) < (10 : Rat) ^ (e - 14) := zpow_pos (by norm_num) _
  have hc : (1 / 2 + 3 * u64 * 10 ^ 15 : Rat) < 1 := by unfold u64; norm_num
  calc _ ≤ (1 / 2 + 3 * u64 * 10 ^ 15) * (10 : Rat) ^ (e - 14) := h
    _ < 1 * (10 : Rat) ^ (e - 14) := mul_lt_mul_of_pos_right hc hT
    _ = _ := one_mul _

/-- THE TEXT-LEVEL STEP (independent of float arithmetic; proved below for every finite `y`,
    `fraction_rendering_holds`): the text
    produced from `y = round_to_significant_figures(x, 15)` — `{:.dp}` with
    `dp = decimalPlaces ops y 15`, trailing zeros trimmed, integer part grouped — is a
    well-formed numeral whose value is a multiple of `10^-dp` within half of it of `y`
    (`F64.toFixed` rounds `y` correctly to `dp` places; trimming and grouping keep the value,
    `trim_zeros_value_preserving`, `fraction_numeral_separators`). -/
def FractionRendering (ops : NumOps) (x : F64) : Prop :=
  let y := roundToSignificantFigures ops x 15
  let dp := decimalPlaces ops y 15
  ∃ (v : Rat) (m : Int), Denotes (addThousandSeparators (formatFloatSignificant ops y 15)) v ∧
    v = (m : Rat) / (10 : Rat) ^ dp ∧ absRat (v - toRat y) ≤ 1 / 2 / (10 : Rat) ^ dp

/-- ACCURACY ON THE FRACTION PATH, conditional on the named hypotheses: under the standard
    model with `u = 2^-53`, (H1) for `x` AND for the rounded value `y` (whose decade `e'` may
    be `e − 1`, `e` or `e + 1`; the number of decimals is `max(0, 14 − e')`), (H2), (H3), no
    overflow, and the rendering step `FractionRendering`, the displayed numeral is well-formed
    and within ONE unit of the 15th significant digit of `x` — in fact within
    `½ + 2^-53·10^15 < 0.62` units: the text denotes exactly `n/10^(14−e)`, `n` the integer
    that `round` returned.  Missing for the unconditional statement: (H1)–(H3) are facts about
    libm / hardware ((H1) is false at the `c20.accuracy` witnesses); `FractionRendering` is
    discharged by `fraction_rendering_holds` (see `display_accuracy_fraction'`). -/
theorem display_accuracy_fraction (ops : NumOps) (M : RoundingModel ops u64)
    (x : F64) (e e' : Int) (hpath : path x = .fraction) (he : -5 ≤ e) (he' : e ≤ 14)
    (H1 : MagnitudeExact ops x e) (H2 : PowiExactAt ops (14 - e))
    (H3 : RoundExactAt ops (ops.mul x (ops.powi ten (14 - e))))
    (hmf : (ops.mul x (ops.powi ten (14 - e))).isFinite = true)
    (hdf : (roundToSignificantFigures ops x 15).isFinite = true)
    (H1y : MagnitudeExact ops (roundToSignificantFigures ops x 15) e')
    (R : FractionRendering ops x) :
    ∃ v : Rat, Denotes (formatDisplayNumber ops x) v ∧
      absRat (v - toRat x) < (10 : Rat) ^ (e - 14) := by
  obtain ⟨htext, hn, hi, hz⟩ := formatDisplayNumber_fraction ops x hpath
  obtain ⟨h1, hlo, hhi⟩ := H1
  obtain ⟨h1y, hy1, hy2⟩ := H1y
  obtain ⟨v, m, hden, hv, hvy⟩ := R
  have habs : ∀ q : Rat, absRat q = |q| := ratAbs_eq
  rw [habs] at hlo hhi hvy hy1 hy2
  have h := display_value_error_any_decade M (by unfold u64; norm_num) x e e'
    (isFinite_of_not_nan_inf hn hi) hz hlo hhi he he' h1 H2 H3 hmf hdf h1y hy1 hy2 v m hv hvy
  refine ⟨v, by rw [htext]; exact hden, ?_⟩
  rw [habs]
  have hT : (0 : Rat) < (10 : Rat) ^ (e - 14) := zpow_pos (by norm_num) _
  have hc : (1 / 2 + u64 * 10 ^ 15 : Rat) < 1 := by unfold u64; norm_num
  calc _ ≤ (1 / 2 + u64 * 10 ^ 15) * (10 : Rat) ^ (e - 14) := h
    _ < 1 * (10 : Rat) ^ (e - 14) := mul_lt_mul_of_pos_right hc hT
    _ = _ := one_mul _

/-- the same in the shape of `display_accuracy_statement`: the conclusion of the full
    statement holds at every `x` of the fraction path that meets the named hypotheses -/
theorem display_accuracy_statement_at (ops : NumOps) (M : RoundingModel ops u64)
    (x : F64) (e e' : Int) (hpath : path x = .fraction) (he : -5 ≤ e) (he' : e ≤ 14)
    (H1 : MagnitudeExact ops x e) (H2 : PowiExactAt ops (14 - e))
    (H3 : RoundExactAt ops (ops.mul x (ops.powi ten (14 - e))))
    (hmf : (ops.mul x (ops.powi ten (14 - e))).isFinite = true)
    (hdf : (roundToSignificantFigures ops x 15).isFinite = true)
    (H1y : MagnitudeExact ops (roundToSignificantFigures ops x 15) e')
    (R : FractionRendering ops x) :
    ∃ v : Rat, Denotes (formatDisplayNumber ops x) v ∧
      ∃ k : Int, (10 : Rat) ^ k ≤ absRat (toRat x) ∧ absRat (toRat x) < (10 : Rat) ^ (k + 1) ∧
        absRat (v - toRat x) < (10 : Rat) ^ (k - 14) := by
  obtain ⟨v, hv, hb⟩ :=
    display_accuracy_fraction ops M x e e' hpath he he' H1 H2 H3 hmf hdf H1y R
  exact ⟨v, hv, e, H1.2.1, H1.2.2, hb⟩

/-- ALL hypotheses of `display_accuracy_fraction` (hence of the theorems around it) hold
    for `x = 0.1 + 0.2 = 0.30000000000000004`, `e = −1`, with `displayOps` (correctly rounded
    `+ × /`, exact round-half-away `round`, `Lemmas/DisplayRounding.lean`): the text is `0.3` -/
example : ∃ v : Rat, Denotes (formatDisplayNumber displayOps dbl0304) v ∧
    absRat (v - toRat dbl0304) < (10 : Rat) ^ ((-1 : Int) - 14) := by
  have hS : displayOps.powi ten (14 - (-1 : Int)) = highThreshold := by decide +kernel
  have hx : toRat dbl0304 = 1351079888211149 / 4503599627370496 := by decide +kernel
  have hp : (displayOps.mul dbl0304 highThreshold).toRat = 4800000000000001 / 16 := by
    decide +kernel
  have hr : (displayOps.round (displayOps.mul dbl0304 highThreshold)).toRat = 300000000000000 := by
    decide +kernel
  have hy : roundToSignificantFigures displayOps dbl0304 15 = dbl03 := by decide +kernel
  have hy3 : toRat dbl03 = 5404319552844595 / 18014398509481984 := by decide +kernel
  have habs : ∀ q : Rat, absRat q = |q| := ratAbs_eq
  refine display_accuracy_fraction displayOps displayOps_model dbl0304 (-1) (-1) (by decide +kernel)
    (by decide) (by decide) ⟨by decide +kernel, ?_, ?_⟩ ⟨?_, ?_⟩ ⟨?_, 300000000000000, ?_, ?_⟩
    ?_ ?_ ⟨?_, ?_, ?_⟩ ?_
  · rw [habs, hx, abs_of_pos (by norm_num)]; norm_num
  · rw [habs, hx, abs_of_pos (by norm_num)]; norm_num
  · rw [hS]; decide
  · rw [hS]
    have : highThreshold.toRat = 1000000000000000 := by decide +kernel
    rw [this]; norm_num
  · rw [hS]; decide +kernel
  · rw [hS, hr]; norm_num
  · rw [hS, hp]; rw [abs_le]; constructor <;> norm_num
  · rw [hS]; decide +kernel
  · rw [hy]; decide
  · rw [hy]; decide +kernel
  · rw [hy, habs, hy3, abs_of_pos (by norm_num)]; norm_num
  · rw [hy, habs, hy3, abs_of_pos (by norm_num)]; norm_num
  · unfold FractionRendering
    rw [hy]
    have htext : addThousandSeparators (formatFloatSignificant displayOps dbl03 15) =
        ((if false = true then ['-'] else []) ++ ['0'] ++ (if ['3'] = [] then [] else '.' :: ['3'])) := by
      decide +kernel
    have hdp : decimalPlaces displayOps dbl03 15 = 15 := by decide +kernel
    have hd : digitsVal (stripCommas ['0'] ++ ['3']) = 3 := by decide
    refine ⟨(if false = true then -1 else 1) *
      ((digitsVal (stripCommas ['0'] ++ ['3']) : Rat) / (10 : Rat) ^ ['3'].length),
      300000000000000, ?_, ?_, ?_⟩
    · rw [htext]
      exact Denotes.standard false ['0'] ['3'] (by decide) (by decide) (by decide)
    · simp only [hdp, hd]; norm_num
    · simp only [hdp, hd, habs, hy3]
      rw [abs_le]; constructor <;> norm_num

/-- the same for `x = 0.9999999999999999` (the double below 1), whose rounded value `1.0`
    leaves the decade of `x` (`e = −1`, `e' = 0`, 14 decimals): the text is `1` -/
example : ∃ v : Rat, Denotes (formatDisplayNumber displayOps (F64.ofNatBits 0x3FEFFFFFFFFFFFFF)) v ∧
    absRat (v - toRat (F64.ofNatBits 0x3FEFFFFFFFFFFFFF)) < (10 : Rat) ^ ((-1 : Int) - 14) := by
  have hS : displayOps.powi ten (14 - (-1 : Int)) = highThreshold := by decide +kernel
  have hx : toRat (F64.ofNatBits 0x3FEFFFFFFFFFFFFF) = 9007199254740991 / 9007199254740992 := by
    decide +kernel
  have hp : (displayOps.mul (F64.ofNatBits 0x3FEFFFFFFFFFFFFF) highThreshold).toRat =
      7999999999999999 / 8 := by decide +kernel
  have hr : (displayOps.round (displayOps.mul (F64.ofNatBits 0x3FEFFFFFFFFFFFFF) highThreshold)).toRat
      = 1000000000000000 := by decide +kernel
  have hy : roundToSignificantFigures displayOps (F64.ofNatBits 0x3FEFFFFFFFFFFFFF) 15 = F64.one := by
    decide +kernel
  have hy1 : toRat F64.one = 1 := F64.toRat_one
  have habs : ∀ q : Rat, absRat q = |q| := ratAbs_eq
  refine display_accuracy_fraction displayOps displayOps_model (F64.ofNatBits 0x3FEFFFFFFFFFFFFF) (-1) (0 : Int)
    (by decide +kernel)
    (by decide) (by decide) ⟨by decide +kernel, ?_, ?_⟩ ⟨?_, ?_⟩ ⟨?_, 1000000000000000, ?_, ?_⟩
    ?_ ?_ ⟨?_, ?_, ?_⟩ ?_
  · rw [habs, hx, abs_of_pos (by norm_num)]; norm_num
  · rw [habs, hx, abs_of_pos (by norm_num)]; norm_num
  · rw [hS]; decide
  · rw [hS]
    have : highThreshold.toRat = 1000000000000000 := by decide +kernel
    rw [this]; norm_num
  · rw [hS]; decide +kernel
  · rw [hS, hr]; norm_num
  · rw [hS, hp]; rw [abs_le]; constructor <;> norm_num
  · rw [hS]; decide +kernel
  · rw [hy]; decide
  · rw [hy]; decide +kernel
  · rw [hy, habs, hy1]; norm_num
  · rw [hy, habs, hy1]; norm_num
  · unfold FractionRendering
    rw [hy]
    have htext : addThousandSeparators (formatFloatSignificant displayOps F64.one 15) =
        ((if false = true then ['-'] else []) ++ ['1'] ++
          (if ([] : List Char) = [] then [] else '.' :: [])) := by
      decide +kernel
    have hdp : decimalPlaces displayOps F64.one 15 = 14 := by decide +kernel
    have hd : digitsVal (stripCommas ['1'] ++ []) = 1 := by decide
    refine ⟨(if false = true then -1 else 1) *
      ((digitsVal (stripCommas ['1'] ++ []) : Rat) / (10 : Rat) ^ ([] : List Char).length),
      100000000000000, ?_, ?_, ?_⟩
    · rw [htext]
      exact Denotes.standard false ['1'] [] (by decide) (by decide) (by decide)
    · simp only [hdp, hd]; norm_num
    · simp only [hdp, hd, habs, hy1]; norm_num

/-! #### the text-level step, proved (`Lemmas/FixedRendering.lean`) -/

/-- `{:.dp}` (`F64.toFixed`) of a finite double is: a minus sign iff the sign bit is set, a
    non-empty integer part without leading zero, and for `dp > 0` a point and EXACTLY `dp`
    fraction digits; the number it denotes is `m/10^dp` with `m` an integer, within half a
    unit of the last place of the exact value (the rounding is exact, ties to even). -/
theorem fixed_text_is_correctly_rounded (y : F64) (hf : y.isFinite = true) (dp : Nat) :
    ∃ (ip fp : List Char) (m : Int),
      (F64.toFixed y dp).toList =
        (if y.neg then ['-'] else []) ++ ip ++ (if dp = 0 then [] else '.' :: fp) ∧
      ip ≠ [] ∧ (∀ c ∈ ip, isDigit c = true) ∧ noLeadingZero ip = true ∧
      (∀ c ∈ fp, isDigit c = true) ∧ fp.length = dp ∧
      (m : Rat) = (if y.neg then -1 else 1) * (digitsVal (ip ++ fp) : Rat) ∧
      absRat ((m : Rat) / (10 : Rat) ^ dp - toRat y) ≤ 1 / 2 / (10 : Rat) ^ dp := by
  obtain ⟨ip, fp, htext, hne, hip, hfp, hlen, hnlz, hval⟩ := toFixed_shape y hf dp
  have hround := roundHalfEven_rat y.ratio.1 y.ratio.2 (10 ^ dp) (S17.ratio_snd_pos y)
    (Nat.pow_pos (by decide))
  rw [← hval] at hround
  have hcast : (((10 : Nat) ^ dp : Nat) : Rat) = (10 : Rat) ^ dp := by push_cast; rfl
  rw [hcast] at hround
  have habs : ∀ q : Rat, absRat q = |q| := ratAbs_eq
  refine ⟨ip, fp, (if y.neg then -1 else 1) * ((digitsVal (ip ++ fp) : Nat) : Int), htext, hne,
    hip, hnlz, hfp, hlen, ?_, ?_⟩
  · cases y.neg <;> simp
  · rw [habs]
    unfold toRat
    cases y.neg with
    | false =>
      simp only [Bool.false_eq_true, if_false, one_mul, Int.cast_natCast]
      exact hround
    | true =>
      simp only [if_true, Int.cast_mul, Int.cast_neg, Int.cast_one, Int.cast_natCast]
      rw [show (-1 * ((digitsVal (ip ++ fp) : Nat) : Rat)) / (10 : Rat) ^ dp -
          -1 * ((y.ratio.1 : Rat) / (y.ratio.2 : Rat)) =
          -(((digitsVal (ip ++ fp) : Nat) : Rat) / (10 : Rat) ^ dp -
            (y.ratio.1 : Rat) / (y.ratio.2 : Rat)) by ring, abs_neg]
      exact hround

/-- `FractionRendering` HOLDS whenever `round_to_significant_figures(x, 15)` is finite (which
    `display_accuracy_fraction` assumes anyway as "no overflow", `hdf`): the `{:.dp}` text is a
    correctly rounded multiple of `10^-dp`, trimming the trailing zeros and grouping the integer
    part give a well-formed numeral of the same value. -/
theorem fraction_rendering_holds (ops : NumOps) (x : F64)
    (hdf : (roundToSignificantFigures ops x 15).isFinite = true) : FractionRendering ops x := by
  unfold FractionRendering
  simp only
  obtain ⟨neg, ip, fp, m, htext, hg, hz, hfp, hv, herr⟩ :=
    fixed_rendering (roundToSignificantFigures ops x 15) hdf
      (decimalPlaces ops (roundToSignificantFigures ops x 15) 15)
  have habs : ∀ q : Rat, absRat q = |q| := ratAbs_eq
  refine ⟨_, m, ?_, hv, ?_⟩
  · unfold formatFloatSignificant
    rw [htext]
    exact Denotes.standard neg ip fp hg hz hfp
  · rw [hv, habs]; exact herr

/-- `display_accuracy_fraction` without the rendering hypothesis -/
theorem display_accuracy_fraction' (ops : NumOps) (M : RoundingModel ops u64)
    (x : F64) (e e' : Int) (hpath : path x = .fraction) (he : -5 ≤ e) (he' : e ≤ 14)
    (H1 : MagnitudeExact ops x e) (H2 : PowiExactAt ops (14 - e))
    (H3 : RoundExactAt ops (ops.mul x (ops.powi ten (14 - e))))
    (hmf : (ops.mul x (ops.powi ten (14 - e))).isFinite = true)
    (hdf : (roundToSignificantFigures ops x 15).isFinite = true)
    (H1y : MagnitudeExact ops (roundToSignificantFigures ops x 15) e') :
    ∃ v : Rat, Denotes (formatDisplayNumber ops x) v ∧
      absRat (v - toRat x) < (10 : Rat) ^ (e - 14) :=
  display_accuracy_fraction ops M x e e' hpath he he' H1 H2 H3 hmf hdf H1y
    (fraction_rendering_holds ops x hdf)

/-- and in the shape of `display_accuracy_statement` -/
theorem display_accuracy_statement_at' (ops : NumOps) (M : RoundingModel ops u64)
    (x : F64) (e e' : Int) (hpath : path x = .fraction) (he : -5 ≤ e) (he' : e ≤ 14)
    (H1 : MagnitudeExact ops x e) (H2 : PowiExactAt ops (14 - e))
    (H3 : RoundExactAt ops (ops.mul x (ops.powi ten (14 - e))))
    (hmf : (ops.mul x (ops.powi ten (14 - e))).isFinite = true)
    (hdf : (roundToSignificantFigures ops x 15).isFinite = true)
    (H1y : MagnitudeExact ops (roundToSignificantFigures ops x 15) e') :
    ∃ v : Rat, Denotes (formatDisplayNumber ops x) v ∧
      ∃ k : Int, (10 : Rat) ^ k ≤ absRat (toRat x) ∧ absRat (toRat x) < (10 : Rat) ^ (k + 1) ∧
        absRat (v - toRat x) < (10 : Rat) ^ (k - 14) :=
  display_accuracy_statement_at ops M x e e' hpath he he' H1 H2 H3 hmf hdf H1y
    (fraction_rendering_holds ops x hdf)

end Blots.C20
