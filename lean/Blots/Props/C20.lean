import Blots.Lemmas.Separators
import Blots.Lemmas.DisplayInt
import Blots.Lemmas.DisplayExact
/-
  C20 — Displayed numbers are well-formed and accurate to 15 significant digits.

  Statements only (helper lemmas live in `Blots/Lemmas`).  `Display.formatDisplayNumber ops`
  models `format_display_number` (`values.rs:18-210`) step by step; `ops : NumOps` are the
  float primitives it calls (`log10 floor round * / powi`).  The specification vocabulary
  (`isGrouped`, `stripCommas`, `decValue`, `ratEq`, `denotesExactly`) is in
  `Lemmas/NumSpec.lean` and does not mention the code model.

  What is proved, for ALL inputs and ALL `ops`:
    * NaN and the infinities are shown by name;
    * the comma grouping produces groups of three for every digit string, can be undone by
      removing the commas, keeps the first digit first, introduces no sign; hence every i64
      is rendered as sign + well-formed grouped numeral of its exact decimal digits;
    * on texts `[-]digits[.digits]` only the integer part is touched by the grouping;
    * trimming trailing zeros (and a then trailing point) never changes the denoted rational;
    * the integer path and the scientific path use no float operation at all;
    * every integral double below 2^53 that is shown in standard notation takes the integer
      path, and its text denotes it EXACTLY, with the sign shown exactly once.
  What is NOT proved (and is false of the code on the pinned tree):
    * `display_accuracy_statement` — fewer than one unit of error in the 15th significant
      digit on the `fraction` path.  The path computes ⌊log10|x|⌋ with the float `log10`,
      which returns k for doubles up to a few dozen ulps below 10^k, k = 6..15 (e.g. bits
      412e847ffffffff4 = 999999.9999999986 ↦ "1,000,000", 1.397 units off; 41cdcd64ffffffec =
      999999999.9999976 ↦ "1,000,000,000", 2.38 units off).  The harness's exact referee finds
      these (key `c20.accuracy`).  The `…_partial` theorem below is the part of the accuracy
      claim that holds unconditionally: zero error on the integer path.
-/
namespace Blots.C20

open Blots Blots.Display Blots.NumSpec

/-! #### NaN and the infinities are shown by name -/

theorem special_values_named (ops : NumOps) (x : F64) :
    (x.isNaN = true → formatDisplayNumber ops x = "NaN".toList) ∧
    (x.isInf = true → x.neg = false → formatDisplayNumber ops x = "Infinity".toList) ∧
    (x.isInf = true → x.neg = true → formatDisplayNumber ops x = "-Infinity".toList) := by
  refine ⟨formatDisplayNumber_nan ops x, ?_, ?_⟩
  · intro h hs; rw [formatDisplayNumber_inf ops x h]; simp [hs]
  · intro h hs; rw [formatDisplayNumber_inf ops x h]; simp [hs]

example : (F64.nan).isNaN = true := by decide
example : (F64.negInf).isInf = true ∧ (F64.negInf).neg = true := by decide

/-! #### thousands separators: groups of three, for every digit string -/

/-- the grouped text is well-formed: read from the right, groups of exactly three digits
    separated by commas, then a leftmost group of one to three digits -/
theorem separators_wellformed (ds : List Char) (hne : ds ≠ [])
    (hd : ∀ c ∈ ds, isDigit c = true) : isGrouped (withCommas ds) = true :=
  withCommas_grouped ds hne hd

/-- removing the commas gives back the digits (the grouping loses and invents nothing) -/
theorem strip_separators (ds : List Char) (h : ∀ c ∈ ds, c ≠ ',') :
    stripCommas (withCommas ds) = ds :=
  withCommas_strip ds h

/-- the first character stays first: no leading comma, no new leading zero -/
theorem separators_keep_head (ds : List Char) :
    (withCommas ds).head? = ds.head? ∧
    (noLeadingZero ds = true → noLeadingZero (withCommas ds) = true) :=
  ⟨withCommas_head ds, withCommas_noLeadingZero ds⟩

/-- the grouping introduces nothing but commas -/
theorem separators_only_add_commas (ds : List Char) : ∀ c ∈ withCommas ds, c = ',' ∨ c ∈ ds :=
  mem_withCommas ds

example : withCommas "1234567".toList = "1,234,567".toList := by decide
example : isGrouped "1,234,567".toList = true ∧ isGrouped "1234".toList = false ∧
    isGrouped "1,23".toList = false ∧ isGrouped ",123".toList = false := by decide

/-- every i64 (every `Int`, in fact) is rendered as an optional minus sign followed by a
    well-formed grouped numeral whose digits are exactly the decimal digits of |i| -/
theorem integer_numeral_wellformed (i : Int) :
    ∃ body, formatIntegerWithSeparators i = (if i < 0 then ['-'] else []) ++ body ∧
      isGrouped body = true ∧
      stripCommas body = (F64.natDigits i.natAbs).toList ∧
      '-' ∉ body := by
  obtain ⟨body, h1, h2, h3, _⟩ := formatIntegerWithSeparators_spec i
  refine ⟨body, h1, h2, h3, ?_⟩
  have hb : body = withCommas (F64.natDigits i.natAbs).toList := by
    have h1' := formatIntegerWithSeparators_eq i
    rw [h1] at h1'
    exact List.append_cancel_left h1'
  rw [hb]
  apply withCommas_no_minus
  intro hmem
  exact absurd (natDigits_isDigit _ _ hmem) (by decide)

/-- removing the commas from the rendering of an integer gives `i64::to_string` -/
theorem integer_numeral_strip (i : Int) :
    stripCommas (formatIntegerWithSeparators i) = intToString i :=
  formatIntegerWithSeparators_strip i

example : formatIntegerWithSeparators (-1234567) = "-1,234,567".toList := by decide

/-- on a text `[-]digits[.digits]` only the integer digits are grouped; sign and fraction
    are kept as they are (so the sign appears once and the fraction has no separators) -/
theorem fraction_numeral_separators (ip rest : List Char) (h1 : ∀ c ∈ ip, c ≠ '.')
    (h2 : ip.head? ≠ some '-') (h3 : rest = [] ∨ rest.head? = some '.') :
    addThousandSeparators (ip ++ rest) = withCommas ip ++ rest ∧
    addThousandSeparators ('-' :: ip ++ rest) = '-' :: (withCommas ip ++ rest) :=
  ⟨addThousandSeparators_unsigned ip rest h1 h2 h3, addThousandSeparators_signed ip rest h1 h3⟩

example : addThousandSeparators "-1234567.891".toList = "-1,234,567.891".toList := by decide

/-! #### trimming trailing zeros does not change the denoted rational -/

theorem trim_zeros_value_preserving (ip fp : List Char) (hi : ∀ c ∈ ip, isDigit c = true)
    (hf : ∀ c ∈ fp, isDigit c = true) :
    ratEq (decValue (trimFraction (ip ++ '.' :: fp))) (decValue (ip ++ '.' :: fp)) ∧
    ratEq (decValue (trimEnd '.' (trimEnd '0' (ip ++ '.' :: fp)))) (decValue (ip ++ '.' :: fp)) :=
  ⟨trimFraction_value_digits ip fp hi hf, formatMantissa_trims_value_digits ip fp hi hf⟩

/-- a text without a decimal point is left alone -/
theorem trim_keeps_integers (s : List Char) (h : '.' ∉ s) : trimFraction s = s :=
  trimFraction_no_dot s h

example : trimFraction "12.500".toList = "12.5".toList ∧ trimFraction "12.000".toList = "12".toList ∧
    trimFraction "1200".toList = "1200".toList := by decide

/-! #### only the `fraction` path depends on float arithmetic -/

theorem integer_and_scientific_paths_use_no_float_op (ops₁ ops₂ : NumOps) (x : F64)
    (h : path x = .integer ∨ path x = .scientific) :
    formatDisplayNumber ops₁ x = formatDisplayNumber ops₂ x := by
  rcases h with h | h
  · rw [formatDisplayNumber_integer ops₁ x h, formatDisplayNumber_integer ops₂ x h]
  · rw [formatDisplayNumber_scientific ops₁ x h, formatDisplayNumber_scientific ops₂ x h]

example : path (F64.ofNatBits 0x412E848000000000) = .integer := by decide      -- 1000000.0
example : path (F64.ofNatBits 0x4415AF1D78B58C40) = .scientific := by decide   -- 1e20

/-! #### integers below 2^53 shown in standard notation are shown exactly -/

/-- an integral double of magnitude below 2^53 that is not sent to scientific notation
    takes the integer path … -/
theorem integral_takes_integer_path (x : F64) (hn : x.isNaN = false) (hi : x.isInf = false)
    (hz : F64.feq x F64.zero = false) (hint : x.isIntegral = true)
    (hlt : F64.flt x.abs twoPow53 = true) (hstd : path x ≠ .scientific) : path x = .integer :=
  Display.integral_takes_integer_path x hn hi hz hint hlt hstd

/-- … and on the integer path the text is: a minus sign iff the sign bit is set, then the
    grouped decimal digits of the exact integer value; it contains no other minus sign and
    denotes the double exactly -/
theorem int_display_exact (ops : NumOps) (x : F64) (h : path x = .integer) :
    denotesExactly (formatDisplayNumber ops x) x ∧
    ∃ body, formatDisplayNumber ops x = (if x.neg then ['-'] else []) ++ body ∧
      isGrouped body = true ∧ noLeadingZero body = true := by
  refine ⟨integer_path_exact ops x h, ?_⟩
  obtain ⟨htext, _, hpos, _⟩ := integer_path_text ops x h
  refine ⟨_, htext, withCommas_grouped _ (natDigits_ne_nil _) (natDigits_isDigit _), ?_⟩
  exact withCommas_noLeadingZero _ (natDigits_noLeadingZero _ hpos)

example : path (F64.ofNatBits 0xC132D687E3D70A3D) ≠ .integer := by decide     -- -1234567.89
example : path (F64.ofNatBits 0xC132D68700000000) = .integer := by decide     -- -1234567.0

/-! #### accuracy to 15 significant digits -/

/-- exact value of a finite double -/
def toRat (x : F64) : Rat :=
  (if x.neg then -1 else 1) * ((x.ratio.1 : Rat) / (x.ratio.2 : Rat))

def absRat (q : Rat) : Rat := if q < 0 then -q else q

/-- The well-formed numerals of the property and the rational each denotes: optional sign,
    integer digits grouped in threes, optional fraction; or mantissa `e` exponent. -/
inductive Denotes : List Char → Rat → Prop
  | standard (neg : Bool) (ip fp : List Char) :
      isGrouped ip = true → noLeadingZero ip = true → (∀ c ∈ fp, isDigit c = true) →
      Denotes ((if neg then ['-'] else []) ++ ip ++ (if fp = [] then [] else '.' :: fp))
        ((if neg then -1 else 1) * ((digitsVal (stripCommas ip ++ fp) : Rat) / (10 : Rat) ^ fp.length))
  | scientific (neg : Bool) (m : Char) (fp : List Char) (eneg : Bool) (es : List Char) :
      isDigit m = true → (∀ c ∈ fp, isDigit c = true) → es ≠ [] → (∀ c ∈ es, isDigit c = true) →
      Denotes ((if neg then ['-'] else []) ++ m :: (if fp = [] then [] else '.' :: fp) ++
                'e' :: (if eneg then ['-'] else []) ++ es)
        ((if neg then -1 else 1) * ((digitsVal (m :: fp) : Rat) / (10 : Rat) ^ fp.length) *
          (10 : Rat) ^ (if eneg then - (digitsVal es : Int) else (digitsVal es : Int)))

/-- THE FULL STATEMENT (not proved; false of the code on the pinned tree at the
    `c20.accuracy` witnesses when `ops` is the hardware/libm instance): every finite non-zero
    double is shown as a well-formed numeral within one unit of its 15th significant digit. -/
def display_accuracy_statement (ops : NumOps) : Prop :=
  ∀ x : F64, x.isFinite = true → x.isZero = false →
    ∃ v : Rat, Denotes (formatDisplayNumber ops x) v ∧
      ∃ k : Int, (10 : Rat) ^ k ≤ absRat (toRat x) ∧ absRat (toRat x) < (10 : Rat) ^ (k + 1) ∧
        absRat (v - toRat x) < (10 : Rat) ^ (k - 14)

/-- The proved part: on the integer path (every integral double below 2^53 in standard
    notation) the error is zero — the numeral denotes the double exactly — whatever the float
    primitives do.  Missing for the full statement: the `scientific` path (needs the 15-digit
    round trip `{:.14}` ∘ parse on the mantissa, not proved) and the `fraction` path (false as
    it stands, see the header). -/
theorem display_accuracy_partial (ops : NumOps) (x : F64) (h : path x = .integer) :
    denotesExactly (formatDisplayNumber ops x) x :=
  integer_path_exact ops x h

end Blots.C20
