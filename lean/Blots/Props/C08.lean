import Blots.Lemmas.FormatLemmas
/-
  C08 — formatting is idempotent: the arithmetic heart of blank-line handling, the structure
  of the joined output, and determinism.

  A formatted program is `join_statements_with_spacing` of the triples
  (formatted statement text, first line, last line) — statement texts are `format_expr` of an
  expression (plus an end-of-line comment) or a standalone comment (blots-wasm `format_blots`,
  `blots --format`).  Formatting the output again sees the same statements at the lines where
  the first pass put them.

  PROVED here, for all inputs:
   * `blank_lines_stable`   : the clamp `n = min (gap+1) 3` is a fixed point: n newlines mean
                               a gap of n-1 empty lines, which yields n newlines again;
   * `join_structure`       : the output is  s₁ ++ '\n'^g₁ ++ s₂ ++ … ++ sₙ  — the texts in
                               order, unchanged, separated by newlines only — with
                               gᵢ = min ((startᵢ₊₁ - endᵢ - 1) + 1) 3, 1 ≤ gᵢ ≤ 3;
   * `join_is_stable_under_relayout` : re-joining the statements at the positions they have in
                               the output (`relayout`) gives the same text — blank-line
                               spacing is idempotent, for any statement texts (multi-line too);
   * `program_format_is_idempotent_given_statement_roundtrip` : the lifting to programs;
   * `layout_is_deterministic` : default width, and `idempotent_of_roundtrip` (a formatter
                               that is a function of the tree is idempotent as soon as its
                               output parses back to the tree — the C07 claim).

  NOT proved: that re-parsing the output really yields the same trees at those lines with
  the comments attached to the same nodes (the hypothesis of the lifting): this needs the
  character-level grammar and the `partial` layout functions.  It is checked on the real code
  by the model-free oracle of `harness/src/props/c08.rs` (format twice, compare strings, all
  three drivers, 0–5 blank lines between statements) and by the C07 reparse oracle.
  `relayout` assumes what pest reports: a statement's span starts on the line of its first
  character and ends on the line of its last one.
-/
namespace Blots.C08
open Blots.FormatL

/-- the blank-line clamp is a fixed point of "emit, then measure again" -/
theorem blank_lines_stable (gap : Nat) :
    let n := min (gap + 1) 3
    min ((n - 1) + 1) 3 = n := by
  intro n; omega

/-- no statements, one statement -/
theorem join_nil : joinStatementsWithSpacing [] = "" := rfl
theorem join_single (s : String) (a b : Nat) : joinStatementsWithSpacing [(s, a, b)] = s := rfl

/-- the numbers of newlines between consecutive statements -/
theorem gaps_formula (stmts : List (String × Nat × Nat)) :
    gapsOf stmts =
      List.zipWith (fun a b => min ((b.2.1 - a.2.2 - 1) + 1) 3) stmts stmts.tail := rfl

/-- STRUCTURE of the joined text: the statement texts in order, unchanged, with `gᵢ` newline
    characters (and nothing else) between statement i and i+1; one gap per consecutive pair;
    every gap is 1, 2 or 3 (at most two empty lines, never two statements on one line). -/
theorem join_structure (stmts : List (String × Nat × Nat)) :
    joinStatementsWithSpacing stmts = weave (stmts.map (·.1)) (gapsOf stmts) ∧
    (gapsOf stmts).length = stmts.length - 1 ∧
    ∀ g ∈ gapsOf stmts, 1 ≤ g ∧ g ≤ 3 :=
  ⟨join_eq_weave stmts, gapsOf_length stmts, gapsOf_bounds stmts⟩

/-- what `weave` is -/
theorem weave_equations :
    (∀ gs, weave [] gs = "") ∧ (∀ s gs, weave [s] gs = s) ∧
    (∀ s t rest g gs, weave (s :: t :: rest) (g :: gs) =
      s ++ String.ofList (List.replicate g '\n') ++ weave (t :: rest) gs) :=
  ⟨fun _ => rfl, fun _ _ => rfl, fun _ _ _ _ _ => rfl⟩

/-- one step of the joiner -/
theorem join_step (x y : String × Nat × Nat) (rest : List (String × Nat × Nat)) :
    joinStatementsWithSpacing (x :: y :: rest) =
      x.1 ++ String.ofList (List.replicate (min ((y.2.1 - x.2.2 - 1) + 1) 3) '\n') ++
        joinStatementsWithSpacing (y :: rest) := join_cons_cons x y rest

/-- where `relayout` puts the statements: the first on line `line`; a statement ends
    `countNl text` lines after its start; the next starts `gap` lines after that end -/
theorem relayout_equations (line : Nat) :
    relayout line [] = [] ∧
    (∀ s a b, relayout line [(s, a, b)] = [(s, line, line + countNl s)]) ∧
    (∀ x y rest, relayout line (x :: y :: rest) =
      (x.1, line, line + countNl x.1) ::
        relayout (line + countNl x.1 + gapOf x y) (y :: rest)) :=
  ⟨rfl, fun _ _ _ => rfl, fun x y rest => by
    obtain ⟨s, a, e⟩ := x; obtain ⟨s2, a2, e2⟩ := y; rfl⟩

/-- IDEMPOTENCE OF THE SPACING.  Joining the statements again, now at the positions they have
    in the joined text, produces the same text (whatever the first line number, whatever
    the statement texts). -/
theorem join_is_stable_under_relayout (stmts : List (String × Nat × Nat)) (line : Nat) :
    joinStatementsWithSpacing (relayout line stmts) = joinStatementsWithSpacing stmts :=
  join_relayout stmts line

/-- LIFTING to programs (`formatProgram w prog` = the joiner applied to the triples
    (`formatExpr e w`, first line, last line) of `prog`): if re-parsing the formatted program gives statements `prog'` whose
    formatted texts are those of `prog` (same trees ⇒ same texts, `format_expr` being a
    function of the tree) located where the first pass put them, the second pass returns the
    first pass's text. -/
theorem program_format_is_idempotent_given_statement_roundtrip (w : Option Nat)
    (prog prog' : List (Expr × Nat × Nat))
    (h : prog'.map (fun x => (formatExpr x.1 w, x.2.1, x.2.2)) =
      relayout 1 (prog.map fun x => (formatExpr x.1 w, x.2.1, x.2.2))) :
    formatProgram w prog' = formatProgram w prog := by
  unfold formatProgram
  rw [h, join_relayout]

/-- DETERMINISM: `format_expr` without a width is `format_expr` at 80 columns; and
    `format_expr_impl` is a function of (width, indent, tree) only — in the model by
    construction (`fmtImpl : Nat → Nat → Expr → String`, the rendering of the total piece
    layout `fmtImplP`), in the Rust code because it reads
    nothing else (no spans, no global state). -/
theorem layout_is_deterministic (e : Expr) :
    formatExpr e none = formatExpr e (some DEFAULT_MAX_COLUMNS) ∧
    ∀ w, formatExpr e w = protectStatementStart (fmtImpl (w.getD DEFAULT_MAX_COLUMNS) 0 e) :=
  ⟨rfl, fun _ => rfl⟩

/-- a formatter that is a function of the tree is idempotent on every text whose formatted
    form parses back to the same tree (`parse` is any function here; for the real parser the
    hypothesis is property C07) -/
theorem idempotent_of_roundtrip (parse : String → Option Expr) (w : Option Nat) (src : String)
    (e : Expr) (h1 : parse src = some e) (h2 : parse (formatExpr e w) = some e) :
    ((parse src).map (formatExpr · w)).bind (fun out => (parse out).map (formatExpr · w)) =
      (parse src).map (formatExpr · w) := by
  simp [h1, h2]

/-! #### examples -/

section examples
/-- 0, 1, 2, 3 and 7 empty lines between statements ↦ 1, 2, 3, 3, 3 newlines -/
example : [0, 1, 2, 3, 7].map (fun gap => min (gap + 1) 3) = [1, 2, 3, 3, 3] := by decide

/-- three statements, the second spanning two lines; 3 empty lines then none -/
private abbrev ex : List (String × Nat × Nat) := [("a = 1", 1, 1), ("b = [\n]", 5, 6), ("c", 7, 7)]
example : gapsOf ex = [3, 1] := by decide
example : 3 ∈ gapsOf ex := by decide
example : joinStatementsWithSpacing ex = "a = 1\n\n\nb = [\n]\nc" := by decide
example : relayout 1 ex = [("a = 1", 1, 1), ("b = [\n]", 4, 5), ("c", 6, 6)] := by decide
example : joinStatementsWithSpacing (relayout 1 ex) = "a = 1\n\n\nb = [\n]\nc" := by decide

/-- the hypothesis of the lifting is satisfiable: two statements five lines apart come back,
    after the first pass, three lines apart (texts are the opaque `formatExpr …`) -/
example (w : Option Nat) (e1 e2 : Expr) :
    let t1 := formatExpr e1 w
    let prog : List (Expr × Nat × Nat) := [(e1, 2, 2), (e2, 7, 9)]
    let prog' : List (Expr × Nat × Nat) :=
      [(e1, 1, 1 + countNl t1), (e2, 1 + countNl t1 + 3, 1 + countNl t1 + 3 + countNl (formatExpr e2 w))]
    prog'.map (fun x => (formatExpr x.1 w, x.2.1, x.2.2)) =
      relayout 1 (prog.map fun x => (formatExpr x.1 w, x.2.1, x.2.2)) := by
  intro t1 prog prog'
  rfl

/-- the hypotheses of `idempotent_of_roundtrip` are satisfiable -/
example : ∃ (parse : String → Option Expr) (src : String) (e : Expr),
    parse src = some e ∧ parse (formatExpr e none) = some e :=
  ⟨fun _ => some (.bin .add (.ident "a") (.ident "b")), "a+b", _, rfl, rfl⟩
end examples

end Blots.C08
