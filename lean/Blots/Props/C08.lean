import Blots.Lemmas.FormatLemmas
import Blots.Lemmas.FormatFragment
/-
  C08 — formatting is idempotent: the arithmetic heart of blank-line handling, the structure
  of the joined output, and determinism.

  A formatted program is `join_statements_with_spacing` of the triples
  (formatted statement text, first line, last line) — statement texts are `format_expr` of an
  expression (plus an end-of-line comment) or a standalone comment (blots-wasm `format_blots`,
  `blots --format`).  Formatting the output again sees the same statements at the lines where
  the first pass put them.

  PROVED here, for all inputs:
   * `blank_lines_stable`   : the clamp `n = min (gap+1) 3` is a fixed point: n newlines mean
                               a gap of n-1 empty lines, which yields n newlines again;
   * `join_structure`       : the output is  s₁ ++ '\n'^g₁ ++ s₂ ++ … ++ sₙ  — the texts in
                               order, unchanged, separated by newlines only — with
                               gᵢ = min ((startᵢ₊₁ - endᵢ - 1) + 1) 3, 1 ≤ gᵢ ≤ 3;
   * `join_is_stable_under_relayout` : re-joining the statements at the positions they have in
                               the output (`relayout`) gives the same text — blank-line
                               spacing is idempotent, for any statement texts (multi-line too);
   * `program_format_is_idempotent_given_statement_roundtrip` : the lifting to programs;
   * `layout_is_deterministic` : default width, and `idempotent_of_roundtrip` (a formatter
                               that is a function of the tree is idempotent as soon as its
                               output parses back to the tree — the C07 claim).

   * `format_idempotent_fragment` … : END TO END on the fragment of C10 (`Frag t`: binary
                               operators, prefix `-` / `!`, postfix `!`, calls, index, field,
                               lists, lambdas, conditionals, strings, records, do-blocks,
                               assignments over
                               names, `true false null`, integers < 10^15; the exact conditions
                               are stated in C10; unbounded depth), with the
                               character-level PEG model of the `expression` rule and the Pratt
                               parser as `parseText` (C10): for every width
                               format ∘ parse ∘ format = format, the parsed tree does not depend
                               on the width, and re-formatting at another width gives what
                               formatting the original tree at that width gives.

  NOT proved: that re-parsing the output of a whole PROGRAM really yields the same trees at
  those lines with the comments attached to the same nodes (the hypothesis of the lifting), and
  the statement round trip outside the operator fragment: this needs the character-level
  grammar of statements, comments and the other term forms.  It is checked on the real code
  by the model-free oracle of `harness/src/props/c08.rs` (format twice, compare strings, all
  three drivers, 0–5 blank lines between statements) and by the C07 reparse oracle.
  `relayout` assumes what pest reports: a statement's span starts on the line of its first
  character and ends on the line of its last one.
-/
namespace Blots.C08
open Blots.FormatL

/-- the blank-line clamp is a fixed point of "emit, then measure again" -/
theorem blank_lines_stable (gap : Nat) :
    let n := min (gap + 1) 3
    min ((n - 1) + 1) 3 = n := by
  intro n; omega

/-- no statements, one statement -/
theorem join_nil : joinStatementsWithSpacing [] = "" := rfl
theorem join_single (s : String) (a b : Nat) : joinStatementsWithSpacing [(s, a, b)] = s := rfl

/-- the numbers of newlines between consecutive statements -/
theorem gaps_formula (stmts : List (String × Nat × Nat)) :
    gapsOf stmts =
      List.zipWith (fun a b => min ((b.2.1 - a.2.2 - 1) + 1) 3) stmts stmts.tail := rfl

/-- STRUCTURE of the joined text: the statement texts in order, unchanged, with `gᵢ` newline
    characters (and nothing else) between statement i and i+1; one gap per consecutive pair;
    every gap is 1, 2 or 3 (at most two empty lines, never two statements on one line). -/
theorem join_structure (stmts : List (String × Nat × Nat)) :
    joinStatementsWithSpacing stmts = weave (stmts.map (·.1)) (gapsOf stmts) ∧
    (gapsOf stmts).length = stmts.length - 1 ∧
    ∀ g ∈ gapsOf stmts, 1 ≤ g ∧ g ≤ 3 :=
  ⟨join_eq_weave stmts, gapsOf_length stmts, gapsOf_bounds stmts⟩

/-- what `weave` is -/
theorem weave_equations :
    (∀ gs, weave [] gs = "") ∧ (∀ s gs, weave [s] gs = s) ∧
    (∀ s t rest g gs, weave (s :: t :: rest) (g :: gs) =
      s ++ String.ofList (List.replicate g '\n') ++ weave (t :: rest) gs) :=
  ⟨fun _ => rfl, fun _ _ => rfl, fun _ _ _ _ _ => rfl⟩

/-- one step of the joiner -/
theorem join_step (x y : String × Nat × Nat) (rest : List (String × Nat × Nat)) :
    joinStatementsWithSpacing (x :: y :: rest) =
      x.1 ++ String.ofList (List.replicate (min ((y.2.1 - x.2.2 - 1) + 1) 3) '\n') ++
        joinStatementsWithSpacing (y :: rest) := join_cons_cons x y rest

/-- where `relayout` puts the statements: the first on line `line`; a statement ends
    `countNl text` lines after its start; the next starts `gap` lines after that end -/
theorem relayout_equations (line : Nat) :
    relayout line [] = [] ∧
    (∀ s a b, relayout line [(s, a, b)] = [(s, line, line + countNl s)]) ∧
    (∀ x y rest, relayout line (x :: y :: rest) =
      (x.1, line, line + countNl x.1) ::
        relayout (line + countNl x.1 + gapOf x y) (y :: rest)) :=
  ⟨rfl, fun _ _ _ => rfl, fun x y rest => by
    obtain ⟨s, a, e⟩ := x; obtain ⟨s2, a2, e2⟩ := y; rfl⟩

/-- IDEMPOTENCE OF THE SPACING.  Joining the statements again, now at the positions they have
    in the joined text, produces the same text (whatever the first line number, whatever
    the statement texts). -/
theorem join_is_stable_under_relayout (stmts : List (String × Nat × Nat)) (line : Nat) :
    joinStatementsWithSpacing (relayout line stmts) = joinStatementsWithSpacing stmts :=
  join_relayout stmts line

/-- LIFTING to programs (`formatProgram w prog` = the joiner applied to the triples
    (`formatExpr e w`, first line, last line) of `prog`): if re-parsing the formatted program gives statements `prog'` whose
    formatted texts are those of `prog` (same trees ⇒ same texts, `format_expr` being a
    function of the tree) located where the first pass put them, the second pass returns the
    first pass's text. -/
theorem program_format_is_idempotent_given_statement_roundtrip (w : Option Nat)
    (prog prog' : List (Expr × Nat × Nat))
    (h : prog'.map (fun x => (formatExpr x.1 w, x.2.1, x.2.2)) =
      relayout 1 (prog.map fun x => (formatExpr x.1 w, x.2.1, x.2.2))) :
    formatProgram w prog' = formatProgram w prog := by
  unfold formatProgram
  rw [h, join_relayout]

/-- DETERMINISM: `format_expr` without a width is `format_expr` at 80 columns; and
    `format_expr_impl` is a function of (width, indent, tree) only — in the model by
    construction (`fmtImpl : Nat → Nat → Expr → String`, the rendering of the total piece
    layout `fmtImplP`), in the Rust code because it reads
    nothing else (no spans, no global state). -/
theorem layout_is_deterministic (e : Expr) :
    formatExpr e none = formatExpr e (some DEFAULT_MAX_COLUMNS) ∧
    ∀ w, formatExpr e w = protectStatementStart (fmtImpl (w.getD DEFAULT_MAX_COLUMNS) 0 e) :=
  ⟨rfl, fun _ => rfl⟩

/-- a formatter that is a function of the tree is idempotent on every text whose formatted
    form parses back to the same tree (`parse` is any function here; for the real parser the
    hypothesis is property C07) -/
theorem idempotent_of_roundtrip (parse : String → Option Expr) (w : Option Nat) (src : String)
    (e : Expr) (h1 : parse src = some e) (h2 : parse (formatExpr e w) = some e) :
    ((parse src).map (formatExpr · w)).bind (fun out => (parse out).map (formatExpr · w)) =
      (parse src).map (formatExpr · w) := by
  simp [h1, h2]

/-! ### end to end on the operator fragment (text level) -/

section text
open Blots.ExprPeg Blots.FormatFrag

/-- C08 ON THE FRAGMENT of C10 (`Frag`: operators, calls, index, field, list literals,
    lambdas, conditionals, string literals, record literals, do-blocks, assignments), every
    width: the formatted text of a fragment tree is read
    back (character-level PEG recogniser + Pratt parser) to a tree whose formatted text is the
    same text. -/
theorem format_idempotent_fragment (t : Expr) (h : Frag t) (w : Nat) :
    ∃ t', parseText (formatExpr t (some w)) = some t' ∧
      formatExpr t' (some w) = formatExpr t (some w) :=
  ⟨t, formatExpr_parse t h (some w), rfl⟩

/-- … in the form format ∘ parse ∘ format = format -/
theorem format_parse_format (t : Expr) (h : Frag t) (w : Nat) :
    (parseText (formatExpr t (some w))).map (formatExpr · (some w)) = some (formatExpr t (some w)) := by
  rw [formatExpr_parse t h (some w)]; rfl

/-- … and starting from any SOURCE TEXT whose parse is a fragment tree (whatever its layout
    and redundant parentheses): formatting the formatted text again changes nothing. -/
theorem format_idempotent_on_fragment_sources (src : String) (t : Expr) (hp : parseText src = some t)
    (h : Frag t) (w : Nat) :
    ((parseText src).map (formatExpr · (some w))).bind
        (fun out => (parseText out).map (formatExpr · (some w))) =
      (parseText src).map (formatExpr · (some w)) :=
  idempotent_of_roundtrip parseText (some w) src t hp (formatExpr_parse t h (some w))

/-- THE WIDTH DOES NOT CHANGE THE PARSED TREE -/
theorem format_parse_width_independent (t : Expr) (h : Frag t) (w w' : Nat) :
    parseText (formatExpr t (some w)) = parseText (formatExpr t (some w')) := by
  rw [formatExpr_parse t h (some w), formatExpr_parse t h (some w')]

/-- … so re-formatting at ANOTHER width gives what formatting the tree at that width gives
    (format at 20 columns, then at 80: the 80-column text) -/
theorem reformat_at_other_width (t : Expr) (h : Frag t) (w w' : Nat) :
    (parseText (formatExpr t (some w))).map (formatExpr · (some w')) =
      some (formatExpr t (some w')) := by
  rw [formatExpr_parse t h (some w)]; rfl

/-- the same at the default width (`format_expr` without a width) -/
theorem format_idempotent_fragment_default (t : Expr) (h : Frag t) :
    (parseText (formatExpr t none)).map (formatExpr · none) = some (formatExpr t none) := by
  rw [formatExpr_parse t h none]; rfl

end text

/-! #### examples -/

section examples
/-- 0, 1, 2, 3 and 7 empty lines between statements ↦ 1, 2, 3, 3, 3 newlines -/
example : [0, 1, 2, 3, 7].map (fun gap => min (gap + 1) 3) = [1, 2, 3, 3, 3] := by decide

/-- three statements, the second spanning two lines; 3 empty lines then none -/
private abbrev ex : List (String × Nat × Nat) := [("a = 1", 1, 1), ("b = [\n]", 5, 6), ("c", 7, 7)]
example : gapsOf ex = [3, 1] := by decide
example : 3 ∈ gapsOf ex := by decide
example : joinStatementsWithSpacing ex = "a = 1\n\n\nb = [\n]\nc" := by decide
example : relayout 1 ex = [("a = 1", 1, 1), ("b = [\n]", 4, 5), ("c", 6, 6)] := by decide
example : joinStatementsWithSpacing (relayout 1 ex) = "a = 1\n\n\nb = [\n]\nc" := by decide

/-- the hypothesis of the lifting is satisfiable: two statements five lines apart come back,
    after the first pass, three lines apart (texts are the opaque `formatExpr …`) -/
example (w : Option Nat) (e1 e2 : Expr) :
    let t1 := formatExpr e1 w
    let prog : List (Expr × Nat × Nat) := [(e1, 2, 2), (e2, 7, 9)]
    let prog' : List (Expr × Nat × Nat) :=
      [(e1, 1, 1 + countNl t1), (e2, 1 + countNl t1 + 3, 1 + countNl t1 + 3 + countNl (formatExpr e2 w))]
    prog'.map (fun x => (formatExpr x.1 w, x.2.1, x.2.2)) =
      relayout 1 (prog.map fun x => (formatExpr x.1 w, x.2.1, x.2.2)) := by
  intro t1 prog prog'
  rfl

/-- the hypotheses of `idempotent_of_roundtrip` are satisfiable -/
example : ∃ (parse : String → Option Expr) (src : String) (e : Expr),
    parse src = some e ∧ parse (formatExpr e none) = some e :=
  ⟨fun _ => some (.bin .add (.ident "a") (.ident "b")), "a+b", _, rfl, rfl⟩
end examples

/-! #### examples for the operator fragment (text level) -/

section text_examples
open Blots.ExprPeg Blots.FormatFrag
private abbrev ia : Expr := .ident "a"
private abbrev ib : Expr := .ident "b"
private abbrev ic : Expr := .ident "c"
private abbrev id4 : Expr := .ident "d"
private abbrev ie : Expr := .ident "e"
private abbrev ig : Expr := .ident "g"
private abbrev two : Expr := .num ⟨0x4000000000000000⟩

/-- `a + b * c - d ^ 2 ?? e and !g! != true` -/
private abbrev x1 : Expr :=
  .bin .nand
    (.bin .sub (.bin .add ia (.bin .mul ib ic)) (.bin .pow id4 (.bin .coalesce two ie)))
    (.bin .ne (.un .not (.fact ig)) (.bool true))
/-- `-(a + (b via c)) * (-d)!` : starts with `-`, gets statement parentheses -/
private abbrev x2 : Expr :=
  .bin .mul (.un .negate (.bin .add ia (.bin .via ib ic))) (.fact (.un .negate id4))

example : Frag x1 ∧ Frag x2 := by decide +kernel
/-- by the theorems -/
example : (parseText (formatExpr x1 (some 10))).map (formatExpr · (some 10)) =
    some (formatExpr x1 (some 10)) := format_parse_format x1 (by decide +kernel) 10
example : parseText (formatExpr x2 (some 1)) = parseText (formatExpr x2 (some 80)) :=
  format_parse_width_independent x2 (by decide +kernel) 1 80
/-- … and by evaluating the model: format, read the text back, format again — at widths 1, 10
    and 80 (three different texts), and across widths -/
example :
    (parseText (formatExpr x1 (some 1))).map (formatExpr · (some 1)) = some (formatExpr x1 (some 1)) ∧
    (parseText (formatExpr x1 (some 10))).map (formatExpr · (some 10)) = some (formatExpr x1 (some 10)) ∧
    (parseText (formatExpr x1 (some 80))).map (formatExpr · (some 80)) = some (formatExpr x1 (some 80)) ∧
    (parseText (formatExpr x1 (some 10))).map (formatExpr · (some 80)) = some (formatExpr x1 (some 80)) ∧
    formatExpr x1 (some 1) ≠ formatExpr x1 (some 10) ∧
    formatExpr x1 (some 10) ≠ formatExpr x1 (some 80) := by decide +kernel
example :
    (parseText (formatExpr x2 (some 6))).map (formatExpr · (some 6)) = some (formatExpr x2 (some 6)) ∧
    formatExpr x2 (some 6) = "(-(a\n  + (b\n    via c))\n  * (-d)!)" ∧
    formatExpr x2 (some 80) = "(-(a + (b via c)) * (-d)!)" := by decide +kernel
/-- from a source text with its own layout and redundant parentheses -/
example : (parseText "((a))+b\n*c   -(d ^ 2??e)\n and\t!g! !=true").map exprToSource =
      some "a + b * c - d ^ 2 ?? e and !g! != true" ∧
    ((parseText "((a))+b\n*c   -(d ^ 2??e)\n and\t!g! !=true").map (formatExpr · (some 10))).bind
        (fun out => (parseText out).map (formatExpr · (some 10))) =
      some (formatExpr x1 (some 10)) := by decide +kernel
/-- string literals (one with a line break inside: multi-line at every width) -/
private abbrev x3 : Expr :=
  .bin .add (.call ig [.str "a b", .str "say \"hi\"\nbye"]) (.str "it's")
example : Frag x3 := by decide +kernel
example : (parseText (formatExpr x3 (some 10))).map (formatExpr · (some 10)) =
    some (formatExpr x3 (some 10)) := format_parse_format x3 (by decide +kernel) 10
example :
    (parseText (formatExpr x3 (some 10))).map (formatExpr · (some 80)) = some (formatExpr x3 (some 80)) ∧
    formatExpr x3 (some 80) = "g(\n  \"a b\",\n  'say \"hi\"\nbye',\n)\n  + \"it's\"" := by
  decide +kernel
/-- record literals -/
private abbrev x4 : Expr :=
  .record [.mk [] (.static "a") (.bin .add ia ib) none, .mk [] (.static "k 2") (.str "v") none,
    .mk [] (.dyn ic) (.record []) none, .mk [] (.short "d") .null none,
    .mk [] (.spread (.spread ie)) .null none]
example : Frag x4 := by decide +kernel
example : (parseText (formatExpr x4 (some 10))).map (formatExpr · (some 10)) =
    some (formatExpr x4 (some 10)) := format_parse_format x4 (by decide +kernel) 10
example :
    (parseText (formatExpr x4 (some 10))).map (formatExpr · (some 80)) = some (formatExpr x4 (some 80)) ∧
    formatExpr x4 (some 80) = "{a: a + b, \"k 2\": \"v\", [c]: {}, d, ...e}" ∧
    formatExpr x4 (some 10) = "{\n  a: a + b,\n  \"k 2\": \"v\",\n  [c]: {},\n  d,\n  ...e,\n}" := by
  decide +kernel
/-- do-blocks -/
private abbrev x5 : Expr :=
  .lambda [.req "x"] (.doBlock [.mk [] (.call ig [.ident "x"]) none,
    .mk [] (.un .negate (.bin .add (.ident "x") ib)) none] (.mk [] (.bin .mul (.ident "x") ic) none))
example : Frag x5 := by decide +kernel
example : (parseText (formatExpr x5 (some 10))).map (formatExpr · (some 10)) =
    some (formatExpr x5 (some 10)) := format_parse_format x5 (by decide +kernel) 10
example :
    (parseText (formatExpr x5 (some 4))).map (formatExpr · (some 80)) = some (formatExpr x5 (some 80)) ∧
    formatExpr x5 (some 80) = "x => do {\n  g(x)\n  (-(x + b))\n  return x * c\n}" ∧
    formatExpr x5 (some 4) =
      "x => do {\n  g(\n    x,\n  )\n  (-(x\n    + b))\n  return x\n    * c\n}" := by
  decide +kernel
/-- assignments -/
private abbrev x6 : Expr :=
  .assign "f" (.lambda [.req "x"] (.doBlock [.mk [] (.assign "y" (.call ig [.ident "x"])) none]
    (.mk [] (.bin .mul (.ident "y") (.bin .add ib (.assign "z" ic))) none)))
example : Frag x6 := by decide +kernel
example : (parseText (formatExpr x6 (some 10))).map (formatExpr · (some 10)) =
    some (formatExpr x6 (some 10)) := format_parse_format x6 (by decide +kernel) 10
example :
    (parseText (formatExpr x6 (some 4))).map (formatExpr · (some 80)) = some (formatExpr x6 (some 80)) ∧
    formatExpr x6 (some 80) = "f = x => do {\n  y = g(x)\n  return y * (b + z = c)\n}" := by
  decide +kernel
end text_examples

end Blots.C08
