import Blots.Lemmas.OfRatio
import Blots.Lemmas.OfRatioScale
import Blots.Lemmas.ParseDec
import Blots.Lemmas.Shortest
import Blots.Lemmas.Shortest17
import Blots.Lemmas.NumText
import Blots.Lemmas.SrcNumber
/-
  C16 — Numbers keep their exact value through every textual path.

  Statements only (helper lemmas live in `Blots/Lemmas`).  Model (`Model/Num.lean`,
  `Model/NumText.lean`): `F64.ofRatio` is the SPECIFICATION of correct rounding (round to
  nearest, ties to even, of an exact non-negative rational, with a sign); `F64.parseDec`
  models `str::parse::<f64>` as `ofRatio` of the exact decimal; `F64.toDisplay` models
  `f64::to_string` (shortest round-trip digits), `F64.toFixed x 0` models `{:.0}`;
  `NumText.literalValue` models the literal conversion of `expressions.rs:1892-1934`,
  `NumText.srcNumber` the number printing of `ast_to_source.rs`, `toStringNum`/`toNumberStr`
  the built-ins.  Rust's `{}` / `{:.0}` / `{:.14e}` / `parse`, serde_json's writer and the
  real literal conversion are compared with these on every run (harness `c16.model.*`).

  Proved for ALL inputs:
    * correct rounding is exact on every finite double and depends only on the rational value;
    * a well-formed decimal text `[sign] digits [. digits] [e [sign] digits]` parses to the
      correct rounding of its exact value; decimal literals are parsed after deleting `_`;
    * hex / binary literals (optional sign, `_` anywhere among the digits) denote the correct
      rounding of their exact integer value when it is below 2^63 and are REJECTED (an error,
      never a wrong value) from 2^63 on — the i64 route of the code;
    * the emitted-source text of every finite double, the `to_string` text of every finite
      double, and `{:.0}` of every integral double read back — through `str::parse`
      (`to_number`) and through the literal conversion of the parser — as the identical
      double.
  `ShortestFound true x` — the 18-round search of the shortest-digits model finds a candidate —
  was a hypothesis of the read-back theorems (`to_string_reads_back`, `source_text_reads_back`,
  kept below).  It is now PROVED for every finite non-zero double
  (`shortest_digits_always_found`: 17 significant digits always read back, because a decimal
  within relative distance 1/(2·10^16) of a double rounds to it,
  `correct_rounding_within_17_digits`), so the `…_all` theorems carry no such hypothesis.  The
  harness still validates it on every sampled double (key `c16.model.shortest-found`).
  Not modelled: the number *reader* of serde_json (an external library).  It is compared with
  the specification by the harness and is NOT correctly rounded on the pinned tree
  (`float_roundtrip` off): known finding `c16.json-roundtrip`.
-/
namespace Blots.C16

open Blots Blots.F64 Blots.NumText Blots.NumSpec

/-! #### correct rounding: exact on doubles, a function of the rational value -/

theorem correct_rounding_exact_on_doubles (x : F64) (h : x.isFinite = true) :
    ofRatio x.neg x.ratio.1 x.ratio.2 = x :=
  ofRatio_ratio x h

theorem correct_rounding_depends_on_value (s : Bool) (n d n' d' : Nat) (hd : 0 < d) (hd' : 0 < d')
    (h : n * d' = n' * d) : ofRatio s n d = ofRatio s n' d' :=
  ofRatio_congr s n d n' d' hd hd' h

/-- the exact integer value of an integral double converts back to it -/
theorem correct_rounding_exact_on_integers (x : F64) (h : x.isFinite = true)
    (hint : x.ratio.1 % x.ratio.2 = 0) : ofRatio x.neg (x.ratio.1 / x.ratio.2) 1 = x :=
  ofRatio_integral x h hint

example : (ofNatBits 0x7FEFFFFFFFFFFFFF).isFinite = true := by decide     -- f64::MAX
example : negZero.isFinite = true := by decide
example : ofRatio false 1 10 = ofNatBits 0x3FB999999999999A := by decide   -- 0.1 rounds up

/-! #### decimal text → double is the correct rounding of the exact decimal value -/

/-- `str::parse::<f64>` (hence `to_number` and decimal literals) on
    `[sign] digits [. digits] [(e|E) [sign] digits]` with at least one mantissa digit:
    the correct rounding of `± digits × 10 ^ (exponent − #fraction digits)`.
    (`decVal neg m e` is `ofRatio neg (m·10^e) 1` for `e ≥ 0` and `ofRatio neg m (10^-e)`
    otherwise; the bound on the exponent digits is the model's clamp: beyond it the result is
    0 or ∞ whatever the exponent.) -/
theorem decimal_text_correctly_rounded (sg : List Char) (neg : Bool) (ip fp : List Char) (dot : Bool)
    (ex : List Char) (ev : Int) (hsg : IsSign sg neg)
    (hip : ∀ c ∈ ip, F64.isDigit c = true) (hfp : ∀ c ∈ fp, F64.isDigit c = true)
    (hne : ip ++ fp ≠ []) (hdot : dot = false → fp = [])
    (hex : IsExpText (400 + ip.length + fp.length) ex ev) :
    parseDec (String.ofList (sg ++ (ip ++ fracText dot fp ++ ex))) =
      some (decVal neg (F64.digitsVal (ip ++ fp)) (ev - Int.ofNat fp.length)) :=
  parseDec_decimal_literal sg neg ip fp dot ex ev hsg hip hfp hne hdot hex

example : parseDec "-1.25E+3" = some (ofRatio true 1250 1) := by decide
example : parseDec ".5" = some (ofRatio false 5 10) := by decide
example : parseDec "9007199254740993" = some (ofNatBits 0x4340000000000000) := by decide  -- tie → even

/-- a literal without radix marker is parsed by `str::parse` after deleting the underscores -/
theorem decimal_literal_ignores_underscores (cs : List Char) (hb : radixSplit 'b' cs = none)
    (hx : radixSplit 'x' cs = none) :
    literalValue (String.ofList cs) = parseDec (String.ofList (removeUnderscores cs)) :=
  literalValue_decimal cs hb hx

example : literalValue "1_000.5" = parseDec "1000.5" := by decide

/-! #### radix literals: correct rounding of the exact integer below 2^63, rejection above -/

/-- `[+|-] 0x digits` with `_` anywhere among the digits: if `vs` are the digit values
    (most significant first) and their value is below 2^63 the literal is the correctly
    rounded double of that integer, with the sign applied; from 2^63 on it is an error. -/
theorem hex_literal_correctly_rounded (sg : Option Bool) (body : List Char) (vs : List Nat)
    (hne : removeUnderscores body ≠ [])
    (hdig : (removeUnderscores body).map (digitOf 16) = vs.map some) :
    literalValue (String.ofList (signPrefix sg ++ '0' :: 'x' :: body)) =
      if radixValue 16 vs < 2 ^ 63
      then some (mulSign (sg == some true) (ofRatio false (radixValue 16 vs) 1)) else none :=
  literalValue_hex sg body vs hne hdig

theorem binary_literal_correctly_rounded (sg : Option Bool) (body : List Char) (vs : List Nat)
    (hne : removeUnderscores body ≠ [])
    (hdig : (removeUnderscores body).map (digitOf 2) = vs.map some) :
    literalValue (String.ofList (signPrefix sg ++ '0' :: 'b' :: body)) =
      if radixValue 2 vs < 2 ^ 63
      then some (mulSign (sg == some true) (ofRatio false (radixValue 2 vs) 1)) else none :=
  literalValue_binary sg body vs hne hdig

example : literalValue "0xFF_ff" = some (ofRatio false 65535 1) := by decide
example : literalValue "+0b1_01" = some (ofRatio false 5 1) := by decide
example : literalValue "0x20000000000001" = some (ofNatBits 0x4340000000000000) := by decide  -- 2^53+1 → even
example : literalValue "0x7fffffffffffffff" = some (ofNatBits 0x43E0000000000000) := by decide -- 2^63-1 → 2^63
example : literalValue "0x8000000000000000" = none := by decide                                -- rejected
example : literalValue "-0b0" = some negZero := by decide                                      -- -1.0 * 0.0

/-! #### every printed text reads back as the identical double -/

/-- `{:.0}` of an integral double (the emitted-source rule below 1e15) -/
theorem integral_text_reads_back (x : F64) (hf : x.isFinite = true) (hi : x.isIntegral = true) :
    parseDec (toFixed x 0) = some x :=
  parseDec_toFixed_zero x hf hi

/-- `to_number(to_string(x)) = x` -/
theorem to_string_reads_back (x : F64) (hf : x.isFinite = true)
    (h : x.isZero = true ∨ ShortestFound true x) : toNumberStr (toStringNum x) = some x :=
  parseDec_toDisplay x hf h

/-- the number text in emitted function source / formatter output reads back exactly,
    through `str::parse` and through the literal conversion of the parser -/
theorem source_text_reads_back (x : F64) (hf : x.isFinite = true)
    (h : x.isZero = true ∨ ShortestFound true x) :
    parseDec (srcNumber x) = some x ∧ literalValue (srcNumber x) = some x :=
  ⟨parseDec_srcNumber x hf h, literalValue_srcNumber x hf h⟩

/-- correct rounding is NEAREST with room for 17 digits: a fraction `n/d` within relative
    distance `1/(2·10^16)` of the exact value `|x|` of a finite non-zero double converts to `|x|`
    (`S17.qv n d` is the rational `n/d`) -/
theorem correct_rounding_within_17_digits (x : F64) (hf : x.isFinite = true) (hz : x.isZero = false)
    (n d : Nat) (hd : 0 < d)
    (hlo : S17.qv x.ratio.1 x.ratio.2 - S17.qv x.ratio.1 x.ratio.2 / (2 * 10 ^ 16) ≤ S17.qv n d)
    (hhi : S17.qv n d ≤ S17.qv x.ratio.1 x.ratio.2 + S17.qv x.ratio.1 x.ratio.2 / (2 * 10 ^ 16)) :
    ofRatio false n d = x.abs :=
  S17.ofRatio_eq_abs_of_close x hf hz n d hd hlo hhi

/-- the shortest-digits search finds a digit string within its 17-digit budget for EVERY finite
    non-zero double, under Rust's tie rule (`true`) and ryu's (`false`) -/
theorem shortest_digits_always_found (tieUp : Bool) (x : F64) (hf : x.isFinite = true)
    (hz : x.isZero = false) : ShortestFound tieUp x :=
  shortest_always_found tieUp x hf hz

/-- `to_number(to_string(x)) = x` for every finite double, no side condition -/
theorem to_string_reads_back_all (x : F64) (hf : x.isFinite = true) :
    toNumberStr (toStringNum x) = some x :=
  parseDec_toDisplay x hf (zero_or_found x hf)

/-- emitted-source / formatter number text reads back exactly for every finite double, through
    `str::parse` and through the literal conversion of the parser, no side condition -/
theorem source_text_reads_back_all (x : F64) (hf : x.isFinite = true) :
    parseDec (srcNumber x) = some x ∧ literalValue (srcNumber x) = some x :=
  ⟨parseDec_srcNumber x hf (zero_or_found x hf), literalValue_srcNumber x hf (zero_or_found x hf)⟩

/-- the parser reads `-5` as the negation operator applied to the literal `5`: negating the
    magnitude gives back a negative number -/
theorem negated_literal_reads_back (x : F64) (hn : x.neg = true) : x.abs.negate = x :=
  negate_abs x hn

/-- `to_number` on booleans -/
theorem to_number_bool : toNumberBool true = F64.one ∧ toNumberBool false = F64.zero := ⟨rfl, rfl⟩

example : (ofNatBits 0x4059000000000000).isIntegral = true := by decide                 -- 100.0
example : srcNumber (ofNatBits 0x4059000000000000) = "100" := by decide
example : ShortestFound true (ofNatBits 0x3FB999999999999A) := by unfold ShortestFound; decide
example : srcNumber (ofNatBits 0x3FB999999999999A) = "0.1" := by decide
example : srcNumber (ofNatBits 0x430C6BF526340000) = "1000000000000000" := by decide     -- 1e15: to_string
example : toStringNum negZero = "-0" ∧ toNumberStr "-0" = some negZero := by decide
-- the unconditional read-back on 0.1, 1/3, f64::MAX, the smallest subnormal 5e-324, the smallest
-- normal 2^-1022, and 9007199254740993.0 (the double 2^53, a power of two: narrower gap below)
example : toNumberStr (toStringNum (ofNatBits 0x3FB999999999999A)) = some (ofNatBits 0x3FB999999999999A) :=
  to_string_reads_back_all _ (by decide)
example : toNumberStr (toStringNum (ofNatBits 0x3FD5555555555555)) = some (ofNatBits 0x3FD5555555555555) :=
  to_string_reads_back_all _ (by decide)
example : toNumberStr (toStringNum (ofNatBits 0x7FEFFFFFFFFFFFFF)) = some (ofNatBits 0x7FEFFFFFFFFFFFFF) :=
  to_string_reads_back_all _ (by decide)
example : toNumberStr (toStringNum (ofNatBits 1)) = some (ofNatBits 1) :=
  to_string_reads_back_all _ (by decide)
example : toNumberStr (toStringNum (ofNatBits 0x0010000000000000)) = some (ofNatBits 0x0010000000000000) :=
  to_string_reads_back_all _ (by decide)
example : parseDec "9007199254740993.0" = some (ofNatBits 0x4340000000000000) := by decide
example : literalValue (srcNumber (ofNatBits 0x4340000000000000)) = some (ofNatBits 0x4340000000000000) :=
  (source_text_reads_back_all _ (by decide)).2
example : toStringNum (ofNatBits 0x3FD5555555555555) = "0.3333333333333333" := by decide
example : toStringNum (ofNatBits 0x4340000000000000) = "9007199254740992" := by decide
example : (ofNatBits 1).shortestDigitsWith true = (5, -324) := by decide +kernel
example : ShortestFound false (ofNatBits 0x3E60000000000000) :=          -- 2^-25, a tie between candidates
  shortest_digits_always_found false _ (by decide) (by decide)
example : (ofNatBits 0x7FEFFFFFFFFFFFFF).isZero = false ∧ (ofNatBits 1).isZero = false := by decide

end Blots.C16
