import Blots.Model.Units
import Blots.Lemmas.Units
/-
  C17 — Unit conversion is consistent across the whole unit table.

  Statements only (helper lemmas live in `Blots/Lemmas/Units.lean`).  The table `Gen.units`
  is re-translated from `get_all_units()` of the current `/repo` on every run, so every
  `decide +kernel` below is a statement about the table the code has NOW.

    resolveCodes q          `resolve_unit(q)`      (q = the Unicode scalar values of the string)
    convertF ops v a b      `units::convert(v, a, b)` over doubles, arithmetic = `ops`
    convertQ x a b          the same conversion over exact rationals, coefficients = the exact
                            value of the source literal; `ok none` = the `+∞` of a reciprocal
                            conversion of zero
    convQ a b x             one conversion between two `QConv`s (arbitrary coefficients)

  NOT proved here (and not provable as stated):
    * Anything about rounding.  "There and back returns the original value within
      floating-point rounding", the triangle law and self-conversion FOR DOUBLES are
      validated numerically by the harness on every ordered pair of every category × the
      magnitude pool (tolerances justified in harness/src/props/c17.rs), and the double
      result is compared with the exact-rational result of this model.  The theorems
      below establish the laws exactly over ℚ, for arbitrary non-zero coefficients.
    * That the code computes what the model computes: checked bit-for-bit by the
      correspondence run, not proved.
    * `str::to_lowercase` is modelled per character (see Model/Units.lean); the per-character
      facts are validated against Rust for every Unicode scalar value on every run.
-/
namespace Blots.C17
open Blots Blots.Gen Blots.Units

/-- Identifiers listed verbatim for two different units.  `"c"` is listed for celsius (#1) and
    for coulombs (#140), so it never resolves: a genuine defect of the table
    (finding `c17.identifier-unresolvable`).  Hand-written, NOT generated: a new duplicate in the
    table makes `every_identifier_resolves_partial` fail to elaborate. -/
def knownShared : List (List Nat) := []

/-- the unit owning the lower-cased spelling of `q` according to the generated certificate
    (`units.length` when several units have an alias with that lower-case) -/
def caseOwner (q : List Nat) : Option Nat := treeFind lowTree (encodeCodes (lowerCodes q))

/-! ### every identifier resolves — exactly, or case-insensitively when unambiguous -/

/-- the model's lower-casing agrees with the translator's `to_lowercase` on every identifier of
    the table (the translator's is cross-checked against Rust by the harness) -/
theorem lowercase_table_consistent : ∀ u ∈ units, u.ids.map lowerCodes = u.lowers := by
  have h : units.all (fun u => u.ids.map lowerCodes == u.lowers) = true := by decide +kernel
  intro u hu
  exact eq_of_beq (List.all_eq_true.mp h u hu)

/-- FULL STATEMENT `∀ identifier of unit i, resolve = unit i` fails on the pinned table (next
    theorem); proved for every identifier of all 201 units except the one shared spelling. -/
theorem every_identifier_resolves_partial (i : Nat) (u : UnitRow) (q : List Nat)
    (hi : units[i]? = some u) (hq : q ∈ u.ids) (hk : q ∉ knownShared) : resolveCodes q = .ok i := by
  have hc : certExactFrom (fun q => treeFind idTree (encodeCodes q)) knownShared 0 units = true := by
    decide +kernel
  exact resolve_of_cert _ knownShared units hc i u hi q hq hk

/-- FULL STATEMENT (holds since the fix that gave coulombs the symbol `C`): every identifier
    listed for a unit resolves to that unit -/
theorem every_identifier_resolves (i : Nat) (u : UnitRow) (q : List Nat)
    (hi : units[i]? = some u) (hq : q ∈ u.ids) : resolveCodes q = .ok i :=
  every_identifier_resolves_partial i u q hi hq (by simp [knownShared])

/-- an identifier listed verbatim by two different units is reported as ambiguous, never guessed -/
theorem shared_identifier_is_ambiguous (q : List Nat) (i j : Nat) (u v : UnitRow)
    (hi : units[i]? = some u) (hj : units[j]? = some v) (hij : i ≠ j) (hu : q ∈ u.ids) (hv : q ∈ v.ids) :
    resolveCodes q = .ambiguous :=
  resolve_exact_shared units q i j u v hi hj hij hu hv

/-- all identifiers of one unit resolve to the same unit -/
theorem aliases_same_unit (i : Nat) (u : UnitRow) (a b : List Nat) (hi : units[i]? = some u)
    (ha : a ∈ u.ids) (hb : b ∈ u.ids) (hka : a ∉ knownShared) (hkb : b ∉ knownShared) :
    resolveCodes a = resolveCodes b := by
  rw [every_identifier_resolves_partial i u a hi ha hka, every_identifier_resolves_partial i u b hi hb hkb]

/-- a string listed nowhere that is case-insensitively equal to an alias of exactly one unit
    resolves to that unit (all query strings, not only table entries) -/
theorem case_insensitive_unique_resolves (q : List Nat) (i : Nat) (u : UnitRow)
    (hex : ∀ (j : Nat) (v : UnitRow), units[j]? = some v → q ∉ v.ids)
    (hi : units[i]? = some u) (hq : ∃ a ∈ u.ids, lowerCodes a = lowerCodes q)
    (huniq : ∀ (j : Nat) (v : UnitRow), units[j]? = some v → (∃ a ∈ v.ids, lowerCodes a = lowerCodes q) → j = i) :
    resolveCodes q = .ok i :=
  resolve_case_unique units q i u hex hi hq huniq

/-- whole table: when the certificate names unit `i` as the owner of a lower-cased spelling, no
    other unit has an alias with that lower-case -/
theorem case_owner_spec (q : List Nat) (i : Nat) (hi : i < units.length) (ho : caseOwner q = some i) :
    ∀ (j : Nat) (v : UnitRow), units[j]? = some v → (∃ a ∈ v.ids, lowerCodes a = lowerCodes q) → j = i := by
  have hc : certCaseFrom (fun q => treeFind lowTree (encodeCodes q)) units.length 0 units = true := by
    decide +kernel
  exact case_owner_unique _ units hc q i hi ho

/-- every case variant `q` of an identifier `a` of unit `i` whose lower-case is owned by `i` alone
    resolves to `i` (unless `q` itself is listed verbatim somewhere, where the exact rule applies) -/
theorem case_variant_resolves (i : Nat) (u : UnitRow) (a q : List Nat) (hi : units[i]? = some u)
    (ha : a ∈ u.ids) (hl : lowerCodes a = lowerCodes q)
    (hex : ∀ (j : Nat) (v : UnitRow), units[j]? = some v → q ∉ v.ids)
    (ho : caseOwner q = some i) : resolveCodes q = .ok i := by
  have hlt : i < units.length := by
    have := List.getElem?_eq_some_iff.mp hi
    exact this.1
  exact resolve_case_unique units q i u hex hi ⟨a, ha, hl⟩ (case_owner_spec q i hlt ho)

/-- case-insensitively equal to aliases of two different units (and listed nowhere): ambiguity error -/
theorem case_insensitive_shared_is_ambiguous (q : List Nat) (i j : Nat) (u v : UnitRow)
    (hex : ∀ (j : Nat) (v : UnitRow), units[j]? = some v → q ∉ v.ids)
    (hi : units[i]? = some u) (hj : units[j]? = some v) (hij : i ≠ j)
    (hu : ∃ a ∈ u.ids, lowerCodes a = lowerCodes q) (hv : ∃ a ∈ v.ids, lowerCodes a = lowerCodes q) :
    resolveCodes q = .ambiguous :=
  resolve_case_shared units q i j u v hex hi hj hij hu hv

/-- no exact and no case-insensitive match: unknown-unit error -/
theorem unknown_identifier_is_error (q : List Nat)
    (h : ∀ (j : Nat) (v : UnitRow), units[j]? = some v → ∀ a ∈ v.ids, lowerCodes a ≠ lowerCodes q) :
    resolveCodes q = .unknown :=
  resolve_unknown units q h

/-- nothing is guessed: whatever resolves, resolves to a unit that lists the string exactly or
    up to case -/
theorem resolution_never_guesses (q : List Nat) (i : Nat) (h : resolveCodes q = .ok i) :
    ∃ u, units[i]? = some u ∧ (q ∈ u.ids ∨ ∃ a ∈ u.ids, lowerCodes a = lowerCodes q) :=
  resolve_ok_sound units q i h

/-! ### all identifiers of a unit behave identically; categories never mix -/

/-- the identifier enters `convert` only through the unit it resolves to -/
theorem aliases_behave_identically (ops : NumOps) (v : F64) (x : Rat) (a a' b b' : List Nat)
    (ha : resolveCodes a = resolveCodes a') (hb : resolveCodes b = resolveCodes b') :
    convertF ops v a b = convertF ops v a' b' ∧ convertQ x a b = convertQ x a' b' := by
  unfold convertF convertFIn convertQ convertQIn
  exact ⟨withPair_congr units a a' b b' _ ha hb, withPair_congr units a a' b b' _ ha hb⟩

/-- … in particular for any two (non-shared) identifiers of the same table unit, in either position -/
theorem table_aliases_behave_identically (ops : NumOps) (v : F64) (i : Nat) (u : UnitRow)
    (a a' t : List Nat) (hi : units[i]? = some u) (ha : a ∈ u.ids) (ha' : a' ∈ u.ids)
    (hka : a ∉ knownShared) (hka' : a' ∉ knownShared) :
    convertF ops v a t = convertF ops v a' t ∧ convertF ops v t a = convertF ops v t a' := by
  have h := aliases_same_unit i u a a' hi ha ha' hka hka'
  unfold convertF convertFIn
  exact ⟨withPair_congr units a a' t t _ h rfl, withPair_congr units t t a a' _ rfl h⟩

/-- units of different categories are never convertible — for all pairs, all values, all arithmetic -/
theorem cross_category_never_converts (a b : List Nat) (i j : Nat)
    (hi : resolveCodes a = .ok i) (hj : resolveCodes b = .ok j)
    (hc : (units.getD i default).cat ≠ (units.getD j default).cat) :
    (∀ (ops : NumOps) (v : F64), convertF ops v a b = .category) ∧ (∀ x : Rat, convertQ x a b = .category) := by
  constructor
  · intro ops v
    unfold convertF convertFIn
    rw [withPair_resolved units a b _ i j hi hj, if_neg hc]
  · intro x
    unfold convertQ convertQIn
    rw [withPair_resolved units a b _ i j hi hj, if_neg hc]

/-- a conversion succeeds only between two resolved units of one category, and its value is
    `from_base_b (to_base_a v)` -/
theorem convert_ok_only_same_category (ops : NumOps) (v y : F64) (a b : List Nat)
    (h : convertF ops v a b = .ok y) :
    ∃ i j, resolveCodes a = .ok i ∧ resolveCodes b = .ok j ∧
      (units.getD i default).cat = (units.getD j default).cat ∧
      y = fromBaseF ops (units.getD j default).conv (toBaseF ops (units.getD i default).conv v) := by
  unfold convertF convertFIn at h
  exact withPair_ok_inv units a b _ y h

/-- unknown or ambiguous identifiers make `convert` fail, in either position -/
theorem unresolved_never_converts (ops : NumOps) (v : F64) (a b : List Nat)
    (h : (∀ i, resolveCodes a ≠ .ok i) ∨ (∀ j, resolveCodes b ≠ .ok j)) :
    (convertF ops v a b).isErr = true := by
  unfold convertF convertFIn
  exact withPair_unresolved units a b _ h

/-! ### algebra over ℚ, arbitrary coefficients -/

/-- converting a unit to itself is the identity -/
theorem self_identity (a : QConv) (ha : a.WellFormed) (x y : Rat) (h : convQ a a x = some y) : y = x :=
  convQ_self a ha x y h

theorem self_identity_defined (a : QConv) (ha : a.WellFormed) (x : Rat)
    (hx : (∃ c, a = .reciprocal c) → x ≠ 0) : convQ a a x = some x :=
  convQ_self_defined a ha x hx

theorem linear_self (c x : Rat) (hc : c ≠ 0) : convQ (.linear c) (.linear c) x = some x :=
  convQ_self_defined (.linear c) hc x (by rintro ⟨_, h⟩; cases h)

/-- reciprocal units: for `x ≠ 0` (at 0 the code returns `+∞`, then `c/∞ = 0`) -/
theorem reciprocal_self (c x : Rat) (hc : c ≠ 0) (hx : x ≠ 0) :
    convQ (.reciprocal c) (.reciprocal c) x = some x :=
  convQ_self_defined (.reciprocal c) hc x (fun _ => hx)

/-- each temperature scale of the table -/
theorem temperature_self (toK fromK : TempFn) (h : tempPairOk toK fromK = true) (x : Rat) :
    convQ (.temperature toK.evalQ fromK.evalQ) (.temperature toK.evalQ fromK.evalQ) x = some x :=
  convQ_self_defined (.temperature toK.evalQ fromK.evalQ) (tempPairOk_inverse toK fromK h) x
    (by rintro ⟨_, h⟩; cases h)

/-- there and back returns the original value (exactly, over ℚ) -/
theorem there_and_back (a b : QConv) (ha : a.WellFormed) (hb : b.WellFormed) (x y : Rat)
    (h : convQ a b x = some y) : convQ b a y = some x :=
  convQ_there_back a b ha hb x y h

theorem linear_there_and_back (a b x : Rat) (ha : a ≠ 0) (hb : b ≠ 0) :
    (convQ (.linear a) (.linear b) x).bind (convQ (.linear b) (.linear a)) = some x := by
  have h : convQ (.linear a) (.linear b) x = some (x * a / b) := rfl
  rw [h]
  exact convQ_there_back (.linear a) (.linear b) ha hb x _ h

/-- linear ↔ reciprocal, side condition explicit: `x ≠ 0` -/
theorem reciprocal_linear_there_and_back (a b x : Rat) (ha : a ≠ 0) (hb : b ≠ 0) (hx : x ≠ 0) :
    (convQ (.reciprocal a) (.linear b) x).bind (convQ (.linear b) (.reciprocal a)) = some x := by
  have h : convQ (.reciprocal a) (.linear b) x = some (a / x / b) := by
    simp [convQ, QConv.toBase, QConv.fromBase, hx]
  rw [h]
  exact convQ_there_back (.reciprocal a) (.linear b) ha hb x _ h

/-- A → B → C equals A → C -/
theorem triangle (a b c : QConv) (hb : b.WellFormed) (x y : Rat) (h : convQ a b x = some y) :
    convQ b c y = convQ a c x :=
  convQ_triangle a b c hb x y h

theorem linear_triangle (a b c x : Rat) (hb : b ≠ 0) :
    (convQ (.linear a) (.linear b) x).bind (convQ (.linear b) (.linear c)) = convQ (.linear a) (.linear c) x := by
  have h : convQ (.linear a) (.linear b) x = some (x * a / b) := rfl
  rw [h]
  exact convQ_triangle (.linear a) (.linear b) (.linear c) hb x _ h

/-- through a reciprocal unit, side conditions explicit: `x ≠ 0`, `a ≠ 0` -/
theorem reciprocal_triangle (a b c x : Rat) (ha : a ≠ 0) (hb : b ≠ 0) (hx : x ≠ 0) :
    (convQ (.linear a) (.reciprocal b) x).bind (convQ (.reciprocal b) (.linear c)) =
      convQ (.linear a) (.linear c) x := by
  have hxa : x * a ≠ 0 := by grind
  have h : convQ (.linear a) (.reciprocal b) x = some (b / (x * a)) := by
    simp [convQ, QConv.toBase, QConv.fromBase, hxa]
  rw [h]
  exact convQ_triangle (.linear a) (.reciprocal b) (.linear c) hb x _ h

/-- the temperature formulas are the textbook ones -/
theorem celsius_fahrenheit_value (x : Rat) :
    convQ (.temperature TempFn.celsius_to_kelvin.evalQ TempFn.kelvin_to_celsius.evalQ)
          (.temperature TempFn.fahrenheit_to_kelvin.evalQ TempFn.kelvin_to_fahrenheit.evalQ) x
      = some (x * 9 / 5 + 32) := by
  simp only [convQ, QConv.toBase, QConv.fromBase, Option.bind, TempFn.evalQ, Option.some.injEq]
  grind

theorem kelvin_celsius_value (x : Rat) :
    convQ (.temperature TempFn.kelvin_to_kelvin.evalQ TempFn.kelvin_to_kelvin.evalQ)
          (.temperature TempFn.celsius_to_kelvin.evalQ TempFn.kelvin_to_celsius.evalQ) x
      = some (x - 27315 / 100) := by
  simp only [convQ, QConv.toBase, QConv.fromBase, Option.bind, TempFn.evalQ, Option.some.injEq]
  grind

/-! ### the generated table: well-formedness and the laws through identifiers -/

/-- every coefficient of the table is a non-zero fraction and every temperature unit carries a
    mutually inverse pair of functions -/
theorem table_well_formed : ∀ u ∈ units, (toQ u.conv).WellFormed :=
  all_wf_of_check units units_all_convOk

theorem coefficients_positive : ∀ u ∈ units, coefPositive u.conv = true := by
  have h : units.all (fun u => coefPositive u.conv) = true := by decide +kernel
  exact fun u hu => List.all_eq_true.mp h u hu

/-- the double each single-literal coefficient is held as is the correctly rounded value of the
    literal's exact rational (ties the double model to the rational model, row by row) -/
theorem coefficient_bits_correctly_rounded : ∀ u ∈ units, coefBitsOk u.conv = true := by
  have h : units.all (fun u => coefBitsOk u.conv) = true := by decide +kernel
  exact fun u hu => List.all_eq_true.mp h u hu

/-- self-conversion through any identifier: the identity whenever the result is finite -/
theorem table_self_identity (x y : Rat) (a : List Nat) (h : convertQ x a a = .ok (some y)) : y = x := by
  unfold convertQ convertQIn at h
  obtain ⟨i, j, hi, hj, _, hy⟩ := withPair_ok_inv units a a _ _ h
  rw [hi] at hj
  cases hj
  exact convQ_self _ (resolved_unit_wf a i hi) x y hy.symm

/-- there and back through any two identifiers -/
theorem table_there_and_back (x y : Rat) (a b : List Nat) (h : convertQ x a b = .ok (some y)) :
    convertQ y b a = .ok (some x) := by
  unfold convertQ convertQIn at h
  obtain ⟨i, j, hi, hj, hc, hy⟩ := withPair_ok_inv units a b _ _ h
  unfold convertQ convertQIn
  rw [withPair_resolved units b a _ j i hj hi, if_pos hc.symm]
  congr 1
  exact convQ_there_back _ _ (resolved_unit_wf a i hi) (resolved_unit_wf b j hj) x y hy.symm

/-- A → B → C equals A → C through any three identifiers (errors included: an unresolvable or
    cross-category `c` gives the same error on both sides) -/
theorem table_triangle (x y : Rat) (a b c : List Nat) (h : convertQ x a b = .ok (some y)) :
    convertQ y b c = convertQ x a c := by
  unfold convertQ convertQIn at h
  obtain ⟨i, j, hi, hj, hc, hy⟩ := withPair_ok_inv units a b _ _ h
  unfold convertQ convertQIn
  cases hk : resolveIn units c with
  | unknown => simp only [withPair, hi, hj, hk]
  | ambiguous => simp only [withPair, hi, hj, hk]
  | ok k =>
    rw [withPair_resolved units b c _ j k hj hk, withPair_resolved units a c _ i k hi hk, hc]
    by_cases hjk : (units.getD j default).cat = (units.getD k default).cat
    · rw [if_pos hjk, if_pos hjk]
      congr 1
      exact convQ_triangle _ _ _ (resolved_unit_wf b j hj) x y hy.symm
    · rw [if_neg hjk, if_neg hjk]

/-! ### metric prefixes -/

/-- whenever an identifier of `u` is `<SI prefix><identifier of v>` with `u`, `v` in one category,
    both are linear and `coef u = coef v · 10^(prefix exponent)` exactly, on the literal rationals
    (142 (identifier, prefix, base) instances on the pinned table; no exception found) -/
theorem prefix_ratio :
    ∀ u ∈ units, ∀ idu ∈ u.ids, ∀ pk ∈ metricPrefixes, ∀ rest, idu = pk.1 ++ rest →
    ∀ v ∈ units, u.cat = v.cat → rest ∈ v.ids →
    ∃ nu du bu pu nv dv bv pv, u.conv = .linear nu du bu pu ∧ v.conv = .linear nv dv bv pv ∧
      coefQ nu du = coefQ nv dv * pow10 pk.2 := by
  have hchk : prefixAllOk units = true := by decide +kernel
  have hok := units_all_convOk
  intro u hu idu hidu pk hpk rest hrest v hv hcat hmem
  obtain ⟨nu, du, bu, pu, nv, dv, bv, pv, hcu, hcv, hr⟩ :=
    prefix_ratio_of_check units hchk u hu idu hidu pk hpk rest hrest v hv hcat hmem
  refine ⟨nu, du, bu, pu, nv, dv, bv, pv, hcu, hcv, ?_⟩
  have h1 := List.all_eq_true.mp hok u hu
  have h2 := List.all_eq_true.mp hok v hv
  simp [hcu, convOk] at h1
  simp [hcv, convOk] at h2
  exact ratioIsPow10_spec nu du nv dv pk.2 hr h1.2 h2.2

/-! ### non-vacuity: the hypotheses above are met by concrete table entries -/

-- the table is the expected size and the resolution routes are all taken
example : units.length = 201 := by decide +kernel
example : resolveCodes (codesOf "km") = .ok 4 := by decide +kernel            -- exact
example : resolveCodes (codesOf "KM") = .ok 4 := by decide +kernel            -- case-insensitive, unique
example : resolveCodes (codesOf "Kilometres") = .ok 4 := by decide +kernel
example : resolveCodes (codesOf "Mm") = .ok 21 ∧ resolveCodes (codesOf "mm") = .ok 6 := by decide +kernel
example : resolveCodes (codesOf "MM") = .ambiguous := by decide +kernel       -- mm / Mm
example : resolveCodes (codesOf "ma") = .ambiguous := by decide +kernel       -- MA / mA
example : resolveCodes (codesOf "c") = .ok 1 ∧ resolveCodes (codesOf "C") = .ok 140 := by decide +kernel  -- celsius / coulombs
example : resolveCodes (codesOf "foobar") = .unknown := by decide +kernel
example : resolveCodes (codesOf "Ω") = .ok 156 ∧ resolveCodes (codesOf "ω") = .ok 156 := by decide +kernel
example : resolveCodes [8490] = .ok 0 := by decide +kernel                    -- U+212A KELVIN SIGN ↦ k
-- `case_variant_resolves` applies to "KM": owner certificate says unit 4
example : caseOwner (codesOf "KM") = some 4 := by decide +kernel
-- cross-category hypotheses: km (length) vs kg (mass)
example : resolveCodes (codesOf "kg") = .ok 26 ∧
    (units.getD 4 default).cat ≠ (units.getD 26 default).cat := by decide +kernel
-- conversions over ℚ compute what they should
example : convertQ 1 (codesOf "km") (codesOf "m") = .ok (some 1000) := by decide +kernel
example : convertQ 100 (codesOf "celsius") (codesOf "fahrenheit") = .ok (some 212) := by decide +kernel
example : convertQ 0 (codesOf "mpg") (codesOf "l/100km") = .ok none := by decide +kernel
example : convertQ 1 (codesOf "kg") (codesOf "m") = .category := by decide +kernel
example : convertQ 1 (codesOf "MM") (codesOf "f") = .fromAmbiguous := by decide +kernel
-- `prefix_ratio` instance: "kilometers" = "kilo" ++ "meters"
example : codesOf "kilometers" = codesOf "kilo" ++ codesOf "meters" ∧
    (codesOf "kilo", (3 : Int)) ∈ metricPrefixes ∧
    codesOf "kilometers" ∈ (units.getD 4 default).ids ∧ codesOf "meters" ∈ (units.getD 3 default).ids ∧
    (units.getD 4 default).cat = (units.getD 3 default).cat := by decide +kernel
example : coefQ 1000 1 = coefQ 1 1 * pow10 3 := by decide +kernel
example : QConv.WellFormed (.linear (1000 : Rat)) := by simp [QConv.WellFormed]

end Blots.C17
