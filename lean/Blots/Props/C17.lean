import Blots.Model.Units
import Blots.Lemmas.Units
import Blots.Lemmas.UnitsRounding
/-
  C17 — Unit conversion is consistent across the whole unit table.

  Statements only (helper lemmas live in `Blots/Lemmas/Units.lean`).  The table `Gen.units`
  is re-translated from `get_all_units()` of the current `/repo` on every run, so every
  `decide +kernel` below is a statement about the table the code has NOW.

    resolveCodes q          `resolve_unit(q)`      (q = the Unicode scalar values of the string)
    convertF ops v a b      `units::convert(v, a, b)` over doubles, arithmetic = `ops`
    convertQ x a b          the same conversion over exact rationals, coefficients = the exact
                            value of the source literal; `ok none` = the `+∞` of a reciprocal
                            conversion of zero
    convQ a b x             one conversion between two `QConv`s (arbitrary coefficients)

  ROUNDING (last section).  The laws for the DOUBLE implementation are proved "up to rounding"
  with explicit factors, under the standard model of floating-point arithmetic
  `RoundingModel ops u` (`Lemmas/Rounding.lean`: `fl(a∘b) = (a∘b)(1+δ)`, `|δ| ≤ u`, for finite
  non-underflowed results) and the accuracy of the table's coefficient doubles
  (`CoefAccurate u`, proved for `u = 2^-53` by evaluating all rows in the kernel):
  `convert_error_bound`, `self_identity_up_to_rounding`, `there_and_back_up_to_rounding`,
  `triangle_up_to_rounding`, `temperature_error_bound`.  The factor is `(1-u)^-k − 1`
  (`≤ k·u/(1−k·u)`), not `(1+u)^k − 1`: rounded quantities are divided by, see
  `Lemmas/UnitsRounding.lean`.

  NOT proved here (and not provable as stated):
    * `RoundingModel NumOps.native 2^-53`, i.e. that the hardware operations are IEEE-754
      binary64 round-to-nearest: Lean's `Float` is opaque.  It is validated numerically by the
      harness: `harness/src/props/c17.rs` compares the double conversion with the exact
      rational conversion of this model on every ordered pair of every category × the
      magnitude pool (and there-and-back / triangle / self with tolerances justified there).
      What IS proved is that the hypothesis is satisfiable (`guardedOps_model`,
      `guardedOpsSub_model`: correct rounding by `F64.ofRatio`).
    * The rounding theorems need "every intermediate result finite, no multiplication or
      division underflowed, nothing divided by zero" (`RangeOk`); outside that range (results
      below 2^-1022, overflow, a reciprocal conversion of 0) no relative bound holds.
    * That the code computes what the model computes: checked bit-for-bit by the
      correspondence run, not proved.
    * `str::to_lowercase` is modelled per character (see Model/Units.lean); the per-character
      facts are validated against Rust for every Unicode scalar value on every run.
-/
namespace Blots.C17
open Blots Blots.Gen Blots.Units

/-- Identifiers listed verbatim for two different units.  `"c"` is listed for celsius (#1) and
    for coulombs (#140), so it never resolves: a genuine defect of the table
    (finding `c17.identifier-unresolvable`).  Hand-written, NOT generated: a new duplicate in the
    table makes `every_identifier_resolves_partial` fail to elaborate. -/
def knownShared : List (List Nat) := []

/-- the unit owning the lower-cased spelling of `q` according to the generated certificate
    (`units.length` when several units have an alias with that lower-case) -/
def caseOwner (q : List Nat) : Option Nat := treeFind lowTree (encodeCodes (lowerCodes q))

/-! ### every identifier resolves — exactly, or case-insensitively when unambiguous -/

/-- the model's lower-casing agrees with the translator's `to_lowercase` on every identifier of
    the table (the translator's is cross-checked against Rust by the harness) -/
theorem lowercase_table_consistent : ∀ u ∈ units, u.ids.map lowerCodes = u.lowers := by
  have h : units.all (fun u => u.ids.map lowerCodes == u.lowers) = true := by decide +kernel
  intro u hu
  exact eq_of_beq (List.all_eq_true.mp h u hu)

/-- FULL STATEMENT `∀ identifier of unit i, resolve = unit i` fails on the pinned table (next
    theorem); proved for every identifier of all 201 units except the one shared spelling. -/
theorem every_identifier_resolves_partial (i : Nat) (u : UnitRow) (q : List Nat)
    (hi : units[i]? = some u) (hq : q ∈ u.ids) (hk : q ∉ knownShared) : resolveCodes q = .ok i := by
  have hc : certExactFrom (fun q => treeFind idTree (encodeCodes q)) knownShared 0 units = true := by
    decide +kernel
  exact resolve_of_cert _ knownShared units hc i u hi q hq hk

/-- FULL STATEMENT (holds since the fix that gave coulombs the symbol `C`): every identifier
    listed for a unit resolves to that unit -/
theorem every_identifier_resolves (i : Nat) (u : UnitRow) (q : List Nat)
    (hi : units[i]? = some u) (hq : q ∈ u.ids) : resolveCodes q = .ok i :=
  every_identifier_resolves_partial i u q hi hq (by simp [knownShared])

/-- an identifier listed verbatim by two different units is reported as ambiguous, never guessed -/
theorem shared_identifier_is_ambiguous (q : List Nat) (i j : Nat) (u v : UnitRow)
    (hi : units[i]? = some u) (hj : units[j]? = some v) (hij : i ≠ j) (hu : q ∈ u.ids) (hv : q ∈ v.ids) :
    resolveCodes q = .ambiguous :=
  resolve_exact_shared units q i j u v hi hj hij hu hv

/-- all identifiers of one unit resolve to the same unit -/
theorem aliases_same_unit (i : Nat) (u : UnitRow) (a b : List Nat) (hi : units[i]? = some u)
    (ha : a ∈ u.ids) (hb : b ∈ u.ids) (hka : a ∉ knownShared) (hkb : b ∉ knownShared) :
    resolveCodes a = resolveCodes b := by
  rw [every_identifier_resolves_partial i u a hi ha hka, every_identifier_resolves_partial i u b hi hb hkb]

/-- a string listed nowhere that is case-insensitively equal to an alias of exactly one unit
    resolves to that unit (all query strings, not only table entries) -/
theorem case_insensitive_unique_resolves (q : List Nat) (i : Nat) (u : UnitRow)
    (hex : ∀ (j : Nat) (v : UnitRow), units[j]? = some v → q ∉ v.ids)
    (hi : units[i]? = some u) (hq : ∃ a ∈ u.ids, lowerCodes a = lowerCodes q)
    (huniq : ∀ (j : Nat) (v : UnitRow), units[j]? = some v → (∃ a ∈ v.ids, lowerCodes a = lowerCodes q) → j = i) :
    resolveCodes q = .ok i :=
  resolve_case_unique units q i u hex hi hq huniq

/-- whole table: when the certificate names unit `i` as the owner of a lower-cased spelling, no
    other unit has an alias with that lower-case -/
theorem case_owner_spec (q : List Nat) (i : Nat) (hi : i < units.length) (ho : caseOwner q = some i) :
    ∀ (j : Nat) (v : UnitRow), units[j]? = some v → (∃ a ∈ v.ids, lowerCodes a = lowerCodes q) → j = i := by
  have hc : certCaseFrom (fun q => treeFind lowTree (encodeCodes q)) units.length 0 units = true := by
    decide +kernel
  exact case_owner_unique _ units hc q i hi ho

/-- every case variant `q` of an identifier `a` of unit `i` whose lower-case is owned by `i` alone
    resolves to `i` (unless `q` itself is listed verbatim somewhere, where the exact rule applies) -/
theorem case_variant_resolves (i : Nat) (u : UnitRow) (a q : List Nat) (hi : units[i]? = some u)
    (ha : a ∈ u.ids) (hl : lowerCodes a = lowerCodes q)
    (hex : ∀ (j : Nat) (v : UnitRow), units[j]? = some v → q ∉ v.ids)
    (ho : caseOwner q = some i) : resolveCodes q = .ok i := by
  have hlt : i < units.length := by
    have := List.getElem?_eq_some_iff.mp hi
    exact this.1
  exact resolve_case_unique units q i u hex hi ⟨a, ha, hl⟩ (case_owner_spec q i hlt ho)

/-- case-insensitively equal to aliases of two different units (and listed nowhere): ambiguity error -/
theorem case_insensitive_shared_is_ambiguous (q : List Nat) (i j : Nat) (u v : UnitRow)
    (hex : ∀ (j : Nat) (v : UnitRow), units[j]? = some v → q ∉ v.ids)
    (hi : units[i]? = some u) (hj : units[j]? = some v) (hij : i ≠ j)
    (hu : ∃ a ∈ u.ids, lowerCodes a = lowerCodes q) (hv : ∃ a ∈ v.ids, lowerCodes a = lowerCodes q) :
    resolveCodes q = .ambiguous :=
  resolve_case_shared units q i j u v hex hi hj hij hu hv

/-- no exact and no case-insensitive match: unknown-unit error -/
theorem unknown_identifier_is_error (q : List Nat)
    (h : ∀ (j : Nat) (v : UnitRow), units[j]? = some v → ∀ a ∈ v.ids, lowerCodes a ≠ lowerCodes q) :
    resolveCodes q = .unknown :=
  resolve_unknown units q h

/-- nothing is guessed: whatever resolves, resolves to a unit that lists the string exactly or
    up to case -/
theorem resolution_never_guesses (q : List Nat) (i : Nat) (h : resolveCodes q = .ok i) :
    ∃ u, units[i]? = some u ∧ (q ∈ u.ids ∨ ∃ a ∈ u.ids, lowerCodes a = lowerCodes q) :=
  resolve_ok_sound units q i h

/-! ### all identifiers of a unit behave identically; categories never mix -/

/-- the identifier enters `convert` only through the unit it resolves to -/
theorem aliases_behave_identically (ops : NumOps) (v : F64) (x : Rat) (a a' b b' : List Nat)
    (ha : resolveCodes a = resolveCodes a') (hb : resolveCodes b = resolveCodes b') :
    convertF ops v a b = convertF ops v a' b' ∧ convertQ x a b = convertQ x a' b' := by
  unfold convertF convertFIn convertQ convertQIn
  exact ⟨withPair_congr units a a' b b' _ ha hb, withPair_congr units a a' b b' _ ha hb⟩

/-- … in particular for any two (non-shared) identifiers of the same table unit, in either position -/
theorem table_aliases_behave_identically (ops : NumOps) (v : F64) (i : Nat) (u : UnitRow)
    (a a' t : List Nat) (hi : units[i]? = some u) (ha : a ∈ u.ids) (ha' : a' ∈ u.ids)
    (hka : a ∉ knownShared) (hka' : a' ∉ knownShared) :
    convertF ops v a t = convertF ops v a' t ∧ convertF ops v t a = convertF ops v t a' := by
  have h := aliases_same_unit i u a a' hi ha ha' hka hka'
  unfold convertF convertFIn
  exact ⟨withPair_congr units a a' t t _ h rfl, withPair_congr units t t a a' _ rfl h⟩

/-- units of different categories are never convertible — for all pairs, all values, all arithmetic -/
theorem cross_category_never_converts (a b : List Nat) (i j : Nat)
    (hi : resolveCodes a = .ok i) (hj : resolveCodes b = .ok j)
    (hc : (units.getD i default).cat ≠ (units.getD j default).cat) :
    (∀ (ops : NumOps) (v : F64), convertF ops v a b = .category) ∧ (∀ x : Rat, convertQ x a b = .category) := by
  constructor
  · intro ops v
    unfold convertF convertFIn
    rw [withPair_resolved units a b _ i j hi hj, if_neg hc]
  · intro x
    unfold convertQ convertQIn
    rw [withPair_resolved units a b _ i j hi hj, if_neg hc]

/-- a conversion succeeds only between two resolved units of one category, and its value is
    `from_base_b (to_base_a v)` -/
theorem convert_ok_only_same_category (ops : NumOps) (v y : F64) (a b : List Nat)
    (h : convertF ops v a b = .ok y) :
    ∃ i j, resolveCodes a = .ok i ∧ resolveCodes b = .ok j ∧
      (units.getD i default).cat = (units.getD j default).cat ∧
      y = fromBaseF ops (units.getD j default).conv (toBaseF ops (units.getD i default).conv v) := by
  unfold convertF convertFIn at h
  exact withPair_ok_inv units a b _ y h

/-- unknown or ambiguous identifiers make `convert` fail, in either position -/
theorem unresolved_never_converts (ops : NumOps) (v : F64) (a b : List Nat)
    (h : (∀ i, resolveCodes a ≠ .ok i) ∨ (∀ j, resolveCodes b ≠ .ok j)) :
    (convertF ops v a b).isErr = true := by
  unfold convertF convertFIn
  exact withPair_unresolved units a b _ h

/-! ### algebra over ℚ, arbitrary coefficients -/

/-- converting a unit to itself is the identity -/
theorem self_identity (a : QConv) (ha : a.WellFormed) (x y : Rat) (h : convQ a a x = some y) : y = x :=
  convQ_self a ha x y h

theorem self_identity_defined (a : QConv) (ha : a.WellFormed) (x : Rat)
    (hx : (∃ c, a = .reciprocal c) → x ≠ 0) : convQ a a x = some x :=
  convQ_self_defined a ha x hx

theorem linear_self (c x : Rat) (hc : c ≠ 0) : convQ (.linear c) (.linear c) x = some x :=
  convQ_self_defined (.linear c) hc x (by rintro ⟨_, h⟩; cases h)

/-- reciprocal units: for `x ≠ 0` (at 0 the code returns `+∞`, then `c/∞ = 0`) -/
theorem reciprocal_self (c x : Rat) (hc : c ≠ 0) (hx : x ≠ 0) :
    convQ (.reciprocal c) (.reciprocal c) x = some x :=
  convQ_self_defined (.reciprocal c) hc x (fun _ => hx)

/-- each temperature scale of the table -/
theorem temperature_self (toK fromK : TempFn) (h : tempPairOk toK fromK = true) (x : Rat) :
    convQ (.temperature toK.evalQ fromK.evalQ) (.temperature toK.evalQ fromK.evalQ) x = some x :=
  convQ_self_defined (.temperature toK.evalQ fromK.evalQ) (tempPairOk_inverse toK fromK h) x
    (by rintro ⟨_, h⟩; cases h)

/-- there and back returns the original value (exactly, over ℚ) -/
theorem there_and_back (a b : QConv) (ha : a.WellFormed) (hb : b.WellFormed) (x y : Rat)
    (h : convQ a b x = some y) : convQ b a y = some x :=
  convQ_there_back a b ha hb x y h

theorem linear_there_and_back (a b x : Rat) (ha : a ≠ 0) (hb : b ≠ 0) :
    (convQ (.linear a) (.linear b) x).bind (convQ (.linear b) (.linear a)) = some x := by
  have h : convQ (.linear a) (.linear b) x = some (x * a / b) := rfl
  rw [h]
  exact convQ_there_back (.linear a) (.linear b) ha hb x _ h

/-- linear ↔ reciprocal, side condition explicit: `x ≠ 0` -/
theorem reciprocal_linear_there_and_back (a b x : Rat) (ha : a ≠ 0) (hb : b ≠ 0) (hx : x ≠ 0) :
    (convQ (.reciprocal a) (.linear b) x).bind (convQ (.linear b) (.reciprocal a)) = some x := by
  have h : convQ (.reciprocal a) (.linear b) x = some (a / x / b) := by
    simp [convQ, QConv.toBase, QConv.fromBase, hx]
  rw [h]
  exact convQ_there_back (.reciprocal a) (.linear b) ha hb x _ h

/-- A → B → C equals A → C -/
theorem triangle (a b c : QConv) (hb : b.WellFormed) (x y : Rat) (h : convQ a b x = some y) :
    convQ b c y = convQ a c x :=
  convQ_triangle a b c hb x y h

theorem linear_triangle (a b c x : Rat) (hb : b ≠ 0) :
    (convQ (.linear a) (.linear b) x).bind (convQ (.linear b) (.linear c)) = convQ (.linear a) (.linear c) x := by
  have h : convQ (.linear a) (.linear b) x = some (x * a / b) := rfl
  rw [h]
  exact convQ_triangle (.linear a) (.linear b) (.linear c) hb x _ h

/-- through a reciprocal unit, side conditions explicit: `x ≠ 0`, `a ≠ 0` -/
theorem reciprocal_triangle (a b c x : Rat) (ha : a ≠ 0) (hb : b ≠ 0) (hx : x ≠ 0) :
    (convQ (.linear a) (.reciprocal b) x).bind (convQ (.reciprocal b) (.linear c)) =
      convQ (.linear a) (.linear c) x := by
  have hxa : x * a ≠ 0 := by grind
  have h : convQ (.linear a) (.reciprocal b) x = some (b / (x * a)) := by
    simp [convQ, QConv.toBase, QConv.fromBase, hxa]
  rw [h]
  exact convQ_triangle (.linear a) (.reciprocal b) (.linear c) hb x _ h

/-- the temperature formulas are the textbook ones -/
theorem celsius_fahrenheit_value (x : Rat) :
    convQ (.temperature TempFn.celsius_to_kelvin.evalQ TempFn.kelvin_to_celsius.evalQ)
          (.temperature TempFn.fahrenheit_to_kelvin.evalQ TempFn.kelvin_to_fahrenheit.evalQ) x
      = some (x * 9 / 5 + 32) := by
  simp only [convQ, QConv.toBase, QConv.fromBase, Option.bind, TempFn.evalQ, Option.some.injEq]
  grind

theorem kelvin_celsius_value (x : Rat) :
    convQ (.temperature TempFn.kelvin_to_kelvin.evalQ TempFn.kelvin_to_kelvin.evalQ)
          (.temperature TempFn.celsius_to_kelvin.evalQ TempFn.kelvin_to_celsius.evalQ) x
      = some (x - 27315 / 100) := by
  simp only [convQ, QConv.toBase, QConv.fromBase, Option.bind, TempFn.evalQ, Option.some.injEq]
  grind

/-! ### the generated table: well-formedness and the laws through identifiers -/

/-- every coefficient of the table is a non-zero fraction and every temperature unit carries a
    mutually inverse pair of functions -/
theorem table_well_formed : ∀ u ∈ units, (toQ u.conv).WellFormed :=
  all_wf_of_check units units_all_convOk

theorem coefficients_positive : ∀ u ∈ units, coefPositive u.conv = true := by
  have h : units.all (fun u => coefPositive u.conv) = true := by decide +kernel
  exact fun u hu => List.all_eq_true.mp h u hu

/-- the double each single-literal coefficient is held as is the correctly rounded value of the
    literal's exact rational (ties the double model to the rational model, row by row) -/
theorem coefficient_bits_correctly_rounded : ∀ u ∈ units, coefBitsOk u.conv = true := by
  have h : units.all (fun u => coefBitsOk u.conv) = true := by decide +kernel
  exact fun u hu => List.all_eq_true.mp h u hu

/-- self-conversion through any identifier: the identity whenever the result is finite -/
theorem table_self_identity (x y : Rat) (a : List Nat) (h : convertQ x a a = .ok (some y)) : y = x := by
  unfold convertQ convertQIn at h
  obtain ⟨i, j, hi, hj, _, hy⟩ := withPair_ok_inv units a a _ _ h
  rw [hi] at hj
  cases hj
  exact convQ_self _ (resolved_unit_wf a i hi) x y hy.symm

/-- there and back through any two identifiers -/
theorem table_there_and_back (x y : Rat) (a b : List Nat) (h : convertQ x a b = .ok (some y)) :
    convertQ y b a = .ok (some x) := by
  unfold convertQ convertQIn at h
  obtain ⟨i, j, hi, hj, hc, hy⟩ := withPair_ok_inv units a b _ _ h
  unfold convertQ convertQIn
  rw [withPair_resolved units b a _ j i hj hi, if_pos hc.symm]
  congr 1
  exact convQ_there_back _ _ (resolved_unit_wf a i hi) (resolved_unit_wf b j hj) x y hy.symm

/-- A → B → C equals A → C through any three identifiers (errors included: an unresolvable or
    cross-category `c` gives the same error on both sides) -/
theorem table_triangle (x y : Rat) (a b c : List Nat) (h : convertQ x a b = .ok (some y)) :
    convertQ y b c = convertQ x a c := by
  unfold convertQ convertQIn at h
  obtain ⟨i, j, hi, hj, hc, hy⟩ := withPair_ok_inv units a b _ _ h
  unfold convertQ convertQIn
  cases hk : resolveIn units c with
  | unknown => simp only [withPair, hi, hj, hk]
  | ambiguous => simp only [withPair, hi, hj, hk]
  | ok k =>
    rw [withPair_resolved units b c _ j k hj hk, withPair_resolved units a c _ i k hi hk, hc]
    by_cases hjk : (units.getD j default).cat = (units.getD k default).cat
    · rw [if_pos hjk, if_pos hjk]
      congr 1
      exact convQ_triangle _ _ _ (resolved_unit_wf b j hj) x y hy.symm
    · rw [if_neg hjk, if_neg hjk]

/-! ### metric prefixes -/

/-- whenever an identifier of `u` is `<SI prefix><identifier of v>` with `u`, `v` in one category,
    both are linear and `coef u = coef v · 10^(prefix exponent)` exactly, on the literal rationals
    (142 (identifier, prefix, base) instances on the pinned table; no exception found) -/
theorem prefix_ratio :
    ∀ u ∈ units, ∀ idu ∈ u.ids, ∀ pk ∈ metricPrefixes, ∀ rest, idu = pk.1 ++ rest →
    ∀ v ∈ units, u.cat = v.cat → rest ∈ v.ids →
    ∃ nu du bu pu nv dv bv pv, u.conv = .linear nu du bu pu ∧ v.conv = .linear nv dv bv pv ∧
      coefQ nu du = coefQ nv dv * pow10 pk.2 := by
  have hchk : prefixAllOk units = true := by decide +kernel
  have hok := units_all_convOk
  intro u hu idu hidu pk hpk rest hrest v hv hcat hmem
  obtain ⟨nu, du, bu, pu, nv, dv, bv, pv, hcu, hcv, hr⟩ :=
    prefix_ratio_of_check units hchk u hu idu hidu pk hpk rest hrest v hv hcat hmem
  refine ⟨nu, du, bu, pu, nv, dv, bv, pv, hcu, hcv, ?_⟩
  have h1 := List.all_eq_true.mp hok u hu
  have h2 := List.all_eq_true.mp hok v hv
  simp [hcu, convOk] at h1
  simp [hcv, convOk] at h2
  exact ratioIsPow10_spec nu du nv dv pk.2 hr h1.2 h2.2

/-! ### the laws for the DOUBLE implementation, up to rounding

  `ops` is any arithmetic satisfying the standard model with unit roundoff `u`
  (`RoundingModel ops u`; for temperature, which subtracts, `RoundingModelSub ops u`).
  `ResolvesTo a b ra rb`: the identifiers resolve to the table rows `ra`, `rb` of one category.
  `RangeOk ops ra.conv rb.conv x`: the (two) operations of the conversion at `x` give finite
  results, did not underflow and did not divide by zero.
  `G u k = (1-u)^-k − 1`, written out in the statements. -/

/-- whole table: every coefficient double is positive, finite and within relative distance
    `2^-53` of the exact rational value of its source expression -/
theorem table_coefficients_accurate : CoefAccurate u64 := table_coef_accurate

/-- whole table: within a category all rows are temperature rows or none is -/
theorem kind_determined_by_category : ∀ r ∈ units, ∀ s ∈ units, r.cat = s.cat →
    isScaling r.conv = isScaling s.conv := kind_of_category

/-- CONVERT vs EXACT, linear and reciprocal units (all four combinations: `(x·ca)/cb`,
    `cb/(x·ca)`, `(ca/x)/cb`, `cb/(ca/x)`): the double result is the exact-rational result
    times a factor made of `k = 4` roundings — two operations, two coefficients -/
theorem convert_error_bound (ops : NumOps) (u : ℚ) (M : RoundingModel ops u) (hC : CoefAccurate u)
    (x : F64) (hx : x.isFinite = true) (a b : List Nat) (ra rb : UnitRow)
    (hr : ResolvesTo a b ra rb) (hk : isScaling ra.conv = true)
    (hR : RangeOk ops ra.conv rb.conv x) :
    ∃ y q, convertF ops x a b = .ok y ∧ convertQ x.toRat a b = .ok (some q) ∧
      y.isFinite = true ∧ |y.toRat - q| ≤ (((1 - u) ^ 4)⁻¹ - 1) * |q| := by
  obtain ⟨hra, hrb, hF, hQ⟩ := hr.spec
  have hcat : ra.cat = rb.cat := by obtain ⟨_, _, _, _, _, _, h⟩ := hr; exact h
  have hkb : isScaling rb.conv = true := by rw [← kind_of_category ra hra rb hrb hcat]; exact hk
  obtain ⟨q, θ, hq, hθ, e, hf⟩ := scaling_factor M ra.conv rb.conv (hC ra hra) (hC rb hrb) hk hkb x hx hR
  exact ⟨_, q, hF ops x, by rw [hQ, hq], hf, hθ.error M.u_nonneg M.u_lt_one e⟩

/-- the factors of all the bounds of this section in the textbook form:
    `(1-u)^-k − 1 ≤ γₖ = k·u/(1 − k·u)` when `k·u < 1` -/
theorem rounding_factor_le_gamma (u : ℚ) (hu : 0 ≤ u) (hu1 : u < 1) (k : ℕ) (hk : (k : ℚ) * u < 1) :
    ((1 - u) ^ k)⁻¹ - 1 ≤ (k : ℚ) * u / (1 - (k : ℚ) * u) :=
  G_le_gamma hu hu1 k hk

/-- … and against the `(1+u)^k − 1` of C15: twice the count suffices (`u ≤ 1/2`); the same
    count does not (`1/(1-u) − 1 > u`) -/
theorem rounding_factor_le_pow (u : ℚ) (hu : 0 ≤ u) (hu2 : u ≤ 1 / 2) (k : ℕ) :
    ((1 - u) ^ k)⁻¹ - 1 ≤ (1 + u) ^ (2 * k) - 1 :=
  G_le_E_double hu hu2 k

theorem rounding_factor_not_pow (u : ℚ) (hu : 0 < u) (hu1 : u < 1) :
    (1 + u) ^ 1 - 1 < ((1 - u) ^ 1)⁻¹ - 1 := by
  have hp : 0 < 1 - u := by linarith
  rw [pow_one, pow_one, ← one_div, sub_lt_sub_iff_right, lt_div_iff₀ hp]
  nlinarith [mul_pos hu hu]

/-- … so for binary64 (`u = 2^-53`) a linear / reciprocal conversion is within
    `4/(2^53 − 4) < 4.5e-16` (relative) of the exact one -/
theorem convert_error_bound_binary64 (ops : NumOps) (M : RoundingModel ops u64)
    (x : F64) (hx : x.isFinite = true) (a b : List Nat) (ra rb : UnitRow)
    (hr : ResolvesTo a b ra rb) (hk : isScaling ra.conv = true)
    (hR : RangeOk ops ra.conv rb.conv x) :
    ∃ y q, convertF ops x a b = .ok y ∧ convertQ x.toRat a b = .ok (some q) ∧
      |y.toRat - q| ≤ 4 / (2 ^ 53 - 4) * |q| := by
  obtain ⟨y, q, h1, h2, _, h4⟩ :=
    convert_error_bound ops u64 M table_coef_accurate x hx a b ra rb hr hk hR
  refine ⟨y, q, h1, h2, h4.trans (mul_le_mul_of_nonneg_right ?_ (abs_nonneg _))⟩
  have := G_le_gamma u64_nonneg M.u_lt_one 4 (by unfold u64; norm_num)
  refine this.trans (le_of_eq ?_)
  unfold u64; norm_num

/-- SELF: converting a unit to itself returns `x` up to the TWO operation roundings (the
    coefficient is the same double in both steps and cancels) -/
theorem self_identity_up_to_rounding (ops : NumOps) (u : ℚ) (M : RoundingModel ops u)
    (hC : CoefAccurate u) (x : F64) (hx : x.isFinite = true) (a : List Nat) (ra : UnitRow)
    (hr : ResolvesTo a a ra ra) (hk : isScaling ra.conv = true)
    (hR : RangeOk ops ra.conv ra.conv x) :
    ∃ y, convertF ops x a a = .ok y ∧
      |y.toRat - x.toRat| ≤ (((1 - u) ^ 2)⁻¹ - 1) * |x.toRat| := by
  obtain ⟨hra, _, hF, _⟩ := hr.spec
  exact ⟨_, hF ops x, scaling_self M ra.conv (hC ra hra) hk x hx hR⟩

/-- THERE AND BACK: `x →(a→b)→ y →(b→a)→ z` returns `x` up to eight roundings -/
theorem there_and_back_up_to_rounding (ops : NumOps) (u : ℚ) (M : RoundingModel ops u)
    (hC : CoefAccurate u) (x : F64) (hx : x.isFinite = true) (a b : List Nat) (ra rb : UnitRow)
    (hr : ResolvesTo a b ra rb) (hk : isScaling ra.conv = true)
    (hR₁ : RangeOk ops ra.conv rb.conv x) (y : F64) (hy : convertF ops x a b = .ok y)
    (hR₂ : RangeOk ops rb.conv ra.conv y) :
    ∃ z, convertF ops y b a = .ok z ∧
      |z.toRat - x.toRat| ≤ (((1 - u) ^ 8)⁻¹ - 1) * |x.toRat| := by
  obtain ⟨hra, hrb, hF, _⟩ := hr.spec
  obtain ⟨_, _, hF', _⟩ := hr.symm.spec
  have hcat : ra.cat = rb.cat := by obtain ⟨_, _, _, _, _, _, h⟩ := hr; exact h
  have hkb : isScaling rb.conv = true := by rw [← kind_of_category ra hra rb hrb hcat]; exact hk
  have hy' : y = convRowF ops ra.conv rb.conv x := by
    have := (hF ops x).symm.trans hy; cases this; rfl
  subst hy'
  exact ⟨_, hF' ops _, scaling_there_back M ra.conv rb.conv (hC ra hra) (hC rb hrb) hk hkb x hx hR₁ hR₂⟩

/-- TRIANGLE: `x →(a→b)→ y →(b→c)→ z` against the exact `a→c` conversion `Q` of `x` (eight
    roundings) and against the direct double conversion `w` of `x` (eight plus four) -/
theorem triangle_up_to_rounding (ops : NumOps) (u : ℚ) (M : RoundingModel ops u)
    (hC : CoefAccurate u) (x : F64) (hx : x.isFinite = true) (a b c : List Nat)
    (ra rb rc : UnitRow) (hab : ResolvesTo a b ra rb) (hbc : ResolvesTo b c rb rc)
    (hk : isScaling ra.conv = true)
    (hR₁ : RangeOk ops ra.conv rb.conv x) (y : F64) (hy : convertF ops x a b = .ok y)
    (hR₂ : RangeOk ops rb.conv rc.conv y) (hR₃ : RangeOk ops ra.conv rc.conv x) :
    ∃ z w Q, convertF ops y b c = .ok z ∧ convertF ops x a c = .ok w ∧
      convertQ x.toRat a c = .ok (some Q) ∧
      |z.toRat - Q| ≤ (((1 - u) ^ 8)⁻¹ - 1) * |Q| ∧
      |z.toRat - w.toRat| ≤ ((((1 - u) ^ 8)⁻¹ - 1) + (((1 - u) ^ 4)⁻¹ - 1)) * |Q| := by
  obtain ⟨hra, hrb, hFab, _⟩ := hab.spec
  obtain ⟨_, hrc, hFbc, _⟩ := hbc.spec
  obtain ⟨_, hac⟩ := hab.trans hbc
  obtain ⟨_, _, hFac, hQac⟩ := hac.spec
  have hcat : ra.cat = rb.cat := by obtain ⟨_, _, _, _, _, _, h⟩ := hab; exact h
  have hcat' : rb.cat = rc.cat := by obtain ⟨_, _, _, _, _, _, h⟩ := hbc; exact h
  have hkb : isScaling rb.conv = true := by rw [← kind_of_category ra hra rb hrb hcat]; exact hk
  have hkc : isScaling rc.conv = true := by rw [← kind_of_category rb hrb rc hrc hcat']; exact hkb
  have hy' : y = convRowF ops ra.conv rb.conv x := by
    have := (hFab ops x).symm.trans hy; cases this; rfl
  subst hy'
  obtain ⟨Q, hQ, E1, E2⟩ := scaling_triangle M ra.conv rb.conv rc.conv (hC ra hra) (hC rb hrb)
    (hC rc hrc) hk hkb hkc x hx hR₁ hR₂ hR₃
  exact ⟨_, _, Q, hFbc ops _, hFac ops x, by rw [hQac, hQ], E1, E2⟩

/-- TEMPERATURE (additions and subtractions: the error is ABSOLUTE).  With `k` the number of
    roundings charged to the two functions (`tempCnt`: celsius 2, fahrenheit 4 to / 5 from
    kelvin; the literal `273.15` is itself rounded) and `m` the conversion formula with every
    term in absolute value (`tempMag`, e.g. celsius→fahrenheit: `(|x| + 2·273.15)·9/5 + 32`):
    `|double − exact| ≤ ((1-u)^-k − 1) · m` -/
theorem temperature_error_bound (ops : NumOps) (u : ℚ) (S : RoundingModelSub ops u)
    (hu64 : u64 ≤ u) (x : F64) (hx : x.isFinite = true) (a b : List Nat) (ra rb : UnitRow)
    (hr : ResolvesTo a b ra rb) (ta fa tb fb : TempFn)
    (ha : ra.conv = .temperature ta fa) (hb : rb.conv = .temperature tb fb)
    (hR : RangeOk ops ra.conv rb.conv x) :
    ∃ y, convertF ops x a b = .ok y ∧
      convertQ x.toRat a b = .ok (some (fb.evalQ (ta.evalQ x.toRat))) ∧ y.isFinite = true ∧
      |y.toRat - fb.evalQ (ta.evalQ x.toRat)| ≤
        (((1 - u) ^ (tempCnt ta + tempCnt fb))⁻¹ - 1) * tempMag fb (tempMag ta |x.toRat|) := by
  obtain ⟨_, _, hF, hQ⟩ := hr.spec
  rw [ha, hb] at hR
  obtain ⟨h1, h2, h3⟩ := Units.temperature_error_bound S hu64 ta fa tb fb x hx hR
  refine ⟨_, hF ops x, ?_, ?_, ?_⟩
  · rw [hQ, ha, hb, h1]
  · rw [ha, hb]; exact h2
  · rw [ha, hb]; exact h3

/-! ### non-vacuity: the hypotheses above are met by concrete table entries -/

-- the table is the expected size and the resolution routes are all taken
example : units.length = 201 := by decide +kernel
example : resolveCodes (codesOf "km") = .ok 4 := by decide +kernel            -- exact
example : resolveCodes (codesOf "KM") = .ok 4 := by decide +kernel            -- case-insensitive, unique
example : resolveCodes (codesOf "Kilometres") = .ok 4 := by decide +kernel
example : resolveCodes (codesOf "Mm") = .ok 21 ∧ resolveCodes (codesOf "mm") = .ok 6 := by decide +kernel
example : resolveCodes (codesOf "MM") = .ambiguous := by decide +kernel       -- mm / Mm
example : resolveCodes (codesOf "ma") = .ambiguous := by decide +kernel       -- MA / mA
example : resolveCodes (codesOf "c") = .ok 1 ∧ resolveCodes (codesOf "C") = .ok 140 := by decide +kernel  -- celsius / coulombs
example : resolveCodes (codesOf "foobar") = .unknown := by decide +kernel
example : resolveCodes (codesOf "Ω") = .ok 156 ∧ resolveCodes (codesOf "ω") = .ok 156 := by decide +kernel
example : resolveCodes [8490] = .ok 0 := by decide +kernel                    -- U+212A KELVIN SIGN ↦ k
-- `case_variant_resolves` applies to "KM": owner certificate says unit 4
example : caseOwner (codesOf "KM") = some 4 := by decide +kernel
-- cross-category hypotheses: km (length) vs kg (mass)
example : resolveCodes (codesOf "kg") = .ok 26 ∧
    (units.getD 4 default).cat ≠ (units.getD 26 default).cat := by decide +kernel
-- conversions over ℚ compute what they should
example : convertQ 1 (codesOf "km") (codesOf "m") = .ok (some 1000) := by decide +kernel
example : convertQ 100 (codesOf "celsius") (codesOf "fahrenheit") = .ok (some 212) := by decide +kernel
example : convertQ 0 (codesOf "mpg") (codesOf "l/100km") = .ok none := by decide +kernel
example : convertQ 1 (codesOf "kg") (codesOf "m") = .category := by decide +kernel
example : convertQ 1 (codesOf "MM") (codesOf "f") = .fromAmbiguous := by decide +kernel
-- `prefix_ratio` instance: "kilometers" = "kilo" ++ "meters"
example : codesOf "kilometers" = codesOf "kilo" ++ codesOf "meters" ∧
    (codesOf "kilo", (3 : Int)) ∈ metricPrefixes ∧
    codesOf "kilometers" ∈ (units.getD 4 default).ids ∧ codesOf "meters" ∈ (units.getD 3 default).ids ∧
    (units.getD 4 default).cat = (units.getD 3 default).cat := by decide +kernel
example : coefQ 1000 1 = coefQ 1 1 * pow10 3 := by decide +kernel
example : QConv.WellFormed (.linear (1000 : Rat)) := by simp [QConv.WellFormed]

-- ROUNDING.  The standard model is satisfiable with the unit roundoff of binary64 (correct
-- rounding by `F64.ofRatio`, guarded); that the HARDWARE operations `NumOps.native` satisfy
-- `RoundingModel NumOps.native 2^-53` is NOT proved (Lean's `Float` is opaque): the harness
-- validates it numerically (c17.rs compares the double conversions with the exact model on
-- every ordered pair × the magnitude pool).
example : RoundingModel guardedOps (1 / 2 ^ 53) := guardedOps_model
example : RoundingModelSub guardedOpsSub (1 / 2 ^ 53) := guardedOpsSub_model
example : CoefAccurate (1 / 2 ^ 53) := table_coef_accurate
-- km → m → km at x = 0.1: identifiers resolve to rows #4, #3 of one category, both linear,
-- and every side condition of there-and-back holds (decided in the kernel) …
example : ResolvesTo (codesOf "km") (codesOf "m") (units.getD 4 default) (units.getD 3 default) :=
  ⟨4, 3, by decide +kernel, by decide +kernel, rfl, rfl, by decide +kernel⟩
example : isScaling (units.getD 4 default).conv = true ∧ dbl01.isFinite = true ∧
    RangeOk guardedOps (units.getD 4 default).conv (units.getD 3 default).conv dbl01 ∧
    RangeOk guardedOps (units.getD 3 default).conv (units.getD 4 default).conv
      (convRowF guardedOps (units.getD 4 default).conv (units.getD 3 default).conv dbl01) := by
  decide +kernel
-- … so the theorem applies: 0.1 km → m → km is within (1-u)^-8 − 1 of 0.1
example : ∃ y z, convertF guardedOps dbl01 (codesOf "km") (codesOf "m") = .ok y ∧
    convertF guardedOps y (codesOf "m") (codesOf "km") = .ok z ∧
    |z.toRat - dbl01.toRat| ≤ (((1 - u64) ^ 8)⁻¹ - 1) * |dbl01.toRat| := by
  have hr : ResolvesTo (codesOf "km") (codesOf "m") (units.getD 4 default) (units.getD 3 default) :=
    ⟨4, 3, by decide +kernel, by decide +kernel, rfl, rfl, by decide +kernel⟩
  have hy := hr.spec.2.2.1 guardedOps dbl01
  obtain ⟨z, hz, hb⟩ := there_and_back_up_to_rounding guardedOps u64 guardedOps_model
    table_coef_accurate dbl01 (by decide +kernel) _ _ _ _ hr (by decide +kernel)
    (by decide +kernel) _ hy (by decide +kernel)
  exact ⟨_, z, hy, hz, hb⟩
-- reciprocal: mpg (#164, reciprocal) ↔ l/100km (#163, linear) at x = 0.3, both directions
example : ResolvesTo (codesOf "mpg") (codesOf "l/100km") (units.getD 164 default) (units.getD 163 default) :=
  ⟨164, 163, by decide +kernel, by decide +kernel, rfl, rfl, by decide +kernel⟩
example : isScaling (units.getD 164 default).conv = true ∧
    RangeOk guardedOps (units.getD 164 default).conv (units.getD 163 default).conv dbl03 ∧
    RangeOk guardedOps (units.getD 163 default).conv (units.getD 164 default).conv
      (convRowF guardedOps (units.getD 164 default).conv (units.getD 163 default).conv dbl03) ∧
    RangeOk guardedOps (units.getD 164 default).conv (units.getD 164 default).conv dbl03 := by
  decide +kernel
example : ∃ y q, convertF guardedOps dbl03 (codesOf "mpg") (codesOf "l/100km") = .ok y ∧
    convertQ dbl03.toRat (codesOf "mpg") (codesOf "l/100km") = .ok (some q) ∧
    |y.toRat - q| ≤ 4 / (2 ^ 53 - 4) * |q| :=
  convert_error_bound_binary64 guardedOps guardedOps_model dbl03 (by decide +kernel) _ _ _ _
    ⟨164, 163, by decide +kernel, by decide +kernel, rfl, rfl, by decide +kernel⟩
    (by decide +kernel) (by decide +kernel)
-- the side conditions are not decoration: a reciprocal conversion of 0 is outside them
example : ¬ RangeOk guardedOps (units.getD 164 default).conv (units.getD 163 default).conv F64.zero := by
  decide +kernel
-- temperature: celsius (#1) → fahrenheit (#2) at x = 0.5; 2 + 5 roundings at magnitude
-- (0.5 + 2·273.15)·9/5 + 32
example : ResolvesTo (codesOf "celsius") (codesOf "fahrenheit") (units.getD 1 default) (units.getD 2 default) ∧
    RangeOk guardedOpsSub (units.getD 1 default).conv (units.getD 2 default).conv dblHalf :=
  ⟨⟨1, 2, by decide +kernel, by decide +kernel, rfl, rfl, by decide +kernel⟩, by decide +kernel⟩
example : tempCnt .celsius_to_kelvin + tempCnt .kelvin_to_fahrenheit = 7 ∧
    tempMag .kelvin_to_fahrenheit (tempMag .celsius_to_kelvin (1 / 2)) = (1 / 2 + 2 * (5463 / 20)) * 9 / 5 + 32 := by
  constructor
  · rfl
  · simp only [tempMag]; ring
-- `rounding_factor_le_gamma` for k = 8 and binary64
example : (0 : ℚ) ≤ u64 ∧ u64 < 1 ∧ ((8 : ℕ) : ℚ) * u64 < 1 := by unfold u64; norm_num

end Blots.C17
