import Blots.Lemmas.Emit
import Blots.Lemmas.EmitParse
/-
  C05 — function outputs are portable: emitted source reloads to an equivalent function.

  The emitter (`exprSrc sc` = `expr_to_source_with_scope`, `svToSource` =
  `serializable_value_to_source`, `valueToSV` / `capturedToSV` = `SerializableValue::from_value`
  / `from_captured_value`) produces TEXT; the parser is not modelled at character level.  The
  argument is therefore organised at the AST level (definitions and lemmas in
  `Lemmas/Emit.lean`) with an explicit, small interface to text:

    `pf : ParseFn`   (`parse_function_source`: text ↦ parameters and `expr_to_source` of the body)
    `pb : ParseBody` (text of a body ↦ its tree),

  and every use of the interface is a visible hypothesis of the form "the parser reads the
  printed form of this tree back to this tree" — the C07 / C10 parse-back property, validated
  on the real parser by the harness (`props/c05.rs`, `props/c07.rs`, `props/c10.rs`).

  PROVED here, for all inputs (no bound):
   (A) `svToExpr` = the expression a literal denotes; `substExpr` = inlining at the AST level;
       `emit_is_substitution_partial`: the emitted text IS the plain print of the substituted
       tree, for scopes whose literals carry no protective parentheses (`ScopeBare`); the
       unrestricted textual equality is FALSE (`emit_is_substitution_statement_false`: the two
       texts differ by redundant parentheses for negative numbers, NaN, two-quote strings,
       functions).
   (B) every literal evaluates to the captured value, in every state
       (`literal_evaluates_to_value`): negative numbers incl. `-0.0`, `-inf` (bit-level),
       `+inf`, NaN (to whatever NaN `0/0` gives), strings with both quote kinds, nested lists
       and records (static and computed keys), built-in names.
   (C) scope bookkeeping: parameters and do-block locals are never inlined
       (`subst_respects_parameters`, `subst_respects_do_locals`, the old defect as an example).
   (D) the substitution lemma (`subst_lemma_partial`) on the fragment `Emit.frag`, and the
       counterexample that shows why an assignment that is NOT a direct do-block statement
       must be excluded (`nested_assignment_breaks_reload` — a GENUINE DEFECT of the emitter,
       confirmed on the real binary: `x = 5; f = () => [x = 1, x]`).
   (E) reload: structure of the reloaded function (`reload_structure`), `extend_lambda_body`
       (`extendLambdaBody_graft`), equivalence of calls (`reload_equiv_partial`), fixed point
       of re-emission (`re_emit_fixed_point`, `re_emit_same_text`).

   (F) END TO END, no parser parameter (`Lemmas/EmitParse.lean`): the interface instantiated by
       the MODEL PARSER (`pfModel` / `pbModel` over `ExprPeg.parseText`, the character-level PEG
       model of C10) and both interface equations PROVED for the class `Portable` — bodies in
       the intersection of `Emit.frag` and the PEG fragment, literal captures whose text is in
       the PEG fragment, negative integers (emitted `(-n)`, redundant parentheses) included:
       `model_parser_meets_interface`, `emitted_text_parses_as_function`,
       `reload_equiv_fragment` (closed after capture) / `reload_equiv_fragment_open`.

  NOT proved: the full statements `subst_lemma_statement` / `reload_equiv_statement` (bodies
  with calls, lambda expressions, `output`; captured closures): they need a logical relation
  between closures ("equal up to inlining of their captured scopes") instead of equality of
  values; and the character-level parse-back OUTSIDE the class of (F) (strings, records,
  do-blocks, non-integer numbers: not yet in the PEG model; there the interface hypotheses of
  (E) remain).
-/
namespace Blots.C05
open Blots.Emit Blots.PrintL

/-! ### (A) the emitted text is the print of the substituted tree -/

/-- `expr_to_source` is `expr_to_source_with_scope` with nothing to inline -/
theorem exprToSource_is_empty_scope (e : Expr) : exprToSource e = exprSrc [] e := rfl

/-- with nothing to inline the AST-level substitution changes no identifier -/
theorem subst_empty_scope_ident (pb : String → Option Expr) (n : String) :
    substExpr pb [] (.ident n) = .ident n := rfl

/-- the text of a literal without protective parentheses is the plain print of the expression
    it denotes (at every nesting level) -/
theorem literal_text_is_printed_literal (pb : String → Option Expr) (v : SV) (h : bare v = true) :
    svToSource v = exprSrc [] (svToExpr pb v) := svToSource_bare pb v h

/-- the negative-number, NaN and two-quote literals are the parenthesised prints of what they
    denote (`(-a)`, `(a + b + …)`), NaN up to blanks (`(0/0)` against `0 / 0`) -/
theorem protected_literal_texts (pb : String → Option Expr) (x : F64) (s : String) :
    (x.isNaN = false → x.neg = true →
      svToSource (.num x) = "(" ++ exprSrc [] (svToExpr pb (.num x)) ++ ")") ∧
    (x.isNaN = true → svToSource (.num x) = "(0/0)" ∧
      svToExpr pb (.num x) = .bin .div (.num F64.zero) (.num F64.zero)) ∧
    (bothQuotes s = true →
      svToSource (.str s) = "(" ++ " + ".intercalate ((quotedPieces s.toList).map litOf) ++ ")" ∧
      svToExpr pb (.str s) = strChain (pieces s.toList)) := by
  refine ⟨fun h1 h2 => ?_, fun h => ?_, fun h => ?_⟩
  · have hnp := (atomHead_shape (.num x.negate) rfl).1 .prefix_
    simp [svToSource, svToExpr, numToExpr, h1, h2, exprSrc, unaryOpToSource, parenIf, hnp,
      String.append_assoc]
    rw [show ("(-" : String) = "(" ++ "-" by decide, String.append_assoc]
  · simp [svToSource, svToExpr, numToExpr, h]
  · simp only [bothQuotes, Bool.and_eq_true, List.contains_iff_mem] at h
    refine ⟨by simp only [svToSource]; exact stringToSource_both s h.1 h.2, ?_⟩
    simp [svToExpr, strToExpr, bothQuotes, h.1, h.2]

/-- EMITTED TEXT = PRINT OF THE SUBSTITUTED TREE, for scopes of bare literals bound to
    identifier names: `expr_to_source_with_scope(e, sc)` is character for character
    `expr_to_source(substExpr sc e)`.  This reduces "the emitted text parses back to …" to the
    parse-back of printed trees (C07 / C10). -/
theorem emit_is_substitution_partial (pb : String → Option Expr) (e : Expr) (sc : Scope)
    (h : ScopeBare sc) : exprSrc sc e = exprSrc [] (substExpr pb sc e) := emit_expr pb e sc h

/-- the unrestricted statement -/
def emit_is_substitution_statement : Prop :=
  ∀ (pb : String → Option Expr) (e : Expr) (sc : Scope), exprSrc sc e = exprSrc [] (substExpr pb sc e)

/-- … is false: a captured negative number is printed `(-a)` by the emitter and `-a` by the
    plain printer (harmless: both parse to the same tree; the side condition `ScopeBare` of the
    partial theorem is exactly "no protective parentheses") -/
theorem emit_is_substitution_statement_false : ¬ emit_is_substitution_statement := by
  intro h
  have := h (fun _ => none) (.ident "x") [("x", .num F64.negZero)]
  have hn : F64.negZero.isNaN = false := by decide +kernel
  have hs : F64.negZero.neg = true := by decide +kernel
  have hnp := (atomHead_shape (.num F64.negZero.negate) rfl).1 .prefix_
  simp only [exprSrc, substExpr, lookupAL, if_true, svToSource, svToExpr, numToExpr, hn, hs,
    Bool.false_eq_true, if_false, unaryOpToSource, parenIf, hnp] at this
  have h2 := congrArg (fun s => s.toList.head?) this
  simp at h2

/-- the text of an emitted function (`to_json`: `"(args) => " ++ body text`) is the print of
    the lambda expression over the substituted body, when the body is not a
    via / into / where chain (else the print has parentheses around the body that the emitted
    text lacks: see `extendLambdaBody_graft`) -/
theorem emitted_function_source_is_printed_lambda (pb : String → Option Expr) (args : List LArg)
    (body : Expr) (sc : Scope) (h : ScopeBare sc) (hb : lambdaBodyNeedsParens body = false) :
    lambdaSource args (exprSrc sc body) = exprSrc [] (.lambda args (substExpr pb sc body)) := by
  have e0 : ∀ (a : List LArg), scopeMinusArgs [] a = [] := by
    intro a; induction a with
    | nil => rfl
    | cons x xs ih => simpa [scopeMinusArgs, scopeRemove] using ih
  have hp := lbnp_subst pb body sc h
  simp only [lambdaSource, exprSrc]
  rw [show List.foldl (fun s a => scopeRemove s a.name) [] args = scopeMinusArgs [] args from rfl,
    e0, hp, hb, emit_expr pb body sc h]
  rfl

/-! ### (B) literals evaluate to the captured value -/

/-- bit level: for every pattern with the sign bit — negative numbers, `-0.0`, `-inf` (and
    negative NaNs) — the unary minus of the sign-cleared magnitude is the pattern itself, and
    the operand printed after the `-` has no sign bit (so it prints without a minus) -/
theorem negate_of_magnitude_is_identity (x : F64) (h : x.neg = true) :
    x.negate.negate = x ∧ x.negate.neg = false :=
  ⟨F64.negate_negate_of_neg x h, F64.negate_of_neg_not_neg x h⟩

/-- LITERALS EVALUATE TO THE CAPTURED VALUE: for every function-free captured value `v`
    (numbers of every kind, strings, booleans, null, nested lists and records, built-in
    names), every state, depth and fuel ≥ `litFuel v` (a bound on the size of the literal):
    the expression its text denotes evaluates to `v` and leaves the state alone.  NaN: the
    literal is `0/0`, which evaluates to `ops.div 0 0` — `svToValueN q` is `v` with every NaN
    replaced by `q`. -/
theorem literal_evaluates_to_value (ops : NumOps) (pb : String → Option Expr) (v : SV)
    (h : noLambda v = true) (f : Nat) (hf : litFuel v ≤ f) (d : Nat) (st : ES) :
    eval ops f d (svToExpr pb v) st = (.ok (svToValueN (ops.div F64.zero F64.zero) v), st) :=
  lit_eval ops pb v h f hf d st

/-- … and for data as an evaluation produces it (no NaN, record keys distinct) that is the
    value itself, tree for tree, records in their order -/
theorem literal_evaluates_to_value_exact (ops : NumOps) (pb : String → Option Expr) (v : SV)
    (h : isLit v = true) (f : Nat) (hf : litFuel v ≤ f) (d : Nat) (st : ES) :
    eval ops f d (svToExpr pb v) st = (.ok (svToValue v), st) := by
  rw [lit_eval ops pb v (isLit_noLambda v h) f hf d st, svToValueN_lit _ v h]

/-- NaN: `(0/0)` evaluates to a NaN provided the division of the platform does (assumption on
    `ops`, validated by the harness for the native operations: `0.0 / 0.0` is NaN) -/
theorem nan_literal_evaluates_to_nan (ops : NumOps) (pb : String → Option Expr) (x : F64)
    (hx : x.isNaN = true) (hops : (ops.div F64.zero F64.zero).isNaN = true) (f : Nat) (hf : 2 ≤ f)
    (d : Nat) (st : ES) :
    ∃ y, y.isNaN = true ∧ eval ops f d (svToExpr pb (.num x)) st = (.ok (.num y), st) := by
  refine ⟨ops.div F64.zero F64.zero, hops, ?_⟩
  rw [lit_eval ops pb (.num x) rfl f hf d st]
  simp [svToValueN, hx]

/-- negative numbers, `-0.0`, `-inf`: `-(magnitude)` evaluates to the number, bit for bit;
    `+inf` (`1e999`) and every other number are their own literal -/
theorem number_literal_evaluates_to_number (ops : NumOps) (pb : String → Option Expr) (x : F64)
    (hx : x.isNaN = false) (f : Nat) (hf : 2 ≤ f) (d : Nat) (st : ES) :
    eval ops f d (svToExpr pb (.num x)) st = (.ok (.num x), st) := by
  rw [lit_eval ops pb (.num x) rfl f hf d st]
  simp [svToValueN, hx]

/-- strings with both quote kinds: the `+` chain of the pieces evaluates to the string -/
theorem string_literal_evaluates_to_string (ops : NumOps) (s : String) (f : Nat)
    (hf : 1 + (pieces s.toList).length ≤ f) (d : Nat) (st : ES) :
    eval ops f d (strToExpr s) st = (.ok (.str s), st) :=
  eval_strToExpr ops s f hf d st

/-! ### (C) scope bookkeeping -/

/-- `scopeRemove`: the removed name is gone, every other binding is kept -/
theorem scopeRemove_lookup (sc : Scope) (n m : String) :
    lookupAL m (scopeRemove sc n) = if m = n then none else lookupAL m sc :=
  lookupAL_scopeRemove sc n m

/-- inside a function the parameters are never inlined: the body is substituted with the
    parameters removed from the scope, so an occurrence of a parameter stays an identifier -/
theorem subst_respects_parameters (pb : String → Option Expr) (sc : Scope) (args : List LArg)
    (body : Expr) (x : String) (hx : x ∈ args.map LArg.name) :
    substExpr pb sc (.lambda args body) = .lambda args (substExpr pb (scopeMinusArgs sc args) body) ∧
    lookupAL x (scopeMinusArgs sc args) = none ∧
    substExpr pb (scopeMinusArgs sc args) (.ident x) = .ident x := by
  have h : lookupAL x (scopeMinusArgs sc args) = none := by
    rw [lookupAL_scopeMinusArgs]; simp [hx]
  exact ⟨by simp only [substExpr], h, substExpr_ident_none pb _ x h⟩

/-- … and so are the names assigned by the direct statements of a do-block, in everything
    after the assignment: the statements that follow and the `return` expression -/
theorem subst_respects_do_locals (pb : String → Option Expr) (sc : Scope) (stmts : List Item)
    (ret : Item) (x : String) (hx : x ∈ boundAfterStmts [] stmts) :
    substExpr pb sc (.doBlock stmts ret) =
      .doBlock (substStmts pb sc stmts) (substItem pb (scopeAfterStmts sc stmts) ret) ∧
    lookupAL x (scopeAfterStmts sc stmts) = none ∧
    substExpr pb (scopeAfterStmts sc stmts) (.ident x) = .ident x := by
  have h : lookupAL x (scopeAfterStmts sc stmts) = none := by
    rw [lookupAL_scopeAfterStmts]; simp [hx]
  exact ⟨by simp only [substExpr], h, substExpr_ident_none pb _ x h⟩

/-- statement by statement: what follows an assignment `x = …` is substituted without `x` -/
theorem subst_statement_by_statement (pb : String → Option Expr) (sc : Scope) (l : List String)
    (x : String) (v : Expr) (t : Option String) (rest : List Item) :
    substStmts pb sc (.mk l (.assign x v) t :: rest) =
      .mk l (.assign x (substExpr pb sc v)) t :: substStmts pb (scopeRemove sc x) rest := by
  simp only [substStmts, substItem, substExpr, scopeAfterStmt]

/-- names that are not removed keep their captured value -/
theorem subst_inlines_captured (pb : String → Option Expr) (sc : Scope) (x : String) (v : SV)
    (h : lookupAL x sc = some v) : substExpr pb sc (.ident x) = svToExpr pb v := by
  simp only [substExpr, h]

/-! ### (D) the substitution lemma -/

/-- THE SUBSTITUTION LEMMA, proved part.  Fragment `frag`: literals, identifiers, `#field`,
    built-in names, lists, records (static, computed, shorthand and spread entries),
    conditionals, index and field access, unary operators, factorial, spread, all binary
    operators except `via` / `into` / `where`, and do-blocks whose direct statements are such
    expressions or assignments of such expressions (any nesting).  NOT covered: calls and the
    three calling operators, lambda expressions, `output`, assignments that are not direct
    do-block statements.

    `Rel q K N sc A B`: environment `A` binds every name of the scope `sc` to the value its
    literal denotes (a function-free value whose literal needs at most `K` fuel; the name is
    not `inf` / `infinity` / `constants`), `B` need not bind them at all; every OTHER name of
    `N` (a set containing the names free in `e`) and `inputs` are resolved alike by `A` and `B`.

    Then: whenever evaluating `e` in `A` gives an answer (value or error) with fuel `f`,
    evaluating the substituted expression in `B` gives the same answer with fuel `f + K`. -/
theorem subst_lemma_partial (ops : NumOps) (pb : String → Option Expr) (K f d : Nat) (e : Expr)
    (sc : Scope) (N : String → Prop) (sA sB : ES) (he : frag e = true)
    (hN : ∀ n, FreeIn n e → N n)
    (hrel : Rel (ops.div F64.zero F64.zero) K N sc sA.env sB.env)
    (hf : (eval ops f d e sA).1 ≠ .fuel) :
    (eval ops (f + K) d (substExpr pb sc e) sB).1 = (eval ops f d e sA).1 :=
  subst_eval ops pb K f d e sc N sA sB he hN hrel hf

/-- … and neither evaluation changes its environment (the fragment writes only do-block
    frames, which are dropped) -/
theorem subst_lemma_partial_env (ops : NumOps) (pb : String → Option Expr) (K f d : Nat) (e : Expr)
    (sc : Scope) (N : String → Prop) (sA sB : ES) (he : frag e = true)
    (hN : ∀ n, FreeIn n e → N n)
    (hrel : Rel (ops.div F64.zero F64.zero) K N sc sA.env sB.env)
    (hf : (eval ops f d e sA).1 ≠ .fuel) :
    (eval ops f d e sA).2.env = sA.env ∧ (eval ops (f + K) d (substExpr pb sc e) sB).2.env = sB.env := by
  obtain ⟨h1, h2⟩ := (simStep ops pb K f).eval N d e sc sA sB he hN hrel
  rcases h2 with h2 | h2
  · exact absurd h2 hf
  · exact ⟨h1, h2.2⟩

/-- The full statement (NOT proved): every body without an assignment outside the direct
    statements of do-blocks (`noNestedAssign`), calls and function expressions included;
    because the closures the two evaluations create differ (one captures, the other has the
    literals inlined) the conclusion is about data results and about failing alike.  Proving
    it needs a logical relation on closures instead of equality of values. -/
def subst_lemma_statement : Prop :=
  ∀ (ops : NumOps) (pb : String → Option Expr) (K f d : Nat) (e : Expr) (sc : Scope)
    (N : String → Prop) (sA sB : ES),
    noNestedAssign e = true → (∀ n, FreeIn n e → N n) →
    (∀ t, pb (exprSrc [] t) = some t) →
    Rel (ops.div F64.zero F64.zero) K N sc sA.env sB.env →
    sA.names = sB.names → sA.nextId = sB.nextId →
    (∀ v, (eval ops f d e sA).1 = .ok v → isData v = true →
      ∃ f', (eval ops f' d (substExpr pb sc e) sB).1 = .ok v) ∧
    (∀ k, (eval ops f d e sA).1 = .err k →
      ∃ f' k', (eval ops f' d (substExpr pb sc e) sB).1 = .err k')

/-! ### (E) reload -/

/-- `extend_lambda_body` undoes what the parser does to the text `(args) => <body>` when the
    body is a via / into / where chain: whatever part of the left spine of binary operators
    the lambda was pushed under (`graft`: all of it; `graftChain`: as far as
    `lambdaBodyNeedsParens` says the body is exposed, which is what the parser builds), the
    result is the function with the whole body -/
theorem extendLambdaBody_graft (args : List LArg) (b : Expr) :
    extendLambdaBody (graft args b) = .lambda args b ∧
    extendLambdaBody (graftChain args b) = .lambda args b ∧
    parseFunctionSource [graft args b] = some (args, exprToSource b) ∧
    parseFunctionSource [graftChain args b] = some (args, exprToSource b) :=
  ⟨Emit.extendLambdaBody_graft args b, extendLambdaBody_graftChain args b,
   parseFunctionSource_graft args b [], parseFunctionSource_graftChain args b []⟩

/-- STRUCTURE OF A RELOADED FUNCTION.  `from_value` of a function value is its parameter list
    and the text `exprSrc sc body` (`sc` = `from_captured_value` of the captured scope);
    `to_json` makes it the one-member object `{"__blots_function": "(args) => text"}`; that
    text is never mistaken for a built-in name; if `parse_function_source` reads it as
    `(args', body')` and the body text `body'` parses to `b`, the value loaded from the JSON is
    a function with parameters `args'`, body `b` and an EMPTY captured scope. -/
theorem reload_structure (pf : ParseFn) (pb : ParseBody) (id : Nat) (args : List LArg) (body : Expr)
    (scope : Frame) (sc : Scope) (hsc : capturedRecToSV scope = some sc)
    (args' : List LArg) (body' : String) (b : Expr)
    (hpf : pf (lambdaSource args (exprSrc sc body)) = some (args', body')) (hpb : pb body' = some b) :
    valueToSV (.lambda id args body scope) = some (.lambda args (exprSrc sc body)) ∧
    toJson (.lambda args (exprSrc sc body)) =
      .obj [("__blots_function", .str (lambdaSource args (exprSrc sc body)))] ∧
    isBuiltinName (lambdaSource args (exprSrc sc body)) = false ∧
    readJson pf pb (toJson (.lambda args (exprSrc sc body))) = .ok (.lambda 0 args' b []) := by
  refine ⟨by simp [valueToSV, hsc], by simp [toJson], lambdaSource_not_builtin _ _, ?_⟩
  simp [readJson, toJson, Json.norm, Json.normMembers, collectSorted, insertSorted, fromJson, fnObject,
    lookupAL, lambdaSource_not_builtin, hpf, toValue, hpb]

/-- RELOAD GIVES AN EQUIVALENT FUNCTION, proved part.  Original: `.lambda idA ps body scope`
    in a program state `sA`.  Hypotheses:
    * the body is in the fragment `frag` (see `subst_lemma_partial`);
    * captured values are data as evaluation produces it (`isLit`: no NaN — for NaN see
      `literal_evaluates_to_value` —, no function, distinct record keys) or built-ins, bound to
      names that are not special identifiers, parameters or `inputs` (what `captureScope`
      produces);
    * CLOSED AFTER CAPTURE: every name free in the body is a parameter, captured, or resolved
      alike by the two programs (built-ins) and not the display name of either function;
    * INTERFACE TO TEXT (C07 / C10 parse-back, validated by the harness): the emitted text is
      read by `parse_function_source` as the parameters `ps` and the print of `b`, and that
      print parses to `b`, where `b = substExpr sc body` is the substituted body.
    Then the JSON output loads as `.lambda 0 ps b []` and, for every argument tuple, depth and
    caller, whenever the original call gives an answer (value or error, including arity and
    depth errors) the reloaded one gives the same answer. -/
theorem reload_equiv_partial (ops : NumOps) (pf : ParseFn) (pb : ParseBody) (K idA : Nat)
    (ps : List LArg) (body : Expr) (scope : Frame) (sc : Scope) (sA sB : ES)
    (hfrag : frag body = true)
    (hsc : capturedRecToSV scope = some sc)
    (hv : ∀ n sv, lookupAL n sc = some sv →
      isLit sv = true ∧ litFuel sv ≤ K ∧ n ∉ Gen.specialIdents ∧ n ∉ ps.map LArg.name ∧ n ≠ "inputs")
    (hfree : ∀ n, FreeIn n body → n ∉ ps.map LArg.name → lookupAL n sc = none →
      envGet sA.env n = envGet sB.env n ∧ nameOf sA.names idA ≠ some n ∧ nameOf sB.names 0 ≠ some n)
    (hin : envGet sA.env "inputs" = envGet sB.env "inputs" ∧
      nameOf sA.names idA ≠ some "inputs" ∧ nameOf sB.names 0 ≠ some "inputs")
    (hpf : pf (lambdaSource ps (exprSrc sc body)) = some (ps, exprSrc [] (substExpr pb sc body)))
    (hpb : pb (exprSrc [] (substExpr pb sc body)) = some (substExpr pb sc body)) :
    readJson pf pb (toJson (.lambda ps (exprSrc sc body))) = .ok (.lambda 0 ps (substExpr pb sc body) []) ∧
    ∀ (thisA thisB : Value) (args : List Value) (depth f : Nat),
      (callFn ops (f + 1) (.lambda idA ps body scope) thisA args depth sA).1 ≠ .fuel →
      (callFn ops (f + K + 1) (.lambda 0 ps (substExpr pb sc body) []) thisB args depth sB).1 =
        (callFn ops (f + 1) (.lambda idA ps body scope) thisA args depth sA).1 := by
  refine ⟨(reload_structure pf pb idA ps body scope sc hsc ps _ _ hpf hpb).2.2.2, ?_⟩
  intro thisA thisB args depth f hf
  have himg := scopeImage_of_captured (ops.div F64.zero F64.zero) K ps sc scope hsc hv
  exact reload_call ops pb K f idA 0 ps body scope sc thisA thisB args depth sA sB hfrag
    (fun pfr hb => rel_of_closed _ K ps body sc scope idA 0 thisA thisB args pfr sA sB himg hfree hin hb) hf

/-- The full statement (NOT proved): any body without nested assignment, captured values of
    every kind; conclusion for data results and failures.  Missing: `subst_lemma_statement`. -/
def reload_equiv_statement : Prop :=
  ∀ (ops : NumOps) (pf : ParseFn) (pb : ParseBody) (idA : Nat) (ps : List LArg) (body : Expr)
    (scope : Frame) (sc : Scope) (sA sB : ES),
    noNestedAssign body = true →
    capturedRecToSV scope = some sc →
    (∀ n, FreeIn n body → n ∉ ps.map LArg.name → lookupAL n sc = none →
      envGet sA.env n = envGet sB.env n ∧ nameOf sA.names idA ≠ some n ∧ nameOf sB.names 0 ≠ some n) →
    (envGet sA.env "inputs" = envGet sB.env "inputs" ∧
      nameOf sA.names idA ≠ some "inputs" ∧ nameOf sB.names 0 ≠ some "inputs") →
    (∀ t, pb (exprSrc [] t) = some t) →
    pf (lambdaSource ps (exprSrc sc body)) = some (ps, exprSrc [] (substExpr pb sc body)) →
    ∀ (thisA thisB : Value) (args : List Value) (depth f : Nat),
      (∀ v, (callFn ops f (.lambda idA ps body scope) thisA args depth sA).1 = .ok v → isData v = true →
        ∃ f', (callFn ops f' (.lambda 0 ps (substExpr pb sc body) []) thisB args depth sB).1 = .ok v) ∧
      (∀ k, (callFn ops f (.lambda idA ps body scope) thisA args depth sA).1 = .err k →
        ∃ f' k', (callFn ops f' (.lambda 0 ps (substExpr pb sc body) []) thisB args depth sB).1 = .err k')

/-- EMITTING A RELOADED FUNCTION AGAIN.  A reloaded function has an empty scope, so its
    emitted text is the plain print of its body; if the parser reads that print back to the
    body (parse-back), loading it again gives the very same function value: from the first
    reload on, emit ∘ reload is the identity — for captured values of EVERY kind. -/
theorem re_emit_fixed_point (pf : ParseFn) (pb : ParseBody) (ps : List LArg) (b : Expr)
    (hpf : pf (lambdaSource ps (exprSrc [] b)) = some (ps, exprSrc [] b))
    (hpb : pb (exprSrc [] b) = some b) :
    valueToSV (.lambda 0 ps b []) = some (.lambda ps (exprSrc [] b)) ∧
    readJson pf pb (toJson (.lambda ps (exprSrc [] b))) = .ok (.lambda 0 ps b []) := by
  have h := reload_structure pf pb 0 ps b [] [] rfl ps _ b hpf hpb
  exact ⟨h.1, h.2.2.2⟩

/-- … and for scopes of bare literals the second-generation text is character for character
    the first-generation text: `from_value (reloaded) = from_value (original)` -/
theorem re_emit_same_text (pb : ParseBody) (idA : Nat) (ps : List LArg) (body : Expr) (scope : Frame)
    (sc : Scope) (hsc : capturedRecToSV scope = some sc) (hbare : ScopeBare sc) :
    valueToSV (.lambda 0 ps (substExpr pb sc body) []) = valueToSV (.lambda idA ps body scope) := by
  simp only [valueToSV, capturedRecToSV, hsc, emit_expr pb body sc hbare]

/-- OTHER CLOSURES as captured values: `from_captured_value` of a closure (own captured scope
    `sc'` of bare literals) is written into the enclosing function's source as the
    parenthesised print of the lambda expression over ITS substituted body — the body in
    parentheses of its own when it is a via / into / where chain — and, given the parse-back
    of that body text, the literal denotes that lambda expression -/
theorem captured_closure_literal (pb : ParseBody) (id : Nat) (args : List LArg) (body : Expr)
    (scope' : Frame) (sc' : Scope) (hsc : capturedRecToSV scope' = some sc') (hbare : ScopeBare sc')
    (hpb : pb (parenIf (lambdaBodyNeedsParens body) (exprSrc sc' body)) = some (substExpr pb sc' body)) :
    ∃ sv, capturedToSV (.lambda id args body scope') = some sv ∧
      svToSource sv = "(" ++ exprSrc [] (.lambda args (substExpr pb sc' body)) ++ ")" ∧
      svToExpr pb sv = .lambda args (substExpr pb sc' body) := by
  refine ⟨.lambda args (parenIf (lambdaBodyNeedsParens body) (exprSrc sc' body)),
    by simp [capturedToSV, hsc], ?_, by simp [svToExpr, hpb]⟩
  have e0 : ∀ (a : List LArg), scopeMinusArgs [] a = [] := by
    intro a; induction a with
    | nil => rfl
    | cons x xs ih => simpa [scopeMinusArgs, scopeRemove] using ih
  simp only [svToSource, exprSrc]
  rw [show List.foldl (fun s a => scopeRemove s a.name) [] args = scopeMinusArgs [] args from rfl,
    e0, lbnp_subst pb body sc' hbare, emit_expr pb body sc' hbare]
  simp only [String.append_assoc]
  rw [show ("((" : String) = "(" ++ "(" by decide, String.append_assoc]

/-! ### (F) end to end: the text interface discharged with the model parser -/

section endToEnd
open Blots.EmitParse

/-- THE CLASS `Portable ps body sc` (decidable: `portable ps body sc = true`) is inside both
    fragments: the body is in the C05 fragment `frag` of the substitution lemma and, with its
    substituted form, in the PEG fragment `ExprPeg.Frag` of the C10 round trip, and it is no
    `via` / `into` / `where` chain — so the emitter's unparenthesised top-level body is the
    simple case and `extend_lambda_body` (`extendLambdaBody_graft`) has nothing to repair.
    (`frag` excludes `via` / `into` / `where` anyway: they call.) -/
theorem portable_in_both_fragments (pb : ParseBody) (ps : List LArg) (body : Expr) (sc : Scope)
    (h : Portable ps body sc) :
    frag body = true ∧ ExprPeg.Frag body ∧ ExprPeg.Frag (substExpr pb sc body) ∧
      lambdaBodyNeedsParens body = false :=
  ⟨bodyOkB_emitFrag false body h.body, bodyOkB_pegFrag false body h.body,
    subst_fragB pb sc h.scope false body h.body, bodyOk_lbnp false body h.body⟩

/-- THE MODEL PARSER MEETS THE INTERFACE: for every function of the class, the two parse-back
    hypotheses of `reload_structure` / `reload_equiv_partial` hold with `pf := pfModel`
    (`parse_function_source` over the model parser) and `pb := pbModel` (the model parser):
    the emitted `__blots_function` text is read as the parameters and the print of the
    substituted body, and that print is read as the substituted body.  The emitted text is in
    general NOT the print of the substituted tree (a captured `-4` is written `(-4)` everywhere,
    see `emitted_text_is_not_the_plain_print`); the proof goes through the concrete syntax tree
    of the emitted text (`EmitParse.emitCst`) and `ExprPeg.cst_roundtrip`. -/
theorem model_parser_meets_interface (ps : List LArg) (body : Expr) (sc : Scope)
    (h : Portable ps body sc) :
    pfModel (lambdaSource ps (exprSrc sc body)) = some (ps, exprSrc [] (substExpr pbModel sc body)) ∧
    pbModel (exprSrc [] (substExpr pbModel sc body)) = some (substExpr pbModel sc body) :=
  ⟨pfModel_emitted pbModel sc h.scope ps body h.params h.body,
    subst_body_reparses pbModel sc h.scope body h.body⟩

/-- THE EMITTED TEXT PARSES AS A FUNCTION (the first clause of the property): for every function
    of the class the text stored under `__blots_function` is read by the model parser, as a
    whole, to a lambda expression with the SAME parameter list, whose body is the original body
    with the captured literals inlined; it is never mistaken for a built-in name; and
    `parse_function_source` answers that parameter list. -/
theorem emitted_text_parses_as_function (ps : List LArg) (body : Expr) (sc : Scope)
    (h : Portable ps body sc) :
    ExprPeg.parseText (lambdaSource ps (exprSrc sc body)) =
      some (.lambda ps (substExpr pbModel sc body)) ∧
    isBuiltinName (lambdaSource ps (exprSrc sc body)) = false ∧
    (pfModel (lambdaSource ps (exprSrc sc body))).map Prod.fst = some ps := by
  refine ⟨emitted_text_parses pbModel sc h.scope ps body h.params h.body,
    lambdaSource_not_builtin _ _, ?_⟩
  rw [pfModel_emitted pbModel sc h.scope ps body h.params h.body]; rfl

/-- WHY THE PROOF CANNOT GO THROUGH `emit_is_substitution_partial`: inside the class the emitted
    text differs from the plain print of the substituted tree — witness `(x) => x - n` with
    `n = -4` captured: emitted body `x - (-4)`, plain print `x - -4` (both read back to the same
    tree, which is what `model_parser_meets_interface` says). -/
theorem emitted_text_is_not_the_plain_print :
    ∃ (ps : List LArg) (body : Expr) (sc : Scope), Portable ps body sc ∧
      exprSrc sc body ≠ exprSrc [] (substExpr pbModel sc body) := by
  refine ⟨[.req "x"], .bin .sub (.ident "x") (.ident "n"),
    [("n", .num (F64.ofNatBits 0xC010000000000000))], (portable_iff _ _ _).mp (by decide +kernel), ?_⟩
  intro h
  have := congrArg String.toList h
  revert this
  decide +kernel

/-- RELOAD GIVES AN EQUIVALENT FUNCTION, END TO END (no hypothesis about any parser), for
    functions that may still read names from the environment.  Original: `.lambda idA ps body
    scope` in a state `sA`; `sc` = `from_captured_value` of its captured scope; the function is
    in the class `Portable`.  The value written by `to_json` and loaded again through
    emit → text → MODEL parser → `to_value` is `.lambda 0 ps (substExpr sc body) []`, and for
    every argument tuple, depth, caller and fuel, whenever the original call gives an answer
    (value or error, including arity and depth errors) the reloaded one gives the same answer
    (with `scopeFuel sc` more fuel: the literals have to be evaluated).  `hfree` / `hin`: names
    the body reads that are neither parameters nor captured, and `inputs`, are resolved alike by
    the two programs (see `reload_equiv_partial`; vacuous for closed functions:
    `reload_equiv_fragment`). -/
theorem reload_equiv_fragment_open (ops : NumOps) (idA : Nat) (ps : List LArg) (body : Expr)
    (scope : Frame) (sc : Scope) (sA sB : ES)
    (hsc : capturedRecToSV scope = some sc)
    (hport : Portable ps body sc)
    (hfree : ∀ n, FreeIn n body → n ∉ ps.map LArg.name → lookupAL n sc = none →
      envGet sA.env n = envGet sB.env n ∧ nameOf sA.names idA ≠ some n ∧ nameOf sB.names 0 ≠ some n)
    (hin : envGet sA.env "inputs" = envGet sB.env "inputs" ∧
      nameOf sA.names idA ≠ some "inputs" ∧ nameOf sB.names 0 ≠ some "inputs") :
    valueToSV (.lambda idA ps body scope) = some (.lambda ps (exprSrc sc body)) ∧
    readJson pfModel pbModel (toJson (.lambda ps (exprSrc sc body))) =
      .ok (.lambda 0 ps (substExpr pbModel sc body) []) ∧
    ∀ (thisA thisB : Value) (args : List Value) (depth f : Nat),
      (callFn ops (f + 1) (.lambda idA ps body scope) thisA args depth sA).1 ≠ .fuel →
      (callFn ops (f + scopeFuel sc + 1) (.lambda 0 ps (substExpr pbModel sc body) []) thisB args
          depth sB).1 =
        (callFn ops (f + 1) (.lambda idA ps body scope) thisA args depth sA).1 := by
  obtain ⟨hpf, hpb⟩ := model_parser_meets_interface ps body sc hport
  have h := reload_equiv_partial ops pfModel pbModel (scopeFuel sc) idA ps body scope sc sA sB
    (bodyOkB_emitFrag false body hport.body) hsc (fun n sv hl => hport.captured n sv hl) hfree hin
    hpf hpb
  exact ⟨by simp [valueToSV, hsc], h.1, h.2⟩

/-- RELOAD GIVES AN EQUIVALENT FUNCTION, END TO END, for functions that are CLOSED AFTER CAPTURE
    (`closedAfterCapture`: every name the body reads is a parameter or captured — decidable):
    no hypothesis about any parser, none about free names.  Class covered: `Portable ps body sc`
    (decidable, `portable`) =
      * parameter names that are identifiers (not reserved words);
      * body (`bodyOk`): binary operators except `via` / `into` / `where`, prefix `-` / `!`,
        postfix `!`, index, field access (identifier field names), list literals (items
        possibly spread, no comments), conditionals, parentheses as the printer places them;
        atoms: identifiers that are neither reserved words nor built-in names, built-in names,
        `true` / `false` / `null`, integers `0 ≤ n < 10^15`;
      * captured values (`litOk`): integers `|n| < 10^15` of either sign (`-0.0` included;
        negative ones are emitted as `(-n)`), booleans, `null`, built-in functions, nested
        lists of these; bound to names other than `inf` / `infinity` / `constants` /
        `inputs` / a parameter.
    Excluded: calls, `via` / `into` / `where`, lambda expressions and captured closures,
    `output`, nested assignments (no logical relation between closures yet:
    `subst_lemma_statement`; the last is a genuine defect: `nested_assignment_breaks_reload`);
    strings, records, do-blocks, `#field`, non-integer and huge numbers, NaN / ±inf captures
    (not yet in the character-level grammar model: for these `reload_equiv_partial` with its
    explicit interface hypotheses remains). -/
theorem reload_equiv_fragment (ops : NumOps) (idA : Nat) (ps : List LArg) (body : Expr)
    (scope : Frame) (sc : Scope) (sA sB : ES)
    (hsc : capturedRecToSV scope = some sc)
    (hport : Portable ps body sc)
    (hclosed : closedAfterCapture ps body sc = true)
    (hin : envGet sA.env "inputs" = envGet sB.env "inputs" ∧
      nameOf sA.names idA ≠ some "inputs" ∧ nameOf sB.names 0 ≠ some "inputs") :
    valueToSV (.lambda idA ps body scope) = some (.lambda ps (exprSrc sc body)) ∧
    readJson pfModel pbModel (toJson (.lambda ps (exprSrc sc body))) =
      .ok (.lambda 0 ps (substExpr pbModel sc body) []) ∧
    ∀ (thisA thisB : Value) (args : List Value) (depth f : Nat),
      (callFn ops (f + 1) (.lambda idA ps body scope) thisA args depth sA).1 ≠ .fuel →
      (callFn ops (f + scopeFuel sc + 1) (.lambda 0 ps (substExpr pbModel sc body) []) thisB args
          depth sB).1 =
        (callFn ops (f + 1) (.lambda idA ps body scope) thisA args depth sA).1 :=
  reload_equiv_fragment_open ops idA ps body scope sc sA sB hsc hport
    (fun n hf hp hl => (closed_no_free hport.body hclosed n hf hp hl).elim) hin

/-- … and the reloaded function is a fixed point of emit ∘ reload under the model parser: its
    own emitted text (empty scope: the plain print) loads to the very same function value. -/
theorem re_emit_fixed_point_fragment (ps : List LArg) (body : Expr) (sc : Scope)
    (h : Portable ps body sc) :
    readJson pfModel pbModel (toJson (.lambda ps (exprSrc [] (substExpr pbModel sc body)))) =
      .ok (.lambda 0 ps (substExpr pbModel sc body) []) := by
  have hf : ExprPeg.Frag (substExpr pbModel sc body) := subst_fragB pbModel sc h.scope false body h.body
  have hl : ExprPeg.Frag (.lambda ps (substExpr pbModel sc body)) := by
    simp only [ExprPeg.Frag, ExprPeg.frag_lambda_iff, h.params, Bool.true_and]; exact hf
  have hb := subst_body_reparses pbModel sc h.scope body h.body
  have h1 := ExprPeg.cst_roundtrip (ExprPeg.canon _) (ExprPeg.canon_wf _ hl)
  rw [ExprPeg.canon_text_frag _ hl, String.ofList_toList, ExprPeg.canon_tree_frag _ hl] at h1
  have hlb : lambdaBodyNeedsParens (substExpr pbModel sc body) = false := by
    rw [lbnp_subst' pbModel sc h.scope body]; exact bodyOk_lbnp false body h.body
  have h2 : exprToSource (.lambda ps (substExpr pbModel sc body)) =
      lambdaSource ps (exprSrc [] (substExpr pbModel sc body)) := by
    simp only [lambdaSource, exprToSource, exprSrc, ExprPeg.foldl_scopeRemove_nil, hlb, parenIf,
      Bool.false_eq_true, if_false]
  refine (re_emit_fixed_point pfModel pbModel ps _ ?_ hb).2
  show (ExprPeg.parseText (lambdaSource ps (exprSrc [] (substExpr pbModel sc body)))).bind
    (fun e => parseFunctionSource [e]) = _
  rw [← h2, h1]; rfl

end endToEnd

/-! ### a genuine defect: assignments that are not direct do-block statements -/

section defect
set_option linter.unusedSimpArgs false
private abbrev bodyNA : Expr := .list [Item.plain (.assign "x" (.num int1)), Item.plain (.ident "x")]
private abbrev bodyNA' : Expr := .list [Item.plain (.assign "x" (.num int1)), Item.plain (.num int3)]
private abbrev st0 : ES := { env := [[]], nextId := 8, names := [] }

/-- `x = 3; f = () => [x = 1, x]` (the model of the witness confirmed on the real binary with
    `x = 5`): inside a call an assignment only checks the innermost frame, so `x = 1` binds `x`
    in the call frame and the following `x` reads 1: `f() = [1, 1]`.  The emitter removes a
    name from the inlining scope only for parameters and DIRECT do-block assignments, so it
    emits `() => [x = 1, 3]`, and the reloaded function returns `[1, 3]`.  The function is
    closed after capture, its captured value is a plain number, the body has no call:
    the hypothesis `frag` / `noNestedAssign` of the theorems above cannot be dropped, and
    property C05 as stated is violated by the code. -/
theorem nested_assignment_breaks_reload (pb : ParseBody) :
    capturedRecToSV [("x", .num int3)] = some [("x", .num int3)] ∧
    substExpr pb [("x", .num int3)] bodyNA = bodyNA' ∧
    noNestedAssign bodyNA = false ∧
    (callFn intOps 10 (.lambda 7 [] bodyNA [("x", .num int3)]) (.lambda 7 [] bodyNA [("x", .num int3)])
        [] 0 st0).1 = .ok (.list [.num int1, .num int1]) ∧
    (callFn intOps 10 (.lambda 0 [] bodyNA' []) (.lambda 0 [] bodyNA' []) [] 0 st0).1 =
      .ok (.list [.num int1, .num int3]) := by
  refine ⟨rfl, ?_, rfl, ?_, ?_⟩
  · simp +decide [substExpr, substItems, substItem, Item.plain, lookupAL, svToExpr, numToExpr]
  · simp +decide [callFn, eval, evalItems, checkArity, lambdaArity, bindParams, bindParams.go, envGet,
      lookupAL, insertAL, Item.plain, alreadyDefined, isBuiltinIdent, setNameIfLambda, envInsert,
      flattenSpreads, nameOf, MAX_DEPTH, createdSince]
  · simp +decide [callFn, eval, evalItems, checkArity, lambdaArity, bindParams, bindParams.go, envGet,
      lookupAL, insertAL, Item.plain, alreadyDefined, isBuiltinIdent, setNameIfLambda, envInsert,
      flattenSpreads, nameOf, MAX_DEPTH, createdSince]
end defect

/-! ### examples: the hypotheses are satisfiable by non-trivial values -/

section examples
set_option linter.unusedSimpArgs false
private abbrev negThree : F64 := F64.ofNatBits 0xC008000000000000
private abbrev pb0 : ParseBody := fun _ => none

/-- (A) a bare literal: nested list / record with a quoted key, one-quote strings, +inf -/
private abbrev bareV : SV :=
  .record [("a b", .list [.str "it's", .bool true, .num F64.inf]), ("k", .null), ("f", .builtin "sum")]
example : bare bareV = true := by decide +kernel
/-- not bare: a negative number, NaN, a two-quote string, a two-quote key -/
example : bare (.num negThree) = false ∧ bare (.num F64.nan) = false ∧ bare (.str "a'\"") = false ∧
    bare (.record [("a'\"", .null)]) = false := by decide +kernel
example : negThree.isNaN = false ∧ negThree.neg = true ∧ F64.negZero.neg = true ∧
    F64.negInf.neg = true ∧ F64.nan.isNaN = true ∧ bothQuotes "it's \"x\"" = true := by decide +kernel
/-- a scope of bare literals bound to identifier names -/
private abbrev scBare : Scope := [("lim", .num int3), ("tag", .str "it's"), ("cfg", bareV)]
example : ScopeBare scBare := by
  intro kv h
  simp only [List.mem_cons, List.not_mem_nil, or_false] at h
  rcases h with rfl | rfl | rfl <;> exact ⟨by decide +kernel, by decide +kernel⟩
/-- `x => x > lim && cfg.k == tag` -/
example : exprSrc scBare (.lambda [.req "x"] (.bin .and (.bin .gt (.ident "x") (.ident "lim"))
      (.bin .eq (.dot (.ident "cfg") "k") (.ident "tag")))) =
    exprSrc [] (substExpr pb0 scBare (.lambda [.req "x"] (.bin .and (.bin .gt (.ident "x") (.ident "lim"))
      (.bin .eq (.dot (.ident "cfg") "k") (.ident "tag"))))) :=
  emit_is_substitution_partial pb0 _ scBare (by
    intro kv h
    simp only [List.mem_cons, List.not_mem_nil, or_false] at h
    rcases h with rfl | rfl | rfl <;> exact ⟨by decide +kernel, by decide +kernel⟩)

/-- (B) a captured value of every data kind: negative, -0.0, -inf, +inf, NaN, both quote
    kinds (value and key), nesting, a built-in -/
private abbrev dataV : SV :=
  .list [.num negThree, .num F64.negZero, .num F64.negInf, .num F64.inf, .num F64.nan,
    .str "it's \"x\"", .record [("a'\"", .list [.null]), ("k", .bool false)], .builtin "sum"]
example : noLambda dataV = true := by decide
example : litFuel dataV ≤ 40 := by decide
example (st : ES) : eval intOps 40 0 (svToExpr pb0 dataV) st =
    (.ok (svToValueN (intOps.div F64.zero F64.zero) dataV), st) :=
  literal_evaluates_to_value intOps pb0 dataV (by decide) 40 (by decide) 0 st
/-- data as evaluation produces it (no NaN, distinct keys) evaluates to itself -/
private abbrev litV : SV :=
  .record [("n", .num negThree), ("s", .str "it's \"x\""), ("a'\"", .list [.num F64.negInf, .null])]
example : isLit litV = true := by decide +kernel
example (st : ES) : eval intOps 40 3 (svToExpr pb0 litV) st = (.ok (svToValue litV), st) :=
  literal_evaluates_to_value_exact intOps pb0 litV (by decide +kernel) 40 (by decide) 3 st
example : svToValue litV = .record [("n", .num negThree), ("s", .str "it's \"x\""),
    ("a'\"", .list [.num F64.negInf, .null])] := rfl
/-- the toy division gives NaN for 0/0 (for the native operations the harness checks it) -/
example : (intOps.div F64.zero F64.zero).isNaN = true := by decide +kernel

/-- (C) the old defect `y => do { z = x; x = y; return x + z }` with `x ↦ 3` captured:
    `z = x` inlines, `x = y` stops the inlining, the `return` keeps `x` -/
example : substExpr pb0 [("x", .num int3)]
      (.lambda [.req "y"] (.doBlock
        [.mk [] (.assign "z" (.ident "x")) none, .mk [] (.assign "x" (.ident "y")) none]
        (.mk [] (.bin .add (.ident "x") (.ident "z")) none))) =
    .lambda [.req "y"] (.doBlock
        [.mk [] (.assign "z" (.num int3)) none, .mk [] (.assign "x" (.ident "y")) none]
        (.mk [] (.bin .add (.ident "x") (.ident "z")) none)) := by
  simp +decide [substExpr, substStmts, substItem, scopeMinusArgs, scopeRemove, scopeAfterStmt,
    scopeAfterStmts, lookupAL, svToExpr, numToExpr, LArg.name]
example : "x" ∈ boundAfterStmts []
    [.mk [] (.assign "z" (.ident "x")) none, .mk [] (.assign "x" (.ident "y")) none] := by decide
example : "y" ∈ [LArg.req "y", .opt "b"].map LArg.name := by decide

/-- (D) the fragment: `do { z = x + 1; x = y; return [x, z, {x}, if y > 0 then -x else l[0]] }` -/
private abbrev fragBody : Expr :=
  .doBlock [.mk [] (.assign "z" (.bin .add (.ident "x") (.num int1))) none,
            .mk [] (.assign "x" (.ident "y")) none]
    (.mk [] (.list [Item.plain (.ident "x"), Item.plain (.ident "z"),
        Item.plain (.record [.mk [] (.short "x") .null none]),
        Item.plain (.cond (.bin .gt (.ident "y") (.num int0)) (.un .negate (.ident "x"))
          (.access (.ident "l") (.num int0)))]) none)
example : frag fragBody = true := by decide
example : noNestedAssign fragBody = true := by decide
/-- the two environments of the lemma: `A` has the captured `x` below the parameter frame -/
example : Rel (intOps.div F64.zero F64.zero) 2 (fun n => n = "x" ∨ n = "y") [("x", .num int3)]
    [[("y", .num int1)], [("x", .num int3)]] [[("y", .num int1)]] := by
  refine ⟨fun n sv h => ?_, fun n hN h => ?_, ⟨by decide, rfl⟩⟩
  · by_cases hn : "x" = n
    · subst hn
      simp only [lookupAL, if_true, Option.some.injEq] at h
      subst h
      exact ⟨rfl, by decide, by simp +decide [envGet, lookupAL, svToValueN], by decide⟩
    · simp [lookupAL, hn] at h
  · rcases hN with rfl | rfl
    · simp [lookupAL] at h
    · rfl

/-- (E) a closed function `y => [x + y, tag]` over data captures, reloaded; the text
    interface instantiated by the (constant) answers the parser gives for this text -/
private abbrev eBody : Expr := .list [Item.plain (.bin .add (.ident "x") (.ident "y")), Item.plain (.ident "tag")]
private abbrev eScope : Frame := [("x", .num negThree), ("tag", .str "it's \"x\"")]
private abbrev eSc : Scope := [("x", .num negThree), ("tag", .str "it's \"x\"")]
private abbrev eB : Expr := substExpr pb0 eSc eBody
private abbrev pbE : ParseBody := fun _ => some eB
private abbrev pfE : ParseFn := fun _ => some ([.req "y"], exprSrc [] eB)
private abbrev stE : ES := { env := [[]], nextId := 8, names := [] }
example : substExpr pbE eSc eBody = eB := by
  simp +decide [substExpr, substItems, substItem, Item.plain, lookupAL, svToExpr]
example : capturedRecToSV eScope = some eSc := rfl
example : frag eBody = true := by decide
example (thisA thisB : Value) (args : List Value) (depth f : Nat)
    (h : (callFn intOps (f + 1) (.lambda 7 [.req "y"] eBody eScope) thisA args depth stE).1 ≠ .fuel) :
    (callFn intOps (f + 20 + 1) (.lambda 0 [.req "y"] (substExpr pbE eSc eBody) []) thisB args depth stE).1 =
      (callFn intOps (f + 1) (.lambda 7 [.req "y"] eBody eScope) thisA args depth stE).1 := by
  have hb : substExpr pbE eSc eBody = eB := by
    simp +decide [substExpr, substItems, substItem, Item.plain, lookupAL, svToExpr]
  refine (reload_equiv_partial intOps pfE pbE 20 7 [.req "y"] eBody eScope eSc stE stE (by decide) rfl
    ?_ ?_ ⟨rfl, by simp [nameOf], by simp [nameOf]⟩ (by rw [hb]) (by rw [hb])).2 thisA thisB args depth f h
  · intro n sv hl
    by_cases h1 : "x" = n
    · subst h1
      simp only [lookupAL, if_true, Option.some.injEq] at hl
      subst hl
      exact ⟨by decide +kernel, by decide, by decide, by decide, by decide⟩
    · by_cases h2 : "tag" = n
      · subst h2
        simp only [lookupAL, h1, if_false, if_true, Option.some.injEq] at hl
        subst hl
        exact ⟨by decide +kernel, by decide, by decide, by decide, by decide⟩
      · simp [lookupAL, h1, h2] at hl
  · intro n _ _ _
    exact ⟨rfl, by simp [nameOf], by simp [nameOf]⟩
/-- re-emission: the reloaded function's text read back -/
example : readJson pfE pbE (toJson (.lambda [.req "y"] (exprSrc [] eB))) = .ok (.lambda 0 [.req "y"] eB []) :=
  (re_emit_fixed_point pfE pbE [.req "y"] eB rfl rfl).2
/-- a captured closure `t => t via g` (own scope empty): its literal -/
example : ∃ sv, capturedToSV (.lambda 3 [.req "t"] (.bin .via (.ident "t") (.ident "g")) []) = some sv ∧
    svToSource sv = "(" ++ exprSrc [] (.lambda [.req "t"] (.bin .via (.ident "t") (.ident "g"))) ++ ")" ∧
    svToExpr (fun _ => some (.bin .via (.ident "t") (.ident "g"))) sv =
      .lambda [.req "t"] (.bin .via (.ident "t") (.ident "g")) :=
  captured_closure_literal (fun _ => some (.bin .via (.ident "t") (.ident "g"))) 3 [.req "t"]
    (.bin .via (.ident "t") (.ident "g")) [] [] rfl ScopeBare.nil rfl
/-- `(x) => a via f` as the parser builds it, and `extend_lambda_body` of it -/
example : graftChain [.req "x"] (.bin .via (.ident "a") (.ident "f")) =
    .bin .via (.lambda [.req "x"] (.ident "a")) (.ident "f") := by
  simp +decide [graftChain, lambdaBodyNeedsParens]
example : extendLambdaBody (.bin .via (.lambda [.req "x"] (.ident "a")) (.ident "f")) =
    .lambda [.req "x"] (.bin .via (.ident "a") (.ident "f")) := rfl
/- (F) end to end with the model parser.  The closure
   `(a, b?) => [a + k * 2, if a > k then -a else n!, [a, k][0], a - n]` with captured `k = 3`,
   `n = -4`: every hypothesis of `reload_equiv_fragment` by `decide` -/
section endToEndExample
open Blots.EmitParse
private abbrev negFour : F64 := F64.ofNatBits 0xC010000000000000
private abbrev two : F64 := F64.ofNatBits 0x4000000000000000
private abbrev xa : Expr := .ident "a"
private abbrev xk : Expr := .ident "k"
private abbrev xn : Expr := .ident "n"
private abbrev fBody : Expr :=
  .list [Item.plain (.bin .add xa (.bin .mul xk (.num two))),
    Item.plain (.cond (.bin .gt xa xk) (.un .negate xa) (.fact xn)),
    Item.plain (.access (.list [Item.plain xa, Item.plain xk]) (.num int0)),
    Item.plain (.bin .sub xa xn)]
private abbrev fPs : List LArg := [.req "a", .opt "b"]
private abbrev fScope : Frame := [("k", .num int3), ("n", .num negFour)]
private abbrev fSc : Scope := [("k", .num int3), ("n", .num negFour)]
private abbrev stF : ES := { env := [[]], nextId := 8, names := [] }

example : capturedRecToSV fScope = some fSc := rfl
example : portable fPs fBody fSc = true := by decide +kernel
example : closedAfterCapture fPs fBody fSc = true := by decide +kernel
example : scopeFuel fSc = 2 := by decide +kernel
/-- the emitted text: the captured `-4` is written `(-4)` at both occurrences … -/
example : (lambdaSource fPs (exprSrc fSc fBody)).toList =
    "(a, b?) => [a + 3 * 2, if a > 3 then -a else (-4)!, [a, 3][0], a - (-4)]".toList := by
  decide +kernel
/-- … the plain print of the substituted body needs the parentheses only under `!` -/
example : (exprSrc [] (substExpr pbModel fSc fBody)).toList =
    "[a + 3 * 2, if a > 3 then -a else (-4)!, [a, 3][0], a - -4]".toList := by decide +kernel
/-- … and the model parser, RUN on the emitted text (no theorem involved), answers the
    parameters and that plain print -/
example : (pfModel "(a, b?) => [a + 3 * 2, if a > 3 then -a else (-4)!, [a, 3][0], a - (-4)]").map
      (fun r => (r.1.map lambdaArgToSource, r.2)) =
    some (["a", "b?"], "[a + 3 * 2, if a > 3 then -a else (-4)!, [a, 3][0], a - -4]") := by
  decide +kernel
example : Portable fPs fBody fSc := (portable_iff _ _ _).mp (by decide +kernel)
/-- parses as a function with the same parameters -/
example : ExprPeg.parseText (lambdaSource fPs (exprSrc fSc fBody)) =
    some (.lambda fPs (substExpr pbModel fSc fBody)) :=
  (emitted_text_parses_as_function fPs fBody fSc ((portable_iff _ _ _).mp (by decide +kernel))).1
/-- reload ≡ original for every argument tuple, caller, depth and fuel -/
example (thisA thisB : Value) (args : List Value) (depth f : Nat)
    (h : (callFn intOps (f + 1) (.lambda 7 fPs fBody fScope) thisA args depth stF).1 ≠ .fuel) :
    readJson pfModel pbModel (toJson (.lambda fPs (exprSrc fSc fBody))) =
      .ok (.lambda 0 fPs (substExpr pbModel fSc fBody) []) ∧
    (callFn intOps (f + 2 + 1) (.lambda 0 fPs (substExpr pbModel fSc fBody) []) thisB args depth stF).1 =
      (callFn intOps (f + 1) (.lambda 7 fPs fBody fScope) thisA args depth stF).1 := by
  have H := reload_equiv_fragment intOps 7 fPs fBody fScope fSc stF stF rfl
    ((portable_iff _ _ _).mp (by decide +kernel)) (by decide +kernel)
    ⟨rfl, by simp [nameOf], by simp [nameOf]⟩
  exact ⟨H.2.1, H.2.2 thisA thisB args depth f h⟩
/-- outside the class: a call in the body, a string capture, a reserved parameter name -/
example : bodyOk (.call xa [xk]) = false ∧ bodyOk (.bin .via xa xk) = false ∧
    litOk (.str "s") = false ∧ litOk (.num F64.nan) = false ∧ litOk (.num F64.negZero) = true ∧
    portable [.req "if"] xa [] = false := by decide +kernel
end endToEndExample
end examples

end Blots.C05
