import Blots.Model.Builtins
namespace Blots.C05
/-- placeholder until the C05 theorem file lands (being written) -/
theorem exprToSource_is_empty_scope (e : Expr) : exprToSource e = exprSrc [] e := rfl
end Blots.C05
