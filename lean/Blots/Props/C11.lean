import Blots.Lemmas.EvalBin
import Blots.Lemmas.ValueOrder
/-
  C11 — Scalar operator semantics and the broadcasting law.

  Statements only (helpers in `Blots/Lemmas/EvalBin.lean`).  Everything is about
  `evalBin ops (fuel+1) depth op a b s` (`evaluate_binary_op_ast` after both operands are
  evaluated) for ALL `ops : NumOps`, all values, all list lengths, all `fuel`, `depth`, states.
  * "computes the IEEE-754 result" is reduced to: the result IS the `NumOps` primitive applied
    to the two operands in source order (the harness validates `NumOps.native` bit for bit);
  * `scalarOp ops false op x y` is the scalar rule, and also the element rule of the three
    list arms (`element_rule_is_scalar_rule`);
  * `listOf (Outcome.mapM' f L)` = the results of `f` on `L` in order wrapped in a list value,
    the first failure wins (`Outcome.mapM'_first_failure`);
  * `bcast` = the 17 broadcasting operators, `dotOps` the six dot comparisons, `callOps` =
    via / into / where (`binOp_trichotomy`: every operator is in exactly these three classes).
  A "scalar" is any non-list value (`isListV v = false`).
-/
namespace Blots.C11

/-! #### 1. arithmetic and `+` -/

/-- `+ - * / % ^` on two numbers are the `NumOps` primitives on the operands in source order -/
theorem scalar_arith (ops : NumOps) (fuel depth : Nat) (x y : F64) (s : ES) :
    evalBin ops (fuel+1) depth .add (.num x) (.num y) s = (.ok (.num (ops.add x y)), s) ∧
    evalBin ops (fuel+1) depth .sub (.num x) (.num y) s = (.ok (.num (ops.sub x y)), s) ∧
    evalBin ops (fuel+1) depth .mul (.num x) (.num y) s = (.ok (.num (ops.mul x y)), s) ∧
    evalBin ops (fuel+1) depth .div (.num x) (.num y) s = (.ok (.num (ops.div x y)), s) ∧
    evalBin ops (fuel+1) depth .mod (.num x) (.num y) s = (.ok (.num (ops.rem x y)), s) ∧
    evalBin ops (fuel+1) depth .pow (.num x) (.num y) s = (.ok (.num (ops.powf x y)), s) := by
  refine ⟨?_, ?_, ?_, ?_, ?_, ?_⟩ <;>
    (rw [evalBin_bcast _ _ _ _ _ _ _ (by simp [bcast])]; rfl)

/-- `+` concatenates two strings -/
theorem add_concatenates_strings (ops : NumOps) (fuel depth : Nat) (x y : String) (s : ES) :
    evalBin ops (fuel+1) depth .add (.str x) (.str y) s = (.ok (.str (x ++ y)), s) := by
  rw [evalBin_bcast _ _ _ _ _ _ _ (by simp [bcast])]; rfl

/-- on scalars `+` succeeds ONLY on (string, string) and (number, number); every other pair,
    e.g. string + number or number + string, is a type error -/
theorem add_requires_same_kind (ops : NumOps) (fuel depth : Nat) (a b : Value) (s : ES)
    (ha : isListV a = false) (hb : isListV b = false)
    (hs : ¬ ∃ x y, a = .str x ∧ b = .str y) (hn : ¬ ∃ x y, a = .num x ∧ b = .num y) :
    evalBin ops (fuel+1) depth .add a b s = (.err .type_, s) := by
  rw [evalBin_bcast _ _ _ _ _ _ _ (by simp [bcast]), binPure_scalar_scalar _ _ _ _ ha hb]
  cases a <;> cases b <;>
    first | rfl | exact absurd ⟨_, _, rfl, rfl⟩ hs | exact absurd ⟨_, _, rfl, rfl⟩ hn

/-- `- * / % ^` on scalars succeed only on two numbers -/
theorem arith_requires_numbers (ops : NumOps) (fuel depth : Nat) (op : BinOp) (a b : Value) (s : ES)
    (hop : op ∈ [BinOp.sub, .mul, .div, .mod, .pow])
    (ha : isListV a = false) (hb : isListV b = false)
    (hn : ¬ ∃ x y, a = .num x ∧ b = .num y) :
    evalBin ops (fuel+1) depth op a b s = (.err .type_, s) := by
  have hb' : op ∈ bcast := by
    simp only [List.mem_cons, List.not_mem_nil, or_false] at hop
    rcases hop with h | h | h | h | h <;> subst h <;> simp [bcast]
  rw [evalBin_bcast _ _ _ _ _ _ _ hb', binPure_scalar_scalar _ _ _ _ ha hb]
  simp only [List.mem_cons, List.not_mem_nil, or_false] at hop
  rcases hop with h | h | h | h | h <;> subst h <;>
    cases a <;> cases b <;> first | rfl | exact absurd ⟨_, _, rfl, rfl⟩ hn

/-! #### 2. comparisons follow the value ordering -/

/-- On scalars the six plain comparisons are `compareOp`, i.e. exactly the dot operators, whose
    coherence (equivalence, trichotomy, transitivity, lexicographic order, cross-type
    behaviour) is C12 (`Blots.C12.*` are theorems about `compareOp (dotted op)`). -/
theorem scalar_compare (ops : NumOps) (fuel depth : Nat) (op : BinOp) (a b : Value) (s : ES)
    (hop : op ∈ [BinOp.eq, .ne, .lt, .le, .gt, .ge])
    (ha : isListV a = false) (hb : isListV b = false) :
    evalBin ops (fuel+1) depth op a b s = (compareOp op a b, s) ∧
    compareOp op a b = compareOp (dotted op) a b := by
  have hb' : op ∈ bcast := by
    simp only [List.mem_cons, List.not_mem_nil, or_false] at hop
    rcases hop with h | h | h | h | h | h <;> subst h <;> simp [bcast]
  rw [evalBin_bcast _ _ _ _ _ _ _ hb', binPure_scalar_scalar _ _ _ _ ha hb]
  simp only [List.mem_cons, List.not_mem_nil, or_false] at hop
  rcases hop with h | h | h | h | h | h <;> subst h <;> exact ⟨rfl, rfl⟩

/-- … spelled out against `veq` / `vcmp`: `==` / `!=` never fail; the four orderings return the
    membership of `vcmp a b` in the operator's set and fail (kind `compare`) exactly on
    incomparable operands -/
theorem compare_follows_value_ordering (a b : Value) :
    compareOp .eq a b = .ok (.bool (veq a b)) ∧ compareOp .ne a b = .ok (.bool (!veq a b)) ∧
    (∀ o, vcmp a b = some o →
      compareOp .lt a b = .ok (.bool (o == .lt)) ∧
      compareOp .le a b = .ok (.bool (o == .lt || o == .eq)) ∧
      compareOp .gt a b = .ok (.bool (o == .gt)) ∧
      compareOp .ge a b = .ok (.bool (o == .gt || o == .eq))) ∧
    (vcmp a b = none →
      compareOp .lt a b = .err .compare ∧ compareOp .le a b = .err .compare ∧
      compareOp .gt a b = .err .compare ∧ compareOp .ge a b = .err .compare) := by
  refine ⟨rfl, rfl, fun o h => ?_, fun h => ?_⟩
  · cases o <;> simp [compareOp, orderingsOf, checkOrdering, Outcome.bind, h]
  · simp [compareOp, orderingsOf, checkOrdering, Outcome.bind, h]

/-! #### 3. `and` / `or` (both spellings) require booleans -/

theorem logical_on_booleans (ops : NumOps) (fuel depth : Nat) (p q : Bool) (s : ES) :
    evalBin ops (fuel+1) depth .and (.bool p) (.bool q) s = (.ok (.bool (p && q)), s) ∧
    evalBin ops (fuel+1) depth .nand (.bool p) (.bool q) s = (.ok (.bool (p && q)), s) ∧
    evalBin ops (fuel+1) depth .or (.bool p) (.bool q) s = (.ok (.bool (p || q)), s) ∧
    evalBin ops (fuel+1) depth .nor (.bool p) (.bool q) s = (.ok (.bool (p || q)), s) := by
  refine ⟨?_, ?_, ?_, ?_⟩ <;>
    (rw [evalBin_bcast _ _ _ _ _ _ _ (by simp [bcast])]; rfl)

/-- no short-circuit typing: on scalars the outcome is `ok` iff BOTH operands are booleans;
    otherwise it is a type error, whatever the left operand is -/
theorem logical_requires_booleans (ops : NumOps) (fuel depth : Nat) (op : BinOp) (a b : Value) (s : ES)
    (hop : op ∈ [BinOp.and, .nand, .or, .nor])
    (ha : isListV a = false) (hb : isListV b = false) :
    ((∃ v, (evalBin ops (fuel+1) depth op a b s).1 = .ok v) ↔ ∃ p q, a = .bool p ∧ b = .bool q) ∧
    ((¬ ∃ p q, a = .bool p ∧ b = .bool q) →
      evalBin ops (fuel+1) depth op a b s = (.err .type_, s)) := by
  have hb' : op ∈ bcast := by
    simp only [List.mem_cons, List.not_mem_nil, or_false] at hop
    rcases hop with h | h | h | h <;> subst h <;> simp [bcast]
  rw [evalBin_bcast _ _ _ _ _ _ _ hb', binPure_scalar_scalar _ _ _ _ ha hb]
  simp only [List.mem_cons, List.not_mem_nil, or_false] at hop
  rcases hop with h | h | h | h <;> subst h <;>
    cases a <;> cases b <;>
      simp [scalarOp, logicalOperands, asBool, Outcome.bind, bind, pure]

/-! #### 4. `??` -/

/-- `a ?? b` is `b` exactly when `a` is null, and `a` otherwise; it never fails on scalars -/
theorem coalesce_iff_null (ops : NumOps) (fuel depth : Nat) (a b : Value) (s : ES)
    (ha : isListV a = false) (hb : isListV b = false) :
    (a = .null → evalBin ops (fuel+1) depth .coalesce a b s = (.ok b, s)) ∧
    (a ≠ .null → evalBin ops (fuel+1) depth .coalesce a b s = (.ok a, s)) := by
  rw [evalBin_bcast _ _ _ _ _ _ _ (by simp [bcast]), binPure_scalar_scalar _ _ _ _ ha hb]
  constructor
  · rintro rfl; rfl
  · intro h; cases a <;> first | rfl | exact absurd rfl h

/-! #### 7. the element rule of the list arms is the scalar rule -/

/-- The Rust code spells `+` differently in the list arms ((string,string) | (number,number) |
    error) and in the scalar arm (left is a string ⇒ right must be one; otherwise both numbers).
    The two spellings are the same function — same results, same failures, same error kind —
    on ALL pairs of values; for the other 16 operators the code is shared.  No pair of values
    distinguishes the per-element rule from the scalar rule. -/
theorem element_rule_is_scalar_rule (ops : NumOps) (op : BinOp) (x y : Value) :
    scalarOp ops true op x y = scalarOp ops false op x y :=
  scalarOp_elementwise_irrelevant ops op x y

/-- on two scalars a broadcasting operator computes the scalar rule and leaves the state alone -/
theorem scalar_rule (ops : NumOps) (fuel depth : Nat) (op : BinOp) (x y : Value) (s : ES)
    (hop : op ∈ bcast) (hx : isListV x = false) (hy : isListV y = false) :
    evalBin ops (fuel+1) depth op x y s = (scalarOp ops false op x y, s) := by
  rw [evalBin_bcast _ _ _ _ _ _ _ hop, binPure_scalar_scalar _ _ _ _ hx hy]

/-- the scalar rule only ever succeeds or fails with a `RuntimeError` (no panic, no fuel) -/
theorem scalar_rule_ok_or_err (ops : NumOps) (op : BinOp) (x y : Value) :
    (scalarOp ops false op x y).isOk = true ∨ (scalarOp ops false op x y).isErr = true :=
  scalarOp_ok_or_err ops false op x y

/-! #### 5. list ∘ scalar and scalar ∘ list -/

/-- `L op sc`: the scalar rule on `(L[i], sc)` for each element in order, first failure wins -/
theorem broadcast_list_scalar (ops : NumOps) (fuel depth : Nat) (op : BinOp) (L : List Value)
    (sc : Value) (s : ES) (hop : op ∈ bcast) (hs : isListV sc = false) :
    evalBin ops (fuel+1) depth op (.list L) sc s =
      (listOf (Outcome.mapM' (fun x => scalarOp ops false op x sc) L), s) := by
  rw [evalBin_bcast _ _ _ _ _ _ _ hop, binPure_list_scalar _ _ _ _ hs, mapScalar_eq]
  congr 3
  funext x
  rw [← scalarOp_elementwise_irrelevant]
  unfold elemScalar
  cases op <;> rfl

/-- `sc op L` (`scalarLeftRule`, Lemmas/EvalBin.lean): the scalar is the LEFT operand of each
    element operation, except that `*`, `==`, `!=` are written with the list element first -/
theorem broadcast_scalar_list (ops : NumOps) (fuel depth : Nat) (op : BinOp) (sc : Value)
    (L : List Value) (s : ES) (hop : op ∈ bcast) (hs : isListV sc = false) :
    evalBin ops (fuel+1) depth op sc (.list L) s =
      (listOf (Outcome.mapM' (fun x => scalarLeftRule ops op sc x) L), s) := by
  rw [evalBin_bcast _ _ _ _ _ _ _ hop, binPure_scalar_list _ _ _ _ hs, mapScalar_eq]
  congr 3
  funext x
  unfold elemScalar scalarLeftRule
  cases op <;> simp [scalarOp_elementwise_irrelevant]

/-- `sc == x` / `sc != x` with the element first is the same as with the scalar first when both
    are data values (`veq` is symmetric on data: `veq_symm`; on function values `veq` compares
    parameter lists and bodies and symmetry of `Expr.beq` is not claimed here). -/
theorem scalar_left_eq_ne_order_irrelevant (ops : NumOps) (op : BinOp) (sc x : Value)
    (hop : op = .eq ∨ op = .ne) (h1 : isData sc = true) (h2 : isData x = true) :
    scalarLeftRule ops op sc x = scalarOp ops false op sc x := by
  rcases hop with rfl | rfl <;>
    simp [scalarLeftRule, scalarOp, compareOp, veq_symm x sc h2 h1]

/-- `sc * x` is computed as `ops.mul x sc` (element first).  Commutativity of the float
    multiplication is NOT a property of an arbitrary `NumOps`, so it is a hypothesis here: with
    it the result is the scalar rule with the scalar on the left.  (IEEE-754 multiplication is
    commutative up to the payload of a NaN result.) -/
theorem scalar_left_mul (ops : NumOps) (sc x : Value) :
    scalarLeftRule ops .mul sc x = scalarOp ops false .mul x sc ∧
    ((∀ u v, ops.mul u v = ops.mul v u) →
      scalarLeftRule ops .mul sc x = scalarOp ops false .mul sc x) := by
  refine ⟨by simp [scalarLeftRule], fun hc => ?_⟩
  cases sc <;> cases x <;> simp [scalarLeftRule, scalarOp, asNumber, bind, Outcome.bind, pure]
  exact hc _ _

/-- for the other 14 broadcasting operators the scalar is the left operand -/
theorem scalar_left_other (ops : NumOps) (op : BinOp) (sc x : Value)
    (h : op ≠ .mul ∧ op ≠ .eq ∧ op ≠ .ne) :
    scalarLeftRule ops op sc x = scalarOp ops false op sc x := by
  simp [scalarLeftRule, h.1, h.2.1, h.2.2]

/-- the shape shared by the three list arms: `listOf (mapM' f L)` succeeds with the list of the
    element results position by position, fails exactly when some element operation fails, and
    then with the first failure in list order -/
theorem elementwise_law {α} (f : α → Outcome Value) (L : List α)
    (hf : ∀ x, (f x).isOk = true ∨ (f x).isErr = true) :
    (∀ v, listOf (Outcome.mapM' f L) = .ok v ↔
      ∃ vs : List Value, v = .list vs ∧ vs.length = L.length ∧
        ∀ (i : Nat) (h1 : i < L.length) (h2 : i < vs.length), f L[i] = .ok vs[i]) ∧
    ((listOf (Outcome.mapM' f L)).isOk = true ∨ (listOf (Outcome.mapM' f L)).isErr = true) ∧
    ((listOf (Outcome.mapM' f L)).isErr = true ↔ ∃ x ∈ L, (f x).isErr = true) ∧
    (∀ pre x post k, L = pre ++ x :: post → (∀ y ∈ pre, (f y).isOk = true) → f x = .err k →
      listOf (Outcome.mapM' f L) = .err k) := by
  refine ⟨fun v => listOf_mapM'_ok_iff f L v, (listOf_mapM'_isErr_iff f L hf).1,
    (listOf_mapM'_isErr_iff f L hf).2, ?_⟩
  rintro pre x post k rfl hpre hx
  have := (Outcome.mapM'_first_failure f pre x post hpre (by simp [hx, Outcome.isOk])).2.1 k hx
  rw [this]; rfl

/-- `L op sc` fails exactly when some element operation fails; when it succeeds the result has
    `L.length` elements and its i-th element is the scalar result on the i-th element -/
theorem fails_iff_some_element_fails (ops : NumOps) (fuel depth : Nat) (op : BinOp)
    (L : List Value) (sc : Value) (s : ES) (hop : op ∈ bcast) (hs : isListV sc = false) :
    ((evalBin ops (fuel+1) depth op (.list L) sc s).1.isErr = true ↔
      ∃ x ∈ L, (scalarOp ops false op x sc).isErr = true) ∧
    (∀ v, (evalBin ops (fuel+1) depth op (.list L) sc s).1 = .ok v ↔
      ∃ vs : List Value, v = .list vs ∧ vs.length = L.length ∧
        ∀ (i : Nat) (h1 : i < L.length) (h2 : i < vs.length),
          scalarOp ops false op L[i] sc = .ok vs[i]) ∧
    ((evalBin ops (fuel+1) depth op sc (.list L) s).1.isErr = true ↔
      ∃ x ∈ L, (scalarLeftRule ops op sc x).isErr = true) ∧
    (∀ v, (evalBin ops (fuel+1) depth op sc (.list L) s).1 = .ok v ↔
      ∃ vs : List Value, v = .list vs ∧ vs.length = L.length ∧
        ∀ (i : Nat) (h1 : i < L.length) (h2 : i < vs.length),
          scalarLeftRule ops op sc L[i] = .ok vs[i]) := by
  rw [broadcast_list_scalar _ _ _ _ _ _ _ hop hs, broadcast_scalar_list _ _ _ _ _ _ _ hop hs]
  have h1 := elementwise_law (fun x => scalarOp ops false op x sc) L
    (fun x => scalarOp_ok_or_err ops false op x sc)
  have h2 := elementwise_law (fun x => scalarLeftRule ops op sc x) L (fun x => by
    unfold scalarLeftRule; split <;> exact scalarOp_ok_or_err ..)
  exact ⟨h1.2.2.1, h1.1, h2.2.2.1, h2.1⟩

/-! #### 6. list ∘ list -/

/-- equal lengths: the scalar rule on `(la[i], lb[i])` in order, first failure wins -/
theorem broadcast_list_list (ops : NumOps) (fuel depth : Nat) (op : BinOp) (la lb : List Value)
    (s : ES) (hop : op ∈ bcast) (hl : la.length = lb.length) :
    evalBin ops (fuel+1) depth op (.list la) (.list lb) s =
      (listOf (Outcome.mapM' (fun p : Value × Value => scalarOp ops false op p.1 p.2) (la.zip lb)), s) := by
  rw [evalBin_bcast _ _ _ _ _ _ _ hop, binPure_list_list, if_pos hl, zipScalar_eq]
  congr 3
  funext p
  exact scalarOp_elementwise_irrelevant ..

/-- unequal lengths: an error of kind `length` for every operator that is not a dot comparison
    (for `into` the right operand being a list is rejected first, as a type error) -/
theorem unequal_lengths_fail (ops : NumOps) (fuel depth : Nat) (op : BinOp) (la lb : List Value)
    (s : ES) (hop : op ∉ dotOps) (hl : la.length ≠ lb.length) :
    evalBin ops (fuel+1) depth op (.list la) (.list lb) s =
      (.err (if op = .into then .type_ else .length), s) := by
  have hd : isDot op = false := by
    cases h : isDot op
    · rfl
    · exact absurd ((mem_dotOps_iff op).mpr h) hop
  rw [evalBin_succ]
  cases op <;> simp_all [isDot, isListV]

/-- list ∘ list fails exactly when the lengths differ or some element operation fails; when it
    succeeds the i-th result is the scalar result on the i-th elements -/
theorem list_list_fails_iff (ops : NumOps) (fuel depth : Nat) (op : BinOp) (la lb : List Value)
    (s : ES) (hop : op ∈ bcast) :
    ((evalBin ops (fuel+1) depth op (.list la) (.list lb) s).1.isErr = true ↔
      la.length ≠ lb.length ∨
      ∃ (i : Nat) (h1 : i < la.length) (h2 : i < lb.length),
        (scalarOp ops false op la[i] lb[i]).isErr = true) ∧
    (∀ v, (evalBin ops (fuel+1) depth op (.list la) (.list lb) s).1 = .ok v ↔
      la.length = lb.length ∧
      ∃ vs : List Value, v = .list vs ∧ vs.length = la.length ∧
        ∀ (i : Nat) (h1 : i < la.length) (h2 : i < lb.length) (h3 : i < vs.length),
          scalarOp ops false op la[i] lb[i] = .ok vs[i]) := by
  by_cases hl : la.length = lb.length
  · rw [broadcast_list_list _ _ _ _ _ _ _ hop hl]
    have h := elementwise_law (fun p : Value × Value => scalarOp ops false op p.1 p.2) (la.zip lb)
      (fun p => scalarOp_ok_or_err ops false op p.1 p.2)
    have hlen : (la.zip lb).length = la.length := by simp [List.length_zip, hl]
    constructor
    · rw [h.2.2.1]
      constructor
      · rintro ⟨p, hp, he⟩
        obtain ⟨i, hi, rfl⟩ := List.getElem_of_mem hp
        refine Or.inr ⟨i, by omega, by omega, ?_⟩
        simpa [List.getElem_zip] using he
      · rintro (h' | ⟨i, h1, h2, he⟩)
        · exact absurd hl h'
        · refine ⟨(la.zip lb)[i]'(by omega), List.getElem_mem _, ?_⟩
          simpa [List.getElem_zip] using he
    · intro v
      rw [h.1 v]
      constructor
      · rintro ⟨vs, rfl, hvl, hg⟩
        refine ⟨hl, vs, rfl, by omega, fun i h1 h2 h3 => ?_⟩
        have := hg i (by omega) h3
        simp only [List.getElem_zip] at this
        exact this
      · rintro ⟨_, vs, rfl, hvl, hg⟩
        refine ⟨vs, rfl, by omega, fun i h1 h2 => ?_⟩
        simp only [List.getElem_zip]
        exact hg i (by omega) (by omega) h2
  · have hnd : op ∉ dotOps := by
      intro hd; have := bcast_not_dot hop; rw [(mem_dotOps_iff op).mp hd] at this; cases this
    have hni : op ≠ .into := by rintro rfl; simp [bcast] at hop
    rw [unequal_lengths_fail _ _ _ _ _ _ _ hnd hl]
    simp [hl, hni, Outcome.isErr]

/-! #### 8. the dot comparisons never broadcast -/

/-- for ALL operands, lists included, a dot comparison is `compareOp` on the two whole values -/
theorem dot_never_broadcasts (ops : NumOps) (fuel depth : Nat) (op : BinOp) (a b : Value) (s : ES)
    (hop : op ∈ dotOps) : evalBin ops (fuel+1) depth op a b s = (compareOp op a b, s) :=
  evalBin_dot ops fuel depth op a b s hop

/-- in particular: no length error on lists of different lengths, and list `.==` scalar is `false` -/
theorem dot_on_lists (ops : NumOps) (fuel depth : Nat) (la lb : List Value) (sc : Value) (s : ES)
    (hs : isListV sc = false) :
    evalBin ops (fuel+1) depth .deq (.list la) (.list lb) s = (.ok (.bool (veqList la lb)), s) ∧
    evalBin ops (fuel+1) depth .deq (.list la) sc s = (.ok (.bool false), s) ∧
    evalBin ops (fuel+1) depth .dne (.list la) sc s = (.ok (.bool true), s) := by
  refine ⟨?_, ?_, ?_⟩ <;> rw [evalBin_dot _ _ _ _ _ _ _ (by simp [dotOps])]
  · simp [compareOp, veq]
  · cases sc <;> simp_all [compareOp, veq, isListV]
  · cases sc <;> simp_all [compareOp, veq, isListV]

/-! #### 9. the state is untouched -/

/-- every operator other than via / into / where returns the state it was given, for all operands -/
theorem state_untouched (ops : NumOps) (fuel depth : Nat) (op : BinOp) (a b : Value) (s : ES)
    (hop : op ∉ callOps) : (evalBin ops (fuel+1) depth op a b s).2 = s := by
  rcases binOp_trichotomy op with h | h | h
  · rw [evalBin_bcast _ _ _ _ _ _ _ h]
  · rw [evalBin_dot _ _ _ _ _ _ _ h]
  · exact absurd h hop

/-! #### witnesses: the hypotheses are satisfiable by non-trivial values -/

section examples
/-- the former defect `false and 5` (used to short-circuit to `false`): now a type error -/
example : evalBin toyOps 1 0 .and (.bool false) (.num (F64.ofNat 5)) demoState = (.err .type_, demoState) :=
  (logical_requires_booleans toyOps 0 0 .and _ _ demoState (by simp) rfl rfl).2 (by simp)
example : (evalBin toyOps 1 0 .or (.bool true) (.str "x") demoState).1 = .err .type_ := by
  rw [evalBin_bcast (h := by simp [bcast])]; rfl

/-- string + number and number + string are errors; `"a" + "b"` is `"ab"` -/
example : (evalBin toyOps 1 0 .add (.str "a") vOne demoState).1 = .err .type_ := by
  rw [evalBin_bcast (h := by simp [bcast])]; rfl
example : (evalBin toyOps 1 0 .add vOne (.str "a") demoState).1 = .err .type_ := by
  rw [evalBin_bcast (h := by simp [bcast])]; rfl
example : ¬ ∃ x y, Value.str "a" = .str x ∧ vOne = .str y := by simp [vOne]
example : (evalBin toyOps 1 0 .add (.str "a") (.str "b") demoState).1 = .ok (.str "ab") := by
  rw [add_concatenates_strings]; rfl

/-- `null ?? 2 = 2`, `false ?? 2 = false` -/
example : (evalBin toyOps 1 0 .coalesce .null vTwo demoState).1 = .ok vTwo := by
  rw [evalBin_bcast (h := by simp [bcast])]; rfl
example : (evalBin toyOps 1 0 .coalesce (.bool false) vTwo demoState).1 = .ok (.bool false) := by
  rw [evalBin_bcast (h := by simp [bcast])]; rfl

/-- list ∘ scalar with a failing element in the middle: the first failure wins -/
example : (evalBin toyOps 1 0 .sub (.list [vOne, .str "a", .null]) vTwo demoState).1 = .err .type_ := by
  rw [evalBin_bcast (h := by simp [bcast])]; rfl
example : (evalBin toyOps 1 0 .lt (.list [vOne, vTwo]) vTwo demoState).1 =
    .ok (.list [.bool true, .bool false]) := by
  rw [evalBin_bcast (h := by simp [bcast])]; rfl
/-- `*` with the scalar on the left: the element is the first argument of `ops.mul`
    (`toyOps.mul` returns its SECOND argument, so every result is the scalar); for `-` the scalar
    is the first argument (`toyOps.sub` returns its first argument) -/
example : (evalBin toyOps 1 0 .mul vTwo (.list [vOne]) demoState).1 = .ok (.list [vTwo]) := by
  rw [evalBin_bcast (h := by simp [bcast])]; rfl
example : (evalBin toyOps 1 0 .sub vTwo (.list [vOne]) demoState).1 = .ok (.list [vTwo]) := by
  rw [evalBin_bcast (h := by simp [bcast])]; rfl
/-- list ∘ list, and the length error -/
example : (evalBin toyOps 1 0 .coalesce (.list [.null, vOne]) (.list [vTwo, vTwo]) demoState).1 =
    .ok (.list [vTwo, vOne]) := by
  rw [evalBin_bcast (h := by simp [bcast])]; rfl
example : (evalBin toyOps 1 0 .add (.list [vOne]) (.list [vTwo, vTwo]) demoState).1 = .err .length := by
  rw [evalBin_bcast (h := by simp [bcast])]; rfl
/-- nested lists do not broadcast a second time: the element rule is the scalar rule -/
example : (evalBin toyOps 1 0 .add (.list [.list [vOne]]) vTwo demoState).1 = .err .type_ := by
  rw [evalBin_bcast (h := by simp [bcast])]; rfl
/-- dot comparisons: no broadcast, no length error -/
example : (evalBin toyOps 1 0 .deq (.list [vOne]) (.list [vTwo, vTwo]) demoState).1 = .ok (.bool false) := by
  rw [evalBin_dot (h := by simp [dotOps])]; rfl
example : (evalBin toyOps 1 0 .dlt (.list [vOne]) (.list [vOne, vTwo]) demoState).1 = .ok (.bool true) := by
  rw [evalBin_dot (h := by simp [dotOps])]; rfl
example : isData vOne = true ∧ isData (.list [vOne, .str "q"]) = true := by decide
end examples

end Blots.C11
