import Blots.Lemmas.BuiltinLaws
/-
  C14 — Indexing, spreading and the list / string / record built-ins satisfy their laws.

  Statements about `callPure ops name args` (the built-ins without callbacks), `callHof`
  (sort_by / group_by / count_by), `eval` (indexing, field access, list literals with
  spreads) and the helper functions they are made of.  All theorems hold for every
  `ops : NumOps`; helper lemmas live in `Blots/Lemmas/BuiltinLaws.lean`.

  * sort / sort_by: a permutation of the input for EVERY input (`sort_perm`,
    `mergeSortBy_perm` — no assumption on the comparison, so nothing is lost or invented on
    incomparable mixes); non-decreasing and stable whenever the elements (keys) are mutually
    comparable; under that hypothesis the result IS the textbook stable insertion sort.
  * unique, reverse, concat, flatten, zip, chunk, slice, head / tail, range, keys / values /
    entries, group_by / count_by, join / split: see the sections below.
  * indexing: `indexOf` + `listGetD`; spreading: `spreadValues` / `flattenSpreads`.
-/
namespace Blots.C14

/-! ### sort: permutation, order, stability -/

/-- `stable_sort_by` never loses or invents an element, whatever `lt` is and whatever the fuel -/
theorem mergeSortBy_perm {α} (lt : α → α → Bool) (n : Nat) (xs : List α) :
    (mergeSortBy lt n xs).Perm xs := Blots.mergeSortBy_perm lt n xs

theorem mergeBy_perm {α} (lt : α → α → Bool) (l r : List α) : (mergeBy lt l r).Perm (l ++ r) :=
  Blots.mergeBy_perm lt l r

/-- with fuel ≥ length and `lt` a strict weak order on the elements (`WeakOrderOn`: asymmetric
    and `b < a`, `¬ c < a` ⟹ `b < c`) the result is non-decreasing -/
theorem mergeSortBy_sorted {α} (lt : α → α → Bool) (P : α → Prop) (h : WeakOrderOn lt P)
    (n : Nat) (xs : List α) (hn : xs.length ≤ n) (hP : ∀ x ∈ xs, P x) :
    (mergeSortBy lt n xs).Pairwise (fun a b => lt b a = false) :=
  Blots.mergeSortBy_sorted h n xs hn hP

/-- … and stable: the members of every class of mutually non-smaller elements keep their
    relative order … -/
theorem mergeSortBy_stable {α} (lt : α → α → Bool) (P : α → Prop) (h : WeakOrderOn lt P)
    (p : α → Bool) (hp : ∀ x y, p x = true → p y = true → lt x y = false)
    (n : Nat) (xs : List α) (hn : xs.length ≤ n) (hP : ∀ x ∈ xs, P x) :
    (mergeSortBy lt n xs).filter p = xs.filter p :=
  Blots.mergeSortBy_stable h p hp n xs hn hP

/-- … in fact it is exactly the textbook stable sort (insertion from the right, each element
    placed before the first one that is not strictly smaller) -/
theorem mergeSortBy_eq_stableRef {α} (lt : α → α → Bool) (P : α → Prop) (h : WeakOrderOn lt P)
    (n : Nat) (xs : List α) (hn : xs.length ≤ n) (hP : ∀ x ∈ xs, P x) :
    mergeSortBy lt n xs = stableRef lt xs :=
  Blots.mergeSortBy_eq_stableRef h n xs hn hP

/-- the hypotheses are met by `sortLt` on comparable values -/
example : WeakOrderOn sortLt (fun v => v ∈ [Value.num int2, .num int1, .num int3]) :=
  sortLt_weakOrder _ (by
    intro a ha b hb
    simp only [List.mem_cons, List.not_mem_nil, or_false] at ha hb
    rcases ha with rfl | rfl | rfl <;> rcases hb with rfl | rfl | rfl <;>
      simp only [vcmp, ne_eq] <;> decide +kernel)

theorem sort_builtin (ops : NumOps) (l : List Value) :
    callPure ops "sort" [.list l] = some (.ok (.list (mergeSortBy sortLt l.length l))) := rfl

theorem sort_non_list (ops : NumOps) (v : Value) (h : ∀ l, v ≠ .list l) :
    callPure ops "sort" [v] = some (.err .type_) := by
  cases v <;> first | rfl | exact absurd rfl (h _)

/-- `sort` returns a permutation of its argument — for every list -/
theorem sort_perm (ops : NumOps) (l : List Value) :
    ∃ out, callPure ops "sort" [.list l] = some (.ok (.list out)) ∧ out.Perm l :=
  ⟨_, rfl, Blots.mergeSortBy_perm _ _ _⟩

/-- on mutually comparable elements the result is non-decreasing -/
theorem sort_sorted (ops : NumOps) (l : List Value) (hc : Comparable l) :
    ∃ out, callPure ops "sort" [.list l] = some (.ok (.list out)) ∧
      out.Pairwise (fun a b => vcmp a b = some .lt ∨ vcmp a b = some .eq) :=
  ⟨_, rfl, sort_sorted_vcmp l hc⟩

/-- … and equal elements keep their relative order -/
theorem sort_stable (ops : NumOps) (l : List Value) (hc : Comparable l) (v : Value) :
    ∃ out, callPure ops "sort" [.list l] = some (.ok (.list out)) ∧
      out.filter (fun x => vcmp x v == some .eq) = l.filter (fun x => vcmp x v == some .eq) :=
  ⟨_, rfl, Blots.sort_stable l hc v⟩

theorem sort_is_reference_sort (ops : NumOps) (l : List Value) (hc : Comparable l) :
    callPure ops "sort" [.list l] = some (.ok (.list (stableRef sortLt l))) := by
  rw [sort_builtin, Blots.mergeSortBy_eq_stableRef (sortLt_weakOrder l hc) _ _ (Nat.le_refl _) (fun _ h => h)]

/-- a list that is already in order (on comparable elements) is returned unchanged -/
theorem sort_fixes_sorted (ops : NumOps) (l : List Value) (hc : Comparable l)
    (hs : l.Pairwise (fun a b => vcmp a b = some .lt ∨ vcmp a b = some .eq)) :
    callPure ops "sort" [.list l] = some (.ok (.list l)) := by
  rw [sort_is_reference_sort ops l hc, stableRef_of_sorted]
  refine List.Pairwise.imp ?_ hs
  intro a b h
  rcases h with h | h
  · simp [sortLt, vcmp_lt_gt h]
  · simp [sortLt, vcmp_eq_symm h]

/-- `sort` is idempotent on mutually comparable elements -/
theorem sort_idempotent (ops : NumOps) (l : List Value) (hc : Comparable l) :
    ∃ out, callPure ops "sort" [.list l] = some (.ok (.list out)) ∧
      callPure ops "sort" [.list out] = some (.ok (.list out)) := by
  refine ⟨_, sort_builtin ops l, ?_⟩
  have hmem := mem_mergeSortBy sortLt l.length l
  apply sort_fixes_sorted
  · intro a ha b hb
    exact hc a ((hmem a).mp ha) b ((hmem b).mp hb)
  · exact sort_sorted_vcmp l hc

/-- `Comparable` holds e.g. for numbers without NaN; a string next to a number breaks it -/
example : Comparable [.num int2, .num int1] := by
  intro a ha b hb
  simp only [List.mem_cons, List.not_mem_nil, or_false] at ha hb
  rcases ha with rfl | rfl <;> rcases hb with rfl | rfl <;> simp only [vcmp, ne_eq] <;> decide +kernel

example : callPure intOps "sort" [.list [.num int2, .str "a", .num int1]] =
    some (.ok (.list [.num int2, .str "a", .num int1])) := by
  -- (2 and 1 are never compared with each other: the string between them is "equal" to both)
  rw [sort_builtin]
  simp [mergeSortBy, mergeBy, sortLt, vcmp]

/-! ### sort_by -/

/-- (the `fuel` outcome is a model artefact: a key call ran out of model fuel) -/
theorem sort_by_builtin (ops : NumOps) (fuel : Nat) (l : List Value) (f : Value) (depth : Nat) (s : ES) :
    callHof ops (fuel + 1) "sort_by" [.list l, f] depth s =
      if !f.isCallable then (.ok (.list l), s)
      else if anyKeyFuel (keyCalls ops fuel f l (depth + 1) s).1 then
        (.fuel, (keyCalls ops fuel f l (depth + 1) s).2)
      else
        (.ok (.list ((mergeSortBy sortByLt (keyCalls ops fuel f l (depth + 1) s).1.length
            (keyCalls ops fuel f l (depth + 1) s).1).map (·.1))),
          (keyCalls ops fuel f l (depth + 1) s).2) := callHof_sort_by ops fuel l f depth s

/-- `sort_by` returns a permutation of its list — whatever the key function returns -/
theorem sort_by_perm (ops : NumOps) (fuel : Nat) (l : List Value) (f : Value) (depth : Nat) (s : ES) :
    ∃ s1, callHof ops (fuel + 1) "sort_by" [.list l, f] depth s = (.fuel, s1) ∨
      ∃ out, callHof ops (fuel + 1) "sort_by" [.list l, f] depth s = (.ok (.list out), s1) ∧
        out.Perm l := by
  rw [sort_by_builtin]
  cases f.isCallable with
  | false => exact ⟨s, Or.inr ⟨l, rfl, List.Perm.refl _⟩⟩
  | true =>
    cases hf : anyKeyFuel (keyCalls ops fuel f l (depth + 1) s).1 with
    | true => exact ⟨_, Or.inl rfl⟩
    | false =>
      refine ⟨_, Or.inr ⟨_, rfl, ?_⟩⟩
      have h := (Blots.mergeSortBy_perm sortByLt (keyCalls ops fuel f l (depth + 1) s).1.length
        (keyCalls ops fuel f l (depth + 1) s).1).map (·.1)
      rw [keyCalls_fst] at h
      exact h

/-- when every key was computed and the keys are mutually comparable, the result is in
    non-decreasing key order, elements with equal keys in their original order: it is the
    reference stable sort of the (element, key) pairs -/
theorem sort_by_sorted_stable (ops : NumOps) (fuel : Nat) (l : List Value) (f : Value) (depth : Nat)
    (s : ES) (hf : f.isCallable = true)
    (hok : KeysOk (keyCalls ops fuel f l (depth + 1) s).1)
    (hc : Comparable ((keyCalls ops fuel f l (depth + 1) s).1.map keyOf)) :
    ∃ sorted s1, callHof ops (fuel + 1) "sort_by" [.list l, f] depth s =
        (.ok (.list (sorted.map (·.1))), s1) ∧
      sorted.Perm (keyCalls ops fuel f l (depth + 1) s).1 ∧
      sorted.Pairwise (fun a b => sortLt (keyOf b) (keyOf a) = false) ∧
      sorted = stableRef sortByLt (keyCalls ops fuel f l (depth + 1) s).1 := by
  rw [sort_by_builtin, hf, anyKeyFuel_of_keysOk _ hok]
  have hw := sortByLt_weakOrder _ hok hc
  refine ⟨_, _, rfl, Blots.mergeSortBy_perm _ _ _, ?_,
    Blots.mergeSortBy_eq_stableRef hw _ _ (Nat.le_refl _) (fun _ h => h)⟩
  have hs := Blots.mergeSortBy_sorted hw _ _ (Nat.le_refl _) (fun _ h => h)
  have hmem := mem_mergeSortBy sortByLt (keyCalls ops fuel f l (depth + 1) s).1.length
    (keyCalls ops fuel f l (depth + 1) s).1
  refine List.Pairwise.imp_of_mem ?_ hs
  intro a b ha hb hba
  rw [← sortByLt_eq b a (hok b ((hmem b).mp hb)) (hok a ((hmem a).mp ha))]
  exact hba

/-! ### unique -/

theorem unique_builtin (ops : NumOps) (l : List Value) :
    callPure ops "unique" [.list l] = some (.ok (.list (uniqueBy l))) := rfl

/-- the result is a subsequence of the input (order kept, nothing invented) -/
theorem unique_sublist (l : List Value) : (uniqueBy l).Sublist l := by
  have := uniqFold_sublist l []
  simpa [uniqueBy_eq] using this

/-- every input element is kept or is `.==` to a kept one (an element that is not `.==` to
    itself — NaN, functions — is simply kept) -/
theorem unique_covers (l : List Value) (x : Value) (hx : x ∈ l) :
    x ∈ uniqueBy l ∨ ∃ y ∈ uniqueBy l, veq x y = true := uniqFold_covers l [] x hx

/-- no kept element is `.==` to an earlier kept one -/
theorem unique_no_two_equal (l : List Value) :
    (uniqueBy l).Pairwise (fun a b => veq b a = false) := uniqFold_pairwise l [] List.Pairwise.nil

/-- a kept data value is the FIRST member of its `.==` class: nothing before (one of) its
    occurrence(s) is `.==` to it -/
theorem unique_first_of_class (l : List Value) (y : Value) (hy : y ∈ uniqueBy l) (hd : isData y = true) :
    ∃ pre post, l = pre ++ y :: post ∧ ∀ z ∈ pre, veq y z = false := by
  rcases uniqFold_first l [] y hy with h | ⟨pre, post, hl, hany⟩
  · cases h
  · refine ⟨pre, post, hl, ?_⟩
    intro z hz
    cases hyz : veq y z with
    | false => rfl
    | true =>
      have hnone : ∀ w ∈ pre.foldl uniqStep [], veq y w = false := by
        intro w hw
        cases hv : veq y w with
        | false => rfl
        | true =>
          have := List.any_eq_true.mpr ⟨w, hw, hv⟩
          rw [hany] at this; cases this
      rcases uniqFold_covers pre [] z hz with hz' | ⟨w, hw, hzw⟩
      · rw [hnone z hz'] at hyz; cases hyz
      · have := veq_trans y z w hd hyz hzw
        rw [hnone w hw] at this; cases this

example : uniqueBy [.num int1, .str "a", .num int1, .str "a", .null] = [.num int1, .str "a", .null] := by
  have h : F64.feq int1 int1 = true := by decide +kernel
  simp [uniqueBy, veq, h]

/-! ### reverse -/

theorem reverse_builtin (ops : NumOps) (l : List Value) :
    callPure ops "reverse" [.list l] = some (.ok (.list l.reverse)) := rfl

theorem reverse_involution (ops : NumOps) (l r : List Value)
    (h : callPure ops "reverse" [.list l] = some (.ok (.list r))) :
    callPure ops "reverse" [.list r] = some (.ok (.list l)) := by
  rw [reverse_builtin] at h
  injection h with h; injection h with h; injection h with h
  subst h
  rw [reverse_builtin, List.reverse_reverse]

/-! ### chunk / flatten -/

theorem chunk_builtin (ops : NumOps) (l : List Value) (n : F64) :
    callPure ops "chunk" [.list l, .num n] =
      some (if n.toU64 == 0 then .err .domain else .ok (.list (chunkList n.toU64 (l.length + 1) l))) := by
  rfl

theorem flatten_builtin (ops : NumOps) (l : List Value) :
    callPure ops "flatten" [.list l] = some (.ok (.list (l.flatMap flattenOne))) := by
  have : (fun v : Value => match v with | .list inner => inner | v => [v]) = flattenOne := by
    funext v; cases v <;> rfl
  rw [← this]; rfl

/-- flatten(chunk(l, n)) == l for every list (also a list of lists) and every valid size -/
theorem flatten_chunk (ops : NumOps) (l : List Value) (n : F64) (hn : n.toU64 ≠ 0) :
    ∃ cs, callPure ops "chunk" [.list l, .num n] = some (.ok (.list cs)) ∧
      callPure ops "flatten" [.list cs] = some (.ok (.list l)) := by
  refine ⟨chunkList n.toU64 (l.length + 1) l, ?_, ?_⟩
  · rw [chunk_builtin]; simp [hn]
  · rw [flatten_builtin, chunkList_flatten n.toU64 (by omega) _ _ (by omega)]

/-- chunk sizes: every chunk is a non-empty list of at most n elements and the i-th chunk
    holds elements i·n … i·n+n-1 (so all chunks but possibly the last have exactly n) -/
theorem chunk_contents (ops : NumOps) (l : List Value) (n : F64) (hn : n.toU64 ≠ 0) :
    ∃ cs, callPure ops "chunk" [.list l, .num n] = some (.ok (.list cs)) ∧
      (∀ c ∈ cs, ∃ xs, c = .list xs ∧ 0 < xs.length ∧ xs.length ≤ n.toU64) ∧
      (∀ i, i * n.toU64 < l.length → cs[i]? = some (.list ((l.drop (i * n.toU64)).take n.toU64))) := by
  refine ⟨chunkList n.toU64 (l.length + 1) l, ?_, ?_, ?_⟩
  · rw [chunk_builtin]; simp [hn]
  · exact chunkList_sizes _ (by omega) _ _
  · intro i hi; exact chunkList_getElem? _ (by omega) _ _ _ (by omega) hi

theorem chunk_zero_is_error (ops : NumOps) (l : List Value) (n : F64) (hn : n.toU64 = 0) :
    callPure ops "chunk" [.list l, .num n] = some (.err .domain) := by
  rw [chunk_builtin]; simp [hn]

example : int2.toU64 ≠ 0 := by decide +kernel

/-! ### head / tail -/

theorem head_list (ops : NumOps) (l : List Value) :
    callPure ops "head" [.list l] = some (.ok (l.headD .null)) := rfl
theorem tail_list (ops : NumOps) (l : List Value) :
    callPure ops "tail" [.list l] = some (.ok (.list (l.drop 1))) := rfl
theorem head_str (ops : NumOps) (s : String) :
    callPure ops "head" [.str s] = some (.ok (.str (strOfChars ((chars s).take 1)))) := rfl
theorem tail_str (ops : NumOps) (s : String) :
    callPure ops "tail" [.str s] = some (.ok (.str (strOfChars ((chars s).drop 1)))) := rfl

/-- head and tail rebuild a non-empty list -/
theorem head_tail_rebuild (ops : NumOps) (l : List Value) (hne : l ≠ []) :
    ∃ h t, callPure ops "head" [.list l] = some (.ok h) ∧
      callPure ops "tail" [.list l] = some (.ok (.list t)) ∧ h :: t = l := by
  cases l with
  | nil => exact absurd rfl hne
  | cons a r => exact ⟨a, r, rfl, rfl, rfl⟩

/-- … and every string (head = its first character as a string, "" for the empty string) -/
theorem head_tail_rebuild_str (ops : NumOps) (s : String) :
    ∃ h t, callPure ops "head" [.str s] = some (.ok (.str h)) ∧
      callPure ops "tail" [.str s] = some (.ok (.str t)) ∧ h ++ t = s ∧
      h.toList = s.toList.take 1 ∧ t.toList = s.toList.drop 1 := by
  refine ⟨_, _, head_str ops s, tail_str ops s, ?_, ?_, ?_⟩
  · simp only [strOfChars, chars]
    rw [← String.ofList_append, List.take_append_drop, String.ofList_toList]
  · simp [strOfChars, chars]
  · simp [strOfChars, chars]

theorem head_tail_empty (ops : NumOps) :
    callPure ops "head" [.list []] = some (.ok .null) ∧
    callPure ops "tail" [.list []] = some (.ok (.list [])) ∧
    callPure ops "head" [.str ""] = some (.ok (.str "")) ∧
    callPure ops "tail" [.str ""] = some (.ok (.str "")) := ⟨rfl, rfl, rfl, rfl⟩

/-! ### range -/

/-- the complete behaviour of `range(a, b)` on numbers -/
theorem range_exact (ops : NumOps) (a b : F64) :
    callPure ops "range" [.num a, .num b] = some (
      if F64.flt b a then .err .domain
      else if !a.isFinite || !b.isFinite then .err .domain
      else if b.toI64 - a.toI64 > u32Max ∨ b.toI64 - a.toI64 < -(2 ^ 63) then .err .domain
      else .ok (.list ((List.range (b.toI64 - a.toI64).toNat).map fun i =>
        .num (F64.ofInt (a.toI64 + Int.ofNat i))))) := by
  rw [callPure_range2, rangeOf_exact]

/-- range(a, b) lists the integers a .. b-1 (as doubles `F64.ofInt`), when a ≤ b are finite
    and at most u32::MAX apart -/
theorem range_spec (ops : NumOps) (a b : F64) (hab : F64.flt b a = false)
    (ha : a.isFinite = true) (hb : b.isFinite = true)
    (hle : a.toI64 ≤ b.toI64) (hlen : b.toI64 - a.toI64 ≤ u32Max) :
    ∃ out, callPure ops "range" [.num a, .num b] = some (.ok (.list out)) ∧
      out.length = (b.toI64 - a.toI64).toNat ∧
      ∀ i, i < (b.toI64 - a.toI64).toNat → out[i]? = some (.num (F64.ofInt (a.toI64 + Int.ofNat i))) := by
  refine ⟨(List.range (b.toI64 - a.toI64).toNat).map fun i =>
    .num (F64.ofInt (a.toI64 + Int.ofNat i)), ?_, ?_, ?_⟩
  · rw [range_exact]
    have h3 : ¬ (b.toI64 - a.toI64 > u32Max ∨ b.toI64 - a.toI64 < -(2 ^ 63)) := by omega
    simp only [hab, ha, hb, h3]
    simp
  · simp
  · intro i hi
    simp [List.getElem?_map, List.getElem?_range hi]

/-- one argument: range(n) = range(0, n) -/
theorem range_one_arg (ops : NumOps) (n : F64) :
    callPure ops "range" [.num n] = callPure ops "range" [.num F64.zero, .num n] := by
  rw [callPure_range1, callPure_range2]

theorem range_errors (ops : NumOps) (a b : F64) :
    (F64.flt b a = true → callPure ops "range" [.num a, .num b] = some (.err .domain)) ∧
    (a.isFinite = false ∨ b.isFinite = false → callPure ops "range" [.num a, .num b] = some (.err .domain)) ∧
    (b.toI64 - a.toI64 > u32Max → callPure ops "range" [.num a, .num b] = some (.err .domain)) := by
  refine ⟨?_, ?_, ?_⟩
  · intro h; rw [range_exact]; simp [h]
  · intro h; rw [range_exact]; rcases h with h | h <;> simp [h]
  · intro h; rw [range_exact]
    have : b.toI64 - a.toI64 > u32Max ∨ b.toI64 - a.toI64 < -(2 ^ 63) := Or.inl h
    simp only [this, if_true]
    congr 1
    split
    · rfl
    · split <;> rfl

theorem range_non_number (ops : NumOps) (v w : Value) (h : (∀ x, v ≠ .num x) ∨ (∀ x, w ≠ .num x)) :
    callPure ops "range" [v, w] = some (.err .type_) := by
  rcases h with h | h
  · cases v <;> first | rfl | exact absurd rfl (h _)
  · cases v <;> cases w <;> first | rfl | exact absurd rfl (h _)

/-- hypotheses of `range_spec` on range(1, 3) -/
example : F64.flt int3 int1 = false ∧ int1.isFinite = true ∧ int3.isFinite = true ∧
    int1.toI64 = 1 ∧ int3.toI64 = 3 ∧ F64.ofInt 1 = int1 ∧ F64.ofInt 2 = int2 := by decide +kernel

/-! ### slice, concat, zip -/

theorem slice_list (ops : NumOps) (l : List Value) (a b : F64) :
    callPure ops "slice" [.list l, .num a, .num b] = some (
      if a.toU64 ≤ b.toU64 ∧ b.toU64 ≤ l.length then .ok (.list ((l.take b.toU64).drop a.toU64))
      else .err .domain) := by
  have e : callPure ops "slice" [.list l, .num a, .num b] = some (
      if a.toU64 ≤ b.toU64 && b.toU64 ≤ l.length then .ok (.list ((l.take b.toU64).drop a.toU64))
      else .err .domain) := rfl
  rw [e]
  by_cases h : a.toU64 ≤ b.toU64 ∧ b.toU64 ≤ l.length
  · simp [h]
  · simp only [h, if_false]
    have : (decide (a.toU64 ≤ b.toU64) && decide (b.toU64 ≤ l.length)) = false := by
      simpa using h
    simp [this]

/-- slice(l, i, j) is elements i … j-1 -/
theorem slice_spec (ops : NumOps) (l : List Value) (a b : F64)
    (h1 : a.toU64 ≤ b.toU64) (h2 : b.toU64 ≤ l.length) :
    ∃ out, callPure ops "slice" [.list l, .num a, .num b] = some (.ok (.list out)) ∧
      out.length = b.toU64 - a.toU64 ∧
      ∀ k, k < b.toU64 - a.toU64 → out[k]? = l[a.toU64 + k]? := by
  refine ⟨(l.take b.toU64).drop a.toU64, ?_, ?_, ?_⟩
  · rw [slice_list]; simp [h1, h2]
  · simp [List.length_take]; omega
  · intro k hk
    rw [List.getElem?_drop, List.getElem?_take]
    simp; omega

example : int1.toU64 ≤ int3.toU64 ∧ int3.toU64 ≤ [Value.null, .null, .null].length := by
  decide +kernel

theorem concat_builtin (ops : NumOps) (args : List Value) :
    callPure ops "concat" args = some (.ok (.list (args.flatMap concatPiece))) := by
  have : (fun v : Value => match v with
      | .list l => l
      | .spread (.list l) => l
      | .spread (.str s) => (chars s).map fun c => Value.str (String.singleton c)
      | v => [v]) = concatPiece := by
    funext v; unfold concatPiece; rfl
  rw [← this]; rfl

/-- concat of lists is their concatenation … -/
theorem concat_spec (ops : NumOps) (ls : List (List Value)) :
    callPure ops "concat" (ls.map .list) = some (.ok (.list ls.flatten)) := by
  rw [concat_builtin]
  congr 3
  induction ls with
  | nil => rfl
  | cons a r ih => simp [concatPiece, ih]

theorem concat_two (ops : NumOps) (a b : List Value) :
    callPure ops "concat" [.list a, .list b] = some (.ok (.list (a ++ b))) := by
  rw [concat_builtin]; simp [concatPiece]

/-- … and a non-list argument is pushed as a single element -/
theorem concat_non_list (ops : NumOps) (a : List Value) (v : Value)
    (h1 : ∀ l, v ≠ .list l) (h2 : ∀ w, v ≠ .spread w) :
    callPure ops "concat" [.list a, v] = some (.ok (.list (a ++ [v]))) := by
  rw [concat_builtin]
  have : concatPiece v = [v] := by
    cases v <;> first | rfl | exact absurd rfl (h1 _) | exact absurd rfl (h2 _)
  rw [List.flatMap_cons, List.flatMap_cons, List.flatMap_nil, this]
  simp [concatPiece]

theorem zip_builtin (ops : NumOps) (ls : List (List Value)) :
    callPure ops "zip" (ls.map .list) =
      some (.ok (.list (zipRows ls (ls.foldl (fun m l => max m l.length) 0)))) := by
  have e : ∀ args, callPure ops "zip" args = some (
      match Outcome.mapM' (fun v => match v with | .list l => Outcome.ok l | _ => .err .type_) args with
      | .ok lists => .ok (.list (zipRows lists (lists.foldl (fun m l => max m l.length) 0)))
      | .err k => .err k
      | .panic s => .panic s
      | .fuel => .fuel) := fun _ => rfl
  rw [e, mapM_lists _ (fun _ => rfl)]

/-- zip: as many rows as the longest argument has elements; row i holds the i-th element of
    every argument, `null` where an argument is too short -/
theorem zip_spec (ops : NumOps) (ls : List (List Value)) :
    ∃ rows, callPure ops "zip" (ls.map .list) = some (.ok (.list rows)) ∧
      (∀ l ∈ ls, l.length ≤ rows.length) ∧
      (rows.length = 0 ∨ ∃ l ∈ ls, rows.length = l.length) ∧
      ∀ i, i < rows.length → rows[i]? = some (.list (ls.map fun l => (l[i]?).getD .null)) := by
  refine ⟨_, zip_builtin ops ls, ?_, ?_, ?_⟩
  · intro l hl; rw [zipRows_length]; exact (foldl_max_ge ls 0).2 l hl
  · rw [zipRows_length]; exact foldl_max_attained ls 0
  · intro i hi; rw [zipRows_length] at hi; exact zipRows_getElem? ls _ i hi

theorem zip_non_list (ops : NumOps) (a : List Value) (v : Value) (h : ∀ l, v ≠ .list l) :
    callPure ops "zip" [.list a, v] = some (.err .type_) := by
  cases v <;> first | exact absurd rfl (h _) | rfl

/-! ### keys / values / entries and field access -/

theorem keys_builtin (ops : NumOps) (r : List (String × Value)) :
    callPure ops "keys" [.record r] = some (.ok (.list (r.map fun kv => .str kv.1))) := rfl
theorem values_builtin (ops : NumOps) (r : List (String × Value)) :
    callPure ops "values" [.record r] = some (.ok (.list (r.map fun kv => kv.2))) := rfl
theorem entries_builtin (ops : NumOps) (r : List (String × Value)) :
    callPure ops "entries" [.record r] = some (.ok (.list (r.map fun kv => .list [.str kv.1, kv.2]))) := rfl

/-- the i-th entry is [i-th key, i-th value]; for a record with distinct keys (every IndexMap)
    the i-th value is what field access with the i-th key yields; absent keys yield none (null) -/
theorem keys_values_entries (ops : NumOps) (r : List (String × Value)) :
    ∃ ks vs es, callPure ops "keys" [.record r] = some (.ok (.list ks)) ∧
      callPure ops "values" [.record r] = some (.ok (.list vs)) ∧
      callPure ops "entries" [.record r] = some (.ok (.list es)) ∧
      ks.length = r.length ∧ vs.length = r.length ∧ es.length = r.length ∧
      (∀ (i : Nat) (k v : Value), ks[i]? = some k → vs[i]? = some v → es[i]? = some (.list [k, v])) ∧
      (keysNodup r = true → ∀ (i : Nat) (k : String) (v : Value),
        ks[i]? = some (.str k) → vs[i]? = some v → lookupAL k r = some v) ∧
      (∀ k : String, (∀ i : Nat, ks[i]? ≠ some (.str k)) → lookupAL k r = none) := by
  refine ⟨_, _, _, keys_builtin ops r, values_builtin ops r, entries_builtin ops r,
    by simp, by simp, by simp, ?_, ?_, ?_⟩
  · intro i k v hk hv
    simp only [List.getElem?_map] at hk hv ⊢
    cases hr : r[i]? with
    | none => simp [hr] at hk
    | some kv =>
      simp only [hr, Option.map_some, Option.some.injEq] at hk hv ⊢
      simp [← hk, ← hv]
  · intro hn i k v hk hv
    simp only [List.getElem?_map] at hk hv
    cases hr : r[i]? with
    | none => simp [hr] at hk
    | some kv =>
      simp only [hr, Option.map_some, Option.some.injEq, Value.str.injEq] at hk hv
      refine mem_lookupAL hn ?_
      have := List.mem_of_getElem? hr
      rw [← hk, ← hv]; exact this
  · intro k hk
    rw [lookupAL_none_iff]
    intro hmem
    obtain ⟨kv, hkv, hfst⟩ := List.mem_map.mp hmem
    obtain ⟨i, hi⟩ := List.getElem?_of_mem hkv
    exact hk i (by simp [List.getElem?_map, hi, hfst])

/-- `r.field` and `r[k]` yield the value under the key, or null when it is absent -/
theorem field_access (ops : NumOps) (fuel depth : Nat) (e i : Expr) (field : String) (s s1 s2 : ES)
    (r : List (String × Value)) (h : eval ops fuel depth e s = (.ok (.record r), s1))
    (hi : eval ops fuel depth i s1 = (.ok (.str field), s2)) :
    eval ops (fuel + 1) depth (.dot e field) s = (.ok ((lookupAL field r).getD .null), s1) ∧
    eval ops (fuel + 1) depth (.access e i) s = (.ok ((lookupAL field r).getD .null), s2) := by
  constructor
  · simp [eval, h]
  · simp [eval, h, hi]


/-! ### group_by / count_by partition the list -/

/-- `ks` = the keys the callback returned, element by element -/
theorem group_by_builtin (ops : NumOps) (fuel : Nat) (l ks : List Value) (f : Value) (ar : Gen.Arity)
    (depth : Nat) (s s1 : ES) (har : arityOf f = some ar)
    (hk : mapCalls ops fuel f false l 0 (depth + 1) s = (.ok ks, s1)) :
    callHof ops (fuel + 1) "group_by" [.list l, f] depth s =
      (match groupByKeys l ks with
       | some r => .ok (.record r)
       | none => .err .type_, s1) := by
  rw [group_by_shape, har]
  simp only [hk]
  cases groupByKeys l ks <;> rfl

theorem count_by_builtin (ops : NumOps) (fuel : Nat) (l ks : List Value) (f : Value) (ar : Gen.Arity)
    (depth : Nat) (s s1 : ES) (har : arityOf f = some ar)
    (hk : mapCalls ops fuel f false l 0 (depth + 1) s = (.ok ks, s1)) :
    callHof ops (fuel + 1) "count_by" [.list l, f] depth s =
      (match countByKeys ops ks with
       | some r => .ok (.record r)
       | none => .err .type_, s1) := by
  rw [count_by_shape, har]
  simp only [hk]
  cases countByKeys ops ks <;> rfl

/-- group_by partitions the list: the record has one entry per distinct key (no key twice),
    the entry of key k is the list of the elements whose key is k, in list order, and a key
    that never occurs has no entry.  `ks` are the keys the callback returned, element by
    element. -/
theorem group_by_partitions (l ks : List Value) (r : Frame) (h : groupByKeys l ks = some r) :
    (r.map Prod.fst).Nodup ∧
    ∀ k, lookupAL k r = (if groupOf k l ks = [] then none else some (.list (groupOf k l ks))) :=
  ⟨groupByKeys_nodup l ks r h, groupByKeys_lookup l ks r h⟩

/-- it fails (type error) exactly when some key is not a string -/
theorem group_by_succeeds_iff (l ks : List Value) :
    (groupByKeys l ks).isSome = true ↔ (l.length = ks.length ∧ ∀ v ∈ ks, ∃ k, v = .str k) :=
  groupByKeys_isSome l ks

/-- count_by: the entry of key k is the number of elements with key k, computed as
    1 + 1 + … + 1 with `ops.add` (`countF`) -/
theorem count_by_counts (ops : NumOps) (ks : List Value) (r : Frame) (h : countByKeys ops ks = some r) :
    ∀ k, lookupAL k r = (if countOf k ks = 0 then none else some (.num (countF ops (countOf k ks)))) :=
  countByKeys_lookup ops ks r h

example : groupByKeys [.num int1, .num int2, .num int3] [.str "a", .str "b", .str "a"] =
    some [("a", .list [.num int1, .num int3]), ("b", .list [.num int2])] := by
  simp [groupByKeys, lookupAL]

/-! ### indexing -/

theorem index_list_eval (ops : NumOps) (fuel depth : Nat) (e i : Expr) (s s1 s2 : ES) (l : List Value)
    (x : F64) (h : eval ops fuel depth e s = (.ok (.list l), s1))
    (hi : eval ops fuel depth i s1 = (.ok (.num x), s2)) :
    eval ops (fuel + 1) depth (.access e i) s = (.ok (indexValue l x), s2) := by
  simp only [eval, h, hi, indexValue]
  cases indexOf l.length x <;> rfl

/-- indexing is 0-based (on the index truncated toward zero by `as i64`), counts from the end
    for negative indices, and yields null out of range on either side -/
theorem index_spec (l : List Value) (x : F64) :
    (0 ≤ x.toI64 → ∀ (h : x.toI64.toNat < l.length), indexValue l x = l[x.toI64.toNat]) ∧
    (0 ≤ x.toI64 → l.length ≤ x.toI64.toNat → indexValue l x = .null) ∧
    (∀ (h0 : x.toI64 < 0) (h : (l.length : Int) + x.toI64 ≥ 0),
      indexValue l x = l[((l.length : Int) + x.toI64).toNat]'(by omega)) ∧
    ((l.length : Int) + x.toI64 < 0 → indexValue l x = .null) := by
  refine ⟨?_, ?_, ?_, ?_⟩
  · intro h0 h; simp [indexValue, indexOf_nonneg _ _ h0, listGetD_lt _ _ h]
  · intro h0 h; simp [indexValue, indexOf_nonneg _ _ h0, listGetD_ge _ _ h]
  · intro h0 h
    have hlt : ((l.length : Int) + x.toI64).toNat < l.length := by omega
    simp [indexValue, indexOf_neg_in _ _ h0 h, listGetD_lt _ _ hlt]
  · intro h; simp [indexValue, indexOf_neg_out _ _ h]

/-- -1 is the last element -/
theorem index_minus_one (l : List Value) (x : F64) (hx : x.toI64 = -1) (hne : l ≠ []) :
    indexValue l x = l.getLast hne := by
  have hpos : 0 < l.length := List.length_pos_iff.mpr hne
  have h := (index_spec l x).2.2.1 (by omega) (by omega)
  rw [h, List.getLast_eq_getElem]
  congr 1
  omega

/-- fractional indices truncate toward zero: 1.5 ↦ 1, -0.5 ↦ 0, -1.5 ↦ -1 -/
example : (F64.ofNatBits 0x3FF8000000000000).toI64 = 1 ∧ (F64.ofNatBits 0xBFE0000000000000).toI64 = 0 ∧
    (F64.ofNatBits 0xBFF8000000000000).toI64 = -1 := by decide +kernel

/-- string indexing: the same rule on the characters -/
theorem index_str_eval (ops : NumOps) (fuel depth : Nat) (e i : Expr) (s s1 s2 : ES) (str : String)
    (x : F64) (h : eval ops fuel depth e s = (.ok (.str str), s1))
    (hi : eval ops fuel depth i s1 = (.ok (.num x), s2)) :
    eval ops (fuel + 1) depth (.access e i) s = (.ok (indexValue (spreadValues (.str str)) x), s2) := by
  simp only [eval, h, hi, indexValue, spreadValues, List.length_map]
  congr 2
  cases indexOf (chars str).length x with
  | none => rfl
  | some k =>
    simp only [listGetD, List.getElem?_map]
    cases (chars str)[k]? <;> rfl

/-! ### join(split(s, d), d) == s -/

/-- on character lists: joining the pieces `splitOnL` produces with the delimiter gives the
    string back — for every delimiter, also the empty one (where Rust's `split("")` yields
    "", every character, "") -/
theorem join_split_chars (d s : List Char) : d.intercalate (splitOnL d s) = s := by
  rw [intercalate_eq_joinL]; exact join_splitOnL d s

theorem join_split (ops : NumOps) (s d : String) :
    ∃ parts, callPure ops "split" [.str s, .str d] = some (.ok (.list parts)) ∧
      callPure ops "join" [.list parts, .str d] = some (.ok (.str s)) :=
  ⟨_, callPure_split ops s d, join_split_builtin ops s d⟩

example : splitOnL ['-'] ['a', '-', 'b', '-'] = [['a'], ['b'], []] := by decide
example : splitOnL [] ['a', 'b'] = [[], ['a'], ['b'], []] := by decide

/-! ### string functions act on the characters that indexing and spreading expose -/

theorem spread_str (s : String) :
    spreadValues (.str s) = s.toList.map fun c => .str (String.singleton c) := rfl

/-- len / head / tail / slice of a string are len / take 1 / drop 1 / take-drop of the very
    sequence of one-character strings that spreading (and indexing, `index_str_eval`) expose -/
theorem string_functions_use_chars (ops : NumOps) (s : String) :
    callPure ops "len" [.str s] = some (.ok (.num (F64.ofNat (spreadValues (.str s)).length))) ∧
    (∃ h, callPure ops "head" [.str s] = some (.ok (.str h)) ∧
      spreadValues (.str h) = (spreadValues (.str s)).take 1) ∧
    (∃ t, callPure ops "tail" [.str s] = some (.ok (.str t)) ∧
      spreadValues (.str t) = (spreadValues (.str s)).drop 1) ∧
    (∀ a b : F64, a.toU64 ≤ b.toU64 → b.toU64 ≤ (spreadValues (.str s)).length →
      ∃ r, callPure ops "slice" [.str s, .num a, .num b] = some (.ok (.str r)) ∧
        spreadValues (.str r) = ((spreadValues (.str s)).take b.toU64).drop a.toU64) := by
  refine ⟨?_, ⟨_, rfl, ?_⟩, ⟨_, rfl, ?_⟩, ?_⟩
  · have : (spreadValues (.str s)).length = (chars s).length := by simp [spreadValues]
    rw [this]; rfl
  · rw [spread_strOfChars]; simp [spreadValues, List.map_take]
  · rw [spread_strOfChars]; simp [spreadValues]
  · intro a b h1 h2
    have hlen : (spreadValues (.str s)).length = (chars s).length := by simp [spreadValues]
    rw [hlen] at h2
    have e : callPure ops "slice" [.str s, .num a, .num b] = some (
        if a.toU64 ≤ b.toU64 && b.toU64 ≤ (chars s).length then
          .ok (.str (strOfChars (((chars s).take b.toU64).drop a.toU64)))
        else .err .domain) := rfl
    refine ⟨strOfChars (((chars s).take b.toU64).drop a.toU64), ?_, ?_⟩
    · rw [e]; simp [h1, h2]
    · rw [spread_strOfChars]; simp [spreadValues, List.map_take, List.map_drop]

theorem slice_str_out_of_range (ops : NumOps) (s : String) (a b : F64)
    (h : ¬ (a.toU64 ≤ b.toU64 ∧ b.toU64 ≤ s.toList.length)) :
    callPure ops "slice" [.str s, .num a, .num b] = some (.err .domain) := by
  have e : callPure ops "slice" [.str s, .num a, .num b] = some (
      if a.toU64 ≤ b.toU64 && b.toU64 ≤ (chars s).length then
        .ok (.str (strOfChars (((chars s).take b.toU64).drop a.toU64)))
      else .err .domain) := rfl
  rw [e]
  have : (decide (a.toU64 ≤ b.toU64) && decide (b.toU64 ≤ (chars s).length)) = false := by
    simp only [chars, Bool.and_eq_false_iff, decide_eq_false_iff_not]
    by_cases h1 : a.toU64 ≤ b.toU64
    · exact Or.inr (decide_eq_false (fun h2 => h ⟨h1, h2⟩))
    · exact Or.inl h1
  simp [this]

/-! ### spreading -/

/-- spreading a list, a string or a record yields its elements, its characters (as
    one-character strings) or its [key, value] pairs, in order -/
theorem spread_values (l : List Value) (s : String) (r : List (String × Value)) :
    spreadValues (.list l) = l ∧
    spreadValues (.str s) = s.toList.map (fun c => .str (String.singleton c)) ∧
    spreadValues (.record r) = r.map (fun kv => .list [.str kv.1, kv.2]) := ⟨rfl, rfl, rfl⟩

/-- … which is what `entries` returns for a record -/
theorem spread_record_eq_entries (ops : NumOps) (r : List (String × Value)) :
    callPure ops "entries" [.record r] = some (.ok (.list (spreadValues (.record r)))) := rfl

/-- a list literal is the concatenation of its items, spread items contributing their
    elements -/
theorem list_literal (ops : NumOps) (fuel depth : Nat) (items : List Item) (s s1 : ES) (vs : List Value)
    (h : evalItems ops fuel depth items s = (.ok vs, s1)) :
    eval ops (fuel + 1) depth (.list items) s = (.ok (.list (flattenSpreads vs)), s1) := by
  simp only [eval, h]

/-- `...e` evaluates to the spread marker of a list, string or record value -/
theorem spread_expr (ops : NumOps) (fuel depth : Nat) (e : Expr) (s s1 : ES) (l : List Value)
    (h : eval ops fuel depth e s = (.ok (.list l), s1)) :
    eval ops (fuel + 1) depth (.spread e) s = (.ok (.spread (.list l)), s1) := by
  simp only [eval, h]

/-- [...a, ...b] equals concat(a, b) -/
theorem spread_eq_concat (ops : NumOps) (a b : List Value) :
    flattenSpreads [.spread (.list a), .spread (.list b)] = a ++ b ∧
    callPure ops "concat" [.list a, .list b] = some (.ok (.list (a ++ b))) := by
  refine ⟨flattenSpreads_two_lists a b, ?_⟩
  have e : callPure ops "concat" [.list a, .list b] = some (.ok (.list (a ++ (b ++ [])))) := rfl
  rw [e, List.append_nil]

/-- unspread items are kept as they are, and the pieces come in order -/
theorem flattenSpreads_laws (xs ys : List Value) :
    flattenSpreads (xs ++ ys) = flattenSpreads xs ++ flattenSpreads ys ∧
    ((∀ v ∈ xs, ∀ w, v ≠ .spread w) → flattenSpreads xs = xs) :=
  ⟨flattenSpreads_append xs ys, flattenSpreads_plain xs⟩

/-- arguments of a call are flattened the same way: f(...a, ...b) receives a ++ b -/
example (a b : List Value) : flattenSpreads [.spread (.list a), .num int1, .spread (.list b)] =
    a ++ [.num int1] ++ b := by
  simp [flattenSpreads, spreadValues]



/-! ### witnesses for the hypotheses used above -/

/-- `sort_by_sorted_stable`: keys computed and comparable -/
example : KeysOk [(Value.str "b", Outcome.ok (.num int2)), (.str "a", .ok (.num int1))] ∧
    Comparable ([(Value.str "b", Outcome.ok (.num int2)), (.str "a", .ok (.num int1))].map keyOf) := by
  refine ⟨?_, ?_⟩
  · intro kv hkv
    simp only [List.mem_cons, List.not_mem_nil, or_false] at hkv
    rcases hkv with rfl | rfl <;> exact ⟨_, rfl⟩
  · intro a ha b hb
    simp only [List.map_cons, List.map_nil, keyOf, List.mem_cons, List.not_mem_nil, or_false] at ha hb
    rcases ha with rfl | rfl <;> rcases hb with rfl | rfl <;> simp only [vcmp, ne_eq] <;> decide +kernel

/-- `unique_first_of_class`: a kept data value -/
example : Value.str "a" ∈ uniqueBy [.str "a", .null, .str "a"] ∧ isData (.str "a") = true := by
  simp [uniqueBy, veq, isData]

/-- `index_list_eval` / `list_literal` / `spread_expr`: the evaluator on `[1, 2][-1]` -/
example : eval intOps 5 0 (.access (.list [.mk [] (.num int1) none, .mk [] (.num int2) none])
      (.un .negate (.num int1))) default =
    (.ok (.num int2), default) := by
  have h : (int1.negate).toI64 = -1 := by decide +kernel
  simp [eval, evalItems, flattenSpreads, indexOf, h, listGetD]

/-- `field_access`: `{a: 1}.a` and a missing key -/
example : eval intOps 5 0 (.dot (.record [.mk [] (.static "a") (.num int1) none]) "a") default =
      (.ok (.num int1), default) ∧
    eval intOps 5 0 (.dot (.record [.mk [] (.static "a") (.num int1) none]) "b") default =
      (.ok .null, default) := by
  constructor <;> simp [eval, evalEntries, insertAL, lookupAL]

/-- `group_by_builtin` / `count_by_counts` -/
example : countByKeys intOps [.str "a", .str "b", .str "a"] =
    some [("a", .num (intOps.add F64.one F64.one)), ("b", .num F64.one)] := by
  simp [countByKeys, lookupAL]

example : keysNodup [("a", Value.null), ("b", .null)] = true := by decide


end Blots.C14
