import Blots.Lemmas.EvalEnv
/-
  C03 — Bindings are immutable and scoped: a bound name never changes or leaks.

  The model: `eval` & co. (Model/Eval.lean) over a stack of frames `ES.env` (innermost first).
  `TopExt e e'` (Lemmas/EvalEnv.lean): `e'` has the frames of `e`, all frames below the innermost
  one identical, the innermost one extended (every old binding kept with its value; every new
  key is a name a top-level assignment accepts).  `EnvExt e e'`: `TopExt`, and every visible
  binding is still visible with the same value.  `SameBelow e e'`: the frames below the
  innermost one are identical.  `eval` guarantees `TopExt` at every call depth and `EnvExt` at
  depth 0 (top-level statements); inside a function call (depth > 0) a plain assignment only
  looks at the call's own frame (`alreadyDefined`), so there it may add a name that is also
  bound further out — it then shadows that name for the rest of the call, like a do-block
  statement does, and is dropped with the call's frame.

  A session is `runStmts ops fuel s stmts` (= the driver's `Drv.runSession`, the function the
  harness compares with the real interpreter statement by statement): statements evaluated
  in order in one state, continuing after failures.

  What "the value" of a name is: a `Value` tree.  For a function value this includes its `id`
  (the heap cell), parameters, body and captured scope.  The display name of a function cell
  lives in `ES.names` (keyed by `id`); it is the only thing an evaluation can change about an
  existing function, and it is not part of the value (`veq` ignores it; it only selects the
  self-reference name inside calls and the printed form).

  Not modelled here: the grammar (PEG).  It refuses `if then else true false null and or not
  do return output` as identifiers, so `not = 1`, `do = 1`, `return = 1`, `output = 1` never
  reach the evaluator as assignments; the evaluator by itself refuses only the words of
  `Gen.assignKeywords` (see `reserved_words_covered`).
-/
namespace Blots.C03

/-! #### the invariant -/

/-- a top-level evaluation (depth 0) only ever extends the innermost frame, whatever the
    outcome, and every visible binding stays visible with its value -/
theorem env_extends (ops : NumOps) (fuel : Nat) (e : Expr) (s : ES) :
    EnvExt s.env (eval ops fuel 0 e s).2.env :=
  eval_ext ops fuel e s

/-- at any call depth: frames below unchanged, innermost frame only extended -/
theorem env_extends_any_depth (ops : NumOps) (fuel depth : Nat) (e : Expr) (s : ES) :
    TopExt s.env (eval ops fuel depth e s).2.env :=
  eval_topExt ops fuel depth e s

/-- the same, spelled out for a non-empty environment -/
theorem env_extends_frames (ops : NumOps) (fuel depth : Nat) (e : Expr) (s : ES)
    (top : Frame) (below : List Frame) (hs : s.env = top :: below) :
    ∃ top', (eval ops fuel depth e s).2.env = top' :: below ∧
      (∀ k v, lookupAL k top = some v → lookupAL k top' = some v) ∧
      (∀ k, (lookupAL k top').isSome → (lookupAL k top).isSome ∨ Assignable k) ∧
      (depth = 0 → ∀ k v, envGet s.env k = some v → envGet (eval ops fuel depth e s).2.env k = some v) := by
  have h := eval_extD ops fuel depth e s
  rcases h.below with he | ⟨f', he⟩
  · refine ⟨top, by rw [he, hs], fun _ _ h => h, fun _ h => Or.inl h, h.get0⟩
  · refine ⟨f', by rw [he, hs]; rfl, ?_, ?_, h.get0⟩
    · have := h.top; rw [he, hs] at this; exact this
    · have := h.fresh; rw [he, hs] at this; exact this

/-- argument lists, list items and record entries: the same invariant -/
theorem env_extends_lists (ops : NumOps) (fuel depth : Nat) (s : ES) :
    (∀ es, ExtD depth s.env (evalList ops fuel depth es s).2.env) ∧
    (∀ is, ExtD depth s.env (evalItems ops fuel depth is s).2.env) ∧
    (∀ es acc, ExtD depth s.env (evalEntries ops fuel depth es acc s).2.env) :=
  ⟨fun es => (eval_group_ext ops fuel).2.1 depth es s,
   fun is => (eval_group_ext ops fuel).2.2.1 depth is s,
   fun es acc => (eval_group_ext ops fuel).2.2.2.1 depth es acc s⟩

/-- the direct statements of a do-block write (with replacement: shadowing is allowed there)
    into the block's own frame only: everything below it is untouched -/
theorem do_statements_touch_only_their_frame (ops : NumOps) (fuel depth : Nat) (s : ES)
    (blockFrame : Frame) (outer : List Frame) (hs : s.env = blockFrame :: outer) :
    (∀ e, ∃ f', (evalDoStmt ops fuel depth e s).2.env = f' :: outer) ∧
    (∀ stmts ret, ∃ f', (evalDo ops fuel depth stmts ret s).2.env = f' :: outer) := by
  constructor
  · intro e
    have h := (eval_group_ext ops fuel).2.2.2.2.1 depth e s
    rcases h with he | ⟨f', he⟩
    · exact ⟨blockFrame, by rw [he, hs]⟩
    · exact ⟨f', by rw [he, hs]; rfl⟩
  · intro stmts ret
    have h := (eval_group_ext ops fuel).2.2.2.2.2 depth stmts ret s
    rcases h with he | ⟨f', he⟩
    · exact ⟨blockFrame, by rw [he, hs]⟩
    · exact ⟨f', by rw [he, hs]; rfl⟩

/-! #### 1. a binding is permanent -/

/-- once `x` is visible with value `v` at some point of a session, it is visible with the same
    value after any further statements, failing or not -/
theorem root_binding_is_permanent (ops : NumOps) (fuel : Nat) (s : ES) (pre post : List Expr)
    (x : String) (v : Value)
    (h : envGet (runStmts ops fuel s pre).2.env x = some v) :
    envGet (runStmts ops fuel s (pre ++ post)).2.env x = some v := by
  rw [runStmts_append]
  exact (runStmts_ext ops fuel post _).get x v h

/-- the root environment of a session stays one frame, which only grows -/
theorem root_frame_only_grows (ops : NumOps) (fuel : Nat) (s : ES) (stmts : List Expr) (root : Frame)
    (hs : s.env = [root]) :
    ∃ root', (runStmts ops fuel s stmts).2.env = [root'] ∧
      ∀ k v, lookupAL k root = some v → lookupAL k root' = some v := by
  have h := runStmts_ext ops fuel stmts s
  rw [hs] at h
  obtain ⟨f', hf⟩ := h.below.single
  refine ⟨f', hf, ?_⟩
  have := h.top
  rw [hf] at this
  exact this

/-- the session of the theorems above is the driver's `runSession` -/
theorem session_is_driver_session (ops : NumOps) (fuel : Nat) (s : ES) (stmts : List Expr) :
    runStmts ops fuel s stmts = Drv.runSession ops fuel s stmts :=
  runStmts_eq_runSession ops fuel s stmts

/-! #### 2. rebinding is refused -/

/-- assigning a name that is already defined (`alreadyDefined`: at top level, visible anywhere
    in the chain; inside a call, bound in the call's own frame) fails, the state is unchanged
    and the right-hand side is not evaluated (the result does not depend on it) -/
theorem rebind_is_refused (ops : NumOps) (fuel depth : Nat) (x : String) (e : Expr) (s : ES)
    (hx : alreadyDefined depth s.env x = true) :
    ∃ k, eval ops (fuel + 1) depth (.assign x e) s = (.err k, s) ∧
      (k = .alreadyDefined ∨ k = .builtinName ∨ k = .keyword) := by
  rw [eval]
  split
  · exact ⟨_, rfl, Or.inr (Or.inl rfl)⟩
  split
  · exact ⟨_, rfl, Or.inr (Or.inr rfl)⟩
  exact ⟨_, rfl, Or.inl rfl⟩

/-- at top level: any visible name -/
theorem rebind_is_refused_top_level (ops : NumOps) (fuel : Nat) (x : String) (e : Expr) (s : ES)
    (hx : envContains s.env x = true) :
    ∃ k, eval ops (fuel + 1) 0 (.assign x e) s = (.err k, s) ∧
      (k = .alreadyDefined ∨ k = .builtinName ∨ k = .keyword) :=
  rebind_is_refused ops fuel 0 x e s (by simpa [alreadyDefined] using hx)

theorem rebind_is_refused_already_defined (ops : NumOps) (fuel depth : Nat) (x : String) (e : Expr)
    (s : ES) (hx : alreadyDefined depth s.env x = true) (ha : Assignable x) :
    eval ops (fuel + 1) depth (.assign x e) s = (.err .alreadyDefined, s) := by
  rw [eval, if_neg (by simp [ha.1]), if_neg (by have := ha.2; simpa using this), if_pos hx]

/-- the right-hand side cannot smuggle the binding in either: if evaluating it binds `x`, the
    assignment fails and the binding made by the right-hand side stays
    (`x = [x = 1, x]` rebound `x` before the fix of expressions.rs) -/
theorem rebind_through_rhs_is_refused (ops : NumOps) (fuel depth : Nat) (x : String) (e : Expr)
    (s s1 : ES) (val : Value) (ha : Assignable x) (hx : alreadyDefined depth s.env x = false)
    (he : eval ops fuel depth e s = (.ok val, s1)) (hx1 : alreadyDefined depth s1.env x = true) :
    eval ops (fuel + 1) depth (.assign x e) s = (.err .alreadyDefined, s1) := by
  rw [eval, if_neg (by simp [ha.1]), if_neg (by have := ha.2; simpa using this), if_neg (by simp [hx]), he]
  simp [hx1]

/-! #### 3. reserved names cannot be bound -/

/-- a built-in function name or a keyword of the evaluator is never assigned at top level:
    error, state unchanged, right-hand side not evaluated -/
theorem reserved_names_unbindable (ops : NumOps) (fuel depth : Nat) (n : String) (e : Expr) (s : ES)
    (hn : isBuiltinIdent n = true ∨ n ∈ Gen.assignKeywords) :
    ∃ k, eval ops (fuel + 1) depth (.assign n e) s = (.err k, s) ∧
      (k = .builtinName ∨ k = .keyword) := by
  rw [eval]
  split
  · exact ⟨_, rfl, Or.inl rfl⟩
  · rename_i hb
    rcases hn with hn | hn
    · exact absurd hn hb
    · rw [if_pos (by simpa using hn)]
      exact ⟨_, rfl, Or.inr rfl⟩

/-- consequently such a name, if not visible at some point, is never visible later in the
    session, and never becomes a key of the root frame -/
theorem reserved_names_never_bound (ops : NumOps) (fuel : Nat) (s : ES) (stmts : List Expr) (n : String)
    (hn : isBuiltinIdent n = true ∨ n ∈ Gen.assignKeywords)
    (h0 : envGet s.env n = none) :
    envGet (runStmts ops fuel s stmts).2.env n = none := by
  refine (runStmts_ext ops fuel stmts s).toTopExt.get_none ?_ h0
  intro ha
  rcases hn with hn | hn
  · rw [ha.1] at hn; cases hn
  · have := ha.2
    simp only [List.contains_eq_mem, decide_eq_false_iff_not] at this
    exact this hn

/-- the same inside one evaluation, at any depth of nesting (e.g. in the frame of a call) -/
theorem reserved_names_never_bound_eval (ops : NumOps) (fuel depth : Nat) (e : Expr) (s : ES) (n : String)
    (hn : isBuiltinIdent n = true ∨ n ∈ Gen.assignKeywords)
    (h0 : envGet s.env n = none) :
    envGet (eval ops fuel depth e s).2.env n = none := by
  refine (eval_topExt ops fuel depth e s).get_none ?_ h0
  intro ha
  rcases hn with hn | hn
  · rw [ha.1] at hn; cases hn
  · have := ha.2
    simp only [List.contains_eq_mem, decide_eq_false_iff_not] at this
    exact this hn

/-- `inputs` and `constants` are among the refused names -/
theorem inputs_and_constants_reserved :
    "inputs" ∈ Gen.assignKeywords ∧ "constants" ∈ Gen.assignKeywords := by decide

/-- every reserved word of the grammar is refused by the evaluator, except the four the
    evaluator leaves to the grammar (which never produces them as identifiers) -/
theorem reserved_words_covered :
    ∀ w ∈ Gen.grammarReserved, w ∈ Gen.assignKeywords ∨ w ∈ ["not", "do", "return", "output"] := by
  decide

/-- of the identifiers evaluated specially, `constants` is refused as a keyword; `inf` and
    `infinity` are accepted as assignment targets by the evaluator, but reading the identifier
    always yields the special value, so such a binding is never observed through the name
    (only through the record shorthand `{inf}`) -/
theorem special_idents_assignability :
    ∀ w ∈ Gen.specialIdents, w ∈ Gen.assignKeywords ∨ w = "inf" ∨ w = "infinity" := by decide

/-- no built-in name is also a name the evaluator would accept -/
theorem builtin_names_not_assignable : ∀ r ∈ Gen.fromIdent, ¬ Assignable r.1 := by
  intro r hr ha
  have : isBuiltinIdent r.1 = true := by
    unfold isBuiltinIdent
    rw [List.find?_isSome]
    exact ⟨r, hr, by simp⟩
  rw [ha.1] at this; cases this

/-! #### 4. do-blocks and calls do not leak -/

/-- a do-block returns the caller's environment exactly: neither its direct assignments nor
    assignments nested in its statements (`do { [y = 1]; return 2 }`) survive it -/
theorem do_block_does_not_leak (ops : NumOps) (fuel depth : Nat) (stmts : List Item) (ret : Item) (s : ES) :
    (eval ops fuel depth (.doBlock stmts ret) s).2.env = s.env := by
  cases fuel with
  | zero => rw [eval]
  | succ fuel =>
    rw [eval]
    have h := (eval_group_ext ops fuel).2.2.2.2.2 depth stmts ret { s with env := [] :: s.env }
    generalize evalDo ops fuel depth stmts ret _ = p at h ⊢
    obtain ⟨r, s1⟩ := p
    exact h.drop_push

/-- a call (of a function value or a built-in, including the higher-order ones and their
    callbacks) returns the caller's environment exactly -/
theorem call_does_not_leak (ops : NumOps) (fuel : Nat) (fv this : Value) (args : List Value) (depth : Nat)
    (s : ES) : (callFn ops fuel fv this args depth s).2.env = s.env :=
  callFn_env ops fuel fv this args depth s

/-- operators that call functions (`via`, `into`, `where`) included -/
theorem operator_does_not_leak (ops : NumOps) (fuel depth : Nat) (op : BinOp) (a b : Value) (s : ES) :
    (evalBin ops fuel depth op a b s).2.env = s.env :=
  evalBin_env ops fuel depth op a b s

/-- a call expression: the environment afterwards is the one after evaluating the callee and
    the arguments in the caller's scope (`f(y = 1)` binds `y` for the caller; the call itself
    adds nothing) -/
theorem call_expr_does_not_leak (ops : NumOps) (fuel depth : Nat) (f : Expr) (args : List Expr)
    (s s1 s2 : ES) (fv : Value) (raw : List Value)
    (hf : eval ops fuel depth f s = (.ok fv, s1))
    (ha : evalList ops fuel depth args s1 = (.ok raw, s2)) :
    (eval ops (fuel + 1) depth (.call f args) s).2.env = s2.env := by
  rw [eval, hf]
  simp only [ha]
  split
  · rfl
  · exact callFn_env ..

/-! #### 5. shadowing is undone on exit -/

theorem shadowing_restores_after_do_block (ops : NumOps) (fuel depth : Nat) (stmts : List Item) (ret : Item)
    (s : ES) (x : String) :
    envGet (eval ops fuel depth (.doBlock stmts ret) s).2.env x = envGet s.env x := by
  rw [do_block_does_not_leak]

theorem shadowing_restores_after_call (ops : NumOps) (fuel : Nat) (fv this : Value) (args : List Value)
    (depth : Nat) (s : ES) (x : String) :
    envGet (callFn ops fuel fv this args depth s).2.env x = envGet s.env x := by
  rw [call_does_not_leak]

/-! #### 6. failures keep earlier bindings -/

/-- whatever way a top-level statement fails (error, panic, or the model running out of fuel),
    every binding visible before it is visible afterwards with the same value -/
theorem failed_statement_keeps_earlier_bindings (ops : NumOps) (fuel : Nat) (e : Expr) (s s' : ES)
    (r : Outcome Value) (hr : eval ops fuel 0 e s = (r, s')) (_hfail : r.isOk = false)
    (x : String) (v : Value) (hx : envGet s.env x = some v) : envGet s'.env x = some v := by
  have := (eval_ext ops fuel e s).get x v hx
  rw [hr] at this
  exact this

/-- at any depth a failing evaluation keeps the bindings of the innermost frame and leaves
    the frames below untouched -/
theorem failed_evaluation_keeps_frames (ops : NumOps) (fuel depth : Nat) (e : Expr) (s s' : ES)
    (r : Outcome Value) (hr : eval ops fuel depth e s = (r, s')) (_hfail : r.isOk = false)
    (top : Frame) (below : List Frame) (hs : s.env = top :: below) :
    ∃ top', s'.env = top' :: below ∧ ∀ k v, lookupAL k top = some v → lookupAL k top' = some v := by
  obtain ⟨top', h1, h2, _⟩ := env_extends_frames ops fuel depth e s top below hs
  rw [hr] at h1
  exact ⟨top', h1, h2⟩

/-! #### examples: the hypotheses are satisfiable, the statements are not vacuous -/

set_option linter.unusedSimpArgs false

/-- `x = [x = 1, x]` (the defect found: formerly rebound `x` from 1 to [1, 1]) is now refused,
    `x` keeps the value the right-hand side gave it -/
example : eval toyOps 10 0
      (.assign "x" (.list [it (.assign "x" (.num F64.one)), it (.ident "x")])) root0
    = (.err .alreadyDefined, { root0 with env := [[("x", .num F64.one)]] }) := by
  simp +decide [eval, evalItems, it, root0, envGet, lookupAL, envInsert, insertAL, setNameIfLambda, createdSince]

/-- hypotheses of `rebind_through_rhs_is_refused` -/
example : Assignable "x" ∧ alreadyDefined 0 root0.env "x" = false ∧
    eval toyOps 9 0 (.list [it (.assign "x" (.num F64.one)), it (.ident "x")]) root0
      = (.ok (.list [.num F64.one, .num F64.one]), { root0 with env := [[("x", .num F64.one)]] }) ∧
    alreadyDefined 0 [[("x", Value.num F64.one)]] "x" = true := by
  refine ⟨by decide, by decide, ?_, by decide⟩
  simp +decide [eval, evalItems, it, root0, envGet, lookupAL, envInsert, insertAL, setNameIfLambda, createdSince,
    flattenSpreads]

/-- a session with a failing statement in the middle: `x = 1; x = 2 (refused); y = x` -/
example : (runStmts toyOps 10 root0
      [.assign "x" (.num F64.one), .assign "x" (.num F64.zero), .assign "y" (.ident "x")]).2.env
    = [[("x", .num F64.one), ("y", .num F64.one)]] := by
  simp +decide [runStmts, eval, root0, envGet, lookupAL, envInsert, insertAL, setNameIfLambda, createdSince,
    envContains]

/-- hypothesis of `rebind_is_refused` (top level: bound in an outer frame; in a call: only the
    call's own frame counts) -/
example : alreadyDefined 0 [[], [("x", Value.num F64.one)]] "x" = true ∧
    alreadyDefined 1 [[], [("x", Value.num F64.one)]] "x" = false ∧
    alreadyDefined 1 [[("x", Value.num F64.one)]] "x" = true := by decide

/-- hypotheses of `reserved_names_unbindable` / `reserved_names_never_bound` -/
example : isBuiltinIdent "map" = true ∧ "inputs" ∈ Gen.assignKeywords ∧
    envGet root0.env "map" = none := by decide

/-- a do-block that shadows `x`, binds `y` directly and `z` inside a list:
    result 0 (the inner `x`), environment exactly as before -/
example : eval toyOps 12 0
      (.doBlock [it (.assign "x" (.num F64.zero)), it (.assign "y" (.list [it (.assign "z" (.num F64.one))]))]
        (it (.ident "x")))
      { root0 with env := [[("x", .num F64.one)]] }
    = (.ok (.num F64.zero), { root0 with env := [[("x", .num F64.one)]] }) := by
  simp +decide [eval, evalDo, evalDoStmt, evalItems, it, root0, envGet, lookupAL, envInsert, insertAL,
    setNameIfLambda, createdSince, envContains, flattenSpreads]

/-- a call whose parameter shadows `x` and whose body assigns `y`: nothing leaks -/
example : callFn toyOps 12 (.lambda 1 [.req "x"] (.assign "y" (.ident "x")) []) .null [.num F64.zero] 0
      { root0 with env := [[("x", .num F64.one)]] }
    = (.ok (.num F64.zero), { root0 with env := [[("x", .num F64.one)]] }) := by
  simp +decide [callFn, eval, checkArity, lambdaArity, Gen.Arity.canAccept, MAX_DEPTH, nameOf, bindParams,
    bindParams.go, root0, envGet, lookupAL, envInsert, insertAL, setNameIfLambda, createdSince, envContains]

/-- inside a call a plain assignment may shadow an outer name in the call's own frame (only that
    frame is looked at): body `[t, t = a, t]` with the caller binding t ↦ 1 gives [1, a, a];
    the caller's `t` is untouched afterwards -/
example : callFn toyOps 12 (.lambda 1 [.req "a"]
        (.list [it (.ident "t"), it (.assign "t" (.ident "a")), it (.ident "t")]) []) .null [.num F64.zero] 0
      { root0 with env := [[("t", .num F64.one)]] }
    = (.ok (.list [.num F64.one, .num F64.zero, .num F64.zero]), { root0 with env := [[("t", .num F64.one)]] }) := by
  simp +decide [callFn, eval, evalItems, it, checkArity, lambdaArity, Gen.Arity.canAccept, MAX_DEPTH, nameOf,
    bindParams, bindParams.go, root0, envGet, lookupAL, envInsert, insertAL, setNameIfLambda, createdSince, envContains,
    alreadyDefined, flattenSpreads]

/-- a failing statement that had already bound something: `[a = 1, nope]` fails on `nope`,
    `a` stays bound (hypotheses of `failed_statement_keeps_earlier_bindings`) -/
example : eval toyOps 10 0 (.list [it (.assign "a" (.num F64.one)), it (.ident "nope")])
      { root0 with env := [[("x", .num F64.one)]] }
    = (.err .unknownIdent, { root0 with env := [[("x", .num F64.one), ("a", .num F64.one)]] }) := by
  simp +decide [eval, evalItems, it, root0, envGet, lookupAL, envInsert, insertAL, setNameIfLambda, createdSince,
    envContains]

/-- the evaluator alone does accept `not` as a name (the grammar never lets it through) -/
example : (eval toyOps 3 0 (.assign "not" (.num F64.one)) root0).1 = .ok (.num F64.one) := by
  simp +decide [eval, root0, envGet, lookupAL, envInsert, insertAL, setNameIfLambda, createdSince, envContains]

end Blots.C03
