import Blots.Lemmas.EvalFresh
/-
  C03 — Bindings are immutable and scoped: a bound name never changes or leaks.

  The model: `eval` & co. (Model/Eval.lean) over a stack of frames `ES.env` (innermost first).
  `TopExt e e'` (Lemmas/EvalEnv.lean): `e'` has the frames of `e`, all frames below the innermost
  one identical, the innermost one extended (every old binding kept with its value; every new
  key is a name a top-level assignment accepts).  `EnvExt e e'`: `TopExt`, and every visible
  binding is still visible with the same value.  `SameBelow e e'`: the frames below the
  innermost one are identical.  `eval` guarantees `TopExt` at every call depth and `EnvExt` at
  depth 0 (top-level statements); inside a function call (depth > 0) a plain assignment only
  looks at the call's own frame (`alreadyDefined`), so there it may add a name that is also
  bound further out — it then shadows that name for the rest of the call, like a do-block
  statement does, and is dropped with the call's frame.

  A session is `runStmts ops fuel s stmts` (= the driver's `Drv.runSession`, the function the
  harness compares with the real interpreter statement by statement): statements evaluated
  in order in one state, continuing after failures.

  What "the value" of a name is: a `Value` tree.  For a function value this includes its `id`
  (the heap cell), parameters, body and captured scope.  The display name of a function cell
  lives in `ES.names` (keyed by `id`); it is the only thing an evaluation can change about an
  existing function, and it is not part of the value (`veq` ignores it; it only selects the
  self-reference name inside calls and the printed form).

  Section 7 is about that display name: `NamesExt s s'` (Lemmas/EvalNames.lean) relates the
  (`nextId`, `names`) of two states: cells are never given back, and `names` only grows at the
  front by entries for cells `≥ s.nextId` that had no name.  All fifteen functions of the
  evaluator satisfy it, whatever the outcome (`names_of_function_cells_only_grow`).  So a name
  once given never changes, and an evaluation started in `s` never names (or renames) a cell
  `< s.nextId`: a function is named once, by the assignment whose right-hand side created it.
  `StateOk s` (Lemmas/EvalIds.lean, preserved by all fifteen functions: Lemmas/EvalFresh.lean):
  every function value reachable from the environment (captured scopes included) lives in a
  cell `< s.nextId`, and so does every named cell.  The root state of a session satisfies it.
  With it, the cells named by an evaluation are exactly among those it created
  (`s.nextId ≤ id < s'.nextId`), and the function cells inside a bound value keep their names.

  Not modelled here: the grammar (PEG).  It refuses `if then else true false null and or not
  do return output` as identifiers, so `not = 1`, `do = 1`, `return = 1`, `output = 1` never
  reach the evaluator as assignments; the evaluator by itself refuses only the words of
  `Gen.assignKeywords` (see `reserved_words_covered`).
-/
namespace Blots.C03

/-! #### the invariant -/

/-- a top-level evaluation (depth 0) only ever extends the innermost frame, whatever the
    outcome, and every visible binding stays visible with its value -/
theorem env_extends (ops : NumOps) (fuel : Nat) (e : Expr) (s : ES) :
    EnvExt s.env (eval ops fuel 0 e s).2.env :=
  eval_ext ops fuel e s

/-- at any call depth: frames below unchanged, innermost frame only extended -/
theorem env_extends_any_depth (ops : NumOps) (fuel depth : Nat) (e : Expr) (s : ES) :
    TopExt s.env (eval ops fuel depth e s).2.env :=
  eval_topExt ops fuel depth e s

/-- the same, spelled out for a non-empty environment -/
theorem env_extends_frames (ops : NumOps) (fuel depth : Nat) (e : Expr) (s : ES)
    (top : Frame) (below : List Frame) (hs : s.env = top :: below) :
    ∃ top', (eval ops fuel depth e s).2.env = top' :: below ∧
      (∀ k v, lookupAL k top = some v → lookupAL k top' = some v) ∧
      (∀ k, (lookupAL k top').isSome → (lookupAL k top).isSome ∨ Assignable k) ∧
      (depth = 0 → ∀ k v, envGet s.env k = some v → envGet (eval ops fuel depth e s).2.env k = some v) := by
  have h := eval_extD ops fuel depth e s
  rcases h.below with he | ⟨f', he⟩
  · refine ⟨top, by rw [he, hs], fun _ _ h => h, fun _ h => Or.inl h, h.get0⟩
  · refine ⟨f', by rw [he, hs]; rfl, ?_, ?_, h.get0⟩
    · have := h.top; rw [he, hs] at this; exact this
    · have := h.fresh; rw [he, hs] at this; exact this

/-- argument lists, list items and record entries: the same invariant -/
theorem env_extends_lists (ops : NumOps) (fuel depth : Nat) (s : ES) :
    (∀ es, ExtD depth s.env (evalList ops fuel depth es s).2.env) ∧
    (∀ is, ExtD depth s.env (evalItems ops fuel depth is s).2.env) ∧
    (∀ es acc, ExtD depth s.env (evalEntries ops fuel depth es acc s).2.env) :=
  ⟨fun es => (eval_group_ext ops fuel).2.1 depth es s,
   fun is => (eval_group_ext ops fuel).2.2.1 depth is s,
   fun es acc => (eval_group_ext ops fuel).2.2.2.1 depth es acc s⟩

/-- the direct statements of a do-block write (with replacement: shadowing is allowed there)
    into the block's own frame only: everything below it is untouched -/
theorem do_statements_touch_only_their_frame (ops : NumOps) (fuel depth : Nat) (s : ES)
    (blockFrame : Frame) (outer : List Frame) (hs : s.env = blockFrame :: outer) :
    (∀ e, ∃ f', (evalDoStmt ops fuel depth e s).2.env = f' :: outer) ∧
    (∀ stmts ret, ∃ f', (evalDo ops fuel depth stmts ret s).2.env = f' :: outer) := by
  constructor
  · intro e
    have h := (eval_group_ext ops fuel).2.2.2.2.1 depth e s
    rcases h with he | ⟨f', he⟩
    · exact ⟨blockFrame, by rw [he, hs]⟩
    · exact ⟨f', by rw [he, hs]; rfl⟩
  · intro stmts ret
    have h := (eval_group_ext ops fuel).2.2.2.2.2 depth stmts ret s
    rcases h with he | ⟨f', he⟩
    · exact ⟨blockFrame, by rw [he, hs]⟩
    · exact ⟨f', by rw [he, hs]; rfl⟩

/-! #### 1. a binding is permanent -/

/-- once `x` is visible with value `v` at some point of a session, it is visible with the same
    value after any further statements, failing or not -/
theorem root_binding_is_permanent (ops : NumOps) (fuel : Nat) (s : ES) (pre post : List Expr)
    (x : String) (v : Value)
    (h : envGet (runStmts ops fuel s pre).2.env x = some v) :
    envGet (runStmts ops fuel s (pre ++ post)).2.env x = some v := by
  rw [runStmts_append]
  exact (runStmts_ext ops fuel post _).get x v h

/-- the root environment of a session stays one frame, which only grows -/
theorem root_frame_only_grows (ops : NumOps) (fuel : Nat) (s : ES) (stmts : List Expr) (root : Frame)
    (hs : s.env = [root]) :
    ∃ root', (runStmts ops fuel s stmts).2.env = [root'] ∧
      ∀ k v, lookupAL k root = some v → lookupAL k root' = some v := by
  have h := runStmts_ext ops fuel stmts s
  rw [hs] at h
  obtain ⟨f', hf⟩ := h.below.single
  refine ⟨f', hf, ?_⟩
  have := h.top
  rw [hf] at this
  exact this

/-- the session of the theorems above is the driver's `runSession` -/
theorem session_is_driver_session (ops : NumOps) (fuel : Nat) (s : ES) (stmts : List Expr) :
    runStmts ops fuel s stmts = Drv.runSession ops fuel s stmts :=
  runStmts_eq_runSession ops fuel s stmts

/-! #### 2. rebinding is refused -/

/-- assigning a name that is already defined (`alreadyDefined`: at top level, visible anywhere
    in the chain; inside a call, bound in the call's own frame) fails, the state is unchanged
    and the right-hand side is not evaluated (the result does not depend on it) -/
theorem rebind_is_refused (ops : NumOps) (fuel depth : Nat) (x : String) (e : Expr) (s : ES)
    (hx : alreadyDefined depth s.env x = true) :
    ∃ k, eval ops (fuel + 1) depth (.assign x e) s = (.err k, s) ∧
      (k = .alreadyDefined ∨ k = .builtinName ∨ k = .keyword) := by
  rw [eval]
  split
  · exact ⟨_, rfl, Or.inr (Or.inl rfl)⟩
  split
  · exact ⟨_, rfl, Or.inr (Or.inr rfl)⟩
  exact ⟨_, rfl, Or.inl rfl⟩

/-- at top level: any visible name -/
theorem rebind_is_refused_top_level (ops : NumOps) (fuel : Nat) (x : String) (e : Expr) (s : ES)
    (hx : envContains s.env x = true) :
    ∃ k, eval ops (fuel + 1) 0 (.assign x e) s = (.err k, s) ∧
      (k = .alreadyDefined ∨ k = .builtinName ∨ k = .keyword) :=
  rebind_is_refused ops fuel 0 x e s (by simpa [alreadyDefined] using hx)

theorem rebind_is_refused_already_defined (ops : NumOps) (fuel depth : Nat) (x : String) (e : Expr)
    (s : ES) (hx : alreadyDefined depth s.env x = true) (ha : Assignable x) :
    eval ops (fuel + 1) depth (.assign x e) s = (.err .alreadyDefined, s) := by
  rw [eval, if_neg (by simp [ha.1]), if_neg (by have := ha.2; simpa using this), if_pos hx]

/-- the right-hand side cannot smuggle the binding in either: if evaluating it binds `x`, the
    assignment fails and the binding made by the right-hand side stays
    (`x = [x = 1, x]` rebound `x` before the fix of expressions.rs) -/
theorem rebind_through_rhs_is_refused (ops : NumOps) (fuel depth : Nat) (x : String) (e : Expr)
    (s s1 : ES) (val : Value) (ha : Assignable x) (hx : alreadyDefined depth s.env x = false)
    (he : eval ops fuel depth e s = (.ok val, s1)) (hx1 : alreadyDefined depth s1.env x = true) :
    eval ops (fuel + 1) depth (.assign x e) s = (.err .alreadyDefined, s1) := by
  rw [eval, if_neg (by simp [ha.1]), if_neg (by have := ha.2; simpa using this), if_neg (by simp [hx]), he]
  simp [hx1]

/-! #### 3. reserved names cannot be bound -/

/-- a built-in function name or a keyword of the evaluator is never assigned at top level:
    error, state unchanged, right-hand side not evaluated -/
theorem reserved_names_unbindable (ops : NumOps) (fuel depth : Nat) (n : String) (e : Expr) (s : ES)
    (hn : isBuiltinIdent n = true ∨ n ∈ Gen.assignKeywords) :
    ∃ k, eval ops (fuel + 1) depth (.assign n e) s = (.err k, s) ∧
      (k = .builtinName ∨ k = .keyword) := by
  rw [eval]
  split
  · exact ⟨_, rfl, Or.inl rfl⟩
  · rename_i hb
    rcases hn with hn | hn
    · exact absurd hn hb
    · rw [if_pos (by simpa using hn)]
      exact ⟨_, rfl, Or.inr rfl⟩

/-- consequently such a name, if not visible at some point, is never visible later in the
    session, and never becomes a key of the root frame -/
theorem reserved_names_never_bound (ops : NumOps) (fuel : Nat) (s : ES) (stmts : List Expr) (n : String)
    (hn : isBuiltinIdent n = true ∨ n ∈ Gen.assignKeywords)
    (h0 : envGet s.env n = none) :
    envGet (runStmts ops fuel s stmts).2.env n = none := by
  refine (runStmts_ext ops fuel stmts s).toTopExt.get_none ?_ h0
  intro ha
  rcases hn with hn | hn
  · rw [ha.1] at hn; cases hn
  · have := ha.2
    simp only [List.contains_eq_mem, decide_eq_false_iff_not] at this
    exact this hn

/-- the same inside one evaluation, at any depth of nesting (e.g. in the frame of a call) -/
theorem reserved_names_never_bound_eval (ops : NumOps) (fuel depth : Nat) (e : Expr) (s : ES) (n : String)
    (hn : isBuiltinIdent n = true ∨ n ∈ Gen.assignKeywords)
    (h0 : envGet s.env n = none) :
    envGet (eval ops fuel depth e s).2.env n = none := by
  refine (eval_topExt ops fuel depth e s).get_none ?_ h0
  intro ha
  rcases hn with hn | hn
  · rw [ha.1] at hn; cases hn
  · have := ha.2
    simp only [List.contains_eq_mem, decide_eq_false_iff_not] at this
    exact this hn

/-- `inputs` and `constants` are among the refused names -/
theorem inputs_and_constants_reserved :
    "inputs" ∈ Gen.assignKeywords ∧ "constants" ∈ Gen.assignKeywords := by decide

/-- every reserved word of the grammar is refused by the evaluator, except the four the
    evaluator leaves to the grammar (which never produces them as identifiers) -/
theorem reserved_words_covered :
    ∀ w ∈ Gen.grammarReserved, w ∈ Gen.assignKeywords ∨ w ∈ ["not", "do", "return", "output"] := by
  decide

/-- of the identifiers evaluated specially, `constants` is refused as a keyword; `inf` and
    `infinity` are accepted as assignment targets by the evaluator, but reading the identifier
    always yields the special value, so such a binding is never observed through the name
    (only through the record shorthand `{inf}`) -/
theorem special_idents_assignability :
    ∀ w ∈ Gen.specialIdents, w ∈ Gen.assignKeywords ∨ w = "inf" ∨ w = "infinity" := by decide

/-- no built-in name is also a name the evaluator would accept -/
theorem builtin_names_not_assignable : ∀ r ∈ Gen.fromIdent, ¬ Assignable r.1 := by
  intro r hr ha
  have : isBuiltinIdent r.1 = true := by
    unfold isBuiltinIdent
    rw [List.find?_isSome]
    exact ⟨r, hr, by simp⟩
  rw [ha.1] at this; cases this

/-! #### 4. do-blocks and calls do not leak -/

/-- a do-block returns the caller's environment exactly: neither its direct assignments nor
    assignments nested in its statements (`do { [y = 1]; return 2 }`) survive it -/
theorem do_block_does_not_leak (ops : NumOps) (fuel depth : Nat) (stmts : List Item) (ret : Item) (s : ES) :
    (eval ops fuel depth (.doBlock stmts ret) s).2.env = s.env := by
  cases fuel with
  | zero => rw [eval]
  | succ fuel =>
    rw [eval]
    have h := (eval_group_ext ops fuel).2.2.2.2.2 depth stmts ret { s with env := [] :: s.env }
    generalize evalDo ops fuel depth stmts ret _ = p at h ⊢
    obtain ⟨r, s1⟩ := p
    exact h.drop_push

/-- a call (of a function value or a built-in, including the higher-order ones and their
    callbacks) returns the caller's environment exactly -/
theorem call_does_not_leak (ops : NumOps) (fuel : Nat) (fv this : Value) (args : List Value) (depth : Nat)
    (s : ES) : (callFn ops fuel fv this args depth s).2.env = s.env :=
  callFn_env ops fuel fv this args depth s

/-- operators that call functions (`via`, `into`, `where`) included -/
theorem operator_does_not_leak (ops : NumOps) (fuel depth : Nat) (op : BinOp) (a b : Value) (s : ES) :
    (evalBin ops fuel depth op a b s).2.env = s.env :=
  evalBin_env ops fuel depth op a b s

/-- a call expression: the environment afterwards is the one after evaluating the callee and
    the arguments in the caller's scope (`f(y = 1)` binds `y` for the caller; the call itself
    adds nothing) -/
theorem call_expr_does_not_leak (ops : NumOps) (fuel depth : Nat) (f : Expr) (args : List Expr)
    (s s1 s2 : ES) (fv : Value) (raw : List Value)
    (hf : eval ops fuel depth f s = (.ok fv, s1))
    (ha : evalList ops fuel depth args s1 = (.ok raw, s2)) :
    (eval ops (fuel + 1) depth (.call f args) s).2.env = s2.env := by
  rw [eval, hf]
  simp only [ha]
  split
  · rfl
  · exact callFn_env ..

/-! #### 5. shadowing is undone on exit -/

theorem shadowing_restores_after_do_block (ops : NumOps) (fuel depth : Nat) (stmts : List Item) (ret : Item)
    (s : ES) (x : String) :
    envGet (eval ops fuel depth (.doBlock stmts ret) s).2.env x = envGet s.env x := by
  rw [do_block_does_not_leak]

theorem shadowing_restores_after_call (ops : NumOps) (fuel : Nat) (fv this : Value) (args : List Value)
    (depth : Nat) (s : ES) (x : String) :
    envGet (callFn ops fuel fv this args depth s).2.env x = envGet s.env x := by
  rw [call_does_not_leak]

/-! #### 6. failures keep earlier bindings -/

/-- whatever way a top-level statement fails (error, panic, or the model running out of fuel),
    every binding visible before it is visible afterwards with the same value -/
theorem failed_statement_keeps_earlier_bindings (ops : NumOps) (fuel : Nat) (e : Expr) (s s' : ES)
    (r : Outcome Value) (hr : eval ops fuel 0 e s = (r, s')) (_hfail : r.isOk = false)
    (x : String) (v : Value) (hx : envGet s.env x = some v) : envGet s'.env x = some v := by
  have := (eval_ext ops fuel e s).get x v hx
  rw [hr] at this
  exact this

/-- at any depth a failing evaluation keeps the bindings of the innermost frame and leaves
    the frames below untouched -/
theorem failed_evaluation_keeps_frames (ops : NumOps) (fuel depth : Nat) (e : Expr) (s s' : ES)
    (r : Outcome Value) (hr : eval ops fuel depth e s = (r, s')) (_hfail : r.isOk = false)
    (top : Frame) (below : List Frame) (hs : s.env = top :: below) :
    ∃ top', s'.env = top' :: below ∧ ∀ k v, lookupAL k top = some v → lookupAL k top' = some v := by
  obtain ⟨top', h1, h2, _⟩ := env_extends_frames ops fuel depth e s top below hs
  rw [hr] at h1
  exact ⟨top', h1, h2⟩

/-! #### 7. the display name of a function cell: given once, by the assignment that creates it -/

/-- the invariant, for every function of the evaluator (`eval`, argument lists, list items,
    record entries, do-block statements, calls, the higher-order built-ins and their callbacks,
    the calling operators), every fuel, depth, input and outcome (ok, error, panic, out of fuel):
    `nextId` does not decrease and `names` only grows at the front, by entries for cells
    `≥ s.nextId` that had no name -/
theorem names_of_function_cells_only_grow (ops : NumOps) (fuel : Nat) : NamesStep ops fuel :=
  names_group ops fuel

/-- function cells are never given back -/
theorem next_cell_never_decreases (ops : NumOps) (fuel depth : Nat) (e : Expr) (s : ES) :
    s.nextId ≤ (eval ops fuel depth e s).2.nextId :=
  (eval_names ops fuel depth e s).next

/-- a name once given never changes -/
theorem function_names_are_stable (ops : NumOps) (fuel depth : Nat) (e : Expr) (s : ES)
    (id : Nat) (n : String) (h : nameOf s.names id = some n) :
    nameOf (eval ops fuel depth e s).2.names id = some n :=
  (eval_names ops fuel depth e s).keep h

/-- the same through a call (of a function value or a built-in, callbacks included) and through
    an operator that calls functions -/
theorem function_names_are_stable_call (ops : NumOps) (fuel : Nat) (fv this : Value) (args : List Value)
    (depth : Nat) (s : ES) (id : Nat) (n : String) (h : nameOf s.names id = some n) :
    nameOf (callFn ops fuel fv this args depth s).2.names id = some n :=
  ((names_group ops fuel).callFn fv this args depth s).keep h

theorem function_names_are_stable_operator (ops : NumOps) (fuel depth : Nat) (op : BinOp) (a b : Value)
    (s : ES) (id : Nat) (n : String) (h : nameOf s.names id = some n) :
    nameOf (evalBin ops fuel depth op a b s).2.names id = some n :=
  ((names_group ops fuel).evalBin depth op a b s).keep h

/-- an evaluation never names or renames a function that existed before it started: for a
    cell `id < s.nextId` the name — or the absence of a name — is the same afterwards -/
theorem evaluation_never_renames_existing_functions (ops : NumOps) (fuel depth : Nat) (e : Expr) (s : ES)
    (id : Nat) (hid : id < s.nextId) :
    nameOf (eval ops fuel depth e s).2.names id = nameOf s.names id :=
  (eval_names ops fuel depth e s).old hid

theorem call_never_renames_existing_functions (ops : NumOps) (fuel : Nat) (fv this : Value)
    (args : List Value) (depth : Nat) (s : ES) (id : Nat) (hid : id < s.nextId) :
    nameOf (callFn ops fuel fv this args depth s).2.names id = nameOf s.names id :=
  ((names_group ops fuel).callFn fv this args depth s).old hid

/-- in particular an assignment `x = e` whose right-hand side merely returns an existing
    function (`g = f`, `g = fs[0]`, `g = pick(f)`) does not name it -/
theorem assignment_does_not_name_an_existing_function (ops : NumOps) (fuel depth : Nat) (x : String)
    (e : Expr) (s : ES) (id : Nat) (hid : id < s.nextId) (h : nameOf s.names id = none) :
    nameOf (eval ops fuel depth (.assign x e) s).2.names id = none := by
  rw [evaluation_never_renames_existing_functions ops fuel depth _ s id hid]; exact h

/-- every entry of the names list after an evaluation was there before, or is for a cell
    created since -/
theorem new_names_are_for_new_cells (ops : NumOps) (fuel depth : Nat) (e : Expr) (s : ES)
    (p : Nat × String) (hp : p ∈ (eval ops fuel depth e s).2.names) : p ∈ s.names ∨ s.nextId ≤ p.1 :=
  (eval_names ops fuel depth e s).added hp

/-- the assignment that creates a function names it: when the right-hand side of a top-level
    or nested assignment `x = e` returns a function cell created by `e` itself that has no
    name yet, the cell is called `x` from then on -/
theorem creating_assignment_names_the_function (ops : NumOps) (fuel depth : Nat) (x : String) (e : Expr)
    (s s1 : ES) (id : Nat) (ps : List LArg) (body : Expr) (sc : Frame) (ha : Assignable x)
    (hx : alreadyDefined depth s.env x = false)
    (he : eval ops fuel depth e s = (.ok (.lambda id ps body sc), s1))
    (hx1 : alreadyDefined depth s1.env x = false)
    (hnew : s.nextId ≤ id) (hnone : nameOf s1.names id = none) :
    nameOf (eval ops (fuel + 1) depth (.assign x e) s).2.names id = some x := by
  rw [eval, if_neg (by simp [ha.1]), if_neg (by have := ha.2; simpa using this), if_neg (by simp [hx]), he]
  simp [hx1, createdSince, hnew, setNameIfLambda, hnone, nameOf_cons]

/-- sessions: the relation holds from any point of a session to any later point -/
theorem session_names_only_grow (ops : NumOps) (fuel : Nat) (s : ES) (pre post : List Expr) :
    NamesExt (runStmts ops fuel s pre).2 (runStmts ops fuel s (pre ++ post)).2 := by
  rw [runStmts_append]
  exact runStmts_names ops fuel post _

/-- a function named at some point of a session has that name after any further statements,
    failing or not -/
theorem function_names_are_stable_session (ops : NumOps) (fuel : Nat) (s : ES) (pre post : List Expr)
    (id : Nat) (n : String) (h : nameOf (runStmts ops fuel s pre).2.names id = some n) :
    nameOf (runStmts ops fuel s (pre ++ post)).2.names id = some n :=
  (session_names_only_grow ops fuel s pre post).keep h

/-- no later statement of a session names or renames a function that exists at some point -/
theorem session_never_renames_existing_functions (ops : NumOps) (fuel : Nat) (s : ES)
    (pre post : List Expr) (id : Nat) (hid : id < (runStmts ops fuel s pre).2.nextId) :
    nameOf (runStmts ops fuel s (pre ++ post)).2.names id = nameOf (runStmts ops fuel s pre).2.names id :=
  (session_names_only_grow ops fuel s pre post).old hid

/-- the binding and the names together: once `x` is visible with value `v`, after any further
    statements `x` is still visible with the same value tree (ids of function cells
    included), and every function cell that existed at that point has the same display name
    (or is still nameless) -/
theorem root_binding_and_function_names_are_permanent (ops : NumOps) (fuel : Nat) (s : ES)
    (pre post : List Expr) (x : String) (v : Value)
    (h : envGet (runStmts ops fuel s pre).2.env x = some v) :
    envGet (runStmts ops fuel s (pre ++ post)).2.env x = some v ∧
    ∀ id, id < (runStmts ops fuel s pre).2.nextId →
      nameOf (runStmts ops fuel s (pre ++ post)).2.names id = nameOf (runStmts ops fuel s pre).2.names id :=
  ⟨root_binding_is_permanent ops fuel s pre post x v h,
   fun id hid => session_never_renames_existing_functions ops fuel s pre post id hid⟩

/-! #### 8. freshness: named cells and reachable function values are cells already created -/

/-- the invariant `StateOk` is kept by every function of the evaluator, whatever the outcome,
    and a successful result only contains function cells created so far -/
theorem fresh_state_is_preserved_everywhere (ops : NumOps) (fuel : Nat) : FreshStep ops fuel :=
  fresh_group ops fuel

theorem fresh_state_is_preserved (ops : NumOps) (fuel depth : Nat) (e : Expr) (s : ES) (hs : StateOk s) :
    StateOk (eval ops fuel depth e s).2 :=
  (eval_fresh ops fuel depth e s hs).1

/-- every named cell is a cell that has been created (`NamesFresh`), after any evaluation -/
theorem named_cells_exist (ops : NumOps) (fuel depth : Nat) (e : Expr) (s : ES) (hs : StateOk s)
    (p : Nat × String) (hp : p ∈ (eval ops fuel depth e s).2.names) :
    p.1 < (eval ops fuel depth e s).2.nextId :=
  (eval_fresh ops fuel depth e s hs).1.names p hp

/-- a successful result only contains function cells created so far -/
theorem result_cells_exist (ops : NumOps) (fuel depth : Nat) (e : Expr) (s s' : ES) (v : Value)
    (hs : StateOk s) (he : eval ops fuel depth e s = (.ok v, s')) (id : Nat) (hid : v.hasId id = true) :
    id < s'.nextId := by
  have := (eval_fresh ops fuel depth e s hs).2
  rw [he] at this
  exact lt_of_hasId v (this v rfl) hid

/-- an evaluation names only function cells that it created itself: a new entry of the names
    list is for a cell `s.nextId ≤ id < s'.nextId` that had no name before -/
theorem evaluation_names_only_functions_it_created (ops : NumOps) (fuel depth : Nat) (e : Expr) (s : ES)
    (hs : StateOk s) (p : Nat × String) (hp : p ∈ (eval ops fuel depth e s).2.names) (hnew : p ∉ s.names) :
    s.nextId ≤ p.1 ∧ p.1 < (eval ops fuel depth e s).2.nextId := by
  refine ⟨?_, named_cells_exist ops fuel depth e s hs p hp⟩
  rcases new_names_are_for_new_cells ops fuel depth e s p hp with h | h
  · exact absurd h hnew
  · exact h

/-- sessions started in a fresh state stay fresh -/
theorem session_state_stays_fresh (ops : NumOps) (fuel : Nat) (s : ES) (stmts : List Expr) (hs : StateOk s) :
    StateOk (runStmts ops fuel s stmts).2 :=
  runStmts_stateOk ops fuel stmts s hs

/-- the value observed through a bound name is unchanged by later statements INCLUDING the
    display name of every function cell that occurs inside it (directly, in a list or record,
    or in a captured scope) -/
theorem bound_value_keeps_its_function_names (ops : NumOps) (fuel : Nat) (s : ES) (pre post : List Expr)
    (x : String) (v : Value) (hs : StateOk s)
    (h : envGet (runStmts ops fuel s pre).2.env x = some v) :
    envGet (runStmts ops fuel s (pre ++ post)).2.env x = some v ∧
    ∀ id, v.hasId id = true →
      nameOf (runStmts ops fuel s (pre ++ post)).2.names id = nameOf (runStmts ops fuel s pre).2.names id := by
  refine ⟨root_binding_is_permanent ops fuel s pre post x v h, fun id hid => ?_⟩
  have hpre := runStmts_stateOk ops fuel pre s hs
  exact session_never_renames_existing_functions ops fuel s pre post id
    (lt_of_hasId v (idsLt_envGet hpre.env h) hid)

/-! #### examples: the hypotheses are satisfiable, the statements are not vacuous -/

set_option linter.unusedSimpArgs false

/-- `x = [x = 1, x]` (the defect found: formerly rebound `x` from 1 to [1, 1]) is now refused,
    `x` keeps the value the right-hand side gave it -/
example : eval toyOps 10 0
      (.assign "x" (.list [it (.assign "x" (.num F64.one)), it (.ident "x")])) root0
    = (.err .alreadyDefined, { root0 with env := [[("x", .num F64.one)]] }) := by
  simp +decide [eval, evalItems, it, root0, envGet, lookupAL, envInsert, insertAL, setNameIfLambda, createdSince]

/-- hypotheses of `rebind_through_rhs_is_refused` -/
example : Assignable "x" ∧ alreadyDefined 0 root0.env "x" = false ∧
    eval toyOps 9 0 (.list [it (.assign "x" (.num F64.one)), it (.ident "x")]) root0
      = (.ok (.list [.num F64.one, .num F64.one]), { root0 with env := [[("x", .num F64.one)]] }) ∧
    alreadyDefined 0 [[("x", Value.num F64.one)]] "x" = true := by
  refine ⟨by decide, by decide, ?_, by decide⟩
  simp +decide [eval, evalItems, it, root0, envGet, lookupAL, envInsert, insertAL, setNameIfLambda, createdSince,
    flattenSpreads]

/-- a session with a failing statement in the middle: `x = 1; x = 2 (refused); y = x` -/
example : (runStmts toyOps 10 root0
      [.assign "x" (.num F64.one), .assign "x" (.num F64.zero), .assign "y" (.ident "x")]).2.env
    = [[("x", .num F64.one), ("y", .num F64.one)]] := by
  simp +decide [runStmts, eval, root0, envGet, lookupAL, envInsert, insertAL, setNameIfLambda, createdSince,
    envContains]

/-- hypothesis of `rebind_is_refused` (top level: bound in an outer frame; in a call: only the
    call's own frame counts) -/
example : alreadyDefined 0 [[], [("x", Value.num F64.one)]] "x" = true ∧
    alreadyDefined 1 [[], [("x", Value.num F64.one)]] "x" = false ∧
    alreadyDefined 1 [[("x", Value.num F64.one)]] "x" = true := by decide

/-- hypotheses of `reserved_names_unbindable` / `reserved_names_never_bound` -/
example : isBuiltinIdent "map" = true ∧ "inputs" ∈ Gen.assignKeywords ∧
    envGet root0.env "map" = none := by decide

/-- a do-block that shadows `x`, binds `y` directly and `z` inside a list:
    result 0 (the inner `x`), environment exactly as before -/
example : eval toyOps 12 0
      (.doBlock [it (.assign "x" (.num F64.zero)), it (.assign "y" (.list [it (.assign "z" (.num F64.one))]))]
        (it (.ident "x")))
      { root0 with env := [[("x", .num F64.one)]] }
    = (.ok (.num F64.zero), { root0 with env := [[("x", .num F64.one)]] }) := by
  simp +decide [eval, evalDo, evalDoStmt, evalItems, it, root0, envGet, lookupAL, envInsert, insertAL,
    setNameIfLambda, createdSince, envContains, flattenSpreads]

/-- a call whose parameter shadows `x` and whose body assigns `y`: nothing leaks -/
example : callFn toyOps 12 (.lambda 1 [.req "x"] (.assign "y" (.ident "x")) []) .null [.num F64.zero] 0
      { root0 with env := [[("x", .num F64.one)]] }
    = (.ok (.num F64.zero), { root0 with env := [[("x", .num F64.one)]] }) := by
  simp +decide [callFn, eval, checkArity, lambdaArity, Gen.Arity.canAccept, MAX_DEPTH, nameOf, bindParams,
    bindParams.go, root0, envGet, lookupAL, envInsert, insertAL, setNameIfLambda, createdSince, envContains]

/-- inside a call a plain assignment may shadow an outer name in the call's own frame (only that
    frame is looked at): body `[t, t = a, t]` with the caller binding t ↦ 1 gives [1, a, a];
    the caller's `t` is untouched afterwards -/
example : callFn toyOps 12 (.lambda 1 [.req "a"]
        (.list [it (.ident "t"), it (.assign "t" (.ident "a")), it (.ident "t")]) []) .null [.num F64.zero] 0
      { root0 with env := [[("t", .num F64.one)]] }
    = (.ok (.list [.num F64.one, .num F64.zero, .num F64.zero]), { root0 with env := [[("t", .num F64.one)]] }) := by
  simp +decide [callFn, eval, evalItems, it, checkArity, lambdaArity, Gen.Arity.canAccept, MAX_DEPTH, nameOf,
    bindParams, bindParams.go, root0, envGet, lookupAL, envInsert, insertAL, setNameIfLambda, createdSince, envContains,
    alreadyDefined, flattenSpreads]

/-- a failing statement that had already bound something: `[a = 1, nope]` fails on `nope`,
    `a` stays bound (hypotheses of `failed_statement_keeps_earlier_bindings`) -/
example : eval toyOps 10 0 (.list [it (.assign "a" (.num F64.one)), it (.ident "nope")])
      { root0 with env := [[("x", .num F64.one)]] }
    = (.err .unknownIdent, { root0 with env := [[("x", .num F64.one), ("a", .num F64.one)]] }) := by
  simp +decide [eval, evalItems, it, root0, envGet, lookupAL, envInsert, insertAL, setNameIfLambda, createdSince,
    envContains]

/-- the evaluator alone does accept `not` as a name (the grammar never lets it through) -/
example : (eval toyOps 3 0 (.assign "not" (.num F64.one)) root0).1 = .ok (.num F64.one) := by
  simp +decide [eval, root0, envGet, lookupAL, envInsert, insertAL, setNameIfLambda, createdSince, envContains]

/-- `f = x => x; g = f`: one cell, bound to both names, called `f` -/
example : (runStmts toyOps 10 root0 [.assign "f" (.lambda [.req "x"] (.ident "x")), .assign "g" (.ident "f")]).2
    = { env := [[("f", .lambda 1 [.req "x"] (.ident "x") []), ("g", .lambda 1 [.req "x"] (.ident "x") [])]],
        nextId := 2, names := [(1, "f")] } := by
  simp +decide [runStmts, eval, root0, envGet, lookupAL, envInsert, insertAL, setNameIfLambda, createdSince,
    envContains, nameOf, freeVars, captureScope, LArg.name, alreadyDefined]

/-- hypotheses of `function_names_are_stable_session` / `session_never_renames_existing_functions`
    / `root_binding_and_function_names_are_permanent` on that session (pre = `f = x => x`) -/
example : nameOf (runStmts toyOps 10 root0 [.assign "f" (.lambda [.req "x"] (.ident "x"))]).2.names 1 = some "f" ∧
    1 < (runStmts toyOps 10 root0 [.assign "f" (.lambda [.req "x"] (.ident "x"))]).2.nextId ∧
    envGet (runStmts toyOps 10 root0 [.assign "f" (.lambda [.req "x"] (.ident "x"))]).2.env "f"
      = some (.lambda 1 [.req "x"] (.ident "x") []) := by
  simp +decide [runStmts, eval, root0, envGet, lookupAL, envInsert, insertAL, setNameIfLambda, createdSince,
    envContains, nameOf, freeVars, captureScope, LArg.name, alreadyDefined]

/-- a nameless function in a record, then bound through the record: `r = {a: x => x}; g = r.a`
    leaves the cell nameless (hypotheses of `assignment_does_not_name_an_existing_function`:
    cell 1 exists and has no name before `g = r.a`) -/
example : (runStmts toyOps 10 root0
      [.assign "r" (.record [.mk [] (.static "a") (.lambda [.req "x"] (.ident "x")) none]),
       .assign "g" (.dot (.ident "r") "a")]).2
    = { env := [[("r", .record [("a", .lambda 1 [.req "x"] (.ident "x") [])]),
                 ("g", .lambda 1 [.req "x"] (.ident "x") [])]],
        nextId := 2, names := [] } := by
  simp +decide [runStmts, eval, evalEntries, root0, envGet, lookupAL, envInsert, insertAL, setNameIfLambda,
    createdSince, envContains, nameOf, freeVars, captureScope, LArg.name, alreadyDefined]

/-- hypotheses of `creating_assignment_names_the_function` (`f = x => x` in the root state) -/
example : Assignable "f" ∧ alreadyDefined 0 root0.env "f" = false ∧
    eval toyOps 5 0 (.lambda [.req "x"] (.ident "x")) root0
      = (.ok (.lambda 1 [.req "x"] (.ident "x") []), { root0 with nextId := 2 }) ∧
    root0.nextId ≤ 1 ∧ nameOf root0.names 1 = none := by
  refine ⟨by decide, by decide, ?_, by decide, by decide⟩
  simp +decide [eval, root0, freeVars, captureScope, LArg.name, envGet, lookupAL]

/-- a nested assignment inside the right-hand side names its own function; the outer one then
    finds it named: `g = (f = x => x)` gives the cell the name `f`, not `g` -/
example : (eval toyOps 10 0 (.assign "g" (.assign "f" (.lambda [.req "x"] (.ident "x")))) root0).2.names
    = [(1, "f")] := by
  simp +decide [eval, root0, envGet, lookupAL, envInsert, insertAL, setNameIfLambda, createdSince,
    envContains, nameOf, freeVars, captureScope, LArg.name, alreadyDefined]

/-- the root state of a session is fresh (hypothesis `StateOk s` of section 8), and so is a state
    with a function bound and named -/
example : StateOk root0 := root0_stateOk
example : StateOk { env := [[("f", .lambda 1 [.req "x"] (.ident "x") [])]], nextId := 2, names := [(1, "f")] } :=
  ⟨by simp [envLt, Value.idsLtRec, Value.idsLt], fun p hp => by simp at hp; subst hp; decide⟩

/-- a state that is NOT fresh (a function value in a cell that was never created): there
    `g = f` names cell 100 although the right-hand side created nothing — `StateOk` is needed
    in `evaluation_names_only_functions_it_created` -/
example : (eval toyOps 5 0 (.assign "g" (.ident "f"))
      { env := [[("f", .lambda 100 [.req "x"] (.ident "x") [])]], nextId := 1, names := [] }).2.names
    = [(100, "g")] := by
  simp +decide [eval, envGet, lookupAL, envInsert, insertAL, setNameIfLambda, createdSince, envContains, nameOf,
    alreadyDefined]

/-- hypotheses of `bound_value_keeps_its_function_names`: after `r = {a: x => x}` the name `r`
    is bound to a record in which cell 1 occurs -/
example : envGet (runStmts toyOps 10 root0
      [.assign "r" (.record [.mk [] (.static "a") (.lambda [.req "x"] (.ident "x")) none])]).2.env "r"
      = some (.record [("a", .lambda 1 [.req "x"] (.ident "x") [])]) ∧
    (Value.record [("a", .lambda 1 [.req "x"] (.ident "x") [])]).hasId 1 = true := by
  refine ⟨?_, by simp [Value.hasId, Value.hasIdRec]⟩
  simp +decide [runStmts, eval, evalEntries, root0, envGet, lookupAL, envInsert, insertAL, setNameIfLambda,
    createdSince, envContains, nameOf, freeVars, captureScope, LArg.name, alreadyDefined]

end Blots.C03
