import Blots.Lemmas.EvalEnvCall
import Blots.Lemmas.EvalEnvFree
import Blots.Lemmas.EvalEnvCoin
import Blots.Lemmas.EvalEnvClosedCoin
/-
  C04 — Closures capture definition-time values; calls are call-site independent.

  Model: `.lambda` arm of `eval` (`freeVars`, `captureScope`), `callFn` on a function value
  (`checkArity (lambdaArity ps)`, `bindParams`, the frames of the call), Model/Eval.lean.
  Helper definitions (Lemmas/EvalEnvCall.lean): `paramValue`, `paramPairs`, `docShape`,
  `callEnv` (the environment the body runs in), `reqCount`, `hasRest`.
-/
namespace Blots.C04

/-! #### 1. what "free name" means -/

/-- `collect_free_variables` (model: `freeVars bound e`) computes exactly the declarative
    `FreeIn x e` (Lemmas/EvalEnvFree.lean: binders are function parameters and earlier direct
    assignment statements of an enclosing do-block; `inf`, `infinity`, `constants` are not
    variables; the record shorthand `{x}` reads `x`) minus the names already bound.
    Hypothesis `noOutput e`: `output …` does not occur inside `e` — the grammar only produces it
    as a whole statement, and `collect_free_variables` does not look inside it. -/
theorem freeVars_sound (e : Expr) (bound : List String) (x : String) (h : noOutput e = true) :
    x ∈ freeVars bound e ↔ FreeIn x e ∧ x ∉ bound :=
  freeVars_iff e bound x h

/-- hence what a new function captures, declaratively: the names free in its body that are
    not parameters and are visible at that moment — with their values then.  (Since the repair
    of defect D3, section 6, also names spelled like a built-in function, which can be free
    only through the record shorthand `{sqrt}`.) -/
theorem capture_is_free_names_bound_now (env : List Frame) (ps : List LArg) (body : Expr) (x : String)
    (h : noOutput body = true) :
    (FreeIn x body ∧ x ∉ ps.map LArg.name →
      lookupAL x (captureScope env (freeVars (ps.map LArg.name) body)) = envGet env x) ∧
    (¬ (FreeIn x body ∧ x ∉ ps.map LArg.name) →
      lookupAL x (captureScope env (freeVars (ps.map LArg.name) body)) = none) := by
  rw [captureScope_lookup]
  have := freeVars_iff body (ps.map LArg.name) x h
  constructor
  · intro h'
    rw [if_pos (this.mpr ⟨h'.1, h'.2⟩)]
  · intro h'
    rw [if_neg (fun hc => h' ⟨(this.mp hc).1, (this.mp hc).2⟩)]

/-- the hypothesis `noOutput` is needed: on ASTs the grammar cannot produce, the function
    misses reads under `output` -/
example : freeVars [] (.output (.ident "y")) = [] ∧ FreeIn "y" (.output (.ident "y")) :=
  ⟨rfl, .output (.ident (by decide))⟩

/-- sequential scoping in a do-block: in `do { y = x; return y + z }` the names `x` and `z` are
    free, `y` is not -/
example : freeVars [] (.doBlock [it (.assign "y" (.ident "x"))] (it (.bin .add (.ident "y") (.ident "z"))))
    = ["x", "z"] := by decide

/-! #### 2. capture by value, at definition time -/

/-- creating a function (no parameter is called `inputs`): the result is a function value with
    a fresh id whose scope maps exactly the free names of the body (w.r.t. the parameters) that
    are visible NOW to their CURRENT values; nothing else of the state changes -/
theorem capture_by_value (ops : NumOps) (fuel depth : Nat) (ps : List LArg) (body : Expr) (s : ES)
    (hps : ps.any (fun a => a.name == "inputs") = false) :
    ∃ scope, eval ops (fuel + 1) depth (.lambda ps body) s =
        (.ok (.lambda s.nextId ps body scope), { s with nextId := s.nextId + 1 }) ∧
      (scope.map Prod.fst).Nodup ∧
      ∀ x, lookupAL x scope =
        if x ∈ freeVars (ps.map LArg.name) body then envGet s.env x else none := by
  refine ⟨captureScope s.env (freeVars (ps.map LArg.name) body), ?_, captureScope_nodup _ _, ?_⟩
  · rw [eval, if_neg (by simp [hps])]
  · intro x; exact captureScope_lookup _ _ x

/-- `inputs` always means the program's inputs: a function with a parameter of that name is
    refused when it is created (state unchanged); together with `inputs` being refused as an
    assignment target at top level (`Gen.assignKeywords`) and in do-blocks
    (`Gen.doAssignKeywords`) no frame other than the root frame, the frames of calls (which copy
    it from their caller) and captured scopes ever binds `inputs` -/
theorem inputs_parameter_is_refused (ops : NumOps) (fuel depth : Nat) (ps : List LArg) (body : Expr) (s : ES)
    (hps : ps.any (fun a => a.name == "inputs") = true) :
    eval ops (fuel + 1) depth (.lambda ps body) s = (.err .keyword, s) := by
  rw [eval, if_pos hps]

theorem inputs_is_no_assignment_target :
    "inputs" ∈ Gen.assignKeywords ∧ "inputs" ∈ Gen.doAssignKeywords := by decide

/-- the captured value is immune to anything that happens later: the scope is part of the
    function VALUE, and a call resolves captured names in it before looking at the caller
    (see `params_shadow_everything`).  Here: a captured free name resolves, inside any later
    call from any caller environment, to the value captured at definition — unless a parameter,
    `inputs` or the function's own name hides it. -/
theorem captured_value_is_what_the_body_sees (names : List (Nat × String)) (id : Nat) (scope : Frame)
    (this : Value) (pf : Frame) (caller : List Frame) (x : String) (v : Value)
    (hcap : lookupAL x scope = some v) (hp : lookupAL x pf.reverse = none)
    (hi : x ≠ "inputs") :
    envGet (callEnv names id scope this pf caller) x = some v := by
  rw [envGet_callEnv, hp]
  simp only [hi, false_and, if_false, hcap]
  rw [if_neg (by simp)]

/-! #### 3. parameters shadow everything -/

/-- `callFn` on a function value whose arity check, depth check and parameter binding succeed:
    the body is evaluated at depth + 1 in `callEnv`, whose first frame holds the parameters (on
    top of `inputs` and the self name), followed by the captured scope (when non-empty),
    followed by the caller's frames; the caller's environment is restored afterwards -/
theorem call_evaluates_body_in_callEnv (ops : NumOps) (fuel id : Nat) (ps : List LArg) (body : Expr)
    (scope : Frame) (this : Value) (args : List Value) (depth : Nat) (s : ES) (pf : Frame)
    (ha : checkArity (lambdaArity ps) args.length = .ok ()) (hd : ¬ depth > MAX_DEPTH)
    (hb : bindParams ps args = .ok pf) :
    callFn ops (fuel + 1) (.lambda id ps body scope) this args depth s =
      ((eval ops fuel (depth + 1) body { s with env := callEnv s.names id scope this pf s.env }).1,
       { (eval ops fuel (depth + 1) body { s with env := callEnv s.names id scope this pf s.env }).2
          with env := s.env }) :=
  callFn_lambda_eq ops fuel id ps body scope this args depth s pf ha hd hb

/-- name resolution inside the call: parameters first (last parameter of a name wins), then
    `inputs` of the caller, then the function's own name (if named and nothing was captured
    under that name), then the captured scope, then the caller's environment -/
theorem params_shadow_everything (names : List (Nat × String)) (id : Nat) (scope : Frame) (this : Value)
    (pf : Frame) (caller : List Frame) (x : String) :
    envGet (callEnv names id scope this pf caller) x =
      match lookupAL x pf.reverse with
      | some v => some v
      | none =>
        if x = "inputs" ∧ (envGet caller "inputs").isSome then envGet caller "inputs"
        else if nameOf names id = some x ∧ lookupAL x scope = none then some this
        else match lookupAL x scope with
          | some v => some v
          | none => envGet caller x :=
  envGet_callEnv names id scope this pf caller x

/-- in particular a parameter is what the body sees under its name, whatever the captured
    scope and the caller bind under that name -/
theorem parameter_wins (names : List (Nat × String)) (id : Nat) (scope : Frame) (this : Value)
    (ps : List LArg) (args : List Value) (caller : List Frame) (pf : Frame)
    (hb : bindParams ps args = .ok pf) (hnd : (ps.map LArg.name).Nodup)
    (i : Nat) (p : LArg) (hp : ps[i]? = some p) :
    envGet (callEnv names id scope this pf caller) p.name = some (paramValue args i p) := by
  rw [bindParams_eq] at hb
  split at hb
  · cases hb
    rw [envGet_callEnv]
    have hk : ((paramPairs args ps 0).map Prod.fst).Nodup := by rw [paramPairs_keys]; exact hnd
    have hnd' := insertAll_nodup (paramPairs args ps 0) [] (by simp)
    rw [← frame_lookup_perm p.name hnd' (List.reverse_perm _).symm, lookup_bound_param args ps hnd i p hp]
  · cases hb

/-! #### 4. arity and positional binding -/

/-- the arity check of a function value, for every parameter list: at least the required
    parameters, and no more than all parameters unless there is a rest parameter -/
theorem arity_iff (ps : List LArg) (n : Nat) :
    checkArity (lambdaArity ps) n = .ok () ↔ reqCount ps ≤ n ∧ (hasRest ps = true ∨ n ≤ ps.length) :=
  checkArity_lambda_iff ps n

/-- any other argument count is an error (never a panic) -/
theorem arity_mismatch_is_error (ps : List LArg) (n : Nat)
    (h : ¬ (reqCount ps ≤ n ∧ (hasRest ps = true ∨ n ≤ ps.length))) :
    checkArity (lambdaArity ps) n = .err .arity := by
  have := mt (checkArity_lambda_iff ps n).mp h
  unfold checkArity at this ⊢
  split
  · rename_i hc; simp [hc] at this
  · rfl

/-- and the call reports it, leaving the state unchanged, without evaluating anything -/
theorem call_with_wrong_arity (ops : NumOps) (fuel id : Nat) (ps : List LArg) (body : Expr) (scope : Frame)
    (this : Value) (args : List Value) (depth : Nat) (s : ES)
    (h : ¬ (reqCount ps ≤ args.length ∧ (hasRest ps = true ∨ args.length ≤ ps.length))) :
    callFn ops (fuel + 1) (.lambda id ps body scope) this args depth s = (.err .arity, s) := by
  rw [callFn, arity_mismatch_is_error ps args.length h]

/-- for the documented shape: required*, optional*, at most one trailing rest -/
theorem arity_iff_documented (reqs opts : List String) (rest : Option String) (n : Nat) :
    checkArity (lambdaArity (docShape reqs opts rest)) n = .ok () ↔
      reqs.length ≤ n ∧ (rest.isSome = true ∨ n ≤ reqs.length + opts.length) := by
  rw [checkArity_lambda_iff, docShape_reqCount, docShape_hasRest, docShape_length]
  cases rest <;> simp

/-- for ARBITRARY parameter orders binding never panics: it succeeds, or reports an arity
    error exactly when some required parameter's position is beyond the arguments
    (functions.rs indexed `args[idx]` there and panicked, before the fix) -/
theorem bindParams_no_panic (ps : List LArg) (args : List Value) :
    (bindParams ps args = .ok (insertAll [] (paramPairs args ps 0)) ∧
        ∀ j n, ps[j]? = some (.req n) → j < args.length) ∨
    (bindParams ps args = .err .arity ∧ ∃ j n, ps[j]? = some (.req n) ∧ args.length ≤ j) := by
  rw [bindParams_eq]
  cases h : reqsInRange args.length ps 0 with
  | true =>
    left
    refine ⟨by simp, ?_⟩
    intro j n hj
    apply Classical.byContradiction
    intro hlt
    have := (reqsInRange_false_iff args.length ps 0).mpr ⟨j, n, hj, by omega⟩
    rw [h] at this; cases this
  | false =>
    right
    obtain ⟨j, n, h1, h2⟩ := (reqsInRange_false_iff args.length ps 0).mp h
    exact ⟨by simp, j, n, h1, by omega⟩

/-- the frame binds, in parameter order (a later parameter of the same name replaces an
    earlier one): required i ↦ args[i], optional i ↦ args[i] or null, rest at i ↦ args.drop i;
    so under each name the LAST parameter of that name is found, and nothing else is bound -/
theorem bind_frame_lookup (ps : List LArg) (args : List Value) (pf : Frame)
    (hb : bindParams ps args = .ok pf) (k : String) :
    lookupAL k pf = lookupAL k (paramPairs args ps 0).reverse := by
  rw [bindParams_eq] at hb
  split at hb
  · cases hb
    rw [lookupAL_insertAll]
    cases lookupAL k (paramPairs args ps 0).reverse <;> rfl
  · cases hb

/-- the documented shape with distinct names: when the arity check passes, binding succeeds,
    required parameters get the arguments at their positions, optional ones the argument at
    their position or null, the rest parameter the list of remaining arguments (possibly
    empty); no other name is bound -/
theorem bind_positional (reqs opts : List String) (rest : Option String) (args : List Value)
    (hnd : (reqs ++ (opts ++ rest.toList)).Nodup)
    (ha : checkArity (lambdaArity (docShape reqs opts rest)) args.length = .ok ()) :
    ∃ pf, bindParams (docShape reqs opts rest) args = .ok pf ∧
      (∀ i (hi : i < reqs.length), ∃ hi' : i < args.length, lookupAL reqs[i] pf = some args[i]) ∧
      (∀ j (hj : j < opts.length), lookupAL opts[j] pf = some ((args[reqs.length + j]?).getD .null)) ∧
      (∀ r, rest = some r → lookupAL r pf = some (.list (args.drop (reqs.length + opts.length)))) ∧
      (∀ k, k ∉ reqs ++ (opts ++ rest.toList) → lookupAL k pf = none) := by
  have hreq : reqs.length ≤ args.length := ((arity_iff_documented reqs opts rest args.length).mp ha).1
  have hnd' : ((docShape reqs opts rest).map LArg.name).Nodup := by rw [docShape_names]; exact hnd
  refine ⟨insertAll [] (paramPairs args (docShape reqs opts rest) 0), ?_, ?_, ?_, ?_, ?_⟩
  · rw [bindParams_eq, docShape_reqsInRange _ _ _ _ hreq]; rfl
  · intro i hi
    have hi' : i < args.length := by omega
    refine ⟨hi', ?_⟩
    have hp : (docShape reqs opts rest)[i]? = some (.req reqs[i]) := by
      unfold docShape
      rw [List.getElem?_append_left (by simpa using hi)]
      simp [hi]
    have := lookup_bound_param args _ hnd' i _ hp
    simpa [LArg.name, paramValue, List.getElem?_eq_getElem hi'] using this
  · intro j hj
    have hp : (docShape reqs opts rest)[reqs.length + j]? = some (.opt opts[j]) := by
      unfold docShape
      rw [List.getElem?_append_right (by simp), List.getElem?_append_left (by simpa using hj)]
      simp [hj]
    have := lookup_bound_param args _ hnd' _ _ hp
    simpa [LArg.name, paramValue] using this
  · intro r hr
    subst hr
    have hp : (docShape reqs opts (some r))[reqs.length + opts.length]? = some (.rest r) := by
      unfold docShape
      rw [List.getElem?_append_right (by simp), List.getElem?_append_right (by simp)]
      simp
    have := lookup_bound_param args _ hnd' _ _ hp
    simpa [LArg.name, paramValue] using this
  · intro k hk
    exact lookup_not_param args _ k (by rw [docShape_names]; exact hk)

/-! #### examples -/

set_option linter.unusedSimpArgs false

/-- `(a, b?, ...r) => …` called with 4 arguments: a ↦ 1st, b ↦ 2nd, r ↦ [3rd, 4th] -/
example : bindParams (docShape ["a"] ["b"] (some "r")) [.num F64.one, .null, .bool true, .bool false]
    = .ok [("a", .num F64.one), ("b", .null), ("r", .list [.bool true, .bool false])] := by
  simp [bindParams, bindParams.go, docShape, insertAL]

/-- hypotheses of `bind_positional` -/
example : (["a"] ++ (["b"] ++ (some "r").toList)).Nodup ∧
    checkArity (lambdaArity (docShape ["a"] ["b"] (some "r"))) 4 = .ok () := ⟨by decide, rfl⟩

/-- a required parameter after an optional one, too few arguments: arity error, no panic
    (the `bindParams_no_panic` right disjunct; `checkArity` passes here: 1 ≤ 1 ≤ 2) -/
example : checkArity (lambdaArity [.opt "a", .req "b"]) 1 = .ok () ∧
    bindParams [.opt "a", .req "b"] [.num F64.one] = .err .arity := by
  refine ⟨rfl, ?_⟩
  simp [bindParams, bindParams.go]

/-- hypothesis of `capture_by_value` / `inputs_parameter_is_refused` -/
example : [LArg.req "x"].any (fun a => a.name == "inputs") = false ∧
    [LArg.req "x", LArg.opt "inputs"].any (fun a => a.name == "inputs") = true := by decide

/-- `y = 1; f = (x) => x + y + z` captures y ↦ 1, not the parameter `x`, not the unbound `z` -/
example : (eval toyOps 1 0 (.lambda [.req "x"] (.bin .add (.ident "x") (.bin .add (.ident "y") (.ident "z"))))
      { root0 with env := [[("y", .num F64.one), ("x", .null)]] }).1
    = .ok (.lambda 1 [.req "x"] (.bin .add (.ident "x") (.bin .add (.ident "y") (.ident "z")))
        [("y", .num F64.one)]) := by
  simp +decide [eval, freeVars, captureScope, LArg.name, root0, envGet, lookupAL, insertAL]

/-- the parameter hides both the captured `x` and the caller's `x`; the captured `y` hides the
    caller's `y`: body `[x, y]` gives [argument, captured] -/
example : (callFn toyOps 9 (.lambda 1 [.req "x"] (.list [it (.ident "x"), it (.ident "y")])
        [("x", .null), ("y", .num F64.one)]) .null [.bool true] 0
      { root0 with env := [[("x", .bool false), ("y", .bool false)]] }).1
    = .ok (.list [.bool true, .num F64.one]) := by
  simp +decide [callFn, eval, evalItems, it, checkArity, lambdaArity, Gen.Arity.canAccept, MAX_DEPTH, nameOf,
    bindParams, bindParams.go, root0, envGet, lookupAL, insertAL, flattenSpreads]

/-- hypotheses of `call_evaluates_body_in_callEnv` -/
example : checkArity (lambdaArity [.req "x"]) [Value.bool true].length = .ok () ∧ ¬ 0 > MAX_DEPTH ∧
    bindParams [.req "x"] [.bool true] = .ok [("x", .bool true)] := by
  refine ⟨rfl, by decide, ?_⟩
  simp [bindParams, bindParams.go, insertAL]

/-- hypothesis of `call_with_wrong_arity` -/
example : ¬ (reqCount [.req "x"] ≤ 0 ∧ (hasRest [.req "x"] = true ∨ 0 ≤ [LArg.req "x"].length)) := by decide

/-! #### 5. call-site independence -/

/-- THE LITERAL STATEMENT — it is FALSE (`call_site_independent_statement_false` in section 6): a
    function whose own free names are all bound at definition (`ClosedFn`) is still call-site
    dependent when a function it captured has an unbound free name (late binding, read from the
    caller's frames).  The exactly-true version is `call_site_independent` (section 6):
    closedness must hold hereditarily (`ClosedV`).  Kept: the step at the call for arbitrary
    bodies (`call_site_independent_partial`) and the version for bodies that never apply a
    function value (`call_site_independent_plain`). -/
def call_site_independent_statement : Prop :=
  ∀ (ops : NumOps) (fuel id : Nat) (ps : List LArg) (body : Expr) (scope : Frame) (this : Value)
    (args : List Value) (depth : Nat) (s s' : ES),
    s.nextId = s'.nextId → s.names = s'.names → envGet s.env "inputs" = envGet s'.env "inputs" →
    ClosedFn s.names id ps body scope →
    (callFn ops fuel (.lambda id ps body scope) this args depth s).1 =
      (callFn ops fuel (.lambda id ps body scope) this args depth s').1

/-- PROVED PART FOR ARBITRARY BODIES: the step at the call.  The frames a call pushes (parameters, self name, `inputs`,
    captured scope) are determined by the function, the arguments, `this`, the display names
    and `inputs` alone; every name free in a closed function's body is resolved in them,
    before the caller's frames are consulted; so the two bodies run in environments that agree
    on all free names of the body.  MISSING: the coincidence lemma for `eval` itself (that
    `eval` of the body gives the same outcome in two environments agreeing on its free names),
    taken here as the explicit hypothesis `Coincidence ops fuel (depth+1) body`.  It is a large
    mutual induction over the whole evaluator with an invariant on every function value
    reachable from the state (every function the body can get hold of must itself be closed,
    otherwise its unbound names are read from the caller's frames).  The hypothesis that the
    two call sites see the same `inputs` also remains: it holds in every state a session can
    reach (`inputs` is only ever bound in the root frame and copied from there), but proving
    that needs the same invariant over all reachable function values. -/
theorem call_site_independent_partial (ops : NumOps) (fuel id : Nat) (ps : List LArg) (body : Expr)
    (scope : Frame) (this : Value) (args : List Value) (depth : Nat) (s s' : ES)
    (hid : s.nextId = s'.nextId) (hnames : s.names = s'.names)
    (hin : envGet s.env "inputs" = envGet s'.env "inputs")
    (hclosed : ClosedFn s.names id ps body scope)
    (hco : Coincidence ops fuel (depth + 1) body) :
    (callFn ops (fuel + 1) (.lambda id ps body scope) this args depth s).1 =
      (callFn ops (fuel + 1) (.lambda id ps body scope) this args depth s').1 := by
  rw [callFn, callFn]
  cases ha : checkArity (lambdaArity ps) args.length with
  | err k => rfl
  | panic p => rfl
  | fuel => rfl
  | ok u =>
    simp only
    by_cases hd : depth > MAX_DEPTH
    · simp only [hd, if_true]
    · simp only [hd, if_false]
      cases hb : bindParams ps args with
      | err k => rfl
      | panic p => rfl
      | fuel => rfl
      | ok pf =>
        simp only
        have key := hco { s with env := callEnv s.names id scope this pf s.env }
          { s' with env := callEnv s'.names id scope this pf s'.env } hid hnames ?_ ?_
        · exact key
        · simp only
          rw [← hnames]
          exact callEnv_agree s.names id scope this pf s.env s'.env hin "inputs" (Or.inr (Or.inr (Or.inr rfl)))
        · intro x hx
          simp only
          rw [← hnames]
          apply callEnv_agree s.names id scope this pf s.env s'.env hin x
          rcases hclosed x hx with h | h | h | h
          · exact Or.inl (bindParams_lookup_isSome ps args pf hb x h)
          · exact Or.inr (Or.inl h)
          · exact Or.inr (Or.inr (Or.inl h))
          · exact Or.inr (Or.inr (Or.inr h))

/-- PROVED IN FULL for every body that never runs the body of a function value (`plain`, see
    Lemmas/EvalEnvCoin.lean: no call of a function value — calls of literal pure built-ins such
    as `sqrt(x)` are allowed —, no higher-order built-in, no `via` / `into` / `where`, no
    `output`; everything else: arithmetic, comparisons, conditionals, lists, records, nested
    function creation, assignments, do-blocks): a function closed after capture returns the
    same outcome for the same arguments from any two call sites that agree on the id counter,
    the display names and `inputs`.  The coincidence lemma behind it (`coin_group`) is a mutual
    induction over eval / evalList / evalItems / evalEntries / evalDoStmt / evalDo: at call
    depth > 0 the outcome does not depend on the frames below the ones the call pushed, as
    long as the free names and `inputs` resolve identically.
    STILL MISSING for `call_site_independent_statement`: bodies that apply function values
    (user functions, higher-order built-ins, `via`/`into`/`where`); they need an invariant over
    every function value reachable from the state (each must itself be closed). -/
theorem call_site_independent_plain (ops : NumOps) (fuel id : Nat) (ps : List LArg) (body : Expr)
    (scope : Frame) (this : Value) (args : List Value) (depth : Nat) (s s' : ES)
    (hid : s.nextId = s'.nextId) (hnames : s.names = s'.names)
    (hin : envGet s.env "inputs" = envGet s'.env "inputs")
    (hclosed : ClosedFn s.names id ps body scope) (hplain : plain body = true) :
    (callFn ops fuel (.lambda id ps body scope) this args depth s).1 =
      (callFn ops fuel (.lambda id ps body scope) this args depth s').1 :=
  callFn_site_independent_plain ops fuel id ps body scope this args depth s s' hid hnames hin hclosed hplain

/-- the coincidence lemma itself, for one expression: with the frames below the first `n`
    replaced by any others (`retail`), at call depth > 0, a `plain` expression whose free names
    and `inputs` resolve identically evaluates to the same outcome, and to the same state with
    those frames replaced -/
theorem coincidence_plain (ops : NumOps) (fuel depth : Nat) (e : Expr) (n : Nat) (tl' : List Frame) (s : ES)
    (hd : 0 < depth) (hn : 0 < n) (hk : n ≤ s.env.length) (hp : plain e = true)
    (hA : ∀ x, (FreeIn x e ∨ x = "inputs") → Agree n tl' s.env x) :
    eval ops fuel depth e (retail n tl' s) =
      ((eval ops fuel depth e s).1, retail n tl' (eval ops fuel depth e s).2) :=
  (coin_group ops tl' fuel).1 depth e n s hd hn hk hp hA

/-- hypotheses of `call_site_independent_plain`: `(a) => (t = a) + sqrt(y)` with `y` captured is
    closed and plain -/
example : plain (.bin .add (.assign "t" (.ident "a")) (.call (.builtin "sqrt") [.ident "y"])) = true ∧
    ClosedFn [] 1 [.req "a"]
      (.bin .add (.assign "t" (.ident "a")) (.call (.builtin "sqrt") [.ident "y"])) [("y", .num F64.one)] := by
  refine ⟨by decide, ?_⟩
  intro x hx
  rcases freeIn_bin.mp hx with h | h
  · left; simp [freeIn_ident.mp (freeIn_assign.mp h), LArg.name]
  · rcases freeIn_call.mp h with h | h
    · exact absurd h freeIn_builtin
    · rcases freeInList_cons.mp h with h | h
      · right; left; simp [freeIn_ident.mp h, lookupAL]
      · exact absurd h freeInList_nil

/-- a body that calls a function value is not `plain` (outside the proved part) -/
example : plain (.call (.ident "g") [.ident "a"]) = false ∧
    plain (.call (.builtin "map") [.ident "xs", .ident "g"]) = false := by decide

/-- the hypothesis `Coincidence` is satisfiable: body `if a then y else null` -/
example : Coincidence toyOps 2 1 (.cond (.ident "a") (.ident "y") .null) := by
  intro s s' _ _ _ hfree
  have ha := hfree "a" (.condC (.ident (by decide)))
  have hy := hfree "y" (.condT (.ident (by decide)))
  simp +decide only [eval]
  rw [ha]
  cases envGet s'.env "a" with
  | none => rfl
  | some v =>
    cases v with
    | bool b =>
      cases b
      · rfl
      · simp only [if_false]; rw [hy]; cases envGet s'.env "y" <;> rfl
    | _ => rfl

/-- and so is `ClosedFn`: for `(a) => if a then y else null` with `y` captured -/
example : ClosedFn [] 1 [.req "a"] (.cond (.ident "a") (.ident "y") .null) [("y", .num F64.one)] := by
  intro x hx
  rcases freeIn_cond.mp hx with h | h | h
  · left; simp [freeIn_ident.mp h, LArg.name]
  · right; left; simp [freeIn_ident.mp h, lookupAL]
  · exact absurd h freeIn_null

/-- (D1), fixed: `f = (a) => (t = a) + 1` has no free names; before the fix `f(1)` was 1 + 1
    where the caller did not bind `t` and failed with "t is already defined" where the caller
    (or any caller of the caller) did, because the assignment looked through the callee's
    frames into the caller's.  Blots source:
      f = (a) => (t = a) + 1 ; g = (t) => f(t) ; f(1) --> 2 ; g(1) --> was an error, now 2
    Now both call sites give the same result (`toyOps.add` returns its first operand). -/
example :
    (callFn toyOps 5 (.lambda 1 [.req "a"] (.bin .add (.assign "t" (.ident "a")) (.num F64.one)) [])
        .null [.num F64.one] 0 root0).1 = .ok (.num F64.one) ∧
    (callFn toyOps 5 (.lambda 1 [.req "a"] (.bin .add (.assign "t" (.ident "a")) (.num F64.one)) [])
        .null [.num F64.one] 0 { root0 with env := [[("t", .num F64.one)]] }).1 = .ok (.num F64.one) := by
  constructor <;>
  simp +decide [callFn, eval, evalBin, scalarOp, asNumber, toyOps, checkArity, lambdaArity, Gen.Arity.canAccept,
    MAX_DEPTH, nameOf, bindParams, bindParams.go, root0, envGet, lookupAL, envInsert, insertAL,
    setNameIfLambda, envContains, alreadyDefined, isDot, isListV, Bind.bind, Outcome.bind, Pure.pure]

/-- the closedness hypothesis of the statement holds for (D1): the only free name is `a` -/
example : ClosedFn [] 1 [.req "a"] (.bin .add (.assign "t" (.ident "a")) (.num F64.one)) [] := by
  intro x hx
  rcases freeIn_bin.mp hx with h | h
  · left; simp [freeIn_ident.mp (freeIn_assign.mp h), LArg.name]
  · exact absurd h freeIn_num

/-- (D2), fixed: `inputs` was a legal parameter and do-block name, and a call copies the NEAREST
    `inputs` of the caller's chain into the callee's frame, where it beats even a captured
    `inputs`.  Blots source (inputs {"a": 1}):
      f = () => inputs.a ; g = (inputs) => f() ; f() --> 1 ; g({a: 2}) --> was 2
    Now `g` cannot be created, and `do { inputs = …; … }` is refused. -/
example :
    eval toyOps 3 0 (.lambda [.req "inputs"] (.call (.ident "f") [])) root0 = (.err .keyword, root0) ∧
    (eval toyOps 5 0 (.doBlock [it (.assign "inputs" (.num F64.one))] (it (.call (.ident "f") []))) root0).1
      = .err .keyword := by
  constructor <;>
  simp +decide [eval, evalDo, evalDoStmt, it, root0, LArg.name]

/-! #### 6. call-site independence through arbitrary nested calls -/

/-- CALL-SITE INDEPENDENCE, in full.  `ClosedV N v` (Lemmas/EvalEnvClosed.lean): every function
    value inside `v` — also inside captured scopes, lists, records — is closed after capture
    w.r.t. the display names `N` (`ClosedFn`: each free name of its body is a parameter, a
    captured name, the function's own display name, or `inputs`), its body has no nested
    `output` (`noOutput`, as in `freeVars_sound`: the grammar only produces `output` as a whole
    statement), and its captured values are closed in the same sense.

    A closed function value called with closed arguments from two callers `s`, `s'` that agree
    on the id counter, the display names and the value of `inputs` (closed), at the same fuel
    and call depth, gives the SAME OUTCOME and the same final state except for the environment,
    which is each caller's own.  NOTHING is assumed of the two callers' environments: they may
    rebind the captured names, the parameter names, the function's own name, to any values
    (closed or not), in any number of frames.  Covers every way the body can run other
    functions: calls of parameters / captured / created functions, recursion through the self
    name, `via` / `into` / `where`, `map` / `filter` / `reduce` / `every` / `some` / `sort_by` /
    `group_by` / `count_by`; nested function creation; assignments and do-blocks in the body.
    (`this` is the value bound to the function's own name: the evaluator always passes `fv`.)
    Equal id counters are required because results may contain newly created function values,
    whose ids are drawn from the counter. -/
theorem call_site_independent (ops : NumOps) (fuel : Nat) (fv this : Value) (args : List Value) (depth : Nat)
    (s s' : ES) (hid : s.nextId = s'.nextId) (hnames : s.names = s'.names)
    (hin : envGet s.env "inputs" = envGet s'.env "inputs")
    (hinC : ∀ v, envGet s.env "inputs" = some v → ClosedV s.names v)
    (hf : ClosedV s.names fv) (ht : ClosedV s.names this) (ha : ClosedL s.names args) :
    callFn ops fuel fv this args depth s' =
      ((callFn ops fuel fv this args depth s).1,
       { (callFn ops fuel fv this args depth s).2 with env := s'.env }) :=
  callFn_site_independent ops fuel fv this args depth s s' hid hnames hin hinC hf ht ha

/-- in particular the outcomes agree -/
theorem call_site_independent_outcome (ops : NumOps) (fuel : Nat) (fv this : Value) (args : List Value)
    (depth : Nat) (s s' : ES) (hid : s.nextId = s'.nextId) (hnames : s.names = s'.names)
    (hin : envGet s.env "inputs" = envGet s'.env "inputs")
    (hinC : ∀ v, envGet s.env "inputs" = some v → ClosedV s.names v)
    (hf : ClosedV s.names fv) (ht : ClosedV s.names this) (ha : ClosedL s.names args) :
    (callFn ops fuel fv this args depth s).1 = (callFn ops fuel fv this args depth s').1 := by
  rw [callFn_site_independent ops fuel fv this args depth s s' hid hnames hin hinC hf ht ha]

/-- "a function all of whose free names were bound at definition" is closed: evaluating
    `(ps) => body` (no nested `output`) in an environment of closed values gives a closed function value —
    w.r.t. any later display names `N'` — when each free name of the body that is not a
    parameter is bound at that moment, is `inputs`, or is the display name the function gets
    (recursion: `f = (n) => … f(n - 1) …`) -/
theorem created_function_is_closed (ops : NumOps) (fuel depth : Nat) (ps : List LArg) (body : Expr) (s s1 : ES)
    (v : Value) (N' : List (Nat × String)) (hN : NamesLe s.names N') (hw : noOutput body = true)
    (hE : ClosedE s.names s.env)
    (hfree : ∀ x, FreeIn x body → x ∉ ps.map LArg.name →
      x = "inputs" ∨ (envGet s.env x).isSome ∨ nameOf N' s.nextId = some x)
    (h : eval ops fuel depth (.lambda ps body) s = (.ok v, s1)) : ClosedV N' v :=
  created_closed ops fuel depth ps body s s1 v N' hN hw hE hfree h

/-- the coincidence lemma behind it, for one expression at call depth > 0: with the frames below
    the first `n` replaced by any others, an expression without nested `output` evaluated in an environment of
    closed values, whose free names are `inputs` or bound in the first `n` frames (`InTop`) and
    for which `inputs` resolves identically, runs identically (same outcome, same final state
    with the same replacement); the result value and environment are closed again, the display
    names only grew -/
theorem coincidence_closed (ops : NumOps) (fuel depth : Nat) (e : Expr) (n : Nat) (tl' : List Frame) (s : ES)
    (hd : 0 < depth) (hn : 0 < n) (hk : n ≤ s.env.length) (hin : Agree n tl' s.env "inputs")
    (hE : ClosedE s.names s.env) (hw : noOutput e = true)
    (hF : ∀ x, FreeIn x e → x = "inputs" ∨ InTop n s.env x) :
    eval ops fuel depth e (retail n tl' s) =
        ((eval ops fuel depth e s).1, retail n tl' (eval ops fuel depth e s).2) ∧
      NamesLe s.names (eval ops fuel depth e s).2.names ∧
      ClosedE (eval ops fuel depth e s).2.names (eval ops fuel depth e s).2.env ∧
      ∀ v, (eval ops fuel depth e s).1 = .ok v → ClosedV (eval ops fuel depth e s).2.names v := by
  obtain ⟨h1, h2⟩ := (coin ops tl' fuel).eval depth e n s hd hn ⟨hk, hin, hE⟩ hw hF
  exact ⟨h1, h2.names, h2.cl, h2.val⟩

/-- `ClosedFn` can be checked by computation: the free names are the list `freeVars [] body` -/
theorem closedFn_checkable (names : List (Nat × String)) (id : Nat) (ps : List LArg) (body : Expr) (scope : Frame)
    (hno : noOutput body = true)
    (hall : ∀ x ∈ freeVars [] body, x ∈ ps.map LArg.name ∨ (lookupAL x scope).isSome ∨ nameOf names id = some x ∨
      x = "inputs") : ClosedFn names id ps body scope :=
  closedFn_of_freeVars hno hall

/-- THE LITERAL STATEMENT IS FALSE: `f = (a) => g(a)` captured `g = (x) => y`, whose `y` was not
    bound when `g` was created (late binding).  Every free name of `f` (`a`, `g`) was bound at
    its definition, yet `f(null)` fails with "unknown identifier" where the caller does not bind
    `y` and returns the caller's `y` where it does.  Blots source:
      g = (x) => y ; f = (a) => g(a) ; f(null) --> error ; h = (y) => f(null) ; h(true) --> true -/
theorem call_site_independent_statement_false : ¬ call_site_independent_statement := by
  intro h
  have h1 := h toyOps 20 1 [.req "a"] (.call (.ident "g") [.ident "a"]) [("g", C04Ex.lateG)] C04Ex.lateF [.null] 0
    root0 { root0 with env := [[("y", .bool true)]] } rfl rfl rfl
    (closedFn_of_freeVars (by decide) (by decide))
  have e1 : (callFn toyOps 20 C04Ex.lateF C04Ex.lateF [.null] 0 root0).1 = .err .unknownIdent := by
    simp +decide [C04Ex.lateF, C04Ex.lateG, callFn, eval, evalItems, evalList, it, checkArity, lambdaArity,
      Gen.Arity.canAccept, MAX_DEPTH, nameOf, bindParams, bindParams.go, root0, envGet, lookupAL, insertAL,
      flattenSpreads, Value.isCallable]
  have e2 : (callFn toyOps 20 C04Ex.lateF C04Ex.lateF [.null] 0 { root0 with env := [[("y", .bool true)]] }).1 =
      .ok (.bool true) := by
    simp +decide [C04Ex.lateF, C04Ex.lateG, callFn, eval, evalItems, evalList, it, checkArity, lambdaArity,
      Gen.Arity.canAccept, MAX_DEPTH, nameOf, bindParams, bindParams.go, root0, envGet, lookupAL, insertAL,
      flattenSpreads, Value.isCallable]
  rw [show (Value.lambda 1 [.req "a"] (.call (.ident "g") [.ident "a"]) [("g", C04Ex.lateG)]) = C04Ex.lateF from rfl,
    e1, e2] at h1
  cases h1

/-! ##### examples for section 6 -/

/-- hypotheses of `call_site_independent`: `f = (a) => [g(a), y, map([a], g)]` which captured
    `y ↦ true` and `g = (t) => [t, y]` (which captured `y ↦ 1`) is hereditarily closed; the two
    callers below rebind `y`, `g`, `a` -/
example : ClosedV [] C04Ex.exF ∧ ClosedV [] C04Ex.exG ∧ ClosedL [] [Value.str "arg"] :=
  ⟨C04Ex.exF_closed, C04Ex.exG_closed, by simp [ClosedL]⟩

/-- and the conclusion, computed: from a caller that binds `y`, `g`, `a` to other things in one
    frame, and from one that binds `g`, `a` and `y` in two frames, `f("arg")` is
    `[["arg", 1], true, [["arg", 1]]]` -/
example :
    (callFn toyOps 20 C04Ex.exF C04Ex.exF [.str "arg"] 0
      { root0 with env := [[("y", .null), ("g", .null), ("a", .null)]] }).1 =
      .ok (.list [.list [.str "arg", .num F64.one], .bool true, .list [.list [.str "arg", .num F64.one]]]) ∧
    (callFn toyOps 20 C04Ex.exF C04Ex.exF [.str "arg"] 0
      { root0 with env := [[("g", .bool false), ("a", .num F64.one)], [("y", .str "caller")]] }).1 =
      .ok (.list [.list [.str "arg", .num F64.one], .bool true, .list [.list [.str "arg", .num F64.one]]]) := by
  constructor <;>
  simp +decide [C04Ex.exF, C04Ex.exG, C04Ex.exBody, callFn, callHof, mapCalls, eval, evalItems, evalList, it,
    checkArity, lambdaArity, Gen.Arity.canAccept, MAX_DEPTH, nameOf, bindParams, bindParams.go, root0, envGet,
    lookupAL, insertAL, flattenSpreads, Value.isCallable, C04Ex.map_arity, isHof, arityOf]

/-- the theorem applied to these two callers (all hypotheses discharged) -/
example :
    (callFn toyOps 20 C04Ex.exF C04Ex.exF [.str "arg"] 0
      { root0 with env := [[("y", .null), ("g", .null), ("a", .null)]] }).1 =
    (callFn toyOps 20 C04Ex.exF C04Ex.exF [.str "arg"] 0
      { root0 with env := [[("g", .bool false), ("a", .num F64.one)], [("y", .str "caller")]] }).1 :=
  call_site_independent_outcome toyOps 20 C04Ex.exF C04Ex.exF [.str "arg"] 0 _ _ rfl rfl
    (by simp +decide [root0, envGet, lookupAL])
    (by intro v h; simp +decide [root0, envGet, lookupAL] at h) C04Ex.exF_closed C04Ex.exF_closed
    (by simp [ClosedL])

/-- (D3), fixed (repo commit "a record shorthand whose name is spelled like a built-in is
    captured"): found with this proof.  A plain identifier `sqrt` parses as the built-in, but the
    record shorthand `{sqrt}` reads the VARIABLE `sqrt`; `collect_free_variables` listed it, the
    capture loop skipped every name spelled like a built-in, so the inner function was created
    without its bound free name and later read the caller's binding.  Blots source:
      F = () => (((sqrt) => (() => {sqrt}))(1))()      -- F has no free names at all
      F() --> was error "unknown identifier: sqrt" ;  G = (sqrt) => F() ; G(5) --> was {sqrt: 5}
      mk = (sqrt) => (() => {sqrt}) ; g = mk(1) ; g() --> was an error, now {sqrt: 1}
    Before the fix the theorem needed the extra hypothesis that no identifier / shorthand in a
    body is spelled like a built-in.  Now both call sites give `{sqrt: 1}`, and `F` satisfies
    the hypotheses of `call_site_independent`. -/
example :
    ClosedV [] C04Ex.d3F ∧
    (callFn toyOps 20 C04Ex.d3F C04Ex.d3F [] 0 root0).1 = .ok (.record [("sqrt", .num F64.one)]) ∧
    (callFn toyOps 20 C04Ex.d3F C04Ex.d3F [] 0 { root0 with env := [[("sqrt", .bool true)]] }).1 =
      .ok (.record [("sqrt", .num F64.one)]) := by
  refine ⟨?_, ?_, ?_⟩
  · rw [C04Ex.d3F, closedV_lambda]
    exact ⟨closedFn_of_freeVars (by decide) (by decide), by decide, by simp⟩
  all_goals
    simp +decide [C04Ex.d3F, C04Ex.d3Body, callFn, eval, evalItems, evalList, evalEntries, it, checkArity,
      lambdaArity, Gen.Arity.canAccept, MAX_DEPTH, nameOf, bindParams, bindParams.go, root0, envGet, lookupAL,
      insertAL, flattenSpreads, Value.isCallable, freeVars, freeVarsEntries, freeVarsEntry, freeVarsKey,
      captureScope, LArg.name]

/-- hypotheses of `created_function_is_closed` and `coincidence_closed` are satisfiable:
    `(a) => a + y` created where `y ↦ 1`; `y` at depth 1 with `y` in the first frame -/
example : noOutput (.bin .add (.ident "a") (.ident "y")) = true ∧
    ClosedE [] [[("y", Value.num F64.one)]] ∧ InTop 1 [[("y", Value.num F64.one)], []] "y" ∧
    Agree 1 [[("inputs", Value.null)]] [[("y", Value.num F64.one)], [("inputs", Value.null)]] "inputs" := by
  refine ⟨by decide, ?_, by simp +decide [InTop, envGet, lookupAL],
    by simp +decide [Agree, retailE, envGet, lookupAL]⟩
  intro f hf
  simp only [List.mem_singleton] at hf
  subst hf
  simp [ClosedR]

end Blots.C04
