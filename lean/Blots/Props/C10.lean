import Blots.Lemmas.PrattRoundTrip
import Blots.Lemmas.IdentLemmas
import Blots.Lemmas.ExprPegLemmas
import Blots.Model.Json
/-
  C10 — the precedence table, and the round trip between the printer's parenthesisation
  rule and the Pratt parser.

  Statements only (helper lemmas and definitions live in `Blots/Lemmas/PrattRoundTrip.lean`).
  * `prattOps` / `opLookup` / `prattParse` model `build_pratt_parser` + pest's `PrattParser`
    configured from the GENERATED `Gen.precTable` / `Gen.prattTail` / `Gen.infixMap`;
  * `opInfo` is the printer's private view of the levels (`operator_info`), `needsParens`
    its parenthesisation rule;
  * `items e` is the flat pair sequence of the minimally parenthesised print of `e`
    (a parenthesised child is one primary), `itemsFull e` the one where every compound
    operand is parenthesised;
  * `NoInvert e`: no `.un .invert` node (the parser has no rule that produces it).
  Every fact about the tables is re-established by evaluation whenever they are regenerated.

  Names (second part of the file): `Blots.Ident` (Model/Ident.lean) is a character-level PEG
  model of the grammar rules `identifier`, `identifier_rest`, `reserved_word`, `bool`, `null`,
  `input_reference` and of the ordered choice `term` on a one-word input; the reserved words
  are the GENERATED `Gen.grammarReserved` in grammar order, the rule texts are pinned by the
  translator.  `IdentShape w`: nonempty, first character an ASCII letter or `_`, all
  characters ASCII letters, digits or `_`.  `Boundary rest`: `rest` is empty or starts with
  a character that is not one of those.

  Text level (third part): `Blots.ExprPeg` (Model/ExprPeg.lean) is a character-level PEG model
  of the grammar rule `expression` for a FRAGMENT — terms `conditional | do_block | lambda |
  assignment | list | record | bool | string | null | identifier | number (ASCII digits) | nested_expression` (a
  do-block by the rules `do_block`, `do_statement`, `return_statement`, its comments read and
  dropped; a lambda body by the rule
  `lambda_expression`, which has no `via` / `into` / `where` at its top level), prefix `-` `!` `not`, all four postfix forms (`!`,
  index `access`, `call_list` with spread arguments and the optional trailing comma, field
  `dot_access`), all 26 binary operators through `infix_usage`, each with the layout the
  grammar admits (rule texts pinned by the translator, operator literals and their order
  generated).  `exprItems fuel text` is the item sequence pest hands to the Pratt parser,
  `parseText` the whole pipeline text → tree.  `CST` (Lemmas/ExprPegLemmas.lean) are concrete
  syntax trees: the tree with every layout string and every parenthesis written out; `canon t`
  is the one `exprToSource` writes.  `Frag t`: `t` is built from binary operators, prefix `-`
  / `!`, postfix `!`, calls `f(a, ...b)`, index `e[i]`, field `e.name` (an identifier that is
  not a reserved word), list literals `[a, ...b]` without comments, lambdas `(x, y?, ...r) =>
  body` (argument names that are identifiers), conditionals `if c then a else b`, string literals
  that do not contain both kinds of quote, record literals without comments, do-blocks `do { s₁
  … return e }` without comments whose statements are fragment expressions with a leftmost name
  other than `via` / `into` / `where` (`do_block_in_fragment_iff`), assignments `name = value`
  (`assignment_in_fragment_iff`), over atoms (non-reserved
  identifiers, built-in names, `true false null`, integers 0 ≤ n < 10^15).
-/
namespace Blots.C10
open Blots.PrattRT

/-- The operator map of the parser has exactly the documented levels, loosest to tightest
    (rules shown by their spelling, levels by their rank among the distinct binding powers;
    no rule is registered twice), and every binary operator is left-associative except `^`. -/
theorem table_is_documented :
    documentedLevels = [
      (.infixL, ["and", "or", "&&", "||", "via", "into", "where"]),
      (.infixL, ["==", "!=", "<", "<=", ">", ">=", ".==", ".!=", ".<", ".<=", ".>", ".>="]),
      (.infixL, ["+", "-"]),
      (.infixL, ["*", "/", "%"]),
      (.infixR, ["^"]),
      (.infixL, ["??"]),
      (.prefix_, ["-", "!", "not", "..."]),
      (.postfix_, ["!"]),
      (.postfix_, ["call_list", "access", "dot_access"])] ∧
    (prattOps.map (·.1)).Nodup ∧
    (∀ x, x ∈ rankedOps ↔ x ∈ documentedOps) ∧
    (∀ op : BinOp, (opLookup (ruleOf op)).map (·.1) =
      some (if op = .pow then Affix.infixR else Affix.infixL)) := by
  have h : tableDocumented = true := by decide +kernel
  simp only [tableDocumented, Bool.and_eq_true, decide_eq_true_eq, List.all_eq_true,
    List.contains_iff_mem] at h
  refine ⟨rfl, h.1.1, fun x => ⟨h.1.2 x, h.2 x⟩, fun op => ?_⟩
  have hall : (BinOp.all.all fun op => (opLookup (ruleOf op)).map (·.1) ==
      some (if op = .pow then Affix.infixR else Affix.infixL)) = true := by decide +kernel
  simpa using List.all_eq_true.mp hall op (BinOp.mem_all op)

/-- The printer's copy of the levels (`operator_info`) agrees with the parser's operator map
    for all 26 operators / 676 ordered pairs: same order, same ties, associativity as the
    parser has it, and the rule maps back to the operator. -/
theorem operator_info_agrees_with_parser (a b : BinOp) :
    ((opInfo a).1 < (opInfo b).1 ↔ bp a < bp b) ∧
    ((opInfo a).1 = (opInfo b).1 ↔ bp a = bp b) ∧
    ((opInfo a).1 = (opInfo b).1 → (opInfo a).2 = (opInfo b).2) ∧
    opLookup (ruleOf a) = some (if (opInfo a).2 then Affix.infixR else Affix.infixL, bp a) ∧
    (∀ l r, mapInfix (ruleOf a) l r = some (.bin a l r)) ∧
    0 < bp a ∧ bp a + 1 < P :=
  ⟨pp_lt_iff a b, pp_eq_iff a b, ra_eq_of_pp_eq a b, opLookup_ruleOf a, mapInfix_ruleOf a,
    bp_pos a, bp_lt_P a⟩

/-- prefix operators sit on one level above every binary operator, postfix `!` above that,
    call / index / field access above that -/
theorem prefix_postfix_levels :
    opLookup "negation" = some (.prefix_, P) ∧ opLookup "invert" = some (.prefix_, P) ∧
    opLookup "natural_not" = some (.prefix_, P) ∧ opLookup "spread_operator" = some (.prefix_, P) ∧
    opLookup "factorial" = some (.postfix_, lvl "factorial") ∧
    opLookup "access" = some (.postfix_, lvl "access") ∧
    opLookup "dot_access" = some (.postfix_, lvl "access") ∧
    opLookup "call_list" = some (.postfix_, lvl "access") ∧
    P < lvl "factorial" ∧ lvl "factorial" < lvl "access" := by decide +kernel

/-- The fuel-free relational semantics is adequate for the fuelled parser. -/
theorem relational_semantics_adequate :
    (∀ rbp its e rest, PExpr rbp its e rest → rest.length ≤ its.length ∧
      ∀ fuel, fuel ≥ 2 * (its.length - rest.length) → prattExpr fuel rbp its = some (e, rest)) ∧
    (∀ rbp lhs its e rest, PLoop rbp lhs its e rest → rest.length ≤ its.length ∧
      ∀ fuel, fuel ≥ 2 * (its.length - rest.length) + 1 →
        prattLoop fuel rbp lhs its = some (e, rest)) ∧
    (∀ its e, PExpr 0 its e [] → prattParse its = some e) :=
  ⟨fun _ _ _ _ h => ⟨Nat.le_of_lt h.rest_le, h.run⟩, fun _ _ _ _ _ h => ⟨h.rest_le, h.run⟩,
    fun _ _ h => h.parse⟩

/-- MAIN LEMMA (unbounded depth): in any context `rbp` below the prefix level and before any
    `rest` that `Fits` (a binary `e` binds tighter than `rbp` and its right operand does not
    capture the next pair; a prefix `e` is not followed by a postfix operator), parsing
    `items e ++ rest` reaches the loop with `lhs = e` and `rest` still to read. -/
theorem items_reach_loop (e : Expr) (h : NoInvert e) (rbp : Nat) (rest : List PItem)
    (hr : rbp ≤ P - 1) (hfit : Fits e rbp rest) (e' : Expr) (rest' : List PItem)
    (hk : PLoop rbp e rest e' rest') : PExpr rbp (items e ++ rest) e' rest' :=
  items_parse e h rbp rest hr hfit e' rest' hk

/-- The minimally parenthesised print of every tree parses back to the tree. -/
theorem pratt_roundtrip (e : Expr) (h : NoInvert e) : prattParse (items e) = some e :=
  (items_PExpr e h).parse

/-- … and so does the fully parenthesised print: an expression and its fully parenthesised
    form parse identically. -/
theorem minimal_and_full_parenthesisation_agree (e : Expr) (h : NoInvert e) :
    prattParse (itemsFull e) = some e ∧ prattParse (items e) = prattParse (itemsFull e) := by
  have h1 := (itemsFull_PExpr e h.top).parse
  exact ⟨h1, (pratt_roundtrip e h).trans h1.symm⟩

/-! #### examples -/

section examples
private abbrev a : Expr := .ident "a"
private abbrev b : Expr := .ident "b"
private abbrev c : Expr := .ident "c"
private abbrev d : Expr := .ident "d"
private abbrev f : Expr := .ident "f"
private abbrev g : Expr := .ident "g"

/-- `(a - (b - c)) * -d! ^ f ?? g`-like tree:
    `((a - (b - c)) * ((-(d!)) ^ (f ?? g)))` -/
private abbrev t1 : Expr :=
  .bin .mul (.bin .sub a (.bin .sub b c))
    (.bin .pow (.un .negate (.fact d)) (.bin .coalesce f g))

/-- its items: both `-` groups need parentheses (one primary each), `-d!` and `f ?? g` do not -/
example : items t1 =
    [.prim (.bin .sub a (.bin .sub b c)), .inf "multiply", .pre "negation", .prim d, .postFact,
     .inf "power", .prim f, .inf "coalesce", .prim g] := by rfl

example : NoInvert t1 := by decide
example : prattParse (items t1) = some t1 := pratt_roundtrip t1 (by decide)
example : prattParse (items t1) = some t1 := by rfl

/-- inside the parenthesised left operand: `a - (b - c)` keeps its parentheses … -/
example : items (.bin .sub a (.bin .sub b c)) =
    [.prim a, .inf "subtract", .prim (.bin .sub b c)] := by rfl

/-- … and DROPPING them changes the parse: `a - b - c` is `(a - b) - c`.  The rule is not vacuous. -/
example : prattParse [.prim a, .inf "subtract", .prim b, .inf "subtract", .prim c] =
    some (.bin .sub (.bin .sub a b) c) := by rfl
example : Expr.bin .sub (.bin .sub a b) c ≠ .bin .sub a (.bin .sub b c) := by simp

/-- `^` is right-associative: `a ^ b ^ c` needs no parentheses on the right, needs them on the left -/
example : items (.bin .pow a (.bin .pow b c)) =
    [.prim a, .inf "power", .prim b, .inf "power", .prim c] := by rfl
example : items (.bin .pow (.bin .pow a b) c) =
    [.prim (.bin .pow a b), .inf "power", .prim c] := by rfl

/-- `-a!` is `-(a!)`; `(-a)!` keeps its parentheses; `-a ^ b` is `(-a) ^ b` -/
example : prattParse [.pre "negation", .prim a, .postFact] = some (.un .negate (.fact a)) := by rfl
example : items (.fact (.un .negate a)) = [.prim (.un .negate a), .postFact] := by rfl
example : prattParse [.pre "negation", .prim a, .inf "power", .prim b] =
    some (.bin .pow (.un .negate a) b) := by rfl

/-- hypotheses of the main lemma are satisfiable in a non-trivial context:
    `a * b` as the right operand of `+`, followed by `- c` -/
example : Fits (.bin .mul a b) (bp .add) [.inf "subtract", .prim c] :=
  ⟨by decide +kernel, bp .sub, by decide +kernel, by decide +kernel⟩

/-- `.un .invert` really has to be excluded: the printer's `~` has no prefix rule -/
example : prattParse (items (.un .invert a)) = none := by rfl
end examples

/-! ### names: the identifier rule at character level -/

section names
open Blots.Ident

/-- Every identifier-shaped word that is not a reserved word is consumed WHOLE by the
    `identifier` rule, and the one-word program `w` is an identifier term (the `bool`,
    `null`, `input_reference` alternatives tried before `identifier` in `term` all fail).
    All words, no bound on the length. -/
theorem ident_usable (w : List Char) (hw : IdentShape w)
    (hr : String.ofList w ∉ Gen.grammarReserved) :
    identifier w = some [] ∧ termWord w = .ident := by
  have hnot : w ∉ reservedLits := fun h => hr (mem_reservedLits.mp h)
  have h1 := identifier_run (rest := []) hw hnot rfl
  have h2 := termStart_run (rest := []) hw hnot rfl
  simp only [List.append_nil] at h1 h2
  exact ⟨h1, by simp [termWord, h2]⟩

/-- Every word of the grammar's `reserved_word` list is refused by `identifier` (in
    particular: no EARLIER alternative of the ordered choice is a proper prefix of a later
    one, which would let the later word through), and as a one-word program it is the
    literal `true` / `false` / `null` or does not parse. -/
theorem reserved_refused : ∀ s ∈ Gen.grammarReserved,
    identifier s.toList = none ∧
    termWord s.toList =
      (if s = "true" then .bool true else if s = "false" then .bool false
       else if s = "null" then .null else .reserved) := by
  decide +kernel

/-- For identifier-shaped words the classification is exact: an identifier term iff not
    reserved. -/
theorem ident_iff_not_reserved (w : List Char) (hw : IdentShape w) :
    termWord w = .ident ↔ String.ofList w ∉ Gen.grammarReserved := by
  constructor
  · intro h hmem
    have := (reserved_refused _ hmem).2
    rw [String.toList_ofList, h] at this
    split at this
    · cases this
    · split at this
      · cases this
      · split at this <;> cases this
  · exact fun h => (ident_usable w hw h).2

/-- A reserved word followed by more identifier characters (`trueish`, `nullable`, `iffy`,
    `do_it`, `outputs`, `notx`, `or_else`, `and1`) is a usable name, as long as the longer
    word is not itself in the list. -/
theorem prefix_of_reserved_is_usable (r : String) (t : List Char)
    (hr : r ∈ Gen.grammarReserved) (ht : ∀ x ∈ t, isIdentChar x = true)
    (hnot : String.ofList (r.toList ++ t) ∉ Gen.grammarReserved) :
    identifier (r.toList ++ t) = some [] ∧ termWord (r.toList ++ t) = .ident :=
  ident_usable _ (IdentShape.append (reserved_identShape r hr) ht) hnot

/-- … and so is a reserved word preceded by identifier characters (`_if`, `xor`, `a_do`). -/
theorem suffix_of_reserved_is_usable (r : String) (p : List Char)
    (hr : r ∈ Gen.grammarReserved) (hp : IdentShape p)
    (hnot : String.ofList (p ++ r.toList) ∉ Gen.grammarReserved) :
    identifier (p ++ r.toList) = some [] ∧ termWord (p ++ r.toList) = .ident :=
  ident_usable _ (IdentShape.append hp (reserved_identShape r hr).all) hnot

/-- Maximal munch: in front of anything that does not start with an identifier character
    (end of input, space, operator, bracket, …) `identifier` consumes exactly the word, and
    the `term` choice takes the identifier alternative. -/
theorem identifier_is_maximal_munch (w rest : List Char) (hw : IdentShape w)
    (hr : String.ofList w ∉ Gen.grammarReserved) (hb : Boundary rest) :
    identifier (w ++ rest) = some rest ∧ termStart (w ++ rest) = some (.ident, rest) := by
  have hnot : w ∉ reservedLits := fun h => hr (mem_reservedLits.mp h)
  exact ⟨identifier_run hw hnot hb, termStart_run hw hnot hb⟩

/-- `#name`: `input_reference` has NO reserved-word look-ahead — every identifier-shaped word,
    reserved or not, is consumed whole after `#`, and `#w` is an input-reference term. -/
theorem input_reference_is_maximal_munch (w rest : List Char) (hw : IdentShape w)
    (hb : Boundary rest) :
    inputReference ('#' :: (w ++ rest)) = some rest ∧
    termStart ('#' :: (w ++ rest)) = some (.input, rest) ∧ termWord ('#' :: w) = .input := by
  refine ⟨inputReference_run hw hb, termStart_input_run hw hb, ?_⟩
  have h := termStart_input_run (rest := []) hw rfl
  simp only [List.append_nil] at h
  simp [termWord, h]

/-! #### examples (non-vacuity) -/

example : IdentShape "trueish".toList ∧ String.ofList "trueish".toList ∉ Gen.grammarReserved := by
  decide +kernel
example : termWord "trueish".toList = .ident := (ident_usable _ (by decide) (by decide +kernel)).2
example : termWord "nullable".toList = .ident := (ident_usable _ (by decide) (by decide +kernel)).2
example : termWord "iffy".toList = .ident := (ident_usable _ (by decide) (by decide +kernel)).2
example : termWord "do_it".toList = .ident := (ident_usable _ (by decide) (by decide +kernel)).2
example : termWord "outputs".toList = .ident := (ident_usable _ (by decide) (by decide +kernel)).2
example : termWord "notx".toList = .ident := (ident_usable _ (by decide) (by decide +kernel)).2
example : termWord "or_else".toList = .ident := (ident_usable _ (by decide) (by decide +kernel)).2
example : termWord "and1".toList = .ident := (ident_usable _ (by decide) (by decide +kernel)).2
example : termWord "_if".toList = .ident := (ident_usable _ (by decide) (by decide +kernel)).2
/-- case matters -/
example : termWord "If".toList = .ident := (ident_usable _ (by decide) (by decide +kernel)).2
example : termWord "_".toList = .ident := (ident_usable _ (by decide) (by decide +kernel)).2
/-- through the corollaries: `"true" ++ "ish"`, `"_" ++ "if"` -/
example : termWord ("true".toList ++ "ish".toList) = .ident :=
  (prefix_of_reserved_is_usable "true" "ish".toList (by decide +kernel) (by decide) (by decide +kernel)).2
example : termWord ("_".toList ++ "if".toList) = .ident :=
  (suffix_of_reserved_is_usable "if" "_".toList (by decide +kernel) (by decide) (by decide +kernel)).2
/-- the model agrees by plain evaluation, and really distinguishes the classes -/
example : termWord "trueish".toList = .ident ∧ termWord "true".toList = .bool true ∧
    termWord "false".toList = .bool false ∧ termWord "null".toList = .null ∧
    termWord "if".toList = .reserved ∧ termWord "output".toList = .reserved ∧
    identifier "output".toList = none ∧ identifier "outputs".toList = some [] := by decide +kernel
/-- not identifier-shaped: digit first, non-ASCII letter, empty -/
example : ¬ IdentShape "1a".toList ∧ ¬ IdentShape "é".toList ∧ ¬ IdentShape [] ∧
    termWord "1a".toList = .reserved ∧ termWord "aé".toList = .reserved ∧
    termWord [] = .reserved := by decide +kernel
/-- maximal munch in context: `iffy+1`, `notx (`, and the keyword case it must not swallow:
    `if x` is not an identifier followed by ` x` -/
example : identifier "iffy+1".toList = some "+1".toList ∧
    identifier "notx (".toList = some " (".toList ∧ identifier "if x".toList = none ∧
    identifier "ifx y".toList = some " y".toList := by decide +kernel
example : Boundary "+1".toList ∧ Boundary [] ∧ ¬ Boundary "x".toList := by decide
/-- `#if`, `#true` are input references -/
example : termWord "#if".toList = .input ∧ termWord "#true".toList = .input ∧
    termWord "#1".toList = .reserved ∧ termWord "#".toList = .reserved := by decide +kernel
/-- The PEG hazard `reserved_refused` guards against: an ordered choice listing a word AFTER
    one of its proper prefixes never reaches it, so the longer word would pass as a name. -/
example : keyword ["do".toList, "done".toList] "done".toList = none ∧
    keyword ["done".toList, "do".toList] "done".toList = some ("done".toList, []) := by
  decide +kernel
end names

/-! ### text level: the `expression` rule at character level (operator fragment) -/

section text
open Blots.ExprPeg

/-- The fuel the driver passes (`fuelFor` = 2·length + 2) never runs out, and a run that
    succeeds with SOME fuel gives the same answer with every fuel from `fuelFor` upwards:
    `none` from `exprItems (fuelFor cs) cs` is a genuine "no match". -/
theorem peg_fuel_suffices (cs : List Char) :
    (∀ lam f, fuelFor cs ≤ f → exprR lam f cs ≠ .out) ∧
    (∀ f x, exprR false f cs = .ok x → ∀ f', fuelFor cs ≤ f' → exprItems f' cs = some x) :=
  ⟨fun lam f hf => (fuel_suffices f cs).e lam (by unfold fuelFor at hf; omega),
    fun _ _ hx => exprItems_of_exprR hx⟩

/-- What the printer writes IS a concrete syntax tree of the fragment: `canon t` has the text
    `exprToSource t`, the item sequence `items t` of `pratt_roundtrip`, the tree `t`, and is
    well-formed. -/
theorem printer_output_is_cst (t : Expr) (h : Frag t) :
    (canon t).text = (exprToSource t).toList ∧ (canon t).items = items t ∧ (canon t).tree = t ∧
      (canon t).WF :=
  ⟨canon_text_frag t h, canon_items_frag t h, canon_tree_frag t h, canon_wf t h⟩

/-- MAIN LEMMA at text level (unbounded depth, structural induction): in front of any `rest`
    that ends a term (`TEnd`: it continues neither a word nor a lambda head — since lambdas are
    in the grammar model an identifier or a parenthesised name followed by `=>` is a lambda) and
    that, when the tree ends with a lambda body, continues no expression (`Closes`), and
    whatever follows (`After`: postfix operators, then the operator tail), the `expression`
    rule splits the text of a well-formed concrete syntax tree into exactly its items.
    (With only `Boundary rest`, as before lambdas were modelled, the statement is false:
    `x` in front of ` => 1` is the head of a lambda.) -/
theorem cst_text_reaches_tail (c : CST) (h : c.WF) (rest : List Char) (its : List PItem)
    (r : List Char) (hb : TEnd rest)
    (hc : c.isParen = false → endsOpen c.tree = true → Closes rest) (hk : After false rest its r) :
    ∃ fuel, exprR false fuel (c.text ++ rest) = .ok (c.items ++ its, r) :=
  lex_cst false c h.1 h.2 (fun e => by cases e) rest its r hb hc hk

/-- … and the `lambda_expression` rule, for a tree without `via` / `into` / `where` at its top
    level (`LamSafe`) -/
theorem cst_text_reaches_tail_lambda_body (c : CST) (h : c.WF) (hs : LamSafe c.items)
    (rest : List Char) (its : List PItem) (r : List Char) (hb : TEnd rest)
    (hc : c.isParen = false → endsOpen c.tree = true → Closes rest) (hk : After true rest its r) :
    ∃ fuel, exprR true fuel (c.text ++ rest) = .ok (c.items ++ its, r) :=
  lex_cst true c h.1 h.2 (fun _ => hs) rest its r hb hc hk

/-- Every well-formed concrete syntax tree — any admissible layout, any number of redundant
    parentheses — is split by the grammar into its items, nothing left over, and parsed to its
    abstract tree. -/
theorem cst_text_roundtrip (c : CST) (h : c.WF) :
    (∀ fuel, fuelFor c.text ≤ fuel → exprItems fuel c.text = some (c.items, [])) ∧
    prattParse c.items = some c.tree ∧ parseText (String.ofList c.text) = some c.tree :=
  ⟨cst_lex c h, cst_pratt c h.1, cst_roundtrip c h⟩

/-- PRINT THEN LEX: the text the printer writes for an operator tree is split by the grammar
    into exactly the item sequence of `pratt_roundtrip` (printer's parenthesisation: a
    parenthesised operand is one primary), consuming the whole text. -/
theorem print_then_lex (t : Expr) (h : Frag t) (fuel : Nat)
    (hf : fuelFor (exprToSource t).toList ≤ fuel) :
    exprItems fuel (exprToSource t).toList = some (items t, []) := by
  have := cst_lex (canon t) (canon_wf t h) fuel (by rw [canon_text_frag t h]; exact hf)
  rwa [canon_text_frag t h, canon_items_frag t h] at this

/-- TEXT-LEVEL ROUND TRIP: printing any operator tree and reading the text back — PEG
    recogniser, then Pratt parser — gives the tree. -/
theorem text_roundtrip (t : Expr) (h : Frag t) : parseText (exprToSource t) = some t := by
  have := cst_roundtrip (canon t) (canon_wf t h)
  rwa [canon_text_frag t h, String.ofList_toList, canon_tree_frag t h] at this

/-- LAYOUT INSENSITIVITY: replace every separator the printer wrote — the single blanks around
    a binary operator, the nothing between a parenthesis and its content, the `, ` between
    arguments — by ANY admissible layout string of that position (`Relayout`: blanks, tabs,
    line feeds, CR LF; around a symbol operator anything including nothing, except nothing in
    front of `!=`; in front of a word operator at least one layout atom, behind it at least one
    blank or tab and no line break; in a call anything behind `(`, behind a comma and in front
    of `)`, blanks only in front of a comma, optionally a trailing comma that is followed by a
    line break; in a list the same with blanks and line breaks, and a trailing comma needs no
    line break; inside the brackets of an index line breaks only; nothing between an operand
    and its `(` / `[` / `.name`; in a conditional at least one blank (no line break) behind
    `if`, at least one layout atom on each side of `then` and of `else`; in a lambda blanks in
    front of `=>`, anything behind it, and the parentheses around a single required / optional
    parameter may go; a string literal in either quote character that does not occur in it; in
    a record the layout of a list, blanks only in front of a colon and inside the brackets of a
    computed key, anything behind the colon, and a static key bare when it is an identifier or
    as a string literal; in a do-block at least one blank or line break between `do` and `{`,
    anything behind `{` and in front of `}`, between two statements and in front of `return`
    either blanks, one `;` and anything, or any layout with a line break in it, and at least one
    blank (no line break) behind `return`; blanks only around the `=` of an assignment): the
    grammar yields the same items, and the same tree. -/
theorem layout_insensitive (t : Expr) (h : Frag t) (c : CST) (hr : Relayout t c) :
    (∀ fuel, fuelFor c.text ≤ fuel → exprItems fuel c.text = some (items t, [])) ∧
    parseText (String.ofList c.text) = some t := by
  obtain ⟨hwf, hi, ht⟩ := relayout_wf h hr
  exact ⟨fun fuel hf => hi ▸ cst_lex c hwf fuel hf, ht ▸ cst_roundtrip c hwf⟩

/-- REDUNDANT PARENTHESES: wrapping any sub-expression (at any depth) of a well-formed text in
    an extra pair of parentheses, with any layout inside them, gives a well-formed text with
    the same parsed tree. -/
theorem redundant_parens (c c' : CST) (h : c.WF) (hw : Wrap c c') :
    c'.WF ∧ parseText (String.ofList c'.text) = parseText (String.ofList c.text) ∧
      parseText (String.ofList c.text) = some c.tree := by
  obtain ⟨ht, _, hs, hl⟩ := wrap_facts hw
  have hwf' : c'.WF := ⟨hs h.1, hl h.2⟩
  have h1 := cst_roundtrip c h
  have h2 := cst_roundtrip c' hwf'
  rw [ht] at h2
  exact ⟨hwf', h2.trans h1.symm, h1⟩

/-- … in particular for the printer's output, and repeatedly: any text obtained from
    `exprToSource t` by re-layout and then any number of extra pairs of parentheses (`Wraps`)
    parses to `t`. -/
theorem printed_text_with_extra_parens (t : Expr) (h : Frag t) (c c' : CST) (hr : Relayout t c)
    (hw : Wraps c c') : parseText (String.ofList c'.text) = some t := by
  obtain ⟨hwf, _, ht⟩ := relayout_wf h hr
  obtain ⟨ht', hwf'⟩ := wraps_facts hw hwf
  exact ht ▸ ht' ▸ cst_roundtrip c' hwf'

/-! #### examples (non-vacuity) -/

private abbrev xa : Expr := .ident "a"
private abbrev xb : Expr := .ident "b"
private abbrev xc : Expr := .ident "c"
private abbrev one : Expr := .num ⟨0x3FF0000000000000⟩
private abbrev n42 : Expr := .num ⟨0x4045000000000000⟩

/-- what the model computes for a text, shown as the printer's text of the parsed tree
    (`Expr` has no decidable equality; the theorems above give the trees themselves) -/
private def reads (s : String) : Option String := (parseText s).map exprToSource

/-- `^` / `??` nesting: `(a ^ b) ^ (c ?? 42) ^ a` -/
private abbrev u1 : Expr :=
  .bin .pow (.bin .pow xa xb) (.bin .pow (.bin .coalesce xc n42) xa)
example : Frag u1 := by decide +kernel
example : exprToSource u1 = "(a ^ b) ^ c ?? 42 ^ a" := by decide +kernel
example : items u1 = [.prim (.bin .pow xa xb), .inf "power", .prim xc, .inf "coalesce", .prim n42,
    .inf "power", .prim xa] := by rfl
example : parseText (exprToSource u1) = some u1 := text_roundtrip u1 (by decide +kernel)
/-- … and the model computes it (no theorem involved) -/
example : reads "(a ^ b) ^ c ?? 42 ^ a" = some "(a ^ b) ^ c ?? 42 ^ a" := by decide +kernel

/-- prefix minus over a parenthesised sum, under a postfix `!`, with a word operator:
    `-(a + 1)! and !true` -/
private abbrev u2 : Expr :=
  .bin .nand (.un .negate (.fact (.bin .add xa one))) (.un .not (.bool true))
example : Frag u2 := by decide +kernel
example : exprToSource u2 = "-(a + 1)! and !true" := by decide +kernel
example : parseText (exprToSource u2) = some u2 := text_roundtrip u2 (by decide +kernel)
example : items u2 = [.pre "negation", .prim (.bin .add xa one), .postFact, .inf "natural_and",
    .pre "invert", .prim (.bool true)] := by rfl
example : exprItems (fuelFor (exprToSource u2).toList) (exprToSource u2).toList =
    some (items u2, []) :=
  print_then_lex u2 (by decide +kernel) _ (Nat.le_refl _)

/-- a re-layout of `u2`: line break + blanks in front of `and`, a tab behind it, nothing around
    `+`, layout inside the parentheses:  `-(␉a+1␍␊)!␊  and␉!true` -/
private abbrev c2 : CST :=
  .bin .nand
    (.un .negate (.fact (.paren [.tab] (.bin .add (.atom xa) [] [] (.atom one)) [.crlf])))
    [.lf, .sp, .sp] [.tab]
    (.un .not (.atom (.bool true)))
example : String.ofList c2.text = "-(\ta+1\r\n)!\n  and\t!true" := by decide +kernel
example : Relayout u2 c2 :=
  ⟨by rfl, ⟨⟨trivial, trivial, by decide +kernel⟩, trivial, by decide +kernel⟩⟩
example : parseText (String.ofList c2.text) = some u2 :=
  (layout_insensitive u2 (by decide +kernel) c2
    ⟨by rfl, ⟨⟨trivial, trivial, by decide +kernel⟩, trivial, by decide +kernel⟩⟩).2
example : reads "-(\ta+1\r\n)!\n  and\t!true" = some "-(a + 1)! and !true" := by decide +kernel

/-- redundant parentheses: around all of `u1`'s printed form (theorem), around inner atoms and
    groups (computed) -/
example : parseText (String.ofList (CST.paren [.sp] (canon u1) []).text) = some (canon u1).tree :=
  ((redundant_parens (canon u1) _ (canon_wf u1 (by decide +kernel)) (.here [.sp] _ [])).2.1).trans
    (redundant_parens (canon u1) _ (canon_wf u1 (by decide +kernel)) (.here [.sp] _ [])).2.2
example : reads "( (a ^ b) ^ c ?? 42 ^ a)" = some "(a ^ b) ^ c ?? 42 ^ a" ∧
    reads "((a) ^ ((b))) ^ (c) ?? (( 42 )) ^ a" = some "(a ^ b) ^ c ?? 42 ^ a" := by
  decide +kernel

/-- WHAT THE LAYOUT CONDITIONS EXCLUDE, on the model (and on the real parser, see the harness):
    `!=` directly behind its left operand is the postfix `!` followed by `=`; a line break
    behind a word operator; a word operator without layout in front. -/
example : CST.layOk .ne [] [.sp] = false ∧ CST.layOk .ne [.sp] [] = true ∧
    CST.layOk .nand [.sp] [.lf] = false ∧ CST.layOk .nand [] [.sp] = false ∧
    CST.layOk .dne [] [] = true := by decide +kernel
example : reads "a != b" = some "a != b" ∧ reads "a !=b" = some "a != b" ∧ reads "a!=b" = none ∧
    reads "a! !=b" = some "a! != b" ∧ reads "a.!=b" = some "a .!= b" := by decide +kernel
example : reads "a and b" = some "a and b" ∧ reads "a\nand b" = some "a and b" ∧
    reads "a and\nb" = none ∧ reads "(a)and b" = none ∧ reads "a andb" = none := by
  decide +kernel
/-- `///` is a comment, not `/` followed by a comment: why comments are left out of `Lay` -/
example : reads "a /\nb" = some "a / b" ∧ reads "a / // c\nb" = some "a / b" ∧
    reads "a ///c\nb" = none := by decide +kernel
/-- outside the fragment's atoms: reserved words are not identifiers, `~` has no prefix rule,
    negative literals are `-` applied to a literal; built-in names are their own node -/
example : ¬ Frag (.ident "not") ∧ ¬ Frag (.un .invert xa) ∧ ¬ Frag (.num ⟨0xBFF0000000000000⟩) ∧
    Frag (.builtin "sqrt") ∧ ¬ Frag (.ident "sqrt") := by decide +kernel
example : reads "sqrt + not_x" = some "sqrt + not_x" ∧
    Frag (.bin .add (.builtin "sqrt") (.ident "not_x")) := by decide +kernel

/-! #### postfix forms: call, index, field -/

private abbrev xf : Expr := .ident "f"
/-- `(-a).b(c, ...f(1))[a + 1]!` : every postfix form, a parenthesised prefix operand, a spread
    argument, a nested call -/
private abbrev u3 : Expr :=
  .fact (.access (.call (.dot (.un .negate xa) "b") [xc, .spread (.call xf [one])])
    (.bin .add xa one))
example : Frag u3 := by decide +kernel
example : exprToSource u3 = "(-a).b(c, ...f(1))[a + 1]!" := by decide +kernel
example : parseText (exprToSource u3) = some u3 := text_roundtrip u3 (by decide +kernel)
example : items u3 = [.prim (.un .negate xa), .postDot "b",
    .postCall [xc, .spread (.call xf [one])], .postAccess (.bin .add xa one), .postFact] := by rfl
example : reads "(-a).b(c, ...f(1))[a + 1]!" = some "(-a).b(c, ...f(1))[a + 1]!" := by
  decide +kernel

/-- the formatter's multi-line call layout — line break and indent behind `(` and behind every
    comma, a trailing comma, the closing parenthesis on its own line — is a re-layout:
    `f(⏎  a,⏎  b + 1,⏎)` -/
private abbrev u4 : Expr := .call xf [xa, .bin .add xb one]
private abbrev c4 : CST :=
  .call (.atom xf) [.lf, .sp, .sp]
    (.cons false (.atom xa) [] [.lf, .sp, .sp]
      (.last false (.bin .add (.atom xb) [.sp] [.sp] (.atom one))))
    (.comma [] [.lf])
example : String.ofList c4.text = "f(\n  a,\n  b + 1,\n)" := by decide +kernel
example : Relayout u4 c4 :=
  ⟨by rfl, ⟨trivial, ⟨trivial, rfl, ⟨trivial, trivial, by decide +kernel⟩⟩, rfl⟩⟩
example : parseText (String.ofList c4.text) = some u4 :=
  (layout_insensitive u4 (by decide +kernel) c4
    ⟨by rfl, ⟨trivial, ⟨trivial, rfl, ⟨trivial, trivial, by decide +kernel⟩⟩, rfl⟩⟩).2
example : reads "f(\n  a,\n  b + 1,\n)" = some "f(a, b + 1)" := by decide +kernel

/-- WHAT THE LAYOUT CONDITIONS OF THE POSTFIX FORMS EXCLUDE, on the model (and on the real
    parser, see the harness): `call_list` is non-atomic (blanks between its tokens) but a
    trailing comma needs a line break behind it and a comma takes no line break in front;
    `access` and `dot_access` are atomic (line breaks inside `[ ]`, no blanks; nothing around
    the `.`); no layout between an operand and its postfix operator. -/
example : reads "f( a , b )" = some "f(a, b)" ∧ reads "f(a,\n)" = some "f(a)" ∧
    reads "f(a, )" = none ∧ reads "f(a,b,)" = none ∧ reads "f(a\n, b)" = none ∧
    reads "f(,\n)" = some "f()" ∧ reads "f( )" = some "f()" ∧ reads "f (a)" = none := by
  decide +kernel
example : reads "a[\n1\n]" = some "a[1]" ∧ reads "a[ 1]" = none ∧ reads "a[1 ]" = none ∧
    reads "a[\n 1]" = none ∧ reads "a [1]" = none ∧ reads "a.b.c" = some "a.b.c" ∧
    reads "a. b" = none ∧ reads "a .b" = none ∧ reads "a.if" = none ∧ reads "a.iffy" = some "a.iffy" := by
  decide +kernel
/-- a symbol operator that starts with `.` directly behind its operand is not a field access,
    and a digit run followed by `.name` is a number with a field -/
example : reads "a.==b" = some "a .== b" ∧ reads "1.e5" = some "1.e5" ∧
    reads "f(...a, b)" = some "f(...a, b)" ∧ reads "f(... a)" = none := by decide +kernel
example : ¬ Frag (.dot xa "if") ∧ ¬ Frag (.spread xa) ∧ Frag (.call xf [.spread xa]) ∧
    ¬ Frag (.call xf [.spread (.spread xa)]) := by decide +kernel

/-! #### list literals -/

private abbrev it (e : Expr) : Item := .mk [] e none
/-- `[a, ...b, [], [1][a]] + f([c])` : items, a spread item, the empty list, a list under an
    index, a list as an argument -/
private abbrev u5 : Expr :=
  .bin .add (.list [it xa, it (.spread xb), it (.list []), it (.access (.list [it one]) xa)])
    (.call xf [.list [it xc]])
example : Frag u5 := by decide +kernel
example : exprToSource u5 = "[a, ...b, [], [1][a]] + f([c])" := by decide +kernel
example : parseText (exprToSource u5) = some u5 := text_roundtrip u5 (by decide +kernel)
example : reads "[a, ...b, [], [1][a]] + f([c])" = some "[a, ...b, [], [1][a]] + f([c])" := by
  decide +kernel

/-- the formatter's multi-line list layout `[⏎  a,⏎  ...b,⏎]` is a re-layout -/
private abbrev u6 : Expr := .list [it xa, it (.spread xb)]
private abbrev c6 : CST :=
  .list [.lf, .sp, .sp]
    (.cons false (.atom xa) [] [.lf, .sp, .sp] (.last true (.atom xb)))
    (.comma [] [.lf])
example : String.ofList c6.text = "[\n  a,\n  ...b,\n]" := by decide +kernel
example : Relayout u6 c6 := ⟨by rfl, ⟨trivial, rfl, trivial⟩, rfl⟩
example : parseText (String.ofList c6.text) = some u6 :=
  (layout_insensitive u6 (by decide +kernel) c6 ⟨by rfl, ⟨trivial, rfl, trivial⟩, rfl⟩).2
/-- `list` is non-atomic: blanks and PLAIN line breaks anywhere between its tokens except in
    front of a comma (blanks only); a trailing comma needs no line break (unlike a call); a
    comment must be followed by a line break, and the one behind an item (`eol_comment`) ends
    the line, so no comma can follow it there -/
example : reads "[ a , b ]" = some "[a, b]" ∧ reads "[a, ]" = some "[a]" ∧ reads "[a,]" = some "[a]" ∧
    reads "[a\n, b]" = none ∧ reads "[,]" = some "[]" ∧ reads "[\n]" = some "[]" ∧
    reads "[a,,]" = none ∧ reads "[a b]" = none := by decide +kernel
example : reads "[a, // c\n b]" = some "[a, b]" ∧ reads "[a // c\n]" = some "[a]" ∧
    reads "[a // c\n, b]" = none ∧ reads "[// c]" = none ∧ reads "[// c\n]" = some "[]" := by
  decide +kernel
/-- a `[` directly behind an operand is an index, behind an operator a list -/
example : reads "a[b]" = some "a[b]" ∧ reads "a+[b]" = some "a + [b]" ∧
    reads "[a][b]" = some "[a][b]" ∧ reads "a [b]" = none := by decide +kernel
example : ¬ Frag (.list [.mk ["// c"] xa none]) ∧ ¬ Frag (.list [.mk [] xa (some "// c")]) ∧
    Frag (.list []) := by decide +kernel

/-! #### lambdas -/

/-- C05-RELEVANT COROLLARY: the text the printer / the closure emitter writes for a lambda whose
    body is in the fragment — `(args) => body`, the body in parentheses exactly when
    `lambdaBodyNeedsParens` (a `via` / `into` / `where` on its left spine at the chain level) —
    is read back to the same lambda; and that text is what `to_json` stores for it
    (`lambdaSource`). -/
theorem lambda_source_reparses (args : List LArg) (body : Expr)
    (ha : (args.all fun a => nameOk a.name) = true) (hb : Frag body) :
    parseText (exprToSource (.lambda args body)) = some (.lambda args body) ∧
    lambdaSource args (parenIf (lambdaBodyNeedsParens body) (exprToSource body)) =
      exprToSource (.lambda args body) := by
  refine ⟨text_roundtrip _ (by simp only [Frag, frag_lambda_iff, ha, Bool.true_and]; exact hb), ?_⟩
  simp only [lambdaSource, exprToSource, exprSrc, foldl_scopeRemove_nil]

/-- why the parentheses are needed: without them the body ends in front of the chain operator
    (`lambda_infix_usage` has no `via` / `into` / `where`), and the lambda becomes its LEFT
    operand -/
example : reads "(x) => a via f" = some "((x) => a) via f" ∧
    reads "(x) => (a via f)" = some "(x) => (a via f)" ∧
    reads "(x) => a and b" = some "(x) => a and b" ∧
    reads "(x) => a where b and c" = some "((x) => a) where b and c" := by decide +kernel

private abbrev xx : Expr := .ident "x"
/-- `(x, y?, ...r) => (x via f and y) + [(z) => z][0](x)` : a chain operator on the left spine at
    the chain level (parenthesised body), a lambda inside a list inside the body -/
private abbrev u7 : Expr :=
  .lambda [.req "x", .opt "y", .rest "r"]
    (.bin .nand (.bin .via xx xf) (.ident "y"))
example : Frag u7 := by decide +kernel
example : exprToSource u7 = "(x, y?, ...r) => (x via f and y)" := by decide +kernel
example : parseText (exprToSource u7) = some u7 :=
  (lambda_source_reparses _ _ (by decide +kernel) (by decide +kernel)).1
private abbrev u8 : Expr :=
  .call xf [.lambda [.req "x"] (.bin .add xx one), .list [it (.lambda [] (.lambda [.req "z"] (.ident "z")))]]
example : Frag u8 := by decide +kernel
example : exprToSource u8 = "f((x) => x + 1, [() => (z) => z])" := by decide +kernel
example : parseText (exprToSource u8) = some u8 := text_roundtrip u8 (by decide +kernel)

/-- re-layout of a lambda: the parentheses around a single (required or optional) parameter
    may go, blanks in front of `=>`, any layout behind it: `x  =>⏎  x + 1` -/
private abbrev u9 : Expr := .lambda [.req "x"] (.bin .add xx one)
private abbrev c9 : CST :=
  .lambda (.bare (.req "x")) [.sp, .sp] [.lf, .sp, .sp] (.bin .add (.atom xx) [.sp] [.sp] (.atom one))
example : String.ofList c9.text = "x  =>\n  x + 1" := by decide +kernel
example : Relayout u9 c9 := ⟨by rfl, rfl, rfl, trivial, trivial, by decide +kernel⟩
example : parseText (String.ofList c9.text) = some u9 :=
  (layout_insensitive u9 (by decide +kernel) c9
    ⟨by rfl, rfl, rfl, trivial, trivial, by decide +kernel⟩).2
/-- `argument_list` is non-atomic (`( a , b? , ...r )`, even `x ?` and `... r`), with the
    trailing-comma rule of `call_list`; no line break in front of `=>`; `lambda` comes before
    `identifier` and `nested_expression` among the alternatives of `term` -/
example : reads "( a , b? , ...r ) => a" = some "(a, b?, ...r) => a" ∧
    reads "x ? => 1" = some "(x?) => 1" ∧ reads "... r => 1" = some "(...r) => 1" ∧
    reads "(a,\n) => a" = some "(a) => a" ∧ reads "(a, ) => a" = none ∧
    reads "x\n=> x" = none ∧ reads "x =>\n x" = some "(x) => x" ∧ reads "true => 1" = none ∧
    reads "(a) + b" = some "a + b" ∧ reads "a ?? b" = some "a ?? b" ∧
    reads "f(...r => 1)" = some "f(...(r) => 1)" := by decide +kernel
example : ¬ Frag (.lambda [.req "if"] xx) ∧ ¬ Frag (.lambda [.req "a b"] xx) ∧
    Frag (.lambda [.req "sqrt"] xx) := by decide +kernel

/-! #### conditionals -/

/-- `if a and b then if c then 1 else (x) => x else a + if b then c else 42` : a conditional in
    the then-branch (its `else` is the nearest one), a lambda in an else-branch, a conditional
    as a right operand; no parentheses anywhere (every part is an `expression`) -/
private abbrev u10 : Expr :=
  .cond (.bin .nand xa xb) (.cond xc one (.lambda [.req "x"] xx))
    (.bin .add xa (.cond xb xc n42))
example : Frag u10 := by decide +kernel
example : exprToSource u10 =
    "if a and b then if c then 1 else (x) => x else a + if b then c else 42" := by decide +kernel
example : parseText (exprToSource u10) = some u10 := text_roundtrip u10 (by decide +kernel)
example : items u10 = [.prim u10] := by rfl
/-- a conditional as a LEFT operand or under a postfix operator is parenthesised by the printer
    (`ends_open`): its else-branch would swallow what follows -/
example : exprToSource (.bin .add (.cond xa xb xc) one) = "(if a then b else c) + 1" ∧
    reads "(if a then b else c) + 1" = some "(if a then b else c) + 1" ∧
    reads "if a then b else c + 1" = some "if a then b else c + 1" ∧
    exprToSource (.cond xa xb (.bin .add xc one)) = "if a then b else c + 1" := by decide +kernel

/-- the formatter's multi-line layouts are re-layouts: `if a then⏎  b⏎else⏎  c` and, when even
    `if a then` does not fit, `if a⏎then⏎  b⏎else if …` (else-if chains stay flat) -/
private abbrev u11 : Expr := .cond xa xb xc
private abbrev c11 : CST :=
  .cond [.sp] (.atom xa) [.sp] [.lf, .sp, .sp] (.atom xb) [.lf] [.lf, .sp, .sp] (.atom xc)
example : String.ofList c11.text = "if a then\n  b\nelse\n  c" := by decide +kernel
example : Relayout u11 c11 :=
  ⟨by rfl, ⟨by simp, rfl, by simp, by simp, by simp, by simp⟩, trivial, trivial, trivial⟩
example : parseText (String.ofList c11.text) = some u11 :=
  (layout_insensitive u11 (by decide +kernel) c11
    ⟨by rfl, ⟨by simp, rfl, by simp, by simp, by simp, by simp⟩, trivial, trivial, trivial⟩).2
/-- `conditional` is atomic with explicit layout: a blank (not a line break) behind `if`,
    layout on both sides of `then` / `else` (parentheses do not replace it) -/
example : reads "if  a\nthen\n b\n else\tc" = some "if a then b else c" ∧
    reads "if\na then b else c" = none ∧ reads "if(a) then b else c" = none ∧
    reads "if a then(b) else c" = none ∧ reads "if (a)then b else c" = none ∧
    reads "if a then b" = none ∧ reads "if a then b elsec" = none ∧ reads "iffy" = some "iffy" ∧
    reads "x => if a then b else c via f" = some "(x) => if a then b else c via f" := by
  decide +kernel

/-! #### string literals -/

/-- A STRING LITERAL round-trips EXACTLY when the string does not contain both kinds of quote:
    the grammar has no escapes (`string_value` is every character up to the opening quote
    character), so `"…"` denotes any string without `"`, `'…'` any string without `'`, and no
    literal denotes a string with both. -/
theorem string_literal_roundtrip_iff (s : String) :
    parseText (exprToSource (.str s)) = some (.str s) ↔ Frag (.str s) :=
  string_roundtrip_iff s

/-- … for a string with both, the printer writes the parenthesised concatenation
    `("a" + '"' + "b")` (C07 `string_with_both_quotes_is_concatenation`), which is a text of the
    fragment and is read back — to the left-nested `+` of the string literals of its pieces
    (`bothTree`; the contents of the pieces concatenate to the string), NOT to the string node:
    the text round trip holds up to evaluating that `+`, not as trees. -/
theorem both_quotes_string_reads_back_as_concatenation (s : String)
    (h1 : '"' ∈ s.toList) (h2 : '\'' ∈ s.toList) :
    ¬ Frag (.str s) ∧ parseText (exprToSource (.str s)) = some (bothTree s) ∧
      bothTree s ≠ .str s ∧ (PrintL.pieces s.toList).flatten = s.toList ∧
      ∃ p0 rest, PrintL.pieces s.toList = p0 :: rest ∧
        bothTree s = strSum (.str (String.ofList p0)) rest := by
  refine ⟨?_, both_quotes_parse s h1 h2, bothTree_ne_str s h1 h2, PrintL.pieces_flatten _, ?_⟩
  · simp [Frag, frag_str_iff, bothQuotes, h1, h2]
  · unfold bothTree
    cases hp : PrintL.pieces s.toList with
    | nil =>
      have := PrintL.pieces_flatten s.toList
      rw [hp] at this
      rw [← this] at h1
      cases h1
    | cons p0 rest => exact ⟨p0, rest, rfl, rfl⟩

/-- `"a b" + 'say "hi"'[0] == "it's //" via f` : the printer's choice of quote; a literal may
    contain the other quote, blanks, `//`; postfix forms apply to a literal -/
private abbrev u12 : Expr :=
  .bin .via (.bin .eq (.bin .add (.str "a b") (.access (.str "say \"hi\"") (.num ⟨0⟩))) (.str "it's //")) xf
example : Frag u12 := by decide +kernel
example : exprToSource u12 = "\"a b\" + 'say \"hi\"'[0] == \"it's //\" via f" := by decide +kernel
example : parseText (exprToSource u12) = some u12 := text_roundtrip u12 (by decide +kernel)
example : reads "\"a b\" + 'say \"hi\"'[0] == \"it's //\" via f" =
    some "\"a b\" + 'say \"hi\"'[0] == \"it's //\" via f" := by decide +kernel

/-- re-layout of a string literal: the OTHER quote character, when it does not occur in the
    string (`CST.LayoutOk` of `.str`); `'a b'+"x"` is a re-layout of `"a b" + "x"` -/
private abbrev u13 : Expr := .bin .add (.str "a b") (.str "x")
private abbrev c13 : CST := .bin .add (.str false "a b") [] [] (.str true "x")
example : String.ofList c13.text = "'a b'+\"x\"" := by decide +kernel
example : Relayout u13 c13 := ⟨by rfl, by rfl, by rfl, by decide +kernel⟩
example : parseText (String.ofList c13.text) = some u13 :=
  (layout_insensitive u13 (by decide +kernel) c13
    ⟨by rfl, by rfl, by rfl, by decide +kernel⟩).2
/-- the `string` rule on the model (and on the real parser, see the harness): no escapes, the
    literal ends at the first occurrence of its opening quote; any other character — a line
    break, `//`, the other quote — belongs to it; nothing may follow directly but a postfix or
    infix operator -/
example : reads "'a'" = some "\"a\"" ∧ reads "\"\"" = some "\"\"" ∧ reads "\"a" = none ∧
    reads "\"a\"b" = none ∧ reads "\"a\"\"b\"" = none ∧ reads "\"a\\\"" = some "\"a\\\"" ∧
    reads "\"a\nb // c\"" = some "\"a\nb // c\"" ∧ reads "\"a\"+'b'" = some "\"a\" + \"b\"" ∧
    reads "-\"a\"!" = some "-\"a\"!" ∧ reads "\"a\".b(\"c\")" = some "\"a\".b(\"c\")" ∧
    reads "[\"a\", ...\"b\"]" = some "[\"a\", ...\"b\"]" ∧
    reads "x => \"a\"" = some "(x) => \"a\"" ∧
    reads "if \"a\" then 'b' else \"c\"" = some "if \"a\" then \"b\" else \"c\"" := by
  decide +kernel
/-- a string with both kinds of quote: not in the fragment; printed as a concatenation, which is
    read back as the concatenation (by the theorem, and computed) -/
example : ¬ Frag (.str "a\"b'c") ∧ Frag (.str "a\"bc") ∧ Frag (.str "ab'c") := by decide +kernel
example : exprToSource (.str "a\"b'c") = "(\"a\" + '\"' + \"b'c\")" := by decide +kernel
example : parseText (exprToSource (.str "a\"b'c")) = some (bothTree "a\"b'c") :=
  (both_quotes_string_reads_back_as_concatenation _ (by decide +kernel) (by decide +kernel)).2.1
example : exprToSource (bothTree "a\"b'c") = "\"a\" + '\"' + \"b'c\"" ∧
    reads "(\"a\" + '\"' + \"b'c\")" = some "\"a\" + '\"' + \"b'c\"" := by decide +kernel

/-! #### record literals -/

private abbrev en (k : Key) (v : Expr) : Entry := .mk [] k v none
/-- `{a: 1, "k 2": x, [f(a)]: [b], c, ...g, "it's": {}, 'say "x"': (y) => {y}}` : a bare key, keys
    that need quotes (the printer's choice of quote), a computed key, a shorthand, a spread, the
    empty record, a record as a lambda body -/
private abbrev u14 : Expr :=
  .record [en (.static "a") one, en (.static "k 2") xx, en (.dyn (.call xf [xa])) (.list [it xb]),
    en (.short "c") .null, en (.spread (.spread (.ident "g"))) .null, en (.static "it's") (.record []),
    en (.static "say \"x\"") (.lambda [.req "y"] (.record [en (.short "y") .null]))]
example : Frag u14 := by decide +kernel
example : exprToSource u14 =
    "{a: 1, \"k 2\": x, [f(a)]: [b], c, ...g, \"it's\": {}, 'say \"x\"': (y) => {y}}" := by
  decide +kernel
example : parseText (exprToSource u14) = some u14 := text_roundtrip u14 (by decide +kernel)
example : items u14 = [.prim u14] := by rfl
example : reads "{a: 1, \"k 2\": x, [f(a)]: [b], c, ...g, \"it's\": {}, 'say \"x\"': (y) => {y}}" =
    some "{a: 1, \"k 2\": x, [f(a)]: [b], c, ...g, \"it's\": {}, 'say \"x\"': (y) => {y}}" := by
  decide +kernel

/-- the formatter's multi-line record layout `{⏎  a: 1,⏎  "b c": x,⏎}` is a re-layout; so is
    quoting a bare key, the other quote character, blanks in front of the colon and a line
    break behind it: `{ 'a' :⏎1 , "b c":x }` -/
private abbrev u15 : Expr := .record [en (.static "a") one, en (.static "b c") xx]
private abbrev c15 : CST :=
  .record [.lf, .sp, .sp]
    (.cons (.pairId "a" [] [.sp] (.atom one)) [] [.lf, .sp, .sp]
      (.last (.pairStr true "b c" [] [.sp] (.atom xx))))
    (.comma [] [.lf])
private abbrev c15' : CST :=
  .record [.sp]
    (.cons (.pairStr false "a" [.sp] [.lf] (.atom one)) [.sp] [.sp]
      (.last (.pairStr true "b c" [] [] (.atom xx))))
    (.plain [.sp])
example : String.ofList c15.text = "{\n  a: 1,\n  \"b c\": x,\n}" ∧
    String.ofList c15'.text = "{ 'a' :\n1 , \"b c\":x }" := by decide +kernel
example : Relayout u15 c15 ∧ Relayout u15 c15' :=
  ⟨⟨by rfl, ⟨⟨by decide +kernel, rfl, trivial⟩, rfl, ⟨by rfl, rfl, trivial⟩⟩, rfl⟩,
   ⟨by rfl, ⟨⟨by rfl, rfl, trivial⟩, rfl, ⟨by rfl, rfl, trivial⟩⟩, rfl⟩⟩
example : parseText (String.ofList c15.text) = some u15 ∧
    parseText (String.ofList c15'.text) = some u15 :=
  ⟨(layout_insensitive u15 (by decide +kernel) c15
      ⟨by rfl, ⟨⟨by decide +kernel, rfl, trivial⟩, rfl, ⟨by rfl, rfl, trivial⟩⟩, rfl⟩).2,
   (layout_insensitive u15 (by decide +kernel) c15'
      ⟨by rfl, ⟨⟨by rfl, rfl, trivial⟩, rfl, ⟨by rfl, rfl, trivial⟩⟩, rfl⟩).2⟩
/-- `record` is non-atomic like `list` (blanks and PLAIN line breaks between its tokens, blanks
    only in front of a comma, a trailing comma needs no line break); `record_pair` is non-atomic
    too: blanks (no line break) in front of the colon, any layout behind it; inside the brackets
    of a computed key blanks only; `...e` takes no blank; a pair is tried before a shorthand -/
example : reads "{ a : 1 , b }" = some "{a: 1, b}" ∧ reads "{a: 1,}" = some "{a: 1}" ∧
    reads "{a\n: 1}" = none ∧ reads "{a:\n1}" = some "{a: 1}" ∧ reads "{a: // c\n 1}" = some "{a: 1}" ∧
    reads "{a: 1\n, b}" = none ∧ reads "{,}" = some "{}" ∧ reads "{\n}" = some "{}" ∧
    reads "{[ a ]: 1}" = some "{[a]: 1}" ∧ reads "{[\na]: 1}" = none ∧ reads "{[a]}" = none ∧
    reads "{... a}" = none ∧ reads "{...a.b}" = some "{...a.b}" ∧ reads "{a b}" = none ∧
    reads "{a: b: c}" = none ∧ reads "{a.b}" = none := by decide +kernel
/-- keys: a reserved word is no bare key (the printer quotes it), a built-in name is an ordinary
    key, a quoted identifier is printed bare; a record directly behind an operand is no postfix
    form; postfix forms apply to a record -/
example : reads "{if: 1}" = none ∧ reads "{\"if\": 1}" = some "{\"if\": 1}" ∧
    reads "{sqrt: 1, max}" = some "{sqrt: 1, max}" ∧ reads "{'abc': 1}" = some "{abc: 1}" ∧
    reads "{\"\": 1}" = some "{\"\": 1}" ∧ reads "a{b}" = none ∧ reads "{a: 1}.a" = some "{a: 1}.a" ∧
    reads "{a: 1}[\"a\"]" = some "{a: 1}[\"a\"]" ∧ reads "x => {a: x}" = some "(x) => {a: x}" ∧
    reads "{a: x => x, b: 1}" = some "{a: (x) => x, b: 1}" := by decide +kernel
/-- outside the fragment: comments, a key with both kinds of quote (printed as a COMPUTED key
    over the concatenation, which reads back as a computed key), a shorthand that is no
    identifier, a shorthand or spread entry with a value -/
example : ¬ Frag (.record [.mk ["// c"] (.static "a") one none]) ∧
    ¬ Frag (.record [en (.static "a\"b'") one]) ∧ ¬ Frag (.record [en (.short "if") .null]) ∧
    ¬ Frag (.record [en (.short "a") one]) ∧ ¬ Frag (.record [en (.spread xa) .null]) ∧
    Frag (.record []) ∧ Frag (.record [en (.static "if") one]) := by decide +kernel
example : exprToSource (.record [en (.static "a\"b'") one]) = "{[(\"a\" + '\"' + \"b'\")]: 1}" ∧
    reads "{[(\"a\" + '\"' + \"b'\")]: 1}" = some "{[\"a\" + '\"' + \"b'\"]: 1}" := by decide +kernel

/-! #### do-blocks -/

/-- WHICH DO-BLOCKS ARE IN THE FRAGMENT: statements and the returned expression in the fragment,
    no comments, and no statement whose leftmost name is `via` / `into` / `where` (`stmtHeadOk`:
    a parenthesised operand or a prefix operator shields the name).  Such a statement IS printed
    safely — in parentheses, C07 `statement_start_protected` — but the formatter's layouts of it
    differ in their parentheses (`(via + b)` on one line, `via` ⏎ `+ b` on two), so it is left
    out of the text-level theorems rather than described by a width-dependent syntax tree. -/
theorem do_block_in_fragment_iff (ss : List Item) (lead : List String) (e : Expr)
    (tr : Option String) :
    Frag (.doBlock ss (.mk lead e tr)) ↔
      (∀ s ∈ ss, ∃ e', s = .mk [] e' none ∧ Frag e' ∧ stmtHeadOk e' = true) ∧
        lead = [] ∧ tr = none ∧ Frag e := by
  have hs : ∀ l : List Item, fragStmts l = true ↔
      ∀ s ∈ l, ∃ e', s = .mk [] e' none ∧ Frag e' ∧ stmtHeadOk e' = true := by
    intro l
    induction l with
    | nil => simp [fragStmts]
    | cons i rest ih =>
      obtain ⟨l1, e1, t1⟩ := i
      simp only [fragStmts, Bool.and_eq_true, ih, List.mem_cons, forall_eq_or_imp, entPlain,
        List.isEmpty_iff, Option.isNone_iff_eq_none, Item.mk.injEq, Frag, frag]
      constructor
      · rintro ⟨⟨⟨rfl, rfl⟩, h1, h2⟩, h3⟩
        exact ⟨⟨e1, ⟨rfl, rfl, rfl⟩, h1, h2⟩, h3⟩
      · rintro ⟨⟨e', ⟨rfl, rfl, rfl⟩, h1, h2⟩, h3⟩
        exact ⟨⟨⟨rfl, rfl⟩, h1, h2⟩, h3⟩
  unfold Frag
  rw [frag_doBlock_iff]
  simp only [Bool.and_eq_true, hs, entPlain, List.isEmpty_iff, Option.isNone_iff_eq_none, Frag]
  constructor
  · rintro ⟨h1, ⟨h2, h3⟩, h4⟩
    exact ⟨h1, h2, h3, h4⟩
  · rintro ⟨h1, h2, h3, h4⟩
    exact ⟨h1, ⟨h2, h3⟩, h4⟩

private abbrev st (e : Expr) : Item := .mk [] e none
/-- `(x) => do {⏎  f(x)⏎  (-x)⏎  return x + 1⏎}` : the printer writes every statement on its own
    line and parenthesises one that starts with `-` (it would continue the line before it) -/
private abbrev u16 : Expr :=
  .lambda [.req "x"] (.doBlock [st (.call xf [xx]), st (.un .negate xx)] (st (.bin .add xx one)))
example : Frag u16 := by decide +kernel
example : exprToSource u16 = "(x) => do {\n  f(x)\n  (-x)\n  return x + 1\n}" := by decide +kernel
example : parseText (exprToSource u16) = some u16 := text_roundtrip u16 (by decide +kernel)
example : items u16 = [.prim u16] := by rfl
example : reads "(x) => do {\n  f(x)\n  (-x)\n  return x + 1\n}" =
    some "(x) => do {\n  f(x)\n  (-x)\n  return x + 1\n}" := by decide +kernel

/-- a re-layout: a line break between `do` and `{`, nothing behind `{`, `;` (blanks in front of
    it, anything behind it) or any layout with a line break between statements, a tab behind
    `return`, a blank in front of `}`: `x=>do⏎{f(x) ;⇥(-x)⏎⏎ return⇥x+1 }` -/
private abbrev c16 : CST :=
  .lambda (.bare (.req "x")) [] []
    (.doB [.lf] []
      (.cons (.call (.atom xf) [] (.last false (.atom xx)) (.plain [])) (.semi [.sp] [.tab])
        (.cons (.paren [] (.un .negate (.atom xx)) []) (.line [.lf, .lf, .sp]) .nil))
      [.tab] (.bin .add (.atom xx) [] [] (.atom one)) [.sp])
example : String.ofList c16.text = "x=>do\n{f(x) ;\t(-x)\n\n return\tx+1 }" := by decide +kernel
example : Relayout u16 c16 := by
  refine ⟨by rfl, ?_⟩
  simp only [CST.LayoutOk, CST.StmtsLayoutOk, CST.ArgsLayoutOk]
  decide
example : parseText (String.ofList c16.text) = some u16 :=
  (layout_insensitive u16 (by decide +kernel) c16 (by
    refine ⟨by rfl, ?_⟩
    simp only [CST.LayoutOk, CST.StmtsLayoutOk, CST.ArgsLayoutOk]
    decide)).2
/-- A LINE BREAK IS NOT `;`: behind `;` a statement starts afresh, behind a line break the
    grammar first tries to continue the expression before it — with a binary `-`, or with a
    variable named like a word operator (`a` ⏎ `where into x` is `a where into` and a stray `x`:
    no parse).  This is what `protect_statement_start` guards against (C07). -/
example : reads "do {a; where into x\n return 1}" = some "do {\n  a\n  (where into x)\n  return 1\n}" ∧
    reads "do {a\n where into x\n return 1}" = none ∧
    reads "do {a; -x\n return 1}" = some "do {\n  a\n  (-x)\n  return 1\n}" ∧
    reads "do {a\n -x\n return 1}" = some "do {\n  a - x\n  return 1\n}" := by decide +kernel
/-- `do_block` is compound-atomic with its layout written out: at least one blank or line break
    between `do` and `{`; blanks (no line break) between `return` and its expression; a
    separator — `;` or line breaks — behind EVERY statement, exactly one `;`, blanks only in
    front of it; nothing but layout behind the returned expression; `returns` is a name; postfix
    and infix operators apply to a block; comments are read and dropped by the conversion -/
example : reads "do{return 1}" = none ∧ reads "do {return 1}" = some "do {\n  return 1\n}" ∧
    reads "do\n\n{\n\nreturn 1\n\n}" = some "do {\n  return 1\n}" ∧ reads "do { return\n1 }" = none ∧
    reads "do { a return 1 }" = none ∧ reads "do { a;return 1 }" = some "do {\n  a\n  return 1\n}" ∧
    reads "do { a;; return 1 }" = none ∧ reads "do { a\n; return 1 }" = none ∧
    reads "do { a; }" = none ∧ reads "do { return 1; }" = none ∧
    reads "do { returns; return 1 }" = some "do {\n  returns\n  return 1\n}" ∧
    reads "do { return 1 } + 1" = some "do {\n  return 1\n} + 1" ∧
    reads "do { a // c\n // d\n b\n // e\n return 1 }" = some "do {\n  a\n  b\n  return 1\n}" := by
  decide +kernel
/-- outside the fragment: comments, a statement whose leftmost name is a word operator (shielded
    by parentheses or a prefix operator it is inside) -/
example : ¬ Frag (.doBlock [.mk ["// c"] xa none] (st one)) ∧
    ¬ Frag (.doBlock [st xa] (.mk [] one (some "// c"))) ∧
    ¬ Frag (.doBlock [st (.bin .into (.ident "where") xx)] (st one)) ∧
    ¬ Frag (.doBlock [st (.call (.ident "via") [xx])] (st one)) ∧
    Frag (.doBlock [st (.un .not (.ident "via"))] (st (.ident "via"))) ∧
    Frag (.doBlock [st (.bin .mul (.bin .add (.ident "via") xa) xb)] (st one)) ∧
    Frag (.doBlock [] (st one)) := by decide +kernel

/-! #### assignments -/

/-- WHICH ASSIGNMENTS ARE IN THE FRAGMENT: an identifier that is not a reserved word on the left
    (`nameOk`: what the `identifier` rule accepts), a fragment tree on the right. -/
theorem assignment_in_fragment_iff (n : String) (v : Expr) :
    Frag (.assign n v) ↔ nameOk n = true ∧ Frag v := by
  simp [Frag, frag_assign_iff]

/-- `f = (x) => do {⏎  y = x + 1⏎  return y == c + z = b⏎}` : assignments as a statement, as the
    value of an assignment, and as a right operand, where the printer writes no parentheses
    (`c + z = b` is `c + (z = b)`: the value of an assignment extends as far right as possible) -/
private abbrev u17 : Expr :=
  .assign "f" (.lambda [.req "x"] (.doBlock [st (.assign "y" (.bin .add xx one))]
    (st (.bin .eq (.ident "y") (.bin .add xc (.assign "z" xb))))))
example : Frag u17 := by decide +kernel
example : exprToSource u17 = "f = (x) => do {\n  y = x + 1\n  return y == c + z = b\n}" := by
  decide +kernel
example : parseText (exprToSource u17) = some u17 := text_roundtrip u17 (by decide +kernel)
example : items u17 = [.prim u17] := by rfl
example : reads "f = (x) => do {\n  y = x + 1\n  return y == c + z = b\n}" =
    some "f = (x) => do {\n  y = x + 1\n  return y == c + z = b\n}" := by decide +kernel
/-- a re-layout: blanks (or nothing) around `=` : `a⇥=b+⏎1` -/
private abbrev u18 : Expr := .assign "a" (.bin .add xb one)
private abbrev c18 : CST := .asg "a" [.tab] [] (.bin .add (.atom xb) [] [.lf] (.atom one))
example : String.ofList c18.text = "a\t=b+\n1" := by decide +kernel
example : Relayout u18 c18 := by
  refine ⟨by rfl, ?_⟩
  simp only [CST.LayoutOk]
  decide
example : parseText (String.ofList c18.text) = some u18 :=
  (layout_insensitive u18 (by decide +kernel) c18 (by
    refine ⟨by rfl, ?_⟩
    simp only [CST.LayoutOk]
    decide)).2
/-- `assignment` is non-atomic: blanks, but no line break, around `=`; the value is an
    `expression` (right-nested, it takes everything to its right); `==` is no assignment (the
    rule takes `a =`, finds no expression at the second `=`, and gives way to `identifier`); the
    target is an identifier — a reserved word, a field, a postfix form is none, a built-in name
    is; as a LEFT operand or under a postfix operator an assignment needs parentheses (the
    printer writes them), as a right operand, an argument, a record value, a condition, a lambda
    body it does not -/
example : reads "a = 1" = some "a = 1" ∧ reads "a=1" = some "a = 1" ∧ reads "a =\n1" = none ∧
    reads "a\n= 1" = none ∧ reads "a == 1" = some "a == 1" ∧ reads "a = = 1" = none ∧
    reads "a = b = 1" = some "a = b = 1" ∧ reads "a = b == 1" = some "a = b == 1" ∧
    reads "a == b = 1" = some "a == b = 1" ∧ reads "1 + a = 2" = some "1 + a = 2" ∧
    reads "(a = 2) + 1" = some "(a = 2) + 1" ∧ reads "-a = 1" = some "-a = 1" ∧
    reads "a! = 1" = none ∧ reads "a != 1" = some "a != 1" ∧
    reads "f(a = 1, b = 2)" = some "f(a = 1, b = 2)" ∧
    reads "x => a = x via f" = some "(x) => a = x via f" ∧ reads "a = x => x" = some "a = (x) => x" ∧
    reads "if a = 1 then b else c" = some "if a = 1 then b else c" ∧ reads "true = 1" = none ∧
    reads "sqrt = 1" = some "sqrt = 1" ∧ reads "a.b = 1" = none ∧ reads "{a = 1}" = none ∧
    reads "{a: b = 1}" = some "{a: b = 1}" ∧ reads "a += 1" = none := by decide +kernel
example : exprToSource (.bin .add (.assign "a" (.num ⟨0x4000000000000000⟩)) one) = "(a = 2) + 1" ∧
    exprToSource (.fact (.assign "a" one)) = "(a = 1)!" ∧
    exprToSource (.bin .add one (.assign "a" (.num ⟨0x4000000000000000⟩))) = "1 + a = 2" := by
  decide +kernel
/-- outside the fragment: a target that is no identifier for the grammar -/
example : ¬ Frag (.assign "if" one) ∧ ¬ Frag (.assign "a b" one) ∧ ¬ Frag (.assign "" one) ∧
    Frag (.assign "sqrt" one) ∧ Frag (.assign "iffy" one) := by decide +kernel
end text

end Blots.C10
