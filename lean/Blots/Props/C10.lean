import Blots.Lemmas.PrattRoundTrip
import Blots.Lemmas.IdentLemmas
/-
  C10 — the precedence table, and the round trip between the printer's parenthesisation
  rule and the Pratt parser.

  Statements only (helper lemmas and definitions live in `Blots/Lemmas/PrattRoundTrip.lean`).
  * `prattOps` / `opLookup` / `prattParse` model `build_pratt_parser` + pest's `PrattParser`
    configured from the GENERATED `Gen.precTable` / `Gen.prattTail` / `Gen.infixMap`;
  * `opInfo` is the printer's private view of the levels (`operator_info`), `needsParens`
    its parenthesisation rule;
  * `items e` is the flat pair sequence of the minimally parenthesised print of `e`
    (a parenthesised child is one primary), `itemsFull e` the one where every compound
    operand is parenthesised;
  * `NoInvert e`: no `.un .invert` node (the parser has no rule that produces it).
  Every fact about the tables is re-established by evaluation whenever they are regenerated.

  Names (second part of the file): `Blots.Ident` (Model/Ident.lean) is a character-level PEG
  model of the grammar rules `identifier`, `identifier_rest`, `reserved_word`, `bool`, `null`,
  `input_reference` and of the ordered choice `term` on a one-word input; the reserved words
  are the GENERATED `Gen.grammarReserved` in grammar order, the rule texts are pinned by the
  translator.  `IdentShape w`: nonempty, first character an ASCII letter or `_`, all
  characters ASCII letters, digits or `_`.  `Boundary rest`: `rest` is empty or starts with
  a character that is not one of those.
-/
namespace Blots.C10
open Blots.PrattRT

/-- The operator map of the parser has exactly the documented levels, loosest to tightest
    (rules shown by their spelling, levels by their rank among the distinct binding powers;
    no rule is registered twice), and every binary operator is left-associative except `^`. -/
theorem table_is_documented :
    documentedLevels = [
      (.infixL, ["and", "or", "&&", "||", "via", "into", "where"]),
      (.infixL, ["==", "!=", "<", "<=", ">", ">=", ".==", ".!=", ".<", ".<=", ".>", ".>="]),
      (.infixL, ["+", "-"]),
      (.infixL, ["*", "/", "%"]),
      (.infixR, ["^"]),
      (.infixL, ["??"]),
      (.prefix_, ["-", "!", "not", "..."]),
      (.postfix_, ["!"]),
      (.postfix_, ["call_list", "access", "dot_access"])] ∧
    (prattOps.map (·.1)).Nodup ∧
    (∀ x, x ∈ rankedOps ↔ x ∈ documentedOps) ∧
    (∀ op : BinOp, (opLookup (ruleOf op)).map (·.1) =
      some (if op = .pow then Affix.infixR else Affix.infixL)) := by
  have h : tableDocumented = true := by decide +kernel
  simp only [tableDocumented, Bool.and_eq_true, decide_eq_true_eq, List.all_eq_true,
    List.contains_iff_mem] at h
  refine ⟨rfl, h.1.1, fun x => ⟨h.1.2 x, h.2 x⟩, fun op => ?_⟩
  have hall : (BinOp.all.all fun op => (opLookup (ruleOf op)).map (·.1) ==
      some (if op = .pow then Affix.infixR else Affix.infixL)) = true := by decide +kernel
  simpa using List.all_eq_true.mp hall op (BinOp.mem_all op)

/-- The printer's copy of the levels (`operator_info`) agrees with the parser's operator map
    for all 26 operators / 676 ordered pairs: same order, same ties, associativity as the
    parser has it, and the rule maps back to the operator. -/
theorem operator_info_agrees_with_parser (a b : BinOp) :
    ((opInfo a).1 < (opInfo b).1 ↔ bp a < bp b) ∧
    ((opInfo a).1 = (opInfo b).1 ↔ bp a = bp b) ∧
    ((opInfo a).1 = (opInfo b).1 → (opInfo a).2 = (opInfo b).2) ∧
    opLookup (ruleOf a) = some (if (opInfo a).2 then Affix.infixR else Affix.infixL, bp a) ∧
    (∀ l r, mapInfix (ruleOf a) l r = some (.bin a l r)) ∧
    0 < bp a ∧ bp a + 1 < P :=
  ⟨pp_lt_iff a b, pp_eq_iff a b, ra_eq_of_pp_eq a b, opLookup_ruleOf a, mapInfix_ruleOf a,
    bp_pos a, bp_lt_P a⟩

/-- prefix operators sit on one level above every binary operator, postfix `!` above that,
    call / index / field access above that -/
theorem prefix_postfix_levels :
    opLookup "negation" = some (.prefix_, P) ∧ opLookup "invert" = some (.prefix_, P) ∧
    opLookup "natural_not" = some (.prefix_, P) ∧ opLookup "spread_operator" = some (.prefix_, P) ∧
    opLookup "factorial" = some (.postfix_, lvl "factorial") ∧
    opLookup "access" = some (.postfix_, lvl "access") ∧
    opLookup "dot_access" = some (.postfix_, lvl "access") ∧
    opLookup "call_list" = some (.postfix_, lvl "access") ∧
    P < lvl "factorial" ∧ lvl "factorial" < lvl "access" := by decide +kernel

/-- The fuel-free relational semantics is adequate for the fuelled parser. -/
theorem relational_semantics_adequate :
    (∀ rbp its e rest, PExpr rbp its e rest → rest.length ≤ its.length ∧
      ∀ fuel, fuel ≥ 2 * (its.length - rest.length) → prattExpr fuel rbp its = some (e, rest)) ∧
    (∀ rbp lhs its e rest, PLoop rbp lhs its e rest → rest.length ≤ its.length ∧
      ∀ fuel, fuel ≥ 2 * (its.length - rest.length) + 1 →
        prattLoop fuel rbp lhs its = some (e, rest)) ∧
    (∀ its e, PExpr 0 its e [] → prattParse its = some e) :=
  ⟨fun _ _ _ _ h => ⟨Nat.le_of_lt h.rest_le, h.run⟩, fun _ _ _ _ _ h => ⟨h.rest_le, h.run⟩,
    fun _ _ h => h.parse⟩

/-- MAIN LEMMA (unbounded depth): in any context `rbp` below the prefix level and before any
    `rest` that `Fits` (a binary `e` binds tighter than `rbp` and its right operand does not
    capture the next pair; a prefix `e` is not followed by a postfix operator), parsing
    `items e ++ rest` reaches the loop with `lhs = e` and `rest` still to read. -/
theorem items_reach_loop (e : Expr) (h : NoInvert e) (rbp : Nat) (rest : List PItem)
    (hr : rbp ≤ P - 1) (hfit : Fits e rbp rest) (e' : Expr) (rest' : List PItem)
    (hk : PLoop rbp e rest e' rest') : PExpr rbp (items e ++ rest) e' rest' :=
  items_parse e h rbp rest hr hfit e' rest' hk

/-- The minimally parenthesised print of every tree parses back to the tree. -/
theorem pratt_roundtrip (e : Expr) (h : NoInvert e) : prattParse (items e) = some e :=
  (items_PExpr e h).parse

/-- … and so does the fully parenthesised print: an expression and its fully parenthesised
    form parse identically. -/
theorem minimal_and_full_parenthesisation_agree (e : Expr) (h : NoInvert e) :
    prattParse (itemsFull e) = some e ∧ prattParse (items e) = prattParse (itemsFull e) := by
  have h1 := (itemsFull_PExpr e h.top).parse
  exact ⟨h1, (pratt_roundtrip e h).trans h1.symm⟩

/-! #### examples -/

section examples
private abbrev a : Expr := .ident "a"
private abbrev b : Expr := .ident "b"
private abbrev c : Expr := .ident "c"
private abbrev d : Expr := .ident "d"
private abbrev f : Expr := .ident "f"
private abbrev g : Expr := .ident "g"

/-- `(a - (b - c)) * -d! ^ f ?? g`-like tree:
    `((a - (b - c)) * ((-(d!)) ^ (f ?? g)))` -/
private abbrev t1 : Expr :=
  .bin .mul (.bin .sub a (.bin .sub b c))
    (.bin .pow (.un .negate (.fact d)) (.bin .coalesce f g))

/-- its items: both `-` groups need parentheses (one primary each), `-d!` and `f ?? g` do not -/
example : items t1 =
    [.prim (.bin .sub a (.bin .sub b c)), .inf "multiply", .pre "negation", .prim d, .postFact,
     .inf "power", .prim f, .inf "coalesce", .prim g] := by rfl

example : NoInvert t1 := by decide
example : prattParse (items t1) = some t1 := pratt_roundtrip t1 (by decide)
example : prattParse (items t1) = some t1 := by rfl

/-- inside the parenthesised left operand: `a - (b - c)` keeps its parentheses … -/
example : items (.bin .sub a (.bin .sub b c)) =
    [.prim a, .inf "subtract", .prim (.bin .sub b c)] := by rfl

/-- … and DROPPING them changes the parse: `a - b - c` is `(a - b) - c`.  The rule is not vacuous. -/
example : prattParse [.prim a, .inf "subtract", .prim b, .inf "subtract", .prim c] =
    some (.bin .sub (.bin .sub a b) c) := by rfl
example : Expr.bin .sub (.bin .sub a b) c ≠ .bin .sub a (.bin .sub b c) := by simp

/-- `^` is right-associative: `a ^ b ^ c` needs no parentheses on the right, needs them on the left -/
example : items (.bin .pow a (.bin .pow b c)) =
    [.prim a, .inf "power", .prim b, .inf "power", .prim c] := by rfl
example : items (.bin .pow (.bin .pow a b) c) =
    [.prim (.bin .pow a b), .inf "power", .prim c] := by rfl

/-- `-a!` is `-(a!)`; `(-a)!` keeps its parentheses; `-a ^ b` is `(-a) ^ b` -/
example : prattParse [.pre "negation", .prim a, .postFact] = some (.un .negate (.fact a)) := by rfl
example : items (.fact (.un .negate a)) = [.prim (.un .negate a), .postFact] := by rfl
example : prattParse [.pre "negation", .prim a, .inf "power", .prim b] =
    some (.bin .pow (.un .negate a) b) := by rfl

/-- hypotheses of the main lemma are satisfiable in a non-trivial context:
    `a * b` as the right operand of `+`, followed by `- c` -/
example : Fits (.bin .mul a b) (bp .add) [.inf "subtract", .prim c] :=
  ⟨by decide +kernel, bp .sub, by decide +kernel, by decide +kernel⟩

/-- `.un .invert` really has to be excluded: the printer's `~` has no prefix rule -/
example : prattParse (items (.un .invert a)) = none := by rfl
end examples

/-! ### names: the identifier rule at character level -/

section names
open Blots.Ident

/-- Every identifier-shaped word that is not a reserved word is consumed WHOLE by the
    `identifier` rule, and the one-word program `w` is an identifier term (the `bool`,
    `null`, `input_reference` alternatives tried before `identifier` in `term` all fail).
    All words, no bound on the length. -/
theorem ident_usable (w : List Char) (hw : IdentShape w)
    (hr : String.ofList w ∉ Gen.grammarReserved) :
    identifier w = some [] ∧ termWord w = .ident := by
  have hnot : w ∉ reservedLits := fun h => hr (mem_reservedLits.mp h)
  have h1 := identifier_run (rest := []) hw hnot rfl
  have h2 := termStart_run (rest := []) hw hnot rfl
  simp only [List.append_nil] at h1 h2
  exact ⟨h1, by simp [termWord, h2]⟩

/-- Every word of the grammar's `reserved_word` list is refused by `identifier` (in
    particular: no EARLIER alternative of the ordered choice is a proper prefix of a later
    one, which would let the later word through), and as a one-word program it is the
    literal `true` / `false` / `null` or does not parse. -/
theorem reserved_refused : ∀ s ∈ Gen.grammarReserved,
    identifier s.toList = none ∧
    termWord s.toList =
      (if s = "true" then .bool true else if s = "false" then .bool false
       else if s = "null" then .null else .reserved) := by
  decide +kernel

/-- For identifier-shaped words the classification is exact: an identifier term iff not
    reserved. -/
theorem ident_iff_not_reserved (w : List Char) (hw : IdentShape w) :
    termWord w = .ident ↔ String.ofList w ∉ Gen.grammarReserved := by
  constructor
  · intro h hmem
    have := (reserved_refused _ hmem).2
    rw [String.toList_ofList, h] at this
    split at this
    · cases this
    · split at this
      · cases this
      · split at this <;> cases this
  · exact fun h => (ident_usable w hw h).2

/-- A reserved word followed by more identifier characters (`trueish`, `nullable`, `iffy`,
    `do_it`, `outputs`, `notx`, `or_else`, `and1`) is a usable name, as long as the longer
    word is not itself in the list. -/
theorem prefix_of_reserved_is_usable (r : String) (t : List Char)
    (hr : r ∈ Gen.grammarReserved) (ht : ∀ x ∈ t, isIdentChar x = true)
    (hnot : String.ofList (r.toList ++ t) ∉ Gen.grammarReserved) :
    identifier (r.toList ++ t) = some [] ∧ termWord (r.toList ++ t) = .ident :=
  ident_usable _ (IdentShape.append (reserved_identShape r hr) ht) hnot

/-- … and so is a reserved word preceded by identifier characters (`_if`, `xor`, `a_do`). -/
theorem suffix_of_reserved_is_usable (r : String) (p : List Char)
    (hr : r ∈ Gen.grammarReserved) (hp : IdentShape p)
    (hnot : String.ofList (p ++ r.toList) ∉ Gen.grammarReserved) :
    identifier (p ++ r.toList) = some [] ∧ termWord (p ++ r.toList) = .ident :=
  ident_usable _ (IdentShape.append hp (reserved_identShape r hr).all) hnot

/-- Maximal munch: in front of anything that does not start with an identifier character
    (end of input, space, operator, bracket, …) `identifier` consumes exactly the word, and
    the `term` choice takes the identifier alternative. -/
theorem identifier_is_maximal_munch (w rest : List Char) (hw : IdentShape w)
    (hr : String.ofList w ∉ Gen.grammarReserved) (hb : Boundary rest) :
    identifier (w ++ rest) = some rest ∧ termStart (w ++ rest) = some (.ident, rest) := by
  have hnot : w ∉ reservedLits := fun h => hr (mem_reservedLits.mp h)
  exact ⟨identifier_run hw hnot hb, termStart_run hw hnot hb⟩

/-- `#name`: `input_reference` has NO reserved-word look-ahead — every identifier-shaped word,
    reserved or not, is consumed whole after `#`, and `#w` is an input-reference term. -/
theorem input_reference_is_maximal_munch (w rest : List Char) (hw : IdentShape w)
    (hb : Boundary rest) :
    inputReference ('#' :: (w ++ rest)) = some rest ∧
    termStart ('#' :: (w ++ rest)) = some (.input, rest) ∧ termWord ('#' :: w) = .input := by
  refine ⟨inputReference_run hw hb, termStart_input_run hw hb, ?_⟩
  have h := termStart_input_run (rest := []) hw rfl
  simp only [List.append_nil] at h
  simp [termWord, h]

/-! #### examples (non-vacuity) -/

example : IdentShape "trueish".toList ∧ String.ofList "trueish".toList ∉ Gen.grammarReserved := by
  decide +kernel
example : termWord "trueish".toList = .ident := (ident_usable _ (by decide) (by decide +kernel)).2
example : termWord "nullable".toList = .ident := (ident_usable _ (by decide) (by decide +kernel)).2
example : termWord "iffy".toList = .ident := (ident_usable _ (by decide) (by decide +kernel)).2
example : termWord "do_it".toList = .ident := (ident_usable _ (by decide) (by decide +kernel)).2
example : termWord "outputs".toList = .ident := (ident_usable _ (by decide) (by decide +kernel)).2
example : termWord "notx".toList = .ident := (ident_usable _ (by decide) (by decide +kernel)).2
example : termWord "or_else".toList = .ident := (ident_usable _ (by decide) (by decide +kernel)).2
example : termWord "and1".toList = .ident := (ident_usable _ (by decide) (by decide +kernel)).2
example : termWord "_if".toList = .ident := (ident_usable _ (by decide) (by decide +kernel)).2
/-- case matters -/
example : termWord "If".toList = .ident := (ident_usable _ (by decide) (by decide +kernel)).2
example : termWord "_".toList = .ident := (ident_usable _ (by decide) (by decide +kernel)).2
/-- through the corollaries: `"true" ++ "ish"`, `"_" ++ "if"` -/
example : termWord ("true".toList ++ "ish".toList) = .ident :=
  (prefix_of_reserved_is_usable "true" "ish".toList (by decide +kernel) (by decide) (by decide +kernel)).2
example : termWord ("_".toList ++ "if".toList) = .ident :=
  (suffix_of_reserved_is_usable "if" "_".toList (by decide +kernel) (by decide) (by decide +kernel)).2
/-- the model agrees by plain evaluation, and really distinguishes the classes -/
example : termWord "trueish".toList = .ident ∧ termWord "true".toList = .bool true ∧
    termWord "false".toList = .bool false ∧ termWord "null".toList = .null ∧
    termWord "if".toList = .reserved ∧ termWord "output".toList = .reserved ∧
    identifier "output".toList = none ∧ identifier "outputs".toList = some [] := by decide +kernel
/-- not identifier-shaped: digit first, non-ASCII letter, empty -/
example : ¬ IdentShape "1a".toList ∧ ¬ IdentShape "é".toList ∧ ¬ IdentShape [] ∧
    termWord "1a".toList = .reserved ∧ termWord "aé".toList = .reserved ∧
    termWord [] = .reserved := by decide +kernel
/-- maximal munch in context: `iffy+1`, `notx (`, and the keyword case it must not swallow:
    `if x` is not an identifier followed by ` x` -/
example : identifier "iffy+1".toList = some "+1".toList ∧
    identifier "notx (".toList = some " (".toList ∧ identifier "if x".toList = none ∧
    identifier "ifx y".toList = some " y".toList := by decide +kernel
example : Boundary "+1".toList ∧ Boundary [] ∧ ¬ Boundary "x".toList := by decide
/-- `#if`, `#true` are input references -/
example : termWord "#if".toList = .input ∧ termWord "#true".toList = .input ∧
    termWord "#1".toList = .reserved ∧ termWord "#".toList = .reserved := by decide +kernel
/-- The PEG hazard `reserved_refused` guards against: an ordered choice listing a word AFTER
    one of its proper prefixes never reaches it, so the longer word would pass as a name. -/
example : keyword ["do".toList, "done".toList] "done".toList = none ∧
    keyword ["done".toList, "do".toList] "done".toList = some ("done".toList, []) := by
  decide +kernel
end names

end Blots.C10
