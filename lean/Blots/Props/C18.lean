import Blots.Lemmas.DepthLaws
import Blots.Lemmas.ToyOps
/-
  C18 — Runaway recursion ends in a call-depth error.

  What is and is not a theorem here.

  * The model is total: `eval` and the fourteen functions it is mutually recursive with recurse
    structurally on `fuel`, so EVERY model evaluation ends with exactly one of
    `ok / err / panic / fuel` by construction.  Non-termination of the OBJECT program can
    therefore only show up as `err depth` ("maximum call depth of 1000 exceeded") or, when the
    model's own fuel runs out first, as the artefact `fuel`.
  * The object-level recursion depth is cut by the guard of `callFn` (`FunctionDef::call`):
    a call made at a depth `> MAX_DEPTH = 1000` is refused.  Calls at depths 0 … 1000 run
    (1001 nested activations, bodies at depths 1 … 1001); the next nested call, at depth 1001,
    errs.
  * NOT a theorem here: the native-stack half of C18 (bytes per Rust frame versus the 1000
    limit, i.e. that the real interpreter reaches the limit before it overflows its stack).
    That is tested by the harness on the real binary.

  Sections.
  1. `depth_guard_*`: above the limit an accepted call returns `err depth`, body not evaluated,
     state unchanged; with a wrong argument count the arity error wins.
  2. `body_runs_one_deeper`, `builtin_hof_runs_one_deeper`, `hof_*`, `*_calls_at_depth`,
     `*_same_depth`: where the counter is incremented (lambda body +1; built-in +1, its
     callbacks +1 again; `via` / `where` / `into` call back at the operator's own depth).
  3. `depth_bounded_*`: how the depth is bounded.  (i) `depth_bounded_callFn`: above the limit
     `callFn` evaluates nothing, for every callee; a call that returns a value or panics was
     made at depth ≤ MAX_DEPTH.  (ii) the callback loops above the limit stop at their first
     element with `err depth`.  (iii) `depth_bounded_saturates`: for all depths d, d' above the
     limit every function of the evaluator returns the same result at d and at d' (induction
     on fuel over the whole mutual block), hence the evaluator is the same function as one
     whose counter is clamped to 0 … MAX_DEPTH + 1 (`depth_bounded_clamped`).
     Together: the counter only grows through `callFn` (section 2); a body is only evaluated
     by a call at depth ≤ MAX_DEPTH, i.e. at depth ≤ MAX_DEPTH + 1; a callback of a higher-order
     built-in is called at depth ≤ MAX_DEPTH + 2, and the calls at MAX_DEPTH + 1 and
     MAX_DEPTH + 2 are refused (`depth_bounded_map_near_limit`).
  4. `runaway_*`: `f = n => f(n + 1); f(0)` and the pair `g = n => h(n); h = n => g(n); g(0)`,
     for EVERY `ops`, every fuel: the outcome is `fuel` or `err depth` — never a value, another
     error or a panic — and the state is the one before the call; from an explicit fuel
     threshold on it is exactly `err depth` (for the self-recursion the threshold is exact:
     below it the outcome is `fuel`).

  Helper lemmas and the definitions used in statements (`callFrame`, `callParent`, `wrapList`,
  `cbArgs`, `AboveLimitOutcome`, `DepthIrrelevant`, `selfDef`, `selfCall`, `selfLam`,
  `pairGDef`, `pairHDef`, `pairCall`, `pairG`, `pairH`) live in `Blots/Lemmas/DepthLaws.lean`.
-/
namespace Blots.C18
open Blots.DepthL

/-! ### 1. the guard -/

theorem depth_guard_lambda (ops : NumOps) (fuel id : Nat) (ps : List LArg) (body : Expr)
    (sc : Frame) (this : Value) (args : List Value) (depth : Nat) (s : ES)
    (ha : (lambdaArity ps).canAccept args.length = true) (hd : depth > MAX_DEPTH) :
    callFn ops (fuel + 1) (.lambda id ps body sc) this args depth s = (.err .depth, s) :=
  callFn_lambda_depth_guard ops fuel id ps body sc this args depth s ha hd

theorem depth_guard_builtin (ops : NumOps) (fuel : Nat) (name : String) (ar : Gen.Arity)
    (this : Value) (args : List Value) (depth : Nat) (s : ES)
    (hb : builtinArity name = some ar) (ha : ar.canAccept args.length = true)
    (hd : depth > MAX_DEPTH) :
    callFn ops (fuel + 1) (.builtin name) this args depth s = (.err .depth, s) :=
  callFn_builtin_depth_guard ops fuel name ar this args depth s hb ha hd

/-- both cases at once, through `arityOf` -/
theorem depth_guard (ops : NumOps) (fuel : Nat) (fv this : Value) (args : List Value)
    (ar : Gen.Arity) (depth : Nat) (s : ES) (hf : arityOf fv = some ar)
    (ha : ar.canAccept args.length = true) (hd : depth > MAX_DEPTH) :
    callFn ops (fuel + 1) fv this args depth s = (.err .depth, s) :=
  callFn_depth_guard ops fuel fv this args ar depth s hf ha hd

/-- a wrong argument count is reported before the depth is looked at (any depth) -/
theorem arity_error_wins_lambda (ops : NumOps) (fuel id : Nat) (ps : List LArg) (body : Expr)
    (sc : Frame) (this : Value) (args : List Value) (depth : Nat) (s : ES)
    (ha : (lambdaArity ps).canAccept args.length = false) :
    callFn ops (fuel + 1) (.lambda id ps body sc) this args depth s = (.err .arity, s) :=
  callFn_lambda_arity_first ops fuel id ps body sc this args depth s ha

theorem arity_error_wins_builtin (ops : NumOps) (fuel : Nat) (name : String) (ar : Gen.Arity)
    (this : Value) (args : List Value) (depth : Nat) (s : ES)
    (hb : builtinArity name = some ar) (ha : ar.canAccept args.length = false) :
    callFn ops (fuel + 1) (.builtin name) this args depth s = (.err .arity, s) :=
  callFn_builtin_arity_first ops fuel name ar this args depth s hb ha

/-! ### 2. where the counter is incremented -/

/-- (a) the body of a lambda called at depth `d ≤ MAX_DEPTH` is evaluated at depth `d + 1`, in
    the frame / parent environment `callFn` builds; the caller's environment is restored -/
theorem body_runs_one_deeper (ops : NumOps) (fuel id : Nat) (ps : List LArg) (body : Expr)
    (sc : Frame) (this : Value) (args : List Value) (d : Nat) (s : ES) (pf : Frame)
    (ha : (lambdaArity ps).canAccept args.length = true) (hd : d ≤ MAX_DEPTH)
    (hb : bindParams ps args = .ok pf) :
    callFn ops (fuel + 1) (.lambda id ps body sc) this args d s =
      ((eval ops fuel (d + 1) body { s with env := callFrame s id sc this pf :: callParent s sc }).1,
       { (eval ops fuel (d + 1) body { s with env := callFrame s id sc this pf :: callParent s sc }).2
           with env := s.env }) :=
  callFn_lambda_body ops fuel id ps body sc this args d s pf ha hd hb

/-- (b) a higher-order built-in called at depth `d` runs at depth `d + 1` … -/
theorem builtin_hof_runs_one_deeper (ops : NumOps) (fuel : Nat) (name : String) (ar : Gen.Arity)
    (this : Value) (args : List Value) (d : Nat) (s : ES)
    (hb : builtinArity name = some ar) (ha : ar.canAccept args.length = true)
    (hh : isHof name = true) (hd : d ≤ MAX_DEPTH) :
    callFn ops (fuel + 1) (.builtin name) this args d s = callHof ops fuel name args (d + 1) s :=
  callFn_builtin_hof ops fuel name ar this args d s hb ha hh hd

/-- … the other built-ins do not call back at all -/
theorem builtin_pure_does_not_recurse (ops : NumOps) (fuel : Nat) (name : String)
    (ar : Gen.Arity) (this : Value) (args : List Value) (d : Nat) (s : ES)
    (hb : builtinArity name = some ar) (ha : ar.canAccept args.length = true)
    (hh : isHof name = false) (hd : d ≤ MAX_DEPTH) :
    callFn ops (fuel + 1) (.builtin name) this args d s =
      (match callPure ops name args with
       | some r => (r, s)
       | none => (.err .other, s)) :=
  callFn_builtin_pure ops fuel name ar this args d s hb ha hh hd

/-- … and each higher-order built-in running at `depth` calls its callback at `depth + 1` -/
theorem hof_map (ops : NumOps) (fuel : Nat) (l : List Value) (f : Value) (rest : List Value)
    (ar : Gen.Arity) (depth : Nat) (s : ES) (hf : arityOf f = some ar) :
    callHof ops (fuel + 1) "map" (.list l :: f :: rest) depth s =
      wrapList (mapCalls ops fuel f (ar.canAccept 2) l 0 (depth + 1) s) :=
  callHof_map ops fuel l f rest ar depth s hf

theorem hof_filter (ops : NumOps) (fuel : Nat) (l : List Value) (f : Value) (rest : List Value)
    (ar : Gen.Arity) (depth : Nat) (s : ES) (hf : arityOf f = some ar) :
    callHof ops (fuel + 1) "filter" (.list l :: f :: rest) depth s =
      whereCalls ops fuel f (ar.canAccept 2) l 0 (depth + 1) s :=
  callHof_filter ops fuel l f rest ar depth s hf

theorem hof_every (ops : NumOps) (fuel : Nat) (l : List Value) (f : Value) (rest : List Value)
    (ar : Gen.Arity) (depth : Nat) (s : ES) (hf : arityOf f = some ar) :
    callHof ops (fuel + 1) "every" (.list l :: f :: rest) depth s =
      quantCalls ops fuel f (ar.canAccept 2) true l 0 (depth + 1) s :=
  callHof_every ops fuel l f rest ar depth s hf

theorem hof_some (ops : NumOps) (fuel : Nat) (l : List Value) (f : Value) (rest : List Value)
    (ar : Gen.Arity) (depth : Nat) (s : ES) (hf : arityOf f = some ar) :
    callHof ops (fuel + 1) "some" (.list l :: f :: rest) depth s =
      quantCalls ops fuel f (ar.canAccept 2) false l 0 (depth + 1) s :=
  callHof_some ops fuel l f rest ar depth s hf

theorem hof_reduce (ops : NumOps) (fuel : Nat) (l : List Value) (f init : Value)
    (rest : List Value) (ar : Gen.Arity) (depth : Nat) (s : ES) (hf : arityOf f = some ar) :
    callHof ops (fuel + 1) "reduce" (.list l :: f :: init :: rest) depth s =
      foldCalls ops fuel f (ar.canAccept 3) init l 0 (depth + 1) s :=
  callHof_reduce ops fuel l f init rest ar depth s hf

theorem hof_group_by (ops : NumOps) (fuel : Nat) (l : List Value) (f : Value) (rest : List Value)
    (ar : Gen.Arity) (depth : Nat) (s : ES) (hf : arityOf f = some ar) :
    callHof ops (fuel + 1) "group_by" (.list l :: f :: rest) depth s =
      (match mapCalls ops fuel f false l 0 (depth + 1) s with
       | (.ok ks, s1) =>
         (match groupByKeys l ks with
          | some r => (.ok (.record r), s1)
          | none => (.err .type_, s1))
       | (.err k, s1) => (.err k, s1)
       | (.panic p, s1) => (.panic p, s1)
       | (.fuel, s1) => (.fuel, s1)) :=
  callHof_group_by ops fuel l f rest ar depth s hf

theorem hof_count_by (ops : NumOps) (fuel : Nat) (l : List Value) (f : Value) (rest : List Value)
    (ar : Gen.Arity) (depth : Nat) (s : ES) (hf : arityOf f = some ar) :
    callHof ops (fuel + 1) "count_by" (.list l :: f :: rest) depth s =
      (match mapCalls ops fuel f false l 0 (depth + 1) s with
       | (.ok ks, s1) =>
         (match countByKeys ops ks with
          | some r => (.ok (.record r), s1)
          | none => (.err .type_, s1))
       | (.err k, s1) => (.err k, s1)
       | (.panic p, s1) => (.panic p, s1)
       | (.fuel, s1) => (.fuel, s1)) :=
  callHof_count_by ops fuel l f rest ar depth s hf

theorem hof_sort_by (ops : NumOps) (fuel : Nat) (l : List Value) (f : Value) (rest : List Value)
    (depth : Nat) (s : ES) (hf : f.isCallable = true) :
    callHof ops (fuel + 1) "sort_by" (.list l :: f :: rest) depth s =
      (let keyed := (keyCalls ops fuel f l (depth + 1) s).1
       let s1 := (keyCalls ops fuel f l (depth + 1) s).2
       if keyed.any (fun kr => match kr.2 with | .fuel => true | _ => false) then (.fuel, s1)
       else (.ok (.list ((mergeSortBy sortByLt keyed.length keyed).map (·.1))), s1)) :=
  callHof_sort_by ops fuel l f rest depth s hf

/-- the callback loops call `callFn` at the depth they are given (one unfolding each) -/
theorem mapCalls_calls_at_depth (ops : NumOps) (fuel : Nat) (f : Value) (w : Bool) (x : Value)
    (xs : List Value) (start depth : Nat) (s : ES) :
    mapCalls ops (fuel + 1) f w (x :: xs) start depth s =
      (match callFn ops fuel f f (cbArgs w x start) depth s with
       | (.ok v, s1) =>
         (match mapCalls ops fuel f w xs (start + 1) depth s1 with
          | (.ok vs, s2) => (.ok (v :: vs), s2)
          | r => r)
       | (.err k, s1) => (.err k, s1)
       | (.panic p, s1) => (.panic p, s1)
       | (.fuel, s1) => (.fuel, s1)) :=
  mapCalls_cons ops fuel f w x xs start depth s

theorem quantCalls_calls_at_depth (ops : NumOps) (fuel : Nat) (f : Value) (w e : Bool)
    (x : Value) (xs : List Value) (start depth : Nat) (s : ES) :
    quantCalls ops (fuel + 1) f w e (x :: xs) start depth s =
      (match callFn ops fuel f f (cbArgs w x start) depth s with
       | (.ok (.bool b), s1) =>
         if e && !b then (.ok (.bool false), s1)
         else if !e && b then (.ok (.bool true), s1)
         else quantCalls ops fuel f w e xs (start + 1) depth s1
       | (.ok _, s1) => (.err .type_, s1)
       | r => r) :=
  quantCalls_cons ops fuel f w e x xs start depth s

theorem foldCalls_calls_at_depth (ops : NumOps) (fuel : Nat) (f : Value) (w : Bool)
    (acc x : Value) (xs : List Value) (start depth : Nat) (s : ES) :
    foldCalls ops (fuel + 1) f w acc (x :: xs) start depth s =
      (match callFn ops fuel f f (if w then [acc, x, .num (F64.ofNat start)] else [acc, x]) depth s with
       | (.ok v, s1) => foldCalls ops fuel f w v xs (start + 1) depth s1
       | r => r) :=
  foldCalls_cons ops fuel f w acc x xs start depth s

theorem whereCalls_calls_at_depth (ops : NumOps) (fuel : Nat) (f : Value) (w : Bool) (x : Value)
    (xs : List Value) (start depth : Nat) (s : ES) :
    whereCalls ops (fuel + 1) f w (x :: xs) start depth s =
      (match callFn ops fuel f f (cbArgs w x start) depth s with
       | (.ok (.bool b), s1) =>
         (match whereCalls ops fuel f w xs (start + 1) depth s1 with
          | (.ok (.list vs), s2) => (.ok (.list (if b then x :: vs else vs)), s2)
          | r => r)
       | (.ok _, s1) => (.err .type_, s1)
       | r => r) :=
  whereCalls_cons ops fuel f w x xs start depth s

theorem keyCalls_calls_at_depth (ops : NumOps) (fuel : Nat) (f x : Value) (xs : List Value)
    (depth : Nat) (s : ES) :
    keyCalls ops (fuel + 1) f (x :: xs) depth s =
      ((x, (callFn ops fuel f f [x] depth s).1) ::
         (keyCalls ops fuel f xs depth (callFn ops fuel f f [x] depth s).2).1,
       (keyCalls ops fuel f xs depth (callFn ops fuel f f [x] depth s).2).2) :=
  keyCalls_cons ops fuel f x xs depth s

theorem viaPairs_calls_at_depth (ops : NumOps) (fuel : Nat) (x f : Value) (xs fs : List Value)
    (depth : Nat) (s : ES) (hf : f.isCallable = true) :
    viaPairs ops (fuel + 1) (x :: xs) (f :: fs) depth s =
      (match callFn ops fuel f f [x] depth s with
       | (.ok v, s1) =>
         (match viaPairs ops fuel xs fs depth s1 with
          | (.ok (.list vs), s2) => (.ok (.list (v :: vs)), s2)
          | r => r)
       | r => r) :=
  viaPairs_cons ops fuel x f xs fs depth s hf

/-- end to end: the callbacks of `map(l, f)` called at depth `d` are called at depth `d + 2` -/
theorem map_callbacks_two_deeper (ops : NumOps) (fuel : Nat) (this : Value) (l : List Value)
    (f : Value) (arM ar : Gen.Arity) (d : Nat) (s : ES)
    (hb : builtinArity "map" = some arM) (hm : arM.canAccept 2 = true)
    (hf : arityOf f = some ar) (hd : d ≤ MAX_DEPTH) :
    callFn ops (fuel + 2) (.builtin "map") this [.list l, f] d s =
      wrapList (mapCalls ops fuel f (ar.canAccept 2) l 0 (d + 2) s) := by
  rw [callFn_builtin_hof ops (fuel + 1) "map" arM this [.list l, f] d s hb hm (by decide) hd,
    callHof_map ops fuel l f [] ar (d + 1) s hf]

/-- (c) `via` / `where` / `into` call back at the operator's own depth -/
theorem via_list_same_depth (ops : NumOps) (fuel depth : Nat) (la : List Value) (f : Value)
    (ar : Gen.Arity) (s : ES) (hc : f.isCallable = true) (hf : arityOf f = some ar) :
    evalBin ops (fuel + 1) depth .via (.list la) f s =
      wrapList (mapCalls ops fuel f (ar.canAccept 2) la 0 depth s) :=
  evalBin_via_list ops fuel depth la f ar s hc hf

theorem where_list_same_depth (ops : NumOps) (fuel depth : Nat) (la : List Value) (f : Value)
    (ar : Gen.Arity) (s : ES) (hc : f.isCallable = true) (hf : arityOf f = some ar) :
    evalBin ops (fuel + 1) depth .where_ (.list la) f s =
      whereCalls ops fuel f (ar.canAccept 2) la 0 depth s :=
  evalBin_where_list ops fuel depth la f ar s hc hf

theorem into_list_same_depth (ops : NumOps) (fuel depth : Nat) (la : List Value) (f : Value)
    (s : ES) (hc : f.isCallable = true) :
    evalBin ops (fuel + 1) depth .into (.list la) f s = callFn ops fuel f f [.list la] depth s :=
  evalBin_into_list ops fuel depth la f s hc

theorem into_scalar_same_depth (ops : NumOps) (fuel depth : Nat) (x f : Value) (s : ES)
    (hx : isListV x = false) (hc : f.isCallable = true) :
    evalBin ops (fuel + 1) depth .into x f s = callFn ops fuel f f [x] depth s :=
  evalBin_into_scalar ops fuel depth x f s hx hc

theorem via_scalar_same_depth (ops : NumOps) (fuel depth : Nat) (x f : Value) (s : ES)
    (hx : isListV x = false) (hc : f.isCallable = true) :
    evalBin ops (fuel + 1) depth .via x f s = callFn ops fuel f f [x] depth s :=
  evalBin_via_scalar ops fuel depth x f s hx hc

theorem via_lists_same_depth (ops : NumOps) (fuel depth : Nat) (la lb : List Value) (s : ES)
    (hl : la.length = lb.length) :
    evalBin ops (fuel + 1) depth .via (.list la) (.list lb) s = viaPairs ops fuel la lb depth s :=
  evalBin_via_lists ops fuel depth la lb s hl

/-! ### 3. the depth is bounded -/

/-- (i) above the limit `callFn` evaluates nothing, whatever the callee: the state is unchanged
    and the outcome is `fuel` (only when there is no fuel at all) or one of the four errors
    arity / depth / unknown built-in / not callable -/
theorem depth_bounded_callFn (ops : NumOps) (fuel : Nat) (fv this : Value) (args : List Value)
    (depth : Nat) (s : ES) (hd : depth > MAX_DEPTH) :
    (callFn ops fuel fv this args depth s).2 = s ∧
    AboveLimitOutcome fuel (callFn ops fuel fv this args depth s).1 :=
  callFn_above_limit ops fuel fv this args depth s hd

/-- a call that returned a value was made within the limit -/
theorem depth_bounded_ok_call (ops : NumOps) (fuel : Nat) (fv this : Value) (args : List Value)
    (depth : Nat) (s : ES) (v : Value) (h : (callFn ops fuel fv this args depth s).1 = .ok v) :
    depth ≤ MAX_DEPTH :=
  callFn_ok_depth_le ops fuel fv this args depth s v h

/-- so was a call that panicked -/
theorem depth_bounded_panic_call (ops : NumOps) (fuel : Nat) (fv this : Value)
    (args : List Value) (depth : Nat) (s : ES) (p : String)
    (h : (callFn ops fuel fv this args depth s).1 = .panic p) :
    depth ≤ MAX_DEPTH :=
  callFn_panic_depth_le ops fuel fv this args depth s p h

/-- (ii) above the limit the callback loops stop at their first element -/
theorem depth_bounded_mapCalls (ops : NumOps) (fuel : Nat) (f : Value) (w : Bool) (x : Value)
    (xs : List Value) (ar : Gen.Arity) (start depth : Nat) (s : ES) (hf : arityOf f = some ar)
    (ha : ar.canAccept (if w then 2 else 1) = true) (hd : depth > MAX_DEPTH) :
    mapCalls ops (fuel + 2) f w (x :: xs) start depth s = (.err .depth, s) :=
  mapCalls_above_limit ops fuel f w x xs ar start depth s hf ha hd

theorem depth_bounded_whereCalls (ops : NumOps) (fuel : Nat) (f : Value) (w : Bool) (x : Value)
    (xs : List Value) (ar : Gen.Arity) (start depth : Nat) (s : ES) (hf : arityOf f = some ar)
    (ha : ar.canAccept (if w then 2 else 1) = true) (hd : depth > MAX_DEPTH) :
    whereCalls ops (fuel + 2) f w (x :: xs) start depth s = (.err .depth, s) :=
  whereCalls_above_limit ops fuel f w x xs ar start depth s hf ha hd

theorem depth_bounded_quantCalls (ops : NumOps) (fuel : Nat) (f : Value) (w e : Bool)
    (x : Value) (xs : List Value) (ar : Gen.Arity) (start depth : Nat) (s : ES)
    (hf : arityOf f = some ar) (ha : ar.canAccept (if w then 2 else 1) = true)
    (hd : depth > MAX_DEPTH) :
    quantCalls ops (fuel + 2) f w e (x :: xs) start depth s = (.err .depth, s) :=
  quantCalls_above_limit ops fuel f w e x xs ar start depth s hf ha hd

theorem depth_bounded_foldCalls (ops : NumOps) (fuel : Nat) (f : Value) (w : Bool)
    (acc x : Value) (xs : List Value) (ar : Gen.Arity) (start depth : Nat) (s : ES)
    (hf : arityOf f = some ar) (ha : ar.canAccept (if w then 3 else 2) = true)
    (hd : depth > MAX_DEPTH) :
    foldCalls ops (fuel + 2) f w acc (x :: xs) start depth s = (.err .depth, s) :=
  foldCalls_above_limit ops fuel f w acc x xs ar start depth s hf ha hd

theorem depth_bounded_viaPairs (ops : NumOps) (fuel : Nat) (x f : Value) (xs fs : List Value)
    (ar : Gen.Arity) (depth : Nat) (s : ES) (hc : f.isCallable = true)
    (hf : arityOf f = some ar) (ha : ar.canAccept 1 = true) (hd : depth > MAX_DEPTH) :
    viaPairs ops (fuel + 2) (x :: xs) (f :: fs) depth s = (.err .depth, s) :=
  viaPairs_above_limit ops fuel x f xs fs ar depth s hc hf ha hd

/-- `sort_by` keeps failed keys: above the limit every key is the depth error, state untouched -/
theorem depth_bounded_keyCalls (ops : NumOps) (f : Value) (ar : Gen.Arity) (depth : Nat)
    (xs : List Value) (fuel : Nat) (s : ES) (hf : arityOf f = some ar)
    (ha : ar.canAccept 1 = true) (hd : depth > MAX_DEPTH) (hl : xs.length < fuel) :
    keyCalls ops (fuel + 1) f xs depth s = (xs.map fun x => (x, .err .depth), s) :=
  keyCalls_above_limit ops f ar depth hf ha hd xs fuel s hl

/-- (iii) above the limit the counter is irrelevant to every function of the evaluator -/
theorem depth_bounded_saturates (ops : NumOps) (fuel d d' : Nat) (hd : d > MAX_DEPTH)
    (hd' : d' > MAX_DEPTH) : DepthIrrelevant ops fuel d d' :=
  depth_saturates ops fuel d d' hd hd'

/-- hence the evaluator is the one with a counter clamped to `0 … MAX_DEPTH + 1` -/
theorem depth_bounded_clamped (ops : NumOps) (fuel d : Nat) (e : Expr) (fv this : Value)
    (args : List Value) (s : ES) :
    eval ops fuel d e s = eval ops fuel (min d (MAX_DEPTH + 1)) e s ∧
    callFn ops fuel fv this args d s = callFn ops fuel fv this args (min d (MAX_DEPTH + 1)) s :=
  ⟨eval_depth_clamped ops fuel d e s, callFn_depth_clamped ops fuel d fv this args s⟩

/-- the two extra levels of a higher-order built-in: `map` called at depth MAX_DEPTH - 1 or
    MAX_DEPTH on a non-empty list has its first callback refused -/
theorem depth_bounded_map_near_limit (ops : NumOps) (fuel : Nat) (this x f : Value)
    (xs : List Value) (arM ar : Gen.Arity) (d : Nat) (s : ES)
    (hb : builtinArity "map" = some arM) (hm : arM.canAccept 2 = true)
    (hf : arityOf f = some ar) (ha : ar.canAccept 2 = true ∨ ar.canAccept 1 = true)
    (hd : d ≤ MAX_DEPTH) (hd2 : d + 2 > MAX_DEPTH) :
    callFn ops (fuel + 4) (.builtin "map") this [.list (x :: xs), f] d s = (.err .depth, s) :=
  callFn_map_near_limit ops fuel this x f xs arM ar d s hb hm hf ha hd hd2

/-! ### 4. runaway programs -/

/-- `f = n => f(n + 1)` evaluates to the lambda `selfLam`, which captures nothing, names the
    cell `f` and binds `f` (any fuel ≥ 2, any depth).  `f` bound nowhere in the environment
    chain gives both that the model's `alreadyDefined depth` check passes (at top level it looks
    at the whole chain, inside a call only at the innermost frame) and that the free name `f`
    of the body is not captured from an outer frame. -/
theorem runaway_self_recursion_definition (ops : NumOps) (fuel depth : Nat) (s : ES)
    (h : envContains s.env "f" = false) (hfr : nameOf s.names s.nextId = none) :
    eval ops (fuel + 2) depth selfDef s = (.ok (selfLam s.nextId), afterSelfDef s) :=
  eval_selfDef ops fuel depth s h hfr

/-- the call level: in ANY state in which the cell of `selfLam id` is named `f`, at ANY depth,
    with ANY number as argument and ANY fuel, calling it gives `fuel` or `err depth` and
    leaves the state as it was -/
theorem runaway_self_recursion_call_dichotomy (ops : NumOps) (id fuel : Nat) (x : F64) (d : Nat)
    (s : ES) (hn : nameOf s.names id = some "f") :
    callFn ops fuel (selfLam id) (selfLam id) [.num x] d s = (.fuel, s) ∨
    callFn ops fuel (selfLam id) (selfLam id) [.num x] d s = (.err .depth, s) :=
  callFn_selfLam_dichotomy ops id fuel x d s hn

/-- the program level: after `f = n => f(n + 1)`, evaluating `f(0)` gives `fuel` or `err depth`
    (never a value, another error or a panic), for every `ops`, all fuels, any depth -/
theorem runaway_self_recursion_dichotomy (ops : NumOps) (fuel0 fuel depth : Nat) (s : ES)
    (h : envContains s.env "f" = false) (hfr : nameOf s.names s.nextId = none) :
    eval ops fuel depth selfCall (eval ops (fuel0 + 2) 0 selfDef s).2 =
      (.fuel, (eval ops (fuel0 + 2) 0 selfDef s).2) ∨
    eval ops fuel depth selfCall (eval ops (fuel0 + 2) 0 selfDef s).2 =
      (.err .depth, (eval ops (fuel0 + 2) 0 selfDef s).2) := by
  rw [eval_selfDef ops fuel0 0 s h hfr]
  by_cases hk : fuel < 3
  · left
    exact eval_selfCall_small ops fuel depth s.nextId _ hk (afterSelfDef_f s)
  · obtain ⟨j, rfl⟩ : ∃ j, fuel = j + 3 := ⟨fuel - 3, by omega⟩
    rw [eval_selfCall_big ops j depth s.nextId _ (afterSelfDef_f s)]
    exact callFn_selfLam_dichotomy ops s.nextId (j + 2) F64.zero depth _ (afterSelfDef_name s)

/-- with fuel ≥ 2006 the outcome of `f(0)` at top level is exactly the call-depth error -/
theorem runaway_self_recursion_hits_limit (ops : NumOps) (fuel0 fuel : Nat) (s : ES)
    (h : envContains s.env "f" = false) (hfr : nameOf s.names s.nextId = none) (hf : fuel ≥ 2006) :
    eval ops fuel 0 selfCall (eval ops (fuel0 + 2) 0 selfDef s).2 =
      (.err .depth, (eval ops (fuel0 + 2) 0 selfDef s).2) := by
  rw [eval_selfDef ops fuel0 0 s h hfr]
  obtain ⟨j, rfl⟩ : ∃ j, fuel = j + 3 := ⟨fuel - 3, by omega⟩
  rw [eval_selfCall_big ops j 0 s.nextId _ (afterSelfDef_f s)]
  exact callFn_selfLam_hits_limit ops s.nextId (MAX_DEPTH + 1) 0 (by omega) (j + 2) F64.zero _
    (afterSelfDef_name s) (by simp only [MAX_DEPTH]; omega)

/-- … and the threshold is exact: with less fuel the model gives up first -/
theorem runaway_self_recursion_fuel_artefact (ops : NumOps) (fuel0 fuel : Nat) (s : ES)
    (h : envContains s.env "f" = false) (hfr : nameOf s.names s.nextId = none) (hf : fuel < 2006) :
    eval ops fuel 0 selfCall (eval ops (fuel0 + 2) 0 selfDef s).2 =
      (.fuel, (eval ops (fuel0 + 2) 0 selfDef s).2) := by
  rw [eval_selfDef ops fuel0 0 s h hfr]
  by_cases hk : fuel < 3
  · exact eval_selfCall_small ops fuel 0 s.nextId _ hk (afterSelfDef_f s)
  · obtain ⟨j, rfl⟩ : ∃ j, fuel = j + 3 := ⟨fuel - 3, by omega⟩
    rw [eval_selfCall_big ops j 0 s.nextId _ (afterSelfDef_f s)]
    exact callFn_selfLam_below_threshold ops s.nextId MAX_DEPTH 0 (by omega) (j + 2) F64.zero _
      (afterSelfDef_name s) (by simp only [MAX_DEPTH]; omega)

/-- the pair: `g` is created while `h` is unbound and captures nothing (it finds `h` through
    its caller's environment at call time); `h` captures `g` -/
theorem runaway_mutual_pair_definitions (ops : NumOps) (fuel1 fuel2 depth : Nat) (s : ES)
    (hg : envContains s.env "g" = false) (hh : envContains s.env "h" = false)
    (hfr : nameOf s.names s.nextId = none) (hfr2 : nameOf s.names (s.nextId + 1) = none) :
    (eval ops (fuel1 + 2) depth pairGDef s).1 = .ok (pairG s.nextId) ∧
    eval ops (fuel2 + 2) depth pairHDef (eval ops (fuel1 + 2) depth pairGDef s).2 =
      (.ok (pairH s.nextId (s.nextId + 1)), afterPairDefs s) :=
  eval_pairDefs ops fuel1 fuel2 depth s hg hh hfr hfr2

/-- call level, both functions, any state with the two cells named and (for `g`) `h` visible -/
theorem runaway_mutual_pair_call_dichotomy (ops : NumOps) (idg idh fuel : Nat) (x : F64)
    (d : Nat) (s : ES) (hg : nameOf s.names idg = some "g") (hh : nameOf s.names idh = some "h") :
    (envGet s.env "h" = some (pairH idg idh) →
      callFn ops fuel (pairG idg) (pairG idg) [.num x] d s = (.fuel, s) ∨
      callFn ops fuel (pairG idg) (pairG idg) [.num x] d s = (.err .depth, s)) ∧
    (callFn ops fuel (pairH idg idh) (pairH idg idh) [.num x] d s = (.fuel, s) ∨
     callFn ops fuel (pairH idg idh) (pairH idg idh) [.num x] d s = (.err .depth, s)) :=
  callFn_pair_dichotomy ops idg idh fuel x d s hg hh

/-- program level: after the two definitions `g(0)` gives `fuel` or `err depth` -/
theorem runaway_mutual_pair_dichotomy (ops : NumOps) (fuel depth : Nat) (s : ES) :
    eval ops fuel depth pairCall (afterPairDefs s) = (.fuel, afterPairDefs s) ∨
    eval ops fuel depth pairCall (afterPairDefs s) = (.err .depth, afterPairDefs s) := by
  by_cases hk : fuel < 3
  · left
    exact eval_pairCall_small ops fuel depth s.nextId _ hk (afterPairDefs_g s)
  · obtain ⟨j, rfl⟩ : ∃ j, fuel = j + 3 := ⟨fuel - 3, by omega⟩
    rw [eval_pairCall_big ops j depth s.nextId _ (afterPairDefs_g s)]
    exact (callFn_pair_dichotomy ops s.nextId (s.nextId + 1) (j + 2) F64.zero depth _
      (afterPairDefs_names s).1 (afterPairDefs_names s).2).1 (afterPairDefs_h s)

/-- with fuel ≥ 2005 the outcome of `g(0)` at top level is exactly the call-depth error -/
theorem runaway_mutual_pair_hits_limit (ops : NumOps) (fuel : Nat) (s : ES) (hf : fuel ≥ 2005) :
    eval ops fuel 0 pairCall (afterPairDefs s) = (.err .depth, afterPairDefs s) := by
  obtain ⟨j, rfl⟩ : ∃ j, fuel = j + 3 := ⟨fuel - 3, by omega⟩
  rw [eval_pairCall_big ops j 0 s.nextId _ (afterPairDefs_g s)]
  exact (callFn_pair_hits_limit ops s.nextId (s.nextId + 1) (MAX_DEPTH + 1) 0 (by omega) (j + 2)
    F64.zero _ (afterPairDefs_names s).1 (afterPairDefs_names s).2
    (by simp only [MAX_DEPTH]; omega)).1 (afterPairDefs_h s)

/-! ### non-vacuity and executable instances (toy arithmetic, kernel evaluation) -/

section examples

/-- the driver's initial state without inputs -/
private abbrev s0 : ES := { env := [[]], nextId := 1, names := [] }
/-- `x => x` -/
private abbrev idLam : Value := .lambda 7 [.req "x"] (.ident "x") []
private abbrev isDepthErr (r : R Value) : Bool := match r.1 with | .err .depth => true | _ => false
private abbrev isFuel (r : R Value) : Bool := match r.1 with | .fuel => true | _ => false
private abbrev isOkR (r : R Value) : Bool := match r.1 with | .ok _ => true | _ => false

-- hypotheses of the guard theorems
example : (lambdaArity [.req "n"]).canAccept [Value.num int0].length = true ∧ 1001 > MAX_DEPTH := by
  decide
example : builtinArity "sqrt" = some (.exact 1) ∧
    (Gen.Arity.exact 1).canAccept [Value.num int0].length = true := by decide
example : arityOf idLam = some (.exact 1) ∧ idLam.isCallable = true := by decide
example : (lambdaArity [.req "n"]).canAccept [Value.num int0, Value.num int1].length = false := by
  decide
example : (Gen.Arity.exact 1).canAccept [Value.num int0, Value.num int1].length = false := by decide
-- hypotheses of `body_runs_one_deeper`
example : bindParams [.req "n"] [Value.num int0] = .ok [("n", .num int0)] ∧ 1000 ≤ MAX_DEPTH :=
  ⟨rfl, by decide⟩
-- hypotheses about the higher-order built-ins
example : builtinArity "map" = some (.exact 2) ∧ (Gen.Arity.exact 2).canAccept 2 = true ∧
    isHof "map" = true ∧ isHof "sqrt" = false := by decide
example : (Gen.Arity.exact 1).canAccept (if (Gen.Arity.exact 1).canAccept 2 then 2 else 1) = true ∧
    ((Gen.Arity.exact 1).canAccept 2 = true ∨ (Gen.Arity.exact 1).canAccept 1 = true) := by decide
example : isListV (.num int0) = false ∧ [Value.num int0].length = [idLam].length := by decide
example : 999 ≤ MAX_DEPTH ∧ 999 + 2 > MAX_DEPTH ∧ [Value.num int0].length < 2 := by decide
-- hypotheses of the runaway theorems
example : envContains s0.env "f" = false ∧ envContains s0.env "g" = false ∧
    envContains s0.env "h" = false := by decide
example : nameOf (afterSelfDef s0).names 1 = some "f" := by decide
example : nameOf (afterPairDefs s0).names 1 = some "g" ∧
    nameOf (afterPairDefs s0).names 2 = some "h" := by decide
example : envGet (afterPairDefs s0).env "h" = some (pairH 1 2) := afterPairDefs_h s0

-- a lambda called directly at depth 1000 runs, at depth 1001 it is refused
example : isOkR (callFn intOps 5 idLam idLam [.num int2] 1000 s0) = true := by decide +kernel
example : isDepthErr (callFn intOps 5 idLam idLam [.num int2] 1001 s0) = true := by decide +kernel
-- `map` called at depth 998 reaches its callback at depth 1000; called at 999 it does not
example : isOkR (callFn intOps 9 (.builtin "map") (.builtin "map") [.list [.num int2], idLam] 998 s0) = true := by
  decide +kernel
example : isDepthErr (callFn intOps 9 (.builtin "map") (.builtin "map") [.list [.num int2], idLam] 999 s0) = true := by
  decide +kernel
-- `via` at depth 1000 still reaches its callback (same depth), at 1001 it does not
example : isOkR (evalBin intOps 9 1000 .via (.list [.num int2]) idLam s0) = true := by decide +kernel
example : isDepthErr (evalBin intOps 9 1001 .via (.list [.num int2]) idLam s0) = true := by decide +kernel

-- `f = n => f(n + 1); f(0)` run by the kernel with the toy arithmetic: little fuel → `fuel`,
-- fuel 2006 → all 1001 nested calls are made and the 1002nd is refused
example : isOkR (eval intOps 2 0 selfDef s0) = true := by decide +kernel
example : isFuel (eval intOps 50 0 selfCall (eval intOps 2 0 selfDef s0).2) = true := by
  decide +kernel
example : isDepthErr (eval intOps 2006 0 selfCall (eval intOps 2 0 selfDef s0).2) = true := by
  decide +kernel
-- the pair, from the driver's initial state
example : isFuel (eval intOps 50 0 pairCall
    (eval intOps 2 0 pairHDef (eval intOps 2 0 pairGDef s0).2).2) = true := by decide +kernel
example : isDepthErr (eval intOps 2005 0 pairCall
    (eval intOps 2 0 pairHDef (eval intOps 2 0 pairGDef s0).2).2) = true := by decide +kernel

end examples

end Blots.C18
