import Blots.Lemmas.EvalEnvCall
import Blots.Lemmas.EvalEnvWeak
import Blots.Lemmas.EvalWeakClosed
/-
  C02 — Evaluation is deterministic and free of side effects on values.

  Determinism itself is by construction: the model `eval` is a (total) function of
  (ops, fuel, depth, expression, state), see `eval_is_a_function`.  The parts with content:

  (1) the real environment frames are HashMaps, the model's are association lists: every
      lookup the evaluator makes (`lookupAL`, `envGet`, `captureScope`) is independent of the
      order of the entries of a frame with distinct keys, and of the order in which the free
      variables are listed;
  (2) evaluation never changes the value bound to a name (C03's invariant, re-exported);
  (3) the pure built-ins (everything except the eight higher-order ones) are functions of
      their arguments: the result does not depend on the state, and the state is returned
      unchanged — `random(seed)` included;
  (4) weakening (the easy half of the let-abstraction law): binding an unused fresh name
      does not change evaluation — proved for expressions without function application
      (`weakening_partial`), and for ARBITRARY expressions (function application included:
      call expressions, `via` / `into` / `where`, the higher-order built-ins) evaluated in an
      environment of hereditarily closed values (`weakening_closed`); full statement kept as
      `weakening_statement`;
  (5) evaluating twice: an evaluation that allocates no function cell and makes no frame-level
      assignment returns the state exactly as it was, so a second evaluation is the same
      evaluation (`eval_twice`); the two conditions are needed (examples);
  (6) let-abstraction of the subexpression that is evaluated first (`let_abstraction_leftmost`).
-/
namespace Blots.C02

/-- same inputs, same outputs -/
theorem eval_is_a_function (ops : NumOps) (fuel depth : Nat) (e : Expr) (s : ES) (r1 r2 : R Value)
    (h1 : eval ops fuel depth e s = r1) (h2 : eval ops fuel depth e s = r2) : r1 = r2 :=
  h1.symm.trans h2

/-! #### (1) independence of hash-map order -/

/-- lookup in a frame with distinct keys does not depend on the order of its entries -/
theorem frame_lookup_perm (f f' : Frame) (k : String) (hnd : (f.map Prod.fst).Nodup) (hp : f.Perm f') :
    lookupAL k f = lookupAL k f' :=
  Blots.frame_lookup_perm k hnd hp

/-- nor does lookup through a chain of frames (`FramesPerm`: frame by frame a permutation,
    distinct keys) -/
theorem env_lookup_perm (k : String) (env env' : List Frame) (h : FramesPerm env env') :
    envGet env k = envGet env' k :=
  envGet_framesPerm k h

/-- the captured scope of a new function: distinct keys, and its lookup function depends only
    on the SET of listed variables and on what `envGet` answers for them -/
theorem captureScope_lookup (env : List Frame) (vars : List String) (x : String) :
    lookupAL x (captureScope env vars) = if x ∈ vars then envGet env x else none :=
  Blots.captureScope_lookup env vars x

theorem captureScope_keys_distinct (env : List Frame) (vars : List String) :
    ((captureScope env vars).map Prod.fst).Nodup :=
  captureScope_nodup env vars

/-- so neither the order of the free-variable list nor the order of entries inside the frames
    of the environment influences what a function captures -/
theorem captureScope_order_independent (env env' : List Frame) (vars vars' : List String) (x : String)
    (henv : FramesPerm env env')
    (hvars : vars.Perm vars') :
    lookupAL x (captureScope env vars) = lookupAL x (captureScope env' vars') := by
  rw [Blots.captureScope_lookup, Blots.captureScope_lookup, env_lookup_perm x env env' henv]
  have : x ∈ vars ↔ x ∈ vars' := hvars.mem_iff
  simp only [this]

/-- the frames the evaluator itself builds have distinct keys (they are built by `insertAL`
    from the empty frame), so the hypothesis of the lemmas above is met -/
theorem built_frames_have_distinct_keys (kvs : List (String × Value)) :
    ((insertAll [] kvs).map Prod.fst).Nodup :=
  insertAll_nodup kvs [] (by simp)

theorem insert_keeps_keys_distinct (k : String) (v : Value) (f : Frame) (h : (f.map Prod.fst).Nodup) :
    ((insertAL k v f).map Prod.fst).Nodup :=
  insertAL_nodup k v f h

/-! #### (2) values are immutable -/

/-- evaluating any top-level statement, with any outcome, leaves every visible name bound to the
    same value -/
theorem values_are_immutable (ops : NumOps) (fuel : Nat) (e : Expr) (s : ES) (x : String) (v : Value)
    (hx : envGet s.env x = some v) : envGet (eval ops fuel 0 e s).2.env x = some v :=
  (eval_ext ops fuel e s).get x v hx

/-- at any call depth: a binding of the innermost frame keeps its value, the frames below are
    not touched at all (inside a call a plain assignment may add a name to the call's own
    frame that is also bound further out, so "visible" is restricted to depth 0 above) -/
theorem frame_values_are_immutable (ops : NumOps) (fuel depth : Nat) (e : Expr) (s : ES) (top : Frame)
    (below : List Frame) (hs : s.env = top :: below) :
    ∃ top', (eval ops fuel depth e s).2.env = top' :: below ∧
      ∀ x v, lookupAL x top = some v → lookupAL x top' = some v := by
  have h := eval_topExt ops fuel depth e s
  rcases h.below with he | ⟨f', he⟩
  · exact ⟨top, by rw [he, hs], fun _ _ h => h⟩
  · refine ⟨f', by rw [he, hs]; rfl, ?_⟩
    have := h.top; rw [he, hs] at this; exact this

/-- and calling a function value or built-in returns the caller's environment untouched -/
theorem calls_do_not_touch_the_environment (ops : NumOps) (fuel : Nat) (fv this : Value) (args : List Value)
    (depth : Nat) (s : ES) : (callFn ops fuel fv this args depth s).2.env = s.env :=
  callFn_env ops fuel fv this args depth s

/-! #### (3) pure built-ins are functions of their arguments -/

/-- a built-in other than the eight higher-order ones: the outcome is determined by
    (ops, name, args, depth) — not by the state, the fuel (when positive) or `this` — and the
    state is returned unchanged -/
theorem builtin_results_depend_only_on_args (ops : NumOps) (name : String) (args : List Value) (depth : Nat)
    (hn : isHof name = false) :
    ∃ r : Outcome Value, ∀ (fuel : Nat) (this : Value) (s : ES),
      callFn ops (fuel + 1) (.builtin name) this args depth s = (r, s) := by
  cases ha : builtinArity name with
  | none => exact ⟨.err .other, fun fuel this s => by rw [callFn, ha]⟩
  | some ar =>
    cases hc : checkArity ar args.length with
    | ok u =>
      by_cases hd : depth > MAX_DEPTH
      · exact ⟨.err .depth, fun fuel this s => by rw [callFn, ha]; simp only [hc, hd, if_true]⟩
      · cases hp : callPure ops name args with
        | none =>
          exact ⟨.err .other, fun fuel this s => by
            rw [callFn, ha]; simp only [hc, hd, if_false, hn, Bool.false_eq_true, hp]⟩
        | some r =>
          exact ⟨r, fun fuel this s => by
            rw [callFn, ha]; simp only [hc, hd, if_false, hn, Bool.false_eq_true, hp]⟩
    | err k => exact ⟨.err k, fun fuel this s => by rw [callFn, ha]; simp only [hc]⟩
    | panic p => exact ⟨.panic p, fun fuel this s => by rw [callFn, ha]; simp only [hc]⟩
    | fuel => exact ⟨.fuel, fun fuel this s => by rw [callFn, ha]; simp only [hc]⟩

/-- two calls of the same pure built-in with the same arguments at the same depth give the
    same result, wherever and whenever they are made -/
theorem builtin_call_site_independent (ops : NumOps) (name : String) (args : List Value) (depth : Nat)
    (hn : isHof name = false) (fuel fuel' : Nat) (this this' : Value) (s s' : ES) :
    (callFn ops (fuel + 1) (.builtin name) this args depth s).1 =
      (callFn ops (fuel' + 1) (.builtin name) this' args depth s').1 := by
  obtain ⟨r, hr⟩ := builtin_results_depend_only_on_args ops name args depth hn
  rw [hr, hr]

/-- `random(seed)` is one of them: a function of its seed -/
theorem random_is_a_function_of_its_seed (ops : NumOps) (seed : Value) (depth : Nat)
    (fuel fuel' : Nat) (this this' : Value) (s s' : ES) :
    (callFn ops (fuel + 1) (.builtin "random") this [seed] depth s).1 =
      (callFn ops (fuel' + 1) (.builtin "random") this' [seed] depth s').1 :=
  builtin_call_site_independent ops "random" [seed] depth (by decide) fuel fuel' this this' s s'

/-- every built-in name is either one of the eight higher-order ones or covered by
    `builtin_results_depend_only_on_args` (whole generated table) -/
theorem builtins_are_pure_or_hof :
    ∀ r ∈ Gen.builtins, isHof r.2.1 = false ∨
      r.2.1 ∈ ["map", "filter", "reduce", "every", "some", "sort_by", "group_by", "count_by"] := by
  decide

/-! #### (4) weakening -/

/-- FULL STATEMENT (not proved in this generality; `weakening_closed` proves it for environments
    of hereditarily closed values): `t` is not `inputs`, is not mentioned by `e` (`mentions`: as
    identifier, assignment target, parameter, shorthand key; `#field` mentions `inputs`), by
    any function value stored in the environment (`valueMentions`), nor is it a display name;
    then evaluating `e` in the state with the extra binding `(t, w)` at the head of the frame
    at depth `k` gives the same outcome, and the same resulting state with that extra binding. -/
def weakening_statement : Prop :=
  ∀ (ops : NumOps) (fuel depth : Nat) (e : Expr) (k : Nat) (s : ES) (t : String) (w : Value),
    t ≠ "inputs" → k < s.env.length → mentions t e = false →
    (∀ f ∈ s.env, ∀ kv ∈ f, valueMentions t kv.2 = false) → (∀ p ∈ s.names, p.2 ≠ t) →
    eval ops fuel depth e (addT t w k s) =
      ((eval ops fuel depth e s).1, addT t w k (eval ops fuel depth e s).2)

/-- PROVED PART: the statement for every expression WITHOUT function application (`callFree`:
    no call expression, no `via` / `into` / `where`; everything else, including function
    creation, do-blocks, assignments, records, conditionals) — then no condition on the values
    in the environment or the display names is needed.  Expressions that apply functions:
    see `weakening_closed` (closed environments).  For `weakening_statement` as written one
    would need the invariant "no function value reachable from the state mentions `t`" carried
    through the whole call group, in particular its preservation by each of the ~80 pure
    built-ins (`callPure`). -/
theorem weakening_partial (ops : NumOps) (fuel depth : Nat) (e : Expr) (k : Nat) (s : ES) (t : String)
    (w : Value) (ht : t ≠ "inputs") (hk : k < s.env.length) (hm : mentions t e = false)
    (hc : callFree e = true) :
    eval ops fuel depth e (addT t w k s) =
      ((eval ops fuel depth e s).1, addT t w k (eval ops fuel depth e s).2) :=
  (weak_group ops t w ht fuel).1 depth e k s hm hc hk

/-- spelled out for the innermost frame: same outcome; the resulting innermost frame is the
    one of the run without `t`, with `(t, w)` in front; everything else identical -/
theorem weakening_partial_top (ops : NumOps) (fuel depth : Nat) (e : Expr) (s : ES) (f : Frame)
    (r : List Frame) (t : String) (w : Value) (hs : s.env = f :: r) (ht : t ≠ "inputs")
    (hm : mentions t e = false) (hc : callFree e = true) :
    ∃ f', (eval ops fuel depth e s).2.env = f' :: r ∧
      eval ops fuel depth e { s with env := ((t, w) :: f) :: r } =
        ((eval ops fuel depth e s).1,
         { (eval ops fuel depth e s).2 with env := ((t, w) :: f') :: r }) := by
  have h := weakening_partial ops fuel depth e 0 s t w ht (by rw [hs]; simp) hm hc
  have hb := (eval_topExt ops fuel depth e s).below
  have h0 : addT t w 0 s = { s with env := ((t, w) :: f) :: r } := by simp [addT, hs, addAt]
  rw [h0] at h
  rcases hb with he | ⟨f', he⟩
  · refine ⟨f, by rw [he, hs], ?_⟩
    rw [h]; simp [addT, he, hs, addAt]
  · refine ⟨f', by rw [he, hs]; rfl, ?_⟩
    rw [h]; simp [addT, he, hs, addAt]

/-- the same for a list of items, record entries, and the statements of a do-block -/
theorem weakening_partial_lists (ops : NumOps) (fuel depth : Nat) (k : Nat) (s : ES) (t : String) (w : Value)
    (ht : t ≠ "inputs") (hk : k < s.env.length) :
    (∀ is, mentionsItems t is = false → callFreeItems is = true →
      evalItems ops fuel depth is (addT t w k s) =
        ((evalItems ops fuel depth is s).1, addT t w k (evalItems ops fuel depth is s).2)) ∧
    (∀ es acc, mentionsEntries t es = false → callFreeEntries es = true →
      evalEntries ops fuel depth es acc (addT t w k s) =
        ((evalEntries ops fuel depth es acc s).1, addT t w k (evalEntries ops fuel depth es acc s).2)) ∧
    (∀ stmts ret, mentionsItems t stmts = false → mentionsItem t ret = false →
      callFreeItems stmts = true → callFreeItem ret = true →
      evalDo ops fuel depth stmts ret (addT t w k s) =
        ((evalDo ops fuel depth stmts ret s).1, addT t w k (evalDo ops fuel depth stmts ret s).2)) :=
  ⟨fun is hm hc => (weak_group ops t w ht fuel).2.1 depth is k s hm hc hk,
   fun es acc hm hc => (weak_group ops t w ht fuel).2.2.1 depth es acc k s hm hc hk,
   fun stmts ret h1 h2 h3 h4 => (weak_group ops t w ht fuel).2.2.2.2 depth stmts ret k s h1 h2 h3 h4 hk⟩

/-! #### (4b) weakening through function application, in closed environments -/

/-- WEAKENING FOR ARBITRARY EXPRESSIONS.  `ClosedE N E` (Lemmas/EvalEnvClosed.lean): every
    function value bound anywhere in the environment — also inside lists, records, captured
    scopes — is closed after capture (each free name of its body is a parameter, captured, its
    own display name, or `inputs`), has no nested `output`, and captured only such values.  The
    value of `inputs` is one of the bound values.

    Then for every expression `e` (no nested `output`) that does not touch `t` — `touches t e`
    (Lemmas/EvalWeakClosed.lean): `t` is read as an identifier / shorthand key, assigned, or
    free in a function `e` creates; a name that `e` does not mention at all is not touched
    (`not_mentioned_not_touched`), and `t` may be a parameter or local of functions in `e` —
    and whose free names are bound (or `inputs`), at every fuel and call depth (0 = a top-level
    statement included), with the extra binding `(t, w)` put in front of ANY frame `k` of the chain:
    same outcome, and the same final state with the same extra binding.  NOTHING is assumed of
    the new value `w` (it may be a non-closed function value) and nothing of how the functions
    reachable from the environment spell their own parameters and locals: they may well use the
    name `t` themselves (see the example: the callee's parameter is called `t`).
    Covers every way `e` can run functions: calling bound / captured / just-created functions,
    `via` / `into` / `where`, `map` / `filter` / `reduce` / `every` / `some` / `sort_by` /
    `group_by` / `count_by` with lambda callbacks, nested function creation, assignments,
    do-blocks.

    Why "free names bound": an unbound free name of a lambda inside `e` is resolved late, in
    whatever chain the lambda is later called from (C04 `call_site_independent_statement_false`),
    so the value is not closed; weakening is still expected to hold then, but it is not covered
    by the closedness invariant.  The one everyday case of an unbound free name, the recursive
    definition `f = (n) => … f(n - 1) …`, is covered by `weakening_definition` below. -/
theorem weakening_closed (ops : NumOps) (fuel depth : Nat) (e : Expr) (k : Nat) (s : ES) (t : String)
    (w : Value) (ht : t ≠ "inputs") (hk : k < s.env.length) (hm : touches t e = false)
    (hw : noOutput e = true) (hE : ClosedE s.names s.env)
    (hfree : ∀ x, FreeIn x e → x = "inputs" ∨ (envGet s.env x).isSome) :
    eval ops fuel depth e (addT t w k s) =
      ((eval ops fuel depth e s).1, addT t w k (eval ops fuel depth e s).2) :=
  ((weak ops w ht fuel).eval depth e s.env.length k s (by omega) ⟨hk, hE⟩ hw hm (fok_of_bound hfree)).1

/-- not mentioned (as identifier, assignment target, parameter, shorthand key — the condition of
    `weakening_partial`) implies not touched -/
theorem not_mentioned_not_touched (t : String) (e : Expr) (h : mentions t e = false) : touches t e = false :=
  touches_of_mentions t e h

/-- the same for a whole `output` statement (`output x = e`, `output e`: the only place the
    grammar puts `output`) -/
theorem weakening_closed_output (ops : NumOps) (fuel depth : Nat) (e : Expr) (k : Nat) (s : ES) (t : String)
    (w : Value) (ht : t ≠ "inputs") (hk : k < s.env.length) (hm : touches t e = false)
    (hw : noOutput e = true) (hE : ClosedE s.names s.env)
    (hfree : ∀ x, FreeIn x e → x = "inputs" ∨ (envGet s.env x).isSome) :
    eval ops fuel depth (.output e) (addT t w k s) =
      ((eval ops fuel depth (.output e) s).1, addT t w k (eval ops fuel depth (.output e) s).2) := by
  cases fuel with
  | zero => simp [eval]
  | succ fuel =>
    rw [eval, eval]
    exact weakening_closed ops fuel depth e k s t w ht hk hm hw hE hfree

/-- and the invariant is kept (same hypotheses), so the theorem applies statement after
    statement with the same fresh name: the display names only grow, the final environment is
    closed w.r.t. them, and so is the value -/
theorem weakening_closed_keeps_closed (ops : NumOps) (fuel depth : Nat) (e : Expr) (s : ES) (t : String)
    (ht : t ≠ "inputs") (hne : s.env ≠ []) (hm : touches t e = false) (hw : noOutput e = true)
    (hE : ClosedE s.names s.env)
    (hfree : ∀ x, FreeIn x e → x = "inputs" ∨ (envGet s.env x).isSome) :
    NamesLe s.names (eval ops fuel depth e s).2.names ∧
      ClosedE (eval ops fuel depth e s).2.names (eval ops fuel depth e s).2.env ∧
      ∀ v, (eval ops fuel depth e s).1 = .ok v → ClosedV (eval ops fuel depth e s).2.names v := by
  have hk : 0 < s.env.length := List.length_pos_iff.mpr hne
  have h := ((weak ops .null ht fuel).eval depth e s.env.length 0 s hk ⟨hk, hE⟩ hw hm (fok_of_bound hfree)).2
  exact ⟨h.names, h.cl, h.val⟩

/-- spelled out for the innermost frame (as `weakening_partial_top`) -/
theorem weakening_closed_top (ops : NumOps) (fuel depth : Nat) (e : Expr) (s : ES) (f : Frame)
    (r : List Frame) (t : String) (w : Value) (hs : s.env = f :: r) (ht : t ≠ "inputs")
    (hm : touches t e = false) (hw : noOutput e = true) (hE : ClosedE s.names s.env)
    (hfree : ∀ x, FreeIn x e → x = "inputs" ∨ (envGet s.env x).isSome) :
    ∃ f', (eval ops fuel depth e s).2.env = f' :: r ∧
      eval ops fuel depth e { s with env := ((t, w) :: f) :: r } =
        ((eval ops fuel depth e s).1,
         { (eval ops fuel depth e s).2 with env := ((t, w) :: f') :: r }) := by
  have h := weakening_closed ops fuel depth e 0 s t w ht (by rw [hs]; simp) hm hw hE hfree
  have hb := (eval_topExt ops fuel depth e s).below
  have h0 : addT t w 0 s = { s with env := ((t, w) :: f) :: r } := by simp [addT, hs, addAt]
  rw [h0] at h
  rcases hb with he | ⟨f', he⟩
  · refine ⟨f, by rw [he, hs], ?_⟩
    rw [h]; simp [addT, he, hs, addAt]
  · refine ⟨f', by rw [he, hs]; rfl, ?_⟩
    rw [h]; simp [addT, he, hs, addAt]

/-- the same for argument lists, list items, record entries and the statements of a do-block -/
theorem weakening_closed_lists (ops : NumOps) (fuel depth : Nat) (k : Nat) (s : ES) (t : String) (w : Value)
    (ht : t ≠ "inputs") (hk : k < s.env.length) (hE : ClosedE s.names s.env) :
    (∀ es, touchesList t es = false → noOutputList es = true →
      (∀ x, FreeInList x es → x = "inputs" ∨ (envGet s.env x).isSome) →
      evalList ops fuel depth es (addT t w k s) =
        ((evalList ops fuel depth es s).1, addT t w k (evalList ops fuel depth es s).2)) ∧
    (∀ is, touchesItems t is = false → noOutputItems is = true →
      (∀ x, FreeInItems x is → x = "inputs" ∨ (envGet s.env x).isSome) →
      evalItems ops fuel depth is (addT t w k s) =
        ((evalItems ops fuel depth is s).1, addT t w k (evalItems ops fuel depth is s).2)) ∧
    (∀ es acc, touchesEntries t es = false → noOutputEntries es = true → ClosedR s.names acc →
      (∀ x, FreeInEntries x es → x = "inputs" ∨ (envGet s.env x).isSome) →
      evalEntries ops fuel depth es acc (addT t w k s) =
        ((evalEntries ops fuel depth es acc s).1, addT t w k (evalEntries ops fuel depth es acc s).2)) ∧
    (∀ stmts ret, touchesItems t stmts = false → touchesItem t ret = false →
      noOutputItems stmts = true → noOutputItem ret = true →
      (∀ x, FreeInDo x stmts ret → x = "inputs" ∨ (envGet s.env x).isSome) →
      evalDo ops fuel depth stmts ret (addT t w k s) =
        ((evalDo ops fuel depth stmts ret s).1, addT t w k (evalDo ops fuel depth stmts ret s).2)) :=
  have hn : 0 < s.env.length := by omega
  ⟨fun es hm hw hf => ((weak ops w ht fuel).evalList depth es _ k s hn ⟨hk, hE⟩ hw hm (fok_of_bound hf)).1,
   fun is hm hw hf => ((weak ops w ht fuel).evalItems depth is _ k s hn ⟨hk, hE⟩ hw hm (fok_of_bound hf)).1,
   fun es acc hm hw ha hf =>
     ((weak ops w ht fuel).evalEntries depth es acc _ k s hn ⟨hk, hE⟩ hw hm (fok_of_bound hf) ha).1,
   fun stmts ret h1 h2 h3 h4 hf =>
     ((weak ops w ht fuel).evalDo depth stmts ret _ k s hn ⟨hk, hE⟩ h3 h4 h1 h2 (fok_of_bound hf)).1⟩

/-- calling a closed function value with closed arguments: the caller's extra binding is not seen
    (the step `weakening_closed` delegates to C04's closed-coincidence invariant) -/
theorem weakening_call (ops : NumOps) (fuel : Nat) (fv this : Value) (args : List Value) (depth k : Nat)
    (s : ES) (t : String) (w : Value) (ht : t ≠ "inputs") (hE : ClosedE s.names s.env)
    (hf : ClosedV s.names fv) (hth : ClosedV s.names this) (ha : ClosedL s.names args) :
    callFn ops fuel fv this args depth (addT t w k s) =
      ((callFn ops fuel fv this args depth s).1, addT t w k (callFn ops fuel fv this args depth s).2) :=
  (callFn_addT ops w ht fuel fv this args depth k s hE hf hth ha).1

/-- the hypothesis "free names bound" can be checked by computation: the free names are the
    list `freeVars [] e` -/
theorem free_names_checkable (e : Expr) (P : String → Prop) (hw : noOutput e = true)
    (hall : ∀ x ∈ freeVars [] e, P x) : ∀ x, FreeIn x e → P x :=
  fun x hx => hall x ((freeVars_iff e [] x hw).mpr ⟨hx, by simp⟩)

/-- DEFINITIONS `f = (ps) => body` (recursive ones included: `f` itself may be free in `body`
    and unbound): creating a function evaluates nothing, so no condition on the environment or
    on the free names is needed, only that `t` is not the defined name and not free in the
    function -/
theorem weakening_definition (ops : NumOps) (fuel depth : Nat) (nm : String) (ps : List LArg) (body : Expr)
    (k : Nat) (s : ES) (t : String) (w : Value) (hk : k < s.env.length)
    (hm : touches t (.assign nm (.lambda ps body)) = false) :
    eval ops fuel depth (.assign nm (.lambda ps body)) (addT t w k s) =
      ((eval ops fuel depth (.assign nm (.lambda ps body)) s).1,
       addT t w k (eval ops fuel depth (.assign nm (.lambda ps body)) s).2) :=
  weak_definition ops w fuel depth nm ps body k s hk hm

/-! #### (5) evaluating an expression twice -/

/-- whatever `e` computes (calls included), if it makes no assignment to the current frame
    (`assignFree`: `.assign` only inside function bodies or do-blocks, whose frames are dropped)
    the second evaluation starts in exactly the environment the first one started in -/
theorem eval_twice_same_environment (ops : NumOps) (fuel depth : Nat) (e : Expr) (s : ES)
    (ha : assignFree e = true) : (eval ops fuel depth e s).2.env = s.env :=
  eval_env_same ops fuel depth e s ha

/-- EVALUATING TWICE.  In a well-formed state (`StateOk`, C03: every function cell in use and
    every named cell is below the cell counter — kept by evaluation, true initially), an
    expression without frame-level assignment whose evaluation allocates no function cell
    (`nextId` unchanged; in particular its value contains no newly created function) returns
    the state EXACTLY as it was, so evaluating it again is the same evaluation: same outcome,
    same state.  Any outcome, any fuel and call depth, calls of any kind included.

    NOT PROVED (too large for the time available): the general case where cells are allocated.
    Then the second evaluation draws different cell ids, so the two values are equal only up to
    the renaming `id ↦ id + (s1.nextId - s.nextId)` of the new cells; proving that needs a
    simulation "evaluation commutes with a monotone renaming of cell ids" through all fifteen
    functions of the evaluator and each of the ~80 built-ins in `callPure` (`veq` / `vcmp` /
    sorting / `unique` on values that contain function cells).  The two hypotheses below are
    needed for the literal statement, see the examples. -/
theorem eval_twice (ops : NumOps) (fuel depth : Nat) (e : Expr) (s : ES) (hs : StateOk s)
    (ha : assignFree e = true) (hid : (eval ops fuel depth e s).2.nextId = s.nextId) :
    (eval ops fuel depth e s).2 = s ∧
      eval ops fuel depth e (eval ops fuel depth e s).2 = eval ops fuel depth e s := by
  have h := eval_state_same ops fuel depth e s hs ha hid
  exact ⟨h, by rw [h]⟩

/-- in the form of the property text: first evaluation `(r, s1)`, no cell allocated; second
    evaluation from `s1`: `(r, s1)` again -/
theorem eval_twice_outcome (ops : NumOps) (fuel depth : Nat) (e : Expr) (s s1 : ES) (r : Outcome Value)
    (hs : StateOk s) (ha : assignFree e = true) (h : eval ops fuel depth e s = (r, s1))
    (hid : s1.nextId = s.nextId) : eval ops fuel depth e s1 = (r, s1) := by
  have h2 := eval_twice ops fuel depth e s hs ha (by rw [h]; exact hid)
  rw [h] at h2
  exact h2.2

/-! #### (6) let-abstraction -/

/-- LET-ABSTRACTION OF THE SUBEXPRESSION THAT IS EVALUATED FIRST.  `c : LCtx`
    (Lemmas/EvalWeakClosed.lean) is an expression with a hole that is evaluated first, exactly
    once and unconditionally: `□`, `op □`, `□!`, `□.f`, `□ op r`, `□[i]`, `if □ then a else b`,
    `x = □`, `□(args…)`, `fn(□, rest…)` with `fn` a built-in / identifier / literal
    (`simpleHeads`), `[□, rest…]`, nested in any way.  `c.plug e` fills the hole.

    In an environment of closed values, if the subexpression `e'` evaluates to `v` and leaves the
    state as it was (no assignment, no function cell: see `eval_twice`), and `t` is a fresh name
    (`C[e']` does not touch it, it is not `inputs` / `inf` / `infinity` / `constants`), then
    `C[t]` evaluated with `t ↦ v` bound in the innermost frame gives the same outcome as
    `C[e']`, and the same final state plus that binding.  `c.depth` is the fuel the context
    uses above the hole.

    Relation to the program `t = e'; C[t]`: the statement `t = e'` binds `t ↦ v` in the innermost
    frame and gives no display name (`e'` allocated no cell); the model keeps a frame as an
    association list and the statement puts the new pair at its end where `addT` puts it at the
    head — the real frame is a hash map, and no lookup depends on the position
    (`frame_lookup_perm`), but the two model states are not literally equal, which is why the
    theorem is stated with `addT`.

    NOT PROVED: holes in other positions (evaluated later, conditionally, or repeatedly).  There
    the subexpression is evaluated in a state that the rest of `C` has already changed, so one
    needs "the value of `e'` is stable under growth of the state", which is the simulation
    described at `eval_twice`. -/
theorem let_abstraction_leftmost (ops : NumOps) (fuel0 depth : Nat) (c : LCtx) (e' : Expr) (s : ES) (t : String)
    (v : Value) (ht : t ≠ "inputs") (hsp : t ∉ Gen.specialIdents) (hne : s.env ≠ [])
    (hE : ClosedE s.names s.env) (hc : c.simpleHeads = true) (hw : noOutput (c.plug e') = true)
    (hm : touches t (c.plug e') = false)
    (hfree : ∀ x, FreeIn x (c.plug e') → x = "inputs" ∨ (envGet s.env x).isSome)
    (h0 : eval ops fuel0 depth e' s = (.ok v, s)) :
    eval ops (fuel0 + c.depth) depth (c.plug (.ident t)) (addT t v 0 s) =
      ((eval ops (fuel0 + c.depth) depth (c.plug e') s).1,
       addT t v 0 (eval ops (fuel0 + c.depth) depth (c.plug e') s).2) :=
  have hk : 0 < s.env.length := List.length_pos_iff.mpr hne
  (let_abstraction_ctx ops ht hsp hk ⟨hk, hE⟩ h0 c hc hw hm (fok_of_bound hfree)).1

/-- the names a function captures are among the names its body mentions, so an unmentioned
    name is never captured (used in the function-creation case) -/
theorem free_names_are_mentioned (e : Expr) (bound : List String) (x : String)
    (h : x ∈ freeVars bound e) : mentions x e = true :=
  freeVars_mentions e bound x h

/-! #### examples -/

/-- hypotheses of `frame_lookup_perm` / `env_lookup_perm` -/
example : ([("a", Value.null), ("b", Value.bool true)].map Prod.fst).Nodup ∧
    [("a", Value.null), ("b", Value.bool true)].Perm [("b", Value.bool true), ("a", Value.null)] :=
  ⟨by decide, List.Perm.swap _ _ _⟩

/-- distinct keys are needed: with a duplicate key the order matters -/
example : lookupAL "a" [("a", Value.null), ("a", Value.bool true)] ≠
    lookupAL "a" [("a", Value.bool true), ("a", Value.null)] := by
  simp [lookupAL]

/-- hypothesis of `builtin_results_depend_only_on_args` -/
example : isHof "random" = false ∧ isHof "sqrt" = false ∧ isHof "map" = true := by decide

/-- hypotheses of `weakening_partial`: `y = do { u = x; return {u, v: (a) => a} }`, fresh name `z` -/
example : "z" ≠ "inputs" ∧ 0 < root0.env.length ∧
    mentions "z" (.assign "y" (.doBlock [it (.assign "u" (.ident "x"))]
      (it (.record [.mk [] (.short "u") (.ident "u") none,
                    .mk [] (.static "v") (.lambda [.req "a"] (.ident "a")) none])))) = false ∧
    callFree (.assign "y" (.doBlock [it (.assign "u" (.ident "x"))]
      (it (.record [.mk [] (.short "u") (.ident "u") none,
                    .mk [] (.static "v") (.lambda [.req "a"] (.ident "a")) none])))) = true := by
  decide

/-! ##### examples for (4b) -/

/- `C02Ex.exS` (Lemmas/EvalWeakClosed.lean): the environment `g = (t) => [t, y]` which captured
   `y ↦ 1` (C04's closed example function; NOTE its parameter is called `t`), and `a ↦ "arg"`.
   `C02Ex.exE`: `[g(a), map([a], (x) => g(x))]` — calls a captured closure, and the higher-order
   built-in `map` with a lambda callback that calls the closure again. -/

/-- hypotheses of `weakening_closed` for the fresh name `t` (the callee's own parameter name) -/
example : "t" ≠ "inputs" ∧ 0 < C02Ex.exS.env.length ∧ touches "t" C02Ex.exE = false ∧
    noOutput C02Ex.exE = true ∧ ClosedE C02Ex.exS.names C02Ex.exS.env ∧
    (∀ x, FreeIn x C02Ex.exE → x = "inputs" ∨ (envGet C02Ex.exS.env x).isSome) := by
  refine ⟨by decide, by decide, by decide, by decide, ?_,
    free_names_checkable C02Ex.exE _ (by decide) (by decide)⟩
  intro f hf
  simp only [C02Ex.exS, List.mem_singleton] at hf
  subst hf
  simp [ClosedR, C02Ex.exS, C04Ex.exG_closed]

/-- and the conclusion, computed on both sides: with `t ↦ false` added to the frame the result
    is still `[["arg", 1], [["arg", 1]]]` — inside `g` the name `t` is the parameter -/
example :
    (eval toyOps 20 0 C02Ex.exE C02Ex.exS).1 =
      .ok (.list [.list [.str "arg", .num F64.one], .list [.list [.str "arg", .num F64.one]]]) ∧
    (eval toyOps 20 0 C02Ex.exE (addT "t" (.bool false) 0 C02Ex.exS)).1 =
      .ok (.list [.list [.str "arg", .num F64.one], .list [.list [.str "arg", .num F64.one]]]) := by
  set_option linter.unusedSimpArgs false in
  constructor <;>
  simp +decide [C02Ex.exE, C02Ex.exS, addT, addAt, C04Ex.exG, callFn, callHof, mapCalls, eval, evalItems,
    evalList, it,
    checkArity, lambdaArity, Gen.Arity.canAccept, MAX_DEPTH, nameOf, bindParams, bindParams.go, envGet,
    lookupAL, insertAL, flattenSpreads, Value.isCallable, C04Ex.map_arity, isHof, arityOf, freeVars,
    freeVarsList, captureScope, LArg.name]

/-- the theorem applied to it (all hypotheses discharged) -/
example : eval toyOps 20 0 C02Ex.exE (addT "t" (.bool false) 0 C02Ex.exS) =
    ((eval toyOps 20 0 C02Ex.exE C02Ex.exS).1,
     addT "t" (.bool false) 0 (eval toyOps 20 0 C02Ex.exE C02Ex.exS).2) :=
  weakening_closed toyOps 20 0 C02Ex.exE 0 C02Ex.exS "t" (.bool false) (by decide) (by decide) (by decide)
    (by decide)
    (by intro f hf
        simp only [C02Ex.exS, List.mem_singleton] at hf
        subst hf
        simp [ClosedR, C02Ex.exS, C04Ex.exG_closed])
    (free_names_checkable C02Ex.exE _ (by decide) (by decide))

/-- "free names bound" is needed for the closedness invariant: `(x) => y` created where `y` is
    unbound is not a closed value -/
example : ¬ ClosedV [] (.lambda 1 [.req "x"] (.ident "y") []) := by
  rw [closedV_lambda]
  intro h
  have := h.1 "y" (.ident (by decide))
  simp +decide at this

/-- hypotheses of `weakening_definition`: `f = (n) => f(n)`, fresh name `z` -/
example : touches "z" (.assign "f" (.lambda [.req "n"] (.call (.ident "f") [.ident "n"]))) = false ∧
    0 < root0.env.length := by decide

/-- `touches` is weaker than `mentions`: `map([a], (t) => g(t))` mentions `t` (a parameter) but
    does not touch it, so `weakening_closed` applies to the fresh name `t` -/
example : mentions "t" (.call (.builtin "map") [.list [it (.ident "a")],
      .lambda [.req "t"] (.call (.ident "g") [.ident "t"])]) = true ∧
    touches "t" (.call (.builtin "map") [.list [it (.ident "a")],
      .lambda [.req "t"] (.call (.ident "g") [.ident "t"])]) = false := by decide

/-! ##### examples for (5) -/

/-- hypotheses of `eval_twice`: `g(a)` in the state of the example above allocates no cell -/
example : StateOk C02Ex.exS ∧ assignFree (.call (.ident "g") [.ident "a"]) = true ∧
    (eval toyOps 20 0 (.call (.ident "g") [.ident "a"]) C02Ex.exS).2.nextId = C02Ex.exS.nextId := by
  refine ⟨⟨by decide, by intro p hp; simp [C02Ex.exS] at hp⟩, by decide, ?_⟩
  simp +decide [C02Ex.exS, C04Ex.exG, callFn, eval, evalItems, evalList, it, checkArity, nameOf, bindParams,
    bindParams.go, envGet, lookupAL, insertAL, flattenSpreads]

/-- "no assignment" is needed: `x = 1` succeeds the first time and fails the second time -/
example : (eval toyOps 5 0 (.assign "x" (.num F64.one)) root0).1 = .ok (.num F64.one) ∧
    (eval toyOps 5 0 (.assign "x" (.num F64.one)) (eval toyOps 5 0 (.assign "x" (.num F64.one)) root0).2).1 =
      .err .alreadyDefined := by
  set_option linter.unusedSimpArgs false in
  constructor <;>
  simp +decide [eval, root0, alreadyDefined, envContains, envGet, lookupAL, insertAL, envInsert,
    setNameIfLambda, createdSince, isBuiltinIdent, Gen.assignKeywords]

/-- "allocates no cell" is needed for literal equality: `(a) => a` evaluated twice gives two
    function values that differ in their cell id -/
example : (eval toyOps 5 0 (.lambda [.req "a"] (.ident "a")) root0).1 =
      .ok (.lambda 1 [.req "a"] (.ident "a") []) ∧
    (eval toyOps 5 0 (.lambda [.req "a"] (.ident "a"))
      (eval toyOps 5 0 (.lambda [.req "a"] (.ident "a")) root0).2).1 =
      .ok (.lambda 2 [.req "a"] (.ident "a") []) := by
  constructor <;> simp +decide [eval, root0, freeVars, captureScope]

/-! ##### example for (6) -/

/-- `map(□, (x) => g(x))` with `□ := [a]`, abstracted as `t`: hypotheses of
    `let_abstraction_leftmost` in the example state (`g` is the closed function above) -/
example :
    let c : LCtx := .callArg (.builtin "map") .hole [.lambda [.req "x"] (.call (.ident "g") [.ident "x"])]
    let e' : Expr := .list [it (.ident "a")]
    c.plug e' = .call (.builtin "map") [.list [it (.ident "a")],
        .lambda [.req "x"] (.call (.ident "g") [.ident "x"])] ∧
      c.plug (.ident "t") = .call (.builtin "map") [.ident "t",
        .lambda [.req "x"] (.call (.ident "g") [.ident "x"])] ∧
      c.depth = 2 ∧ c.simpleHeads = true ∧ "t" ∉ Gen.specialIdents ∧
      noOutput (c.plug e') = true ∧ touches "t" (c.plug e') = false ∧
      (∀ x, FreeIn x (c.plug e') → x = "inputs" ∨ (envGet C02Ex.exS.env x).isSome) ∧
      eval toyOps 5 0 e' C02Ex.exS = (.ok (.list [.str "arg"]), C02Ex.exS) := by
  refine ⟨rfl, rfl, rfl, by decide, by decide, by decide, by decide,
    free_names_checkable _ _ (by decide) (by decide), ?_⟩
  simp +decide [C02Ex.exS, eval, evalItems, it, envGet, lookupAL, flattenSpreads]

/-- and both sides computed: `[["arg", 1]]` -/
example :
    (eval toyOps 20 0 (.call (.builtin "map") [.list [it (.ident "a")],
        .lambda [.req "x"] (.call (.ident "g") [.ident "x"])]) C02Ex.exS).1 =
      .ok (.list [.list [.str "arg", .num F64.one]]) ∧
    (eval toyOps 20 0 (.call (.builtin "map") [.ident "t",
        .lambda [.req "x"] (.call (.ident "g") [.ident "x"])])
      (addT "t" (.list [.str "arg"]) 0 C02Ex.exS)).1 = .ok (.list [.list [.str "arg", .num F64.one]]) := by
  set_option linter.unusedSimpArgs false in
  constructor <;>
  simp +decide [C02Ex.exS, addT, addAt, C04Ex.exG, callFn, callHof, mapCalls, eval, evalItems, evalList, it,
    checkArity, lambdaArity, Gen.Arity.canAccept, MAX_DEPTH, nameOf, bindParams, bindParams.go, envGet,
    lookupAL, insertAL, flattenSpreads, Value.isCallable, C04Ex.map_arity, isHof, arityOf, freeVars,
    freeVarsList, captureScope, LArg.name]

/-- the condition "not mentioned" matters: binding the name `x` that `e` reads changes the outcome -/
example : (eval toyOps 2 0 (.ident "x") root0).1 = .err .unknownIdent ∧
    (eval toyOps 2 0 (.ident "x") (addT "x" .null 0 root0)).1 = .ok .null := by
  constructor <;> simp +decide [eval, root0, addT, addAt, envGet, lookupAL]

end Blots.C02
