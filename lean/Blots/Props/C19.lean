import Blots.Model.Cli
import Blots.Lemmas.Json
import Blots.Props.C06
/-
  C19 — CLI contract: exit status, outputs object, input merging, `#name`.

  Statements only (helper lemmas: `Blots/Lemmas/Json.lean`).  The model is
  `Blots/Model/Cli.lean`: the statement loop of `evaluate_source` over the driver's
  observations (`Event`) of an ABSTRACT evaluator, and `Blots/Model/Json.lean` for the
  input merge.  A statement "parsed and evaluated successfully" = `Event.succeeded`
  (for `output f` of a function this includes the portability check, whose failure the CLI
  reports as `[output error]`).

  Not modelled (observed by the harness on the real binary): clap's argument parsing,
  file / inline / `-e` source selection, the `--output` file, the error text.
-/
namespace Blots.C19

/-! #### exit status and the outputs object -/

/-- exit status 0 ⇔ every statement succeeded -/
theorem exit_zero_iff_all_succeeded (outs : Outputs) (evs : List Event) :
    (runEvents outs evs).exit = 0 ↔ ∀ e ∈ evs, e.succeeded = true := by
  constructor
  · intro h e he
    cases hs : e.succeeded with
    | true => rfl
    | false => exact absurd h (runEvents_failed evs outs ⟨e, he, hs⟩).1
  · intro h; rw [runEvents_all_ok evs outs h]

/-- an outputs object is emitted ⇔ the exit status is 0 (and then it is exactly one: the
    result type holds at most one) -/
theorem object_iff_exit_zero (outs : Outputs) (evs : List Event) :
    (runEvents outs evs).object.isSome = true ↔ (runEvents outs evs).exit = 0 := by
  cases hall : evs.all Event.succeeded with
  | true =>
    have h : ∀ e ∈ evs, e.succeeded = true := by simpa [List.all_eq_true] using hall
    rw [runEvents_all_ok evs outs h]; simp
  | false =>
    have h : ∃ e ∈ evs, e.succeeded = false := by simpa [List.all_eq_false] using hall
    have := runEvents_failed evs outs h
    simp [this.1, this.2]

/-- first failing statement ⇒ non-zero exit and NO outputs object -/
theorem no_object_on_failure (outs : Outputs) (evs : List Event) (h : ∃ e ∈ evs, e.succeeded = false) :
    (runEvents outs evs).exit ≠ 0 ∧ (runEvents outs evs).object = none :=
  runEvents_failed evs outs h

/-- on success the object is the `IndexMap` of the entries stored by the `output`
    statements, each serialised by `to_json` -/
theorem object_on_success (evs : List Event) (h : ∀ e ∈ evs, e.succeeded = true) :
    runEvents [] evs = ⟨0, some (writeOutputs (insertAll [] (evs.filterMap Event.stored)))⟩ := by
  rw [runEvents_all_ok evs [] h, foldl_storeEvent]

example : (runEvents [] [.expr (.ok .null), .outAssign "a" (.ok (.num F64.one)) true, .comment,
    .outIdent "a" (.ok (.num F64.one)) (some (.num F64.one)) true]).exit = 0 := by decide

example : (runEvents [] [.outAssign "a" (.ok (.num F64.one)) true, .expr (.err .unknownIdent)]).exit = 1 := by
  decide

/-- the keys of the object are the stored output names in order of FIRST declaration
    (`IndexMap::insert` keeps the position of an existing key) -/
theorem keys_in_first_declaration_order (evs : List Event) (h : ∀ e ∈ evs, e.succeeded = true) :
    ∃ obj, (runEvents [] evs).object = some obj ∧
      obj.map Prod.fst = firstOccurrences ((evs.filterMap Event.stored).map Prod.fst) := by
  refine ⟨_, by rw [object_on_success evs h], ?_⟩
  simp only [writeOutputs, List.map_map]
  have := keys_insertAll (evs.filterMap Event.stored) ([] : Outputs)
  simpa [firstOccurrences, Function.comp_def] using this

/-- each key holds the serialisation of the value stored by the LAST declaration of that
    name.  (In the real language a name is bound once and never re-bound, so every
    declaration of one name — only `output n` can be repeated; `output n = e` twice is an
    "already defined" error — stores the same value: "the value at its declaration".) -/
theorem value_is_the_stored_one (evs : List Event) (h : ∀ e ∈ evs, e.succeeded = true) (k : String) :
    ∃ obj, (runEvents [] evs).object = some obj ∧
      lookupAL k obj = (lookupLast k (evs.filterMap Event.stored)).map toJson := by
  refine ⟨_, by rw [object_on_success evs h], ?_⟩
  have h1 : writeOutputs (insertAll [] (evs.filterMap Event.stored)) =
      mapVals toJson (insertAll [] (evs.filterMap Event.stored)) := rfl
  rw [h1, lookupAL_mapVals, lookupAL_insertAll]
  simp [lookupAL]

/-- later statements cannot change an emitted value: the object stores serialised trees -/
theorem later_statements_do_not_change (evs later : List Event)
    (h : ∀ e ∈ evs ++ later, e.succeeded = true) (k : String)
    (hk : ∀ e ∈ later, e.declaredName ≠ some k) :
    ∃ o1 o2, (runEvents [] evs).object = some o1 ∧ (runEvents [] (evs ++ later)).object = some o2 ∧
      lookupAL k o2 = lookupAL k o1 := by
  have h1 : ∀ e ∈ evs, e.succeeded = true := fun e he => h e (List.mem_append_left _ he)
  obtain ⟨o1, ho1, hl1⟩ := value_is_the_stored_one evs h1 k
  obtain ⟨o2, ho2, hl2⟩ := value_is_the_stored_one (evs ++ later) h k
  refine ⟨o1, o2, ho1, ho2, ?_⟩
  rw [hl1, hl2, List.filterMap_append, lookupLast_append]
  have : lookupLast k (later.filterMap Event.stored) = none := by
    cases hl : lookupLast k (later.filterMap Event.stored) with
    | none => rfl
    | some sv =>
      exfalso
      have hm := lookupLast_mem hl
      obtain ⟨e, he, hes⟩ := List.mem_filterMap.mp hm
      apply hk e he
      cases e with
      | expr r => simp [Event.stored, Event.declaredValue] at hes
      | comment => simp [Event.stored, Event.declaredValue] at hes
      | outIdent n r b p =>
        cases b with
        | none => simp [Event.stored, Event.declaredValue] at hes
        | some v =>
          simp only [Event.stored, Event.declaredValue] at hes
          cases hf : fromValue v <;> simp [hf] at hes
          simp [Event.declaredName, hes.1]
      | outAssign n r p =>
        cases r with
        | ok v =>
          simp only [Event.stored, Event.declaredValue] at hes
          cases hf : fromValue v <;> simp [hf] at hes
          simp [Event.declaredName, hes.1]
        | _ => simp [Event.stored, Event.declaredValue] at hes
  rw [this]; simp

/-! #### "keys = the names declared with `output`" — false as stated -/

/-- full-strength reading: every successfully executed `output` statement contributes its
    name -/
def keys_are_declared_names_statement : Prop :=
  ∀ evs : List Event, (∀ e ∈ evs, e.succeeded = true) →
    ∃ obj, (runEvents [] evs).object = some obj ∧
      obj.map Prod.fst = firstOccurrences (evs.filterMap Event.declaredName)

/-- `output map` (a built-in: evaluates, but `bindings.get("map")` is `None`) succeeds, exits
    0, and is silently left out of the object.  Same for `output inf`, `output constants`. -/
theorem keys_are_declared_names_false : ¬ keys_are_declared_names_statement := by
  intro h
  obtain ⟨obj, h1, h2⟩ := h [.outIdent "map" (.ok (.builtin "map")) none true] (by decide)
  have : obj = [] := by
    have h3 : (runEvents [] [.outIdent "map" (.ok (.builtin "map")) none true]).object = some [] := rfl
    rw [h3] at h1; cases h1; rfl
  subst this
  revert h2; decide

/-- it holds when every `output` names a bound variable whose value can be serialised -/
theorem keys_are_declared_names_partial (evs : List Event) (h : ∀ e ∈ evs, e.succeeded = true)
    (hb : ∀ e ∈ evs, e.declaredName.isSome = true → e.stored.isSome = true) :
    ∃ obj, (runEvents [] evs).object = some obj ∧
      obj.map Prod.fst = firstOccurrences (evs.filterMap Event.declaredName) := by
  obtain ⟨obj, h1, h2⟩ := keys_in_first_declaration_order evs h
  exact ⟨obj, h1, by rw [h2, stored_names_of_all_stored evs hb]⟩

example : ∀ e ∈ [Event.outAssign "a" (.ok (.num F64.one)) true, .expr (.ok .null),
      .outIdent "a" (.ok (.num F64.one)) (some (.num F64.one)) true],
    e.succeeded = true ∧ (e.declaredName.isSome = true → e.stored.isSome = true) := by
  decide

/-! #### "each holding the value the name had" — false for non-finite numbers -/

/-- full-strength reading for a single declaration of a data value: the emitted member
    reads back as a value `.==` to the declared one -/
def emitted_value_is_declared_value_statement : Prop :=
  ∀ (pf : ParseFn) (pb : ParseBody) (n : String) (v : Value), isData v = true →
    ∃ j w, (runEvents [] [.outAssign n (.ok v) true]).object = some [(n, j)] ∧
      readJson pf pb j = .ok w ∧ veq w v = true

/-- `output a = inf` emits `{"a":0}` -/
theorem emitted_value_is_declared_value_false : ¬ emitted_value_is_declared_value_statement := by
  intro h
  obtain ⟨j, w, h1, h2, h3⟩ := h (fun _ => none) (fun _ => none) "a" (.num F64.inf) (by decide)
  have hobj : (runEvents [] [.outAssign "a" (.ok (.num F64.inf)) true]).object =
      some [("a", .num F64.zero)] := by
    simp [runEvents, stepEvent, declare, fromValue, insertAL, writeOutputs, C06.nonfinite_written_as_zero.1]
  rw [hobj] at h1
  simp only [Option.some.injEq, List.cons.injEq, Prod.mk.injEq, true_and, and_true] at h1
  subst h1
  simp only [readJson, Json.norm, fromJson, toValue, Outcome.ok.injEq] at h2
  subst h2
  revert h3; decide

/-- it holds for finite data without function-shaped records (C06) -/
theorem emitted_value_is_declared_value_partial (pf : ParseFn) (pb : ParseBody) (n : String) (v : Value)
    (hd : isData v = true) (sv : SV) (hsv : fromValue v = .ok sv) (hf : sv.finite = true)
    (hn : sv.noFn pf = true) :
    ∃ j w, (runEvents [] [.outAssign n (.ok v) true]).object = some [(n, j)] ∧
      readJson pf pb j = .ok w ∧ veq w v = true := by
  obtain ⟨j, w, h1, h2, h3⟩ := C06.data_roundtrip pf pb v hd sv hsv hf hn
  refine ⟨j, w, ?_, h2, h3⟩
  simp only [writeJson, hsv, Outcome.ok.injEq] at h1
  subst h1
  simp [runEvents, stepEvent, declare, hsv, insertAL, writeOutputs]

/-! #### the loop over an abstract evaluator; parse and input errors -/

/-- running the statements with any evaluator is the event machine on its observations -/
theorem run_is_event_machine {Env Code} (ev : Evaluator Env Code) (env : Env) (stmts : List (Stmt Code)) :
    runStmts ev env [] stmts = runEvents [] (trace ev env stmts) :=
  runStmts_eq_runEvents ev stmts env []

/-- the whole CLI: exit 0 ⇔ every input is JSON, the source parsed, and every statement
    succeeded; and exactly then an object is emitted -/
theorem cli_exit_zero_iff {Env Code} (ev : Evaluator Env Code) (pf : ParseFn) (pb : ParseBody)
    (mkEnv : List (String × Value) → Env) (sources : List (Option Json))
    (program : Option (List (Stmt Code))) :
    ((cliRun ev pf pb mkEnv sources program).exit = 0 ↔
      ∃ docs stmts, sources.mapM id = some docs ∧ program = some stmts ∧
        ∀ e ∈ trace ev (mkEnv (mergeFrom pf pb 0 [] docs)) stmts, e.succeeded = true) ∧
    ((cliRun ev pf pb mkEnv sources program).object.isSome = true ↔
      (cliRun ev pf pb mkEnv sources program).exit = 0) := by
  unfold cliRun
  cases hs : sources.mapM id with
  | none => simp
  | some docs =>
    cases program with
    | none => simp
    | some stmts =>
      simp only [run_is_event_machine, exit_zero_iff_all_succeeded, object_iff_exit_zero,
        Option.some.injEq, exists_and_left, exists_eq_left', and_true]

/-- a parse error anywhere in the source: exit 1 before any statement runs, no object -/
theorem parse_error_runs_nothing {Env Code} (ev : Evaluator Env Code) (pf : ParseFn) (pb : ParseBody)
    (mkEnv : List (String × Value) → Env) (sources : List (Option Json)) :
    (cliRun ev pf pb mkEnv sources none).exit ≠ 0 ∧ (cliRun ev pf pb mkEnv sources none).object = none := by
  unfold cliRun
  cases sources.mapM id <;> simp

/-! #### input merging -/

/-- the merged inputs are the `IndexMap` of all entries of all sources, stdin first, then
    the `--input` flags left to right -/
theorem merge_is_insertion_in_order (pf : ParseFn) (pb : ParseBody) (stdin : Option Json) (flags : List Json) :
    mergeInputs pf pb stdin flags = insertAll [] (entriesFrom pf pb 0 (stdin.toList ++ flags)) :=
  mergeFrom_eq pf pb _ 0 []

/-- later overrides earlier: after one more source, a key reads as that source's value if
    the source defines it, and as before otherwise -/
theorem later_source_overrides (pf : ParseFn) (pb : ParseBody) (docs : List Json) (d : Json) (k : String) :
    lookupAL k (mergeFrom pf pb 0 [] (docs ++ [d])) =
      (lookupLast k (sourceEntries pf pb (counterAfter pf pb 0 docs) d.norm).1).or
        (lookupAL k (mergeFrom pf pb 0 [] docs)) := by
  rw [mergeFrom_eq, mergeFrom_eq, entriesFrom_append, insertAll_append, lookupAL_insertAll]
  simp [entriesFrom]

/-- hence a key holds the value from the LAST source that defines it -/
theorem merged_value_is_last_definition (pf : ParseFn) (pb : ParseBody) (stdin : Option Json)
    (flags : List Json) (k : String) :
    lookupAL k (mergeInputs pf pb stdin flags) =
      lookupLast k (entriesFrom pf pb 0 (stdin.toList ++ flags)) := by
  rw [merge_is_insertion_in_order, lookupAL_insertAll]; simp [lookupAL]

/-- keys appear in order of first appearance across the sources -/
theorem merged_key_order (pf : ParseFn) (pb : ParseBody) (stdin : Option Json) (flags : List Json) :
    (mergeInputs pf pb stdin flags).map Prod.fst =
      firstOccurrences ((entriesFrom pf pb 0 (stdin.toList ++ flags)).map Prod.fst) := by
  rw [merge_is_insertion_in_order, keys_insertAll]; rfl

/-- a non-object source that converts is stored under `value_<c+1>` where `c` is the
    number of such sources before it (stdin and flags counted together, in order); object
    sources do not consume numbers -/
theorem unnamed_numbering (pf : ParseFn) (pb : ParseBody) (before : List Json) (d : Json) (v : Value)
    (hno : d.isObj = false) (hv : readJson pf pb d = .ok v) :
    sourceEntries pf pb (counterAfter pf pb 0 before) d.norm =
      ([(unnamedKey ((before.filter (unnamedSource pf pb)).length + 1), v)],
       (before.filter (unnamedSource pf pb)).length + 1) := by
  rw [counterAfter_eq]
  unfold readJson at hv
  have h1 := norm_isObj d
  rw [hno] at h1
  cases hd : d.norm with
  | obj ms => rw [hd] at h1; cases h1
  | _ => rw [hd] at hv; simp [sourceEntries, hv]

theorem object_source_keeps_counter (pf : ParseFn) (pb : ParseBody) (c : Nat) (ms : List (String × Json)) :
    (sourceEntries pf pb c (Json.obj ms).norm).2 = c := rfl

/-- the numbering starts at 1 and counts across stdin and flags -/
example : (mergeInputs (fun _ => none) (fun _ => none) (some (.num F64.one))
    [.obj [("q", .null)], .str "s"]).map Prod.fst = ["value_1", "q", "value_2"] := by decide

/-- an unnamed value can be overridden by a later object that has a key `value_k` -/
theorem unnamed_value_can_be_overridden :
    (lookupAL "value_1" (mergeInputs (fun _ => none) (fun _ => none) none
      [.num F64.one, .obj [("value_1", .bool true)]])).map (veq (.bool true)) = some true := by decide

/-! #### `#name` is `inputs.name` -/

/-- both forms look `inputs` up in the same environment and read the same member, absent
    ↦ null; both fail when `inputs` is unbound or not a record.  (Only the error text
    differs.)  Because both go through `bindings.get("inputs")`, a parameter or local
    called `inputs` shadows the CLI inputs for both alike. -/
theorem hash_name_eq_inputs_name (inputsBinding : Option Value) (name : String) :
    (evalInputRef inputsBinding name).isOk = (evalDotAccess (evalInputsIdent inputsBinding) name).isOk ∧
    ∀ v, evalInputRef inputsBinding name = .ok v ↔
      evalDotAccess (evalInputsIdent inputsBinding) name = .ok v := by
  cases inputsBinding with
  | none => simp [evalInputRef, evalInputsIdent, evalDotAccess, Outcome.isOk]
  | some b => cases b <;> simp [evalInputRef, evalInputsIdent, evalDotAccess, Outcome.isOk]

theorem hash_name_absent_is_null (r : List (String × Value)) (name : String) (h : lookupAL name r = none) :
    evalInputRef (some (.record r)) name = .ok .null ∧
    evalDotAccess (evalInputsIdent (some (.record r))) name = .ok .null := by
  simp [evalInputRef, evalInputsIdent, evalDotAccess, h]

theorem hash_name_fails_without_record_inputs (name : String) :
    (evalInputRef none name).isOk = false ∧ (evalInputRef (some (.num F64.one)) name).isOk = false := by
  simp [evalInputRef, Outcome.isOk]

end Blots.C19
