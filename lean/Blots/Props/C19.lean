import Blots.Model.Cli
import Blots.Lemmas.Json
import Blots.Props.C06
/-
  C19 — CLI contract: exit status, outputs object, input merging, `#name`.

  Statements only (helper lemmas: `Blots/Lemmas/Json.lean`).  The model is
  `Blots/Model/Cli.lean`: the statement loop of `evaluate_source` over the driver's
  observations (`Event`) of an ABSTRACT evaluator, and `Blots/Model/Json.lean` for the
  input merge.  A statement "parsed and evaluated successfully" = `Event.succeeded`
  (for an `output` this includes the two checks whose failure the CLI reports as
  `[output error]`: a function must be portable, the value must not contain NaN / ±inf).
  The model follows /repo after the fixes b646a47 (`output n` of a name that evaluates
  without being bound emits the evaluated value) and afa129b (non-finite output = error).

  Not modelled (observed by the harness on the real binary): clap's argument parsing,
  file / inline / `-e` source selection, the `--output` file, the error text.
-/
namespace Blots.C19

/-! #### exit status and the outputs object -/

/-- exit status 0 ⇔ every statement succeeded -/
theorem exit_zero_iff_all_succeeded (outs : Outputs) (evs : List Event) :
    (runEvents outs evs).exit = 0 ↔ ∀ e ∈ evs, e.succeeded = true := by
  constructor
  · intro h e he
    cases hs : e.succeeded with
    | true => rfl
    | false => exact absurd h (runEvents_failed evs outs ⟨e, he, hs⟩).1
  · intro h; rw [runEvents_all_ok evs outs h]

/-- an outputs object is emitted ⇔ the exit status is 0 (and then it is exactly one: the
    result type holds at most one) -/
theorem object_iff_exit_zero (outs : Outputs) (evs : List Event) :
    (runEvents outs evs).object.isSome = true ↔ (runEvents outs evs).exit = 0 := by
  cases hall : evs.all Event.succeeded with
  | true =>
    have h : ∀ e ∈ evs, e.succeeded = true := by simpa [List.all_eq_true] using hall
    rw [runEvents_all_ok evs outs h]; simp
  | false =>
    have h : ∃ e ∈ evs, e.succeeded = false := by simpa [List.all_eq_false] using hall
    have := runEvents_failed evs outs h
    simp [this.1, this.2]

/-- first failing statement ⇒ non-zero exit and NO outputs object -/
theorem no_object_on_failure (outs : Outputs) (evs : List Event) (h : ∃ e ∈ evs, e.succeeded = false) :
    (runEvents outs evs).exit ≠ 0 ∧ (runEvents outs evs).object = none :=
  runEvents_failed evs outs h

/-- on success the object is the `IndexMap` of the entries stored by the `output`
    statements, each serialised by `to_json` -/
theorem object_on_success (evs : List Event) (h : ∀ e ∈ evs, e.succeeded = true) :
    runEvents [] evs = ⟨0, some (writeOutputs (insertAll [] (evs.filterMap Event.stored)))⟩ := by
  rw [runEvents_all_ok evs [] h, foldl_storeEvent]

example : (runEvents [] [.expr (.ok .null), .outAssign "a" (.ok (.num F64.one)) true, .comment,
    .outIdent "a" (.ok (.num F64.one)) (some (.num F64.one)) true]).exit = 0 := by decide

example : (runEvents [] [.outAssign "a" (.ok (.num F64.one)) true, .expr (.err .unknownIdent)]).exit = 1 := by
  decide

/-- the keys of the object are the stored output names in order of FIRST declaration
    (`IndexMap::insert` keeps the position of an existing key) -/
theorem keys_in_first_declaration_order (evs : List Event) (h : ∀ e ∈ evs, e.succeeded = true) :
    ∃ obj, (runEvents [] evs).object = some obj ∧
      obj.map Prod.fst = firstOccurrences ((evs.filterMap Event.stored).map Prod.fst) := by
  refine ⟨_, by rw [object_on_success evs h], ?_⟩
  simp only [writeOutputs, List.map_map]
  have := keys_insertAll (evs.filterMap Event.stored) ([] : Outputs)
  simpa [firstOccurrences, Function.comp_def] using this

/-- each key holds the serialisation of the value stored by the LAST declaration of that
    name.  (In the real language a name is bound once and never re-bound, so every
    declaration of one name — only `output n` can be repeated; `output n = e` twice is an
    "already defined" error — stores the same value: "the value at its declaration".) -/
theorem value_is_the_stored_one (evs : List Event) (h : ∀ e ∈ evs, e.succeeded = true) (k : String) :
    ∃ obj, (runEvents [] evs).object = some obj ∧
      lookupAL k obj = (lookupLast k (evs.filterMap Event.stored)).map toJson := by
  refine ⟨_, by rw [object_on_success evs h], ?_⟩
  have h1 : writeOutputs (insertAll [] (evs.filterMap Event.stored)) =
      mapVals toJson (insertAll [] (evs.filterMap Event.stored)) := rfl
  rw [h1, lookupAL_mapVals, lookupAL_insertAll]
  simp [lookupAL]

/-- later statements cannot change an emitted value: the object stores serialised trees -/
theorem later_statements_do_not_change (evs later : List Event)
    (h : ∀ e ∈ evs ++ later, e.succeeded = true) (k : String)
    (hk : ∀ e ∈ later, e.declaredName ≠ some k) :
    ∃ o1 o2, (runEvents [] evs).object = some o1 ∧ (runEvents [] (evs ++ later)).object = some o2 ∧
      lookupAL k o2 = lookupAL k o1 := by
  have h1 : ∀ e ∈ evs, e.succeeded = true := fun e he => h e (List.mem_append_left _ he)
  obtain ⟨o1, ho1, hl1⟩ := value_is_the_stored_one evs h1 k
  obtain ⟨o2, ho2, hl2⟩ := value_is_the_stored_one (evs ++ later) h k
  refine ⟨o1, o2, ho1, ho2, ?_⟩
  rw [hl1, hl2, List.filterMap_append, lookupLast_append]
  have : lookupLast k (later.filterMap Event.stored) = none := by
    cases hl : lookupLast k (later.filterMap Event.stored) with
    | none => rfl
    | some sv =>
      exfalso
      have hm := lookupLast_mem hl
      obtain ⟨e, he, hes⟩ := List.mem_filterMap.mp hm
      exact hk e he (stored_name hes)
  rw [this]; simp

/-! #### keys = the names declared with `output` -/

/-- Every successfully executed `output` statement contributes its name: the keys of the
    object are the declared names in order of first declaration.  The hypothesis `hser`
    only excludes values that `to_serializable_value` refuses (spread values — never the
    value of a statement in the real evaluator); such an output would be skipped silently,
    see `unserialisable_output_is_skipped`. -/
theorem keys_are_declared_names (evs : List Event) (h : ∀ e ∈ evs, e.succeeded = true)
    (hser : ∀ e ∈ evs, ∀ v, e.declared = some v → (fromValue v).isOk = true) :
    ∃ obj, (runEvents [] evs).object = some obj ∧
      obj.map Prod.fst = firstOccurrences (evs.filterMap Event.declaredName) := by
  obtain ⟨obj, h1, h2⟩ := keys_in_first_declaration_order evs h
  refine ⟨obj, h1, ?_⟩
  rw [h2, stored_names_of_all_stored evs (fun e he hn => stored_of_succeeded (hser e he) (h e he) hn)]

/-- `output map` (a built-in: evaluates, but `bindings.get("map")` is `None`) is emitted with
    the value the identifier evaluated to — likewise `output constants`.  (Before commit
    b646a47 such names were silently left out.) -/
theorem unbound_name_outputs_evaluated_value :
    (runEvents [] [.outIdent "map" (.ok (.builtin "map")) none true]).exit = 0 ∧
    (runEvents [] [.outIdent "map" (.ok (.builtin "map")) none true]).object =
      some [("map", .obj [("__blots_function", .str "map")])] := by
  constructor <;> rfl

/-- the only way a successful `output` leaves no key: the value cannot be serialised -/
theorem unserialisable_output_is_skipped :
    (runEvents [] [.outAssign "a" (.ok (.spread .null)) true]).exit = 0 ∧
    (runEvents [] [.outAssign "a" (.ok (.spread .null)) true]).object = some [] := by
  constructor <;> rfl

example : ∀ e ∈ [Event.outAssign "a" (.ok (.num F64.one)) true, .expr (.ok .null),
      .outIdent "map" (.ok (.builtin "map")) none true,
      .outIdent "a" (.ok (.num F64.one)) (some (.num F64.one)) true],
    e.succeeded = true ∧ (∀ v, e.declared = some v → (fromValue v).isOk = true) := by
  intro e he
  simp only [List.mem_cons, List.mem_nil_iff, or_false] at he
  rcases he with rfl | rfl | rfl | rfl
  · exact ⟨by decide, by intro v hv; cases hv; rfl⟩
  · exact ⟨by decide, by intro v hv; cases hv⟩
  · exact ⟨by decide, by intro v hv; cases hv; rfl⟩
  · exact ⟨by decide, by intro v hv; cases hv; rfl⟩

/-! #### each key holds the value the name had; non-finite numbers are refused -/

/-- An output whose serialised value contains NaN or ±inf anywhere in numbers, lists or
    records is an error: non-zero exit and NO outputs object (JSON cannot denote such a
    number; before commit afa129b it was written as `0`). -/
theorem nonfinite_output_is_error (outs : Outputs) (evs : List Event) (e : Event) (he : e ∈ evs)
    (v : Value) (sv : SV) (hd : e.declared = some v) (hsv : fromValue v = .ok sv)
    (hnf : sv.finite = false) :
    (runEvents outs evs).exit ≠ 0 ∧ (runEvents outs evs).object = none := by
  apply runEvents_failed evs outs
  refine ⟨e, he, ?_⟩
  have hw : writable v = false := by simp [writable, hsv, hnf]
  cases e with
  | expr r => simp [Event.declared] at hd
  | comment => simp [Event.declared] at hd
  | outIdent n r b p => simp [Event.succeeded, hd, hw]
  | outAssign n r p => simp [Event.succeeded, hd, hw]

example : (runEvents [] [.outAssign "a" (.ok (.list [.num F64.one, .num F64.inf])) true]).exit = 1 ∧
    (runEvents [] [.outIdent "inf" (.ok (.num F64.inf)) none true]).exit = 1 := by decide

/-- A successful `output n = e` of a data value emits, under `n`, a tree that reads back
    as a value `.==` to the declared one.  Success already implies that every number is
    finite; `hn` is the exclusion clause of C06 (a record shaped like a function object
    denotes a function when read back). -/
theorem emitted_value_is_declared_value (pf : ParseFn) (pb : ParseBody) (n : String) (v : Value)
    (hd : isData v = true) (hs : (Event.outAssign n (.ok v) true).succeeded = true)
    (sv : SV) (hsv : fromValue v = .ok sv) (hn : sv.noFn pf = true) :
    ∃ j w, (runEvents [] [.outAssign n (.ok v) true]).object = some [(n, j)] ∧
      readJson pf pb j = .ok w ∧ veq w v = true := by
  have hf : sv.finite = true := by
    simpa [Event.succeeded, Event.declared, Outcome.isOk, writable, hsv] using hs
  obtain ⟨j, w, h1, h2, h3⟩ := C06.data_roundtrip pf pb v hd sv hsv hf hn
  refine ⟨j, w, ?_, h2, h3⟩
  simp only [writeJson, hsv, Outcome.ok.injEq] at h1
  subst h1
  have hw : writable v = true := by simp [writable, hsv, hf]
  simp [runEvents, stepEvent, stepOutput, Event.declared, Outcome.isOk, hw, declare, hsv, insertAL,
    writeOutputs]

/-- in general: whatever is stored is finite, so `to_json` writes it without loss (the
    `non-finite ↦ 0` rule of `to_json` is unreachable from the CLI's outputs) -/
theorem stored_values_are_finite (e : Event) (hs : e.succeeded = true) (n : String) (sv : SV)
    (hst : e.stored = some (n, sv)) : sv.finite = true := by
  unfold Event.stored Event.declaredValue at hst
  cases hn : e.declaredName with
  | none => simp [hn] at hst
  | some m =>
    cases hd : e.declared with
    | none => simp [hn, hd] at hst
    | some v =>
      simp only [hn, hd] at hst
      cases hf : fromValue v with
      | ok sv' =>
        simp only [hf, Option.some.injEq, Prod.mk.injEq] at hst
        obtain ⟨_, rfl⟩ := hst
        cases e with
        | expr r => simp [Event.declared] at hd
        | comment => simp [Event.declared] at hd
        | outIdent n' r b p =>
          simp only [Event.succeeded, hd, Bool.and_eq_true, writable, hf] at hs
          exact hs.2.2
        | outAssign n' r p =>
          simp only [Event.succeeded, hd, Bool.and_eq_true, writable, hf] at hs
          exact hs.2.2
      | _ => simp [hf] at hst

/-! #### the loop over an abstract evaluator; parse and input errors -/

/-- running the statements with any evaluator is the event machine on its observations -/
theorem run_is_event_machine {Env Code} (ev : Evaluator Env Code) (env : Env) (stmts : List (Stmt Code)) :
    runStmts ev env [] stmts = runEvents [] (trace ev env stmts) :=
  runStmts_eq_runEvents ev stmts env []

/-- the whole CLI: exit 0 ⇔ every input is JSON, the source parsed, and every statement
    succeeded; and exactly then an object is emitted -/
theorem cli_exit_zero_iff {Env Code} (ev : Evaluator Env Code) (pf : ParseFn) (pb : ParseBody)
    (mkEnv : List (String × Value) → Env) (sources : List (Option Json))
    (program : Option (List (Stmt Code))) :
    ((cliRun ev pf pb mkEnv sources program).exit = 0 ↔
      ∃ docs stmts, sources.mapM id = some docs ∧ program = some stmts ∧
        ∀ e ∈ trace ev (mkEnv (mergeFrom pf pb 0 [] docs)) stmts, e.succeeded = true) ∧
    ((cliRun ev pf pb mkEnv sources program).object.isSome = true ↔
      (cliRun ev pf pb mkEnv sources program).exit = 0) := by
  unfold cliRun
  cases hs : sources.mapM id with
  | none => simp
  | some docs =>
    cases program with
    | none => simp
    | some stmts =>
      simp only [run_is_event_machine, exit_zero_iff_all_succeeded, object_iff_exit_zero,
        Option.some.injEq, exists_and_left, exists_eq_left', and_true]

/-- a parse error anywhere in the source: exit 1 before any statement runs, no object -/
theorem parse_error_runs_nothing {Env Code} (ev : Evaluator Env Code) (pf : ParseFn) (pb : ParseBody)
    (mkEnv : List (String × Value) → Env) (sources : List (Option Json)) :
    (cliRun ev pf pb mkEnv sources none).exit ≠ 0 ∧ (cliRun ev pf pb mkEnv sources none).object = none := by
  unfold cliRun
  cases sources.mapM id <;> simp

/-! #### input merging -/

/-- the merged inputs are the `IndexMap` of all entries of all sources, stdin first, then
    the `--input` flags left to right -/
theorem merge_is_insertion_in_order (pf : ParseFn) (pb : ParseBody) (stdin : Option Json) (flags : List Json) :
    mergeInputs pf pb stdin flags = insertAll [] (entriesFrom pf pb 0 (stdin.toList ++ flags)) :=
  mergeFrom_eq pf pb _ 0 []

/-- later overrides earlier: after one more source, a key reads as that source's value if
    the source defines it, and as before otherwise -/
theorem later_source_overrides (pf : ParseFn) (pb : ParseBody) (docs : List Json) (d : Json) (k : String) :
    lookupAL k (mergeFrom pf pb 0 [] (docs ++ [d])) =
      (lookupLast k (sourceEntries pf pb (counterAfter pf pb 0 docs) d.norm).1).or
        (lookupAL k (mergeFrom pf pb 0 [] docs)) := by
  rw [mergeFrom_eq, mergeFrom_eq, entriesFrom_append, insertAll_append, lookupAL_insertAll]
  simp [entriesFrom]

/-- hence a key holds the value from the LAST source that defines it -/
theorem merged_value_is_last_definition (pf : ParseFn) (pb : ParseBody) (stdin : Option Json)
    (flags : List Json) (k : String) :
    lookupAL k (mergeInputs pf pb stdin flags) =
      lookupLast k (entriesFrom pf pb 0 (stdin.toList ++ flags)) := by
  rw [merge_is_insertion_in_order, lookupAL_insertAll]; simp [lookupAL]

/-- keys appear in order of first appearance across the sources -/
theorem merged_key_order (pf : ParseFn) (pb : ParseBody) (stdin : Option Json) (flags : List Json) :
    (mergeInputs pf pb stdin flags).map Prod.fst =
      firstOccurrences ((entriesFrom pf pb 0 (stdin.toList ++ flags)).map Prod.fst) := by
  rw [merge_is_insertion_in_order, keys_insertAll]; rfl

/-- a non-object source that converts is stored under `value_<c+1>` where `c` is the
    number of such sources before it (stdin and flags counted together, in order); object
    sources do not consume numbers -/
theorem unnamed_numbering (pf : ParseFn) (pb : ParseBody) (before : List Json) (d : Json) (v : Value)
    (hno : d.isObj = false) (hv : readJson pf pb d = .ok v) :
    sourceEntries pf pb (counterAfter pf pb 0 before) d.norm =
      ([(unnamedKey ((before.filter (unnamedSource pf pb)).length + 1), v)],
       (before.filter (unnamedSource pf pb)).length + 1) := by
  rw [counterAfter_eq]
  unfold readJson at hv
  have h1 := norm_isObj d
  rw [hno] at h1
  cases hd : d.norm with
  | obj ms => rw [hd] at h1; cases h1
  | _ => rw [hd] at hv; simp [sourceEntries, hv]

theorem object_source_keeps_counter (pf : ParseFn) (pb : ParseBody) (c : Nat) (ms : List (String × Json)) :
    (sourceEntries pf pb c (Json.obj ms).norm).2 = c := rfl

/-- the numbering starts at 1 and counts across stdin and flags -/
example : (mergeInputs (fun _ => none) (fun _ => none) (some (.num F64.one))
    [.obj [("q", .null)], .str "s"]).map Prod.fst = ["value_1", "q", "value_2"] := by decide

/-- an unnamed value can be overridden by a later object that has a key `value_k` -/
theorem unnamed_value_can_be_overridden :
    (lookupAL "value_1" (mergeInputs (fun _ => none) (fun _ => none) none
      [.num F64.one, .obj [("value_1", .bool true)]])).map (veq (.bool true)) = some true := by decide

/-! #### `#name` is `inputs.name` -/

/-- both forms look `inputs` up in the same environment and read the same member, absent
    ↦ null; both fail when `inputs` is unbound or not a record.  (Only the error text
    differs.)  Because both go through `bindings.get("inputs")`, a parameter or local
    called `inputs` shadows the CLI inputs for both alike. -/
theorem hash_name_eq_inputs_name (inputsBinding : Option Value) (name : String) :
    (evalInputRef inputsBinding name).isOk = (evalDotAccess (evalInputsIdent inputsBinding) name).isOk ∧
    ∀ v, evalInputRef inputsBinding name = .ok v ↔
      evalDotAccess (evalInputsIdent inputsBinding) name = .ok v := by
  cases inputsBinding with
  | none => simp [evalInputRef, evalInputsIdent, evalDotAccess, Outcome.isOk]
  | some b => cases b <;> simp [evalInputRef, evalInputsIdent, evalDotAccess, Outcome.isOk]

theorem hash_name_absent_is_null (r : List (String × Value)) (name : String) (h : lookupAL name r = none) :
    evalInputRef (some (.record r)) name = .ok .null ∧
    evalDotAccess (evalInputsIdent (some (.record r))) name = .ok .null := by
  simp [evalInputRef, evalInputsIdent, evalDotAccess, h]

theorem hash_name_fails_without_record_inputs (name : String) :
    (evalInputRef none name).isOk = false ∧ (evalInputRef (some (.num F64.one)) name).isOk = false := by
  simp [evalInputRef, Outcome.isOk]

end Blots.C19
