import Blots.Lemmas.EvalDepthWitness
import Blots.Lemmas.CallPureNSB
/-
  C13 — via / where / into agree with map / filter / application for every function.

  Statements only (helpers in `Blots/Lemmas/EvalHof.lean`, `EvalFuel.lean`, `EvalDepth.lean`,
  `EvalDepthMono.lean`, `CallPureNSB.lean`, `EvalDepthWitness.lean`).
  In the model
  * `L via f`   = `evalBin ops (fuel+1) depth .via (.list L) f s`,
    `map(L, f)` = `callFn ops (fuel+2) (.builtin "map") this [.list L, f] depth s`,
    and likewise `where` / `filter`, `into` / application, `every`, `some`, `reduce`;
  * the shared workers are `mapCalls`, `whereCalls`, `quantCalls`, `foldCalls`, which call
    `callFn ops _ f f args depth s` — the function is passed as its own `this`, whatever kind of
    function value it is (lambda, named or recursive closure, built-in);
  * `seqMap call w L i s` etc. are the reference passes: left to right over `L`, callback
    arguments `idxArgs w x i` = `[x, i]` if `w` else `[x]` with `i` counting up from the start
    index, state threaded through, first failure wins;
  * `fuel` only decides whether an answer is produced (`*_fuel_mono`), so the forms are compared
    at any fuel that is enough for both.
  The operator form runs the callbacks at call depth `depth`, the built-in form at `depth + 2`
  (one level for the built-in, one for its callbacks): THE SAME computation started two call
  levels deeper.  See `map_is_via_two_levels_deeper` (exact, unconditional) and the section on
  the depth limit for what that means for equality of the two forms.
-/
namespace Blots.C13

/- `NF x` / `ND x` (Lemmas/EvalHof.lean) abbreviate `x.1 ≠ .fuel` / `x.1 ≠ .err .depth`:
   the call did not run out of fuel / did not end in the depth error. -/

/-! #### 1. every form unfolds to a shared worker -/

/-- `L via f` runs `mapCalls` at the operator's own depth -/
theorem via_is_map_calls (ops : NumOps) (fuel depth : Nat) (L : List Value) (f : Value) (s : ES)
    (ar : Gen.Arity) (h : arityOf f = some ar) :
    evalBin ops (fuel+1) depth .via (.list L) f s =
      wrapList (mapCalls ops fuel f (ar.canAccept 2) L 0 depth s) :=
  evalBin_via_list ops fuel depth L f s ar h

/-- `map(L, f)` runs the same `mapCalls` two call levels deeper (after the depth check) -/
theorem map_is_map_calls (ops : NumOps) (fuel depth : Nat) (this : Value) (L : List Value) (f : Value)
    (s : ES) (ar : Gen.Arity) (h : arityOf f = some ar) :
    callFn ops (fuel+2) (.builtin "map") this [.list L, f] depth s =
      if depth > MAX_DEPTH then (.err .depth, s)
      else wrapList (mapCalls ops fuel f (ar.canAccept 2) L 0 (depth + 2) s) := by
  rw [callFn_hof2 ops (fuel+1) "map" this _ _ depth s hof_arities.1 (by decide),
    callHof_map ops fuel L f (depth + 1) s ar h]

/-- `L where p` runs `whereCalls` at the operator's own depth -/
theorem where_is_where_calls (ops : NumOps) (fuel depth : Nat) (L : List Value) (f : Value) (s : ES)
    (ar : Gen.Arity) (h : arityOf f = some ar) :
    evalBin ops (fuel+1) depth .where_ (.list L) f s =
      whereCalls ops fuel f (ar.canAccept 2) L 0 depth s :=
  evalBin_where_list ops fuel depth L f s ar h

/-- `filter(L, p)` runs the same `whereCalls` two call levels deeper -/
theorem filter_is_where_calls (ops : NumOps) (fuel depth : Nat) (this : Value) (L : List Value)
    (f : Value) (s : ES) (ar : Gen.Arity) (h : arityOf f = some ar) :
    callFn ops (fuel+2) (.builtin "filter") this [.list L, f] depth s =
      if depth > MAX_DEPTH then (.err .depth, s)
      else whereCalls ops fuel f (ar.canAccept 2) L 0 (depth + 2) s := by
  rw [callFn_hof2 ops (fuel+1) "filter" this _ _ depth s hof_arities.2.1 (by decide),
    callHof_filter ops fuel L f (depth + 1) s ar h]

/-- `x into f` IS the application `f(x)` (`callFn` with the function as its own `this`), for
    every `x` — a list is passed whole — and every callable `f`; the call expression `f(x)`
    evaluates to the same `callFn ops fuel f f [x] depth s` (`eval`, arm `.call`) -/
theorem into_is_call (ops : NumOps) (fuel depth : Nat) (x f : Value) (s : ES)
    (hc : f.isCallable = true) :
    evalBin ops (fuel+1) depth .into x f s = callFn ops fuel f f [x] depth s :=
  evalBin_into ops fuel depth x f s hc

/-- the call expression `g(args…)` whose callee evaluates to `f` and whose arguments evaluate to
    `raw` (spreads flattened): the same `callFn` with `f` as its own `this` -/
theorem call_expr_is_call (ops : NumOps) (fuel depth : Nat) (g : Expr) (args : List Expr) (f : Value)
    (raw : List Value) (s s1 s2 : ES)
    (hg : eval ops fuel depth g s = (.ok f, s1))
    (ha : evalList ops fuel depth args s1 = (.ok raw, s2)) (hc : f.isCallable = true) :
    eval ops (fuel+1) depth (.call g args) s = callFn ops fuel f f (flattenSpreads raw) depth s2 := by
  rw [eval, hg]
  simp only []
  rw [ha]
  simp [hc]

/-- `x into f` for a non-callable `f`: an error, never a call -/
theorem into_not_callable (ops : NumOps) (fuel depth : Nat) (x f : Value) (s : ES)
    (hc : f.isCallable = false) :
    evalBin ops (fuel+1) depth .into x f s = (.err (if isListV f then .type_ else .notCallable), s) :=
  evalBin_into_not_callable ops fuel depth x f s hc

/-- `every`, `some`, `reduce` unfold to `quantCalls` / `foldCalls` two levels deeper -/
theorem every_some_reduce_unfold (ops : NumOps) (fuel depth : Nat) (this : Value) (L : List Value)
    (f init : Value) (s : ES) (ar : Gen.Arity) (h : arityOf f = some ar) (hd : depth ≤ MAX_DEPTH) :
    callFn ops (fuel+2) (.builtin "every") this [.list L, f] depth s =
      quantCalls ops fuel f (ar.canAccept 2) true L 0 (depth + 2) s ∧
    callFn ops (fuel+2) (.builtin "some") this [.list L, f] depth s =
      quantCalls ops fuel f (ar.canAccept 2) false L 0 (depth + 2) s ∧
    callFn ops (fuel+2) (.builtin "reduce") this [.list L, f, init] depth s =
      foldCalls ops fuel f (ar.canAccept 3) init L 0 (depth + 2) s := by
  have hd' : ¬ depth > MAX_DEPTH := by omega
  refine ⟨?_, ?_, ?_⟩
  · rw [callFn_hof2 ops (fuel+1) "every" this _ _ depth s hof_arities.2.2.1 (by decide), if_neg hd',
      callHof_every ops fuel L f (depth + 1) s ar h]
  · rw [callFn_hof2 ops (fuel+1) "some" this _ _ depth s hof_arities.2.2.2.1 (by decide), if_neg hd',
      callHof_some ops fuel L f (depth + 1) s ar h]
  · rw [callFn_reduce, if_neg hd', callHof_reduce ops fuel L f init (depth + 1) s ar h]

/-! #### 2. the index rule, and the workers as left-to-right passes -/

/-- the callback receives the element, and the 0-based index exactly when the function accepts a
    second argument (third for reduce: accumulator, element, index) -/
theorem callback_arguments (w : Bool) (acc x : Value) (i : Nat) :
    (w = true → idxArgs w x i = [x, .num (F64.ofNat i)] ∧ foldArgs w acc x i = [acc, x, .num (F64.ofNat i)]) ∧
    (w = false → idxArgs w x i = [x] ∧ foldArgs w acc x i = [acc, x]) := by
  cases w <;> simp [idxArgs, foldArgs]

/-- one step of each pass: the callback on the head with the current index, then the tail with
    the next index from the state the callback left; a failure ends the pass with that failure -/
theorem pass_step (call : List Value → ES → R Value) (w : Bool) (x : Value) (xs : List Value)
    (i : Nat) (s : ES) (acc : Value) :
    seqMap call w [] i s = (.ok [], s) ∧
    seqMap call w (x :: xs) i s =
      (match call (idxArgs w x i) s with
       | (.ok v, s1) =>
         (match seqMap call w xs (i + 1) s1 with
          | (.ok vs, s2) => (.ok (v :: vs), s2)
          | r => r)
       | (.err k, s1) => (.err k, s1)
       | (.panic p, s1) => (.panic p, s1)
       | (.fuel, s1) => (.fuel, s1)) ∧
    seqFold call w acc [] i s = (.ok acc, s) ∧
    seqFold call w acc (x :: xs) i s =
      (match call (foldArgs w acc x i) s with
       | (.ok v, s1) => seqFold call w v xs (i + 1) s1
       | r => r) :=
  ⟨rfl, rfl, rfl, rfl⟩

/-- `mapCalls` (the worker of via, map, group_by, count_by) IS the left-to-right pass with
    callback `callFn … f f · depth`: any run that does not run out of fuel equals the pass at
    every fuel at least as large, and conversely the pass is reached with fuel `N + |L| + 1` -/
theorem map_calls_is_pass (ops : NumOps) (f : Value) (w : Bool) (d : Nat) (L : List Value) (i : Nat) (s : ES) :
    (∀ n, NF (mapCalls ops n f w L i d s) → ∀ N, n ≤ N →
      seqMap (fun a st => callFn ops N f f a d st) w L i s = mapCalls ops n f w L i d s) ∧
    (∀ N, NF (seqMap (fun a st => callFn ops N f f a d st) w L i s) →
      mapCalls ops (N + L.length + 1) f w L i d s = seqMap (fun a st => callFn ops N f f a d st) w L i s) :=
  ⟨fun n h N hN => mapCalls_eq_seqMap ops f w d n L i s h N hN,
   fun N h => seqMap_eq_mapCalls ops f w d N L i s h⟩

/-- the same for `whereCalls` (where, filter) and `quantCalls` (every, some) -/
theorem where_quant_calls_are_passes (ops : NumOps) (f : Value) (w q : Bool) (d : Nat) (L : List Value)
    (i : Nat) (s : ES) :
    (∀ n, NF (whereCalls ops n f w L i d s) → ∀ N, n ≤ N →
      seqWhere (fun a st => callFn ops N f f a d st) w L i s = whereCalls ops n f w L i d s) ∧
    (∀ N, NF (seqWhere (fun a st => callFn ops N f f a d st) w L i s) →
      whereCalls ops (N + L.length + 1) f w L i d s =
        seqWhere (fun a st => callFn ops N f f a d st) w L i s) ∧
    (∀ n, NF (quantCalls ops n f w q L i d s) → ∀ N, n ≤ N →
      seqQuant (fun a st => callFn ops N f f a d st) w q L i s = quantCalls ops n f w q L i d s) ∧
    (∀ N, NF (seqQuant (fun a st => callFn ops N f f a d st) w q L i s) →
      quantCalls ops (N + L.length + 1) f w q L i d s =
        seqQuant (fun a st => callFn ops N f f a d st) w q L i s) :=
  ⟨fun n h N hN => whereCalls_eq_seqWhere ops f w d n L i s h N hN,
   fun N h => seqWhere_eq_whereCalls ops f w d N L i s h,
   fun n h N hN => quantCalls_eq_seqQuant ops f w q d n L i s h N hN,
   fun N h => seqQuant_eq_quantCalls ops f w q d N L i s h⟩

/-- with a callback that has no effect on the state the map pass is `List.map` over the list
    zipped with the indices `i, i+1, …` — in list order, index from the start value -/
theorem map_pass_pure (call : List Value → ES → R Value) (w : Bool) (g : Value → Nat → Value)
    (hpure : ∀ x i s, call (idxArgs w x i) s = (.ok (g x i), s)) (L : List Value) (i : Nat) (s : ES) :
    seqMap call w L i s = (.ok ((L.zipIdx i).map fun p => g p.1 p.2), s) :=
  seqMap_pure call w g hpure L i s

/-! #### 3. every / some -/

/-- IF the predicate succeeds with a boolean on ALL elements (i.e. `mapCalls` with the same
    arguments and fuel is `ok` with booleans) THEN `every` is the conjunction and `some` the
    disjunction of the results.  Outcome component only: `every` / `some` stop at the first
    deciding element, so later callbacks (and their effects on `nextId` / `names`) do not happen. -/
theorem every_is_all_some_is_any (ops : NumOps) (n : Nat) (f : Value) (w : Bool) (d : Nat)
    (L : List Value) (i : Nat) (s : ES) (bs : List Value) (s' : ES)
    (h : mapCalls ops n f w L i d s = (.ok bs, s')) (hb : ∀ b ∈ bs, ∃ p, b = Value.bool p) :
    (quantCalls ops n f w true L i d s).1 = .ok (.bool (bs.all isTrueV)) ∧
    (quantCalls ops n f w false L i d s).1 = .ok (.bool (bs.any isTrueV)) :=
  quantCalls_of_mapCalls ops f w d n L i s bs s' h hb

/-- when no element decides early (all `true` for every / all `false` for some) every callback
    runs and the final state is that of the map pass as well -/
theorem every_some_full_pass_state (ops : NumOps) (n : Nat) (f : Value) (w q : Bool) (d : Nat)
    (L : List Value) (i : Nat) (s : ES) (bs : List Value) (s' : ES)
    (h : mapCalls ops n f w L i d s = (.ok bs, s')) (hb : ∀ b ∈ bs, b = Value.bool q) :
    quantCalls ops n f w q L i d s = (.ok (.bool q), s') :=
  quantCalls_of_mapCalls_state ops f w q d n L i s bs s' h hb

/-! #### 4. reduce -/

/-- `foldCalls` (the worker of reduce) IS the left fold with callback `callFn … f f · depth`
    from the initial value: arguments `[acc, x]` or `[acc, x, i]`, state threaded, the first
    failure is the result -/
theorem reduce_is_foldl (ops : NumOps) (f : Value) (w : Bool) (d : Nat) (acc : Value) (L : List Value)
    (i : Nat) (s : ES) :
    (∀ n, NF (foldCalls ops n f w acc L i d s) → ∀ N, n ≤ N →
      seqFold (fun a st => callFn ops N f f a d st) w acc L i s = foldCalls ops n f w acc L i d s) ∧
    (∀ N, NF (seqFold (fun a st => callFn ops N f f a d st) w acc L i s) →
      foldCalls ops (N + L.length + 1) f w acc L i d s =
        seqFold (fun a st => callFn ops N f f a d st) w acc L i s) :=
  ⟨fun n h N hN => foldCalls_eq_seqFold ops f w d n acc L i s h N hN,
   fun N h => seqFold_eq_foldCalls ops f w d N acc L i s h⟩

/-- … which for a callback without effects is literally `List.foldl` over the indexed list -/
theorem fold_pass_pure (call : List Value → ES → R Value) (w : Bool) (g : Value → Value → Nat → Value)
    (hpure : ∀ acc x i s, call (foldArgs w acc x i) s = (.ok (g acc x i), s))
    (acc : Value) (L : List Value) (i : Nat) (s : ES) :
    seqFold call w acc L i s = (.ok ((L.zipIdx i).foldl (fun a p => g a p.1 p.2) acc), s) :=
  seqFold_pure call w g hpure acc L i s

/-! #### 5a. fuel independence -/

/-- a call that returns anything but "out of fuel" returns the same outcome AND state with
    every larger fuel (all fifteen functions of the evaluator: `Blots.*_fuel_mono`) -/
theorem fuel_mono (ops : NumOps) (n m : Nat) (hm : n ≤ m) :
    (∀ fv this args d s, NF (callFn ops n fv this args d s) →
      callFn ops m fv this args d s = callFn ops n fv this args d s) ∧
    (∀ d e s, NF (eval ops n d e s) → eval ops m d e s = eval ops n d e s) ∧
    (∀ d op a b s, NF (evalBin ops n d op a b s) → evalBin ops m d op a b s = evalBin ops n d op a b s) ∧
    (∀ f w L i d s, NF (mapCalls ops n f w L i d s) →
      mapCalls ops m f w L i d s = mapCalls ops n f w L i d s) ∧
    (∀ f w L i d s, NF (whereCalls ops n f w L i d s) →
      whereCalls ops m f w L i d s = whereCalls ops n f w L i d s) ∧
    (∀ f w q L i d s, NF (quantCalls ops n f w q L i d s) →
      quantCalls ops m f w q L i d s = quantCalls ops n f w q L i d s) ∧
    (∀ f w acc L i d s, NF (foldCalls ops n f w acc L i d s) →
      foldCalls ops m f w acc L i d s = foldCalls ops n f w acc L i d s) :=
  ⟨fun _ _ _ _ _ h => callFn_fuel_mono ops hm h, fun _ _ _ h => eval_fuel_mono ops hm h,
   fun _ _ _ _ _ h => evalBin_fuel_mono ops hm h, fun _ _ _ _ _ _ h => mapCalls_fuel_mono ops hm h,
   fun _ _ _ _ _ _ h => whereCalls_fuel_mono ops hm h,
   fun _ _ _ _ _ _ _ h => quantCalls_fuel_mono ops hm h,
   fun _ _ _ _ _ _ _ h => foldCalls_fuel_mono ops hm h⟩

/-- EXACT relation between the two forms, no side condition on the function: `map(L, f)` at
    call depth `depth` is `L via f` at call depth `depth + 2`, at any two fuels that are enough
    (the built-in form needs two more units for its two extra levels); same for filter / where -/
theorem map_is_via_two_levels_deeper (ops : NumOps) (n m depth : Nat) (this : Value) (L : List Value)
    (f : Value) (s : ES) (ar : Gen.Arity) (h : arityOf f = some ar) (hd : depth ≤ MAX_DEPTH) :
    (NF (callFn ops (n+2) (.builtin "map") this [.list L, f] depth s) → n ≤ m →
      evalBin ops (m+1) (depth + 2) .via (.list L) f s =
        callFn ops (n+2) (.builtin "map") this [.list L, f] depth s) ∧
    (NF (evalBin ops (n+1) (depth + 2) .via (.list L) f s) → n ≤ m →
      callFn ops (m+2) (.builtin "map") this [.list L, f] depth s =
        evalBin ops (n+1) (depth + 2) .via (.list L) f s) ∧
    (NF (callFn ops (n+2) (.builtin "filter") this [.list L, f] depth s) → n ≤ m →
      evalBin ops (m+1) (depth + 2) .where_ (.list L) f s =
        callFn ops (n+2) (.builtin "filter") this [.list L, f] depth s) ∧
    (NF (evalBin ops (n+1) (depth + 2) .where_ (.list L) f s) → n ≤ m →
      callFn ops (m+2) (.builtin "filter") this [.list L, f] depth s =
        evalBin ops (n+1) (depth + 2) .where_ (.list L) f s) := by
  have hd' : ¬ depth > MAX_DEPTH := by omega
  simp only [map_is_map_calls ops _ depth this L f s ar h, filter_is_where_calls ops _ depth this L f s ar h,
    via_is_map_calls ops _ (depth + 2) L f s ar h, where_is_where_calls ops _ (depth + 2) L f s ar h,
    if_neg hd', wrapList_fst_ne_fuel]
  refine ⟨fun hnf hm => ?_, fun hnf hm => ?_, fun hnf hm => ?_, fun hnf hm => ?_⟩
  · rw [mapCalls_fuel_mono ops hm hnf]
  · rw [mapCalls_fuel_mono ops hm hnf]
  · rw [whereCalls_fuel_mono ops hm hnf]
  · rw [whereCalls_fuel_mono ops hm hnf]

/-! #### 5b. the call depth

  The depth argument is consulted in two places only: the guard `depth > MAX_DEPTH` (= 1000) of
  `callFn`, and `alreadyDefined depth …` of a top-level assignment (depth 0 versus positive).
  Function bodies run at `depth + 1 > 0`, so for calls only the guard matters — EXCEPT that
  `sort_by` swallows every failure of its key function, the depth error included
  (functions.rs `_ => Ordering::Equal`): `sort_by([3,1,2], abs)` evaluated at call depth 999
  returns `[3,1,2]` (every key call fails with the depth error), at depth 998 `[1,2,3]`.  Hence:
  * the statements below are for `sort_by`-free inputs: `Value.nsb` / `Expr.nsb` / `nsbEnv`
    ("no `sort_by` built-in value reachable": not in the function, its captured scope and body,
    the list, or the environment), preserved by evaluation (`Blots.pres`);
  * the ~75 callback-free built-ins keep the invariant too (`pure_builtins_keep_invariant`): their
    results contain no function value that was not in their arguments. -/

/-- the callback-free built-ins applied to `sort_by`-free arguments return `sort_by`-free values -/
theorem pure_builtins_keep_invariant (ops : NumOps) (name : String) (args : List Value) (v : Value)
    (h : callPure ops name args = some (.ok v)) (ha : Value.nsbList args = true) : v.nsb = true :=
  callPure_keeps_nsb ops name args v h ha

/-- success or failure other than the depth error at a deeper starting depth ⇒ the SAME outcome
    and state at every shallower starting depth (`callFn`: lambdas, closures, built-ins alike) -/
theorem depth_antitone (ops : NumOps) (n d d' : Nat) (fv this : Value)
    (args : List Value) (s : ES) (hdd : d' ≤ d) (hf : fv.nsb = true) (ht : this.nsb = true)
    (ha : Value.nsbList args = true) (hs : nsbEnv s.env = true)
    (h : ND (callFn ops n fv this args d s)) :
    callFn ops n fv this args d' s = callFn ops n fv this args d s :=
  (anti (callPure_keeps_nsb ops) n).callFn d d' fv this args s hdd hf ht ha hs h

/-- the same for the workers -/
theorem depth_antitone_workers (ops : NumOps) (n d d' : Nat) (f : Value)
    (w : Bool) (L : List Value) (i : Nat) (s : ES) (hdd : d' ≤ d) (hf : f.nsb = true)
    (hL : Value.nsbList L = true) (hs : nsbEnv s.env = true) :
    (ND (mapCalls ops n f w L i d s) → mapCalls ops n f w L i d' s = mapCalls ops n f w L i d s) ∧
    (ND (whereCalls ops n f w L i d s) → whereCalls ops n f w L i d' s = whereCalls ops n f w L i d s) ∧
    (∀ q, ND (quantCalls ops n f w q L i d s) →
      quantCalls ops n f w q L i d' s = quantCalls ops n f w q L i d s) ∧
    (∀ acc, acc.nsb = true → ND (foldCalls ops n f w acc L i d s) →
      foldCalls ops n f w acc L i d' s = foldCalls ops n f w acc L i d s) :=
  ⟨(anti (callPure_keeps_nsb ops) n).mapCalls d d' f w L i s hdd hf hL hs, (anti (callPure_keeps_nsb ops) n).whereCalls d d' f w L i s hdd hf hL hs,
   fun q => (anti (callPure_keeps_nsb ops) n).quantCalls d d' f w q L i s hdd hf hL hs,
   fun acc ha => (anti (callPure_keeps_nsb ops) n).foldCalls d d' f w acc L i s hdd hf ha hL hs⟩

/-- the invariant is kept: a successful call on `sort_by`-free inputs returns a `sort_by`-free
    value and leaves a `sort_by`-free environment -/
theorem sort_by_free_is_invariant (ops : NumOps) (n d : Nat) (fv this : Value)
    (args : List Value) (s : ES) (v : Value) (s' : ES) (h : callFn ops n fv this args d s = (.ok v, s'))
    (hf : fv.nsb = true) (ht : this.nsb = true) (ha : Value.nsbList args = true)
    (hs : nsbEnv s.env = true) : v.nsb = true ∧ nsbEnv s'.env = true :=
  (pres (callPure_keeps_nsb ops) n).callFn h hf ht ha hs

/-- THE RESULT OR FAILURE IS THE SAME WHICHEVER FORM IS USED — what is proved:
    (1) if `map(L, f)` (the deeper form) returns anything but the depth error, `L via f` returns
        exactly that (outcome and state), at every fuel that is enough;
    (2) if `L via f` would also not hit the depth limit when started two call levels deeper,
        `map(L, f)` returns exactly what `L via f` returns. -/
theorem via_eq_map_partial (ops : NumOps) (n m depth : Nat) (this : Value)
    (L : List Value) (f : Value) (s : ES) (ar : Gen.Arity) (h : arityOf f = some ar)
    (hd : depth ≤ MAX_DEPTH) (hf : f.nsb = true) (hL : Value.nsbList L = true)
    (hs : nsbEnv s.env = true) (hm : n ≤ m) :
    (NF (callFn ops (n+2) (.builtin "map") this [.list L, f] depth s) →
     ND (callFn ops (n+2) (.builtin "map") this [.list L, f] depth s) →
      evalBin ops (m+1) depth .via (.list L) f s =
        callFn ops (n+2) (.builtin "map") this [.list L, f] depth s) ∧
    (NF (evalBin ops (n+1) (depth + 2) .via (.list L) f s) →
     ND (evalBin ops (n+1) (depth + 2) .via (.list L) f s) →
      callFn ops (m+2) (.builtin "map") this [.list L, f] depth s =
        evalBin ops (n+1) depth .via (.list L) f s) := by
  have hd' : ¬ depth > MAX_DEPTH := by omega
  simp only [map_is_map_calls ops _ depth this L f s ar h, via_is_map_calls ops _ _ L f s ar h,
    if_neg hd', wrapList_fst_ne_fuel, wrapList_fst_ne_depth]
  have ha := fun hnd => (anti (callPure_keeps_nsb ops) n).mapCalls (depth + 2) depth f (ar.canAccept 2) L 0 s (by omega)
    hf hL hs hnd
  refine ⟨fun hnf hnd => ?_, fun hnf hnd => ?_⟩
  · rw [← ha hnd] at hnf ⊢
    rw [mapCalls_fuel_mono ops hm hnf]
  · rw [mapCalls_fuel_mono ops hm hnf, ha hnd]

/-- the same for `where` / `filter` -/
theorem where_eq_filter_partial (ops : NumOps) (n m depth : Nat) (this : Value)
    (L : List Value) (f : Value) (s : ES) (ar : Gen.Arity) (h : arityOf f = some ar)
    (hd : depth ≤ MAX_DEPTH) (hf : f.nsb = true) (hL : Value.nsbList L = true)
    (hs : nsbEnv s.env = true) (hm : n ≤ m) :
    (NF (callFn ops (n+2) (.builtin "filter") this [.list L, f] depth s) →
     ND (callFn ops (n+2) (.builtin "filter") this [.list L, f] depth s) →
      evalBin ops (m+1) depth .where_ (.list L) f s =
        callFn ops (n+2) (.builtin "filter") this [.list L, f] depth s) ∧
    (NF (evalBin ops (n+1) (depth + 2) .where_ (.list L) f s) →
     ND (evalBin ops (n+1) (depth + 2) .where_ (.list L) f s) →
      callFn ops (m+2) (.builtin "filter") this [.list L, f] depth s =
        evalBin ops (n+1) depth .where_ (.list L) f s) := by
  have hd' : ¬ depth > MAX_DEPTH := by omega
  simp only [filter_is_where_calls ops _ depth this L f s ar h, where_is_where_calls ops _ _ L f s ar h,
    if_neg hd']
  have ha := fun hnd => (anti (callPure_keeps_nsb ops) n).whereCalls (depth + 2) depth f (ar.canAccept 2) L 0 s (by omega)
    hf hL hs hnd
  refine ⟨fun hnf hnd => ?_, fun hnf hnd => ?_⟩
  · rw [← ha hnd] at hnf ⊢
    rw [whereCalls_fuel_mono ops hm hnf]
  · rw [whereCalls_fuel_mono ops hm hnf, ha hnd]

/-- `x into f` against the call expression `g(a)` (callee evaluating to `f`, argument to `x`):
    no depth difference at all, both are the same `callFn` at the same depth
    (`into_is_call`, `call_expr_is_call`) -/
theorem into_eq_call (ops : NumOps) (fuel depth : Nat) (g : Expr) (args : List Expr) (f x : Value)
    (s s1 s2 : ES) (hg : eval ops fuel depth g s = (.ok f, s1))
    (ha : evalList ops fuel depth args s1 = (.ok [x], s2)) (hx : ∀ v, x ≠ .spread v)
    (hc : f.isCallable = true) :
    eval ops (fuel+1) depth (.call g args) s = evalBin ops (fuel+1) depth .into x f s2 := by
  rw [call_expr_is_call ops fuel depth g args f [x] s s1 s2 hg ha hc, into_is_call ops fuel depth x f s2 hc]
  cases x <;> simp_all [flattenSpreads]

/-- The unrestricted statement: "for every function, list and state, whenever both forms have
    enough fuel they return the same outcome and state".  It is FALSE, but only in the band of two
    call levels next to the limit of 1000: take `f` a function that recurses exactly 999 levels
    deep (`r = n => if n <= 0 then 0 else r(n - 1)` applied to 997): `[997] via r` at top level
    reaches depth 999 and succeeds, `map([997], r)` runs the same calls two levels deeper, reaches
    1001 and fails with the depth error.  With `sort_by` inside `f` both forms can even SUCCEED
    with different values (the witness above).  `via_eq_map_partial` is everything outside
    that band. -/
def via_eq_map_statement : Prop :=
  ∀ (ops : NumOps) (fuel depth : Nat) (this : Value) (L : List Value) (f : Value) (s : ES) (ar : Gen.Arity),
    arityOf f = some ar →
    NF (callFn ops (fuel+2) (.builtin "map") this [.list L, f] depth s) →
    NF (evalBin ops (fuel+1) depth .via (.list L) f s) →
    callFn ops (fuel+2) (.builtin "map") this [.list L, f] depth s =
      evalBin ops (fuel+1) depth .via (.list L) f s

/-- … and it IS false: `f = l => sort_by(l, to_string)`, `L = [["b","a"]]`, both forms at call
    depth 996 (`Lemmas/EvalDepthWitness.lean`): `L via f` = `[["a","b"]]` (sorted), `map(L, f)` =
    `[["b","a"]]` — the key calls of the deeper form land at depth 1001, fail with the depth
    error, and `sort_by` swallows the failure.  Both succeed, with different values. -/
theorem via_eq_map_statement_false : ¬ via_eq_map_statement := by
  intro h
  have := h toyOps 11 996 .null [listBA] sortFn sortState (.exact 1) rfl
    (by rw [sort_map_996]; simp) (by rw [sort_via_996]; simp)
  rw [sort_map_996, sort_via_996] at this
  simp [listAB, listBA] at this

/-! #### 6. self reference -/

/-- every worker passes the function value itself as `this` (the value bound to the function's
    own name inside its body), exactly like a direct call `f(x)` / `x into f` does: a named
    recursive function sees itself in all the forms.  (`x via f` on a non-list, `x into f` and
    the first callback of `[x] via f` are the same `callFn` call.) -/
theorem self_reference (ops : NumOps) (fuel depth : Nat) (x f : Value) (s : ES) (ar : Gen.Arity)
    (h : arityOf f = some ar) (hx : isListV x = false) :
    evalBin ops (fuel+1) depth .into x f s = callFn ops fuel f f [x] depth s ∧
    evalBin ops (fuel+1) depth .via x f s = callFn ops fuel f f [x] depth s ∧
    mapCalls ops (fuel+1) f false [x] 0 depth s =
      (match callFn ops fuel f f [x] depth s with
       | (.ok v, s1) =>
         (match mapCalls ops fuel f false [] 1 depth s1 with
          | (.ok vs, s2) => (.ok (v :: vs), s2)
          | r => r)
       | (.err k, s1) => (.err k, s1)
       | (.panic p, s1) => (.panic p, s1)
       | (.fuel, s1) => (.fuel, s1)) := by
  have hc := isCallable_of_arityOf h
  exact ⟨evalBin_into ops fuel depth x f s hc, evalBin_via_scalar ops fuel depth x f s hx hc,
    by rw [mapCalls.eq_3]; rfl⟩

/-! #### witnesses -/

section examples

/-- `recFn` is `f = b => if b then f(false) else "done"` (heap cell 7, named `f` in `recState`,
    `f` not otherwise in scope): a named RECURSIVE function through all the forms -/
example : arityOf recFn = some (.exact 1) ∧ (Gen.Arity.exact 1).canAccept 2 = false := by decide

set_option maxRecDepth 4000 in
example : evalBin toyOps 8 0 .via (.list [.bool true, .bool false]) recFn recState =
    (.ok (.list [.str "done", .str "done"]), recState) := by
  simp [evalBin_succ, isDot, isListV, recFn, Value.isCallable, arityOf, lambdaArity,
    Gen.Arity.canAccept, mapCalls, callFn, checkArity, MAX_DEPTH, nameOf, recState, lookupAL, envGet,
    bindParams, bindParams.go, insertAL, eval, recBody, evalList, flattenSpreads]

set_option maxRecDepth 4000 in
example : callFn toyOps 9 (.builtin "map") (.builtin "map") [.list [.bool true, .bool false], recFn] 0
    recState = (.ok (.list [.str "done", .str "done"]), recState) := by
  rw [map_is_map_calls toyOps 7 0 _ _ recFn recState (.exact 1) rfl]
  simp [wrapList, recFn, Value.isCallable, lambdaArity,
    Gen.Arity.canAccept, mapCalls, callFn, checkArity, MAX_DEPTH, nameOf, recState, lookupAL, envGet,
    bindParams, bindParams.go, insertAL, eval, recBody, evalList, flattenSpreads]

set_option maxRecDepth 4000 in
example : evalBin toyOps 8 0 .into (.bool true) recFn recState = (.ok (.str "done"), recState) := by
  simp [evalBin_succ, isDot, isListV, recFn, Value.isCallable, lambdaArity,
    Gen.Arity.canAccept, callFn, checkArity, MAX_DEPTH, nameOf, recState, lookupAL, envGet,
    bindParams, bindParams.go, insertAL, eval, recBody, evalList, flattenSpreads]

/-- a built-in as the function, with the index: `abs` accepts exactly one argument, so no index -/
example : arityOf (.builtin "abs") = some (.exact 1) := by decide +kernel
/-- a predicate whose results are all booleans / the hypotheses of `every_is_all_some_is_any` -/
example : ∀ b ∈ [Value.bool true, .bool false], ∃ p, b = Value.bool p := by simp
example : [Value.bool true, .bool false].all isTrueV = false ∧
    [Value.bool true, .bool false].any isTrueV = true := by decide

/-- the witness function is (of course) not `sort_by`-free; the recursive example is -/
example : sortFn.nsb = false ∧ recFn.nsb = true ∧ nsbEnv recState.env = true := by decide

end examples

end Blots.C13
