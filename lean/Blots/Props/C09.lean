import Blots.Lemmas.FormatLemmas
import Blots.Lemmas.FormatPieces
import Blots.Lemmas.PrintLemmas
/-
  C09 — formatting never loses or reorders comments: the parts that are logic of the model.

  How the formatter keeps comments (formatter.rs): `format_expr_impl` first renders the node
  with `format_single_line` and uses that text only if it has no line break and fits;
  otherwise it goes to the multi-line layouts, which print the leading / trailing comments of
  every list item, record entry and do-block statement.  `format_single_line` itself prints
  NO comments — so the whole scheme is sound only if the single-line text of a node that
  carries a comment anywhere inside can never be taken.  That is the *forcing mechanism*:
  such a text always contains a line break.

  PROVED here, for all trees (mutual structural induction over Expr / Item / Entry / Key):
   * `comments_force_multiline`   : `containsComments e → hasNewline (fmtSingle e)`;
   * `do_blocks_force_multiline`  : a do-block anywhere in the printed part of the tree has
     the same effect (`contains_comments` does not look at the comments of do-block
     statements; they are safe because a do-block never prints on one line);
   * `any_comment_forces_multiline`: the two combined — if ANY `Commented` node of the printed
     tree carries a comment, the single-line text has a line break; contrapositive
     `single_line_path_is_comment_free`;
   * `do_block_source_emits_each_comment_once`: the single-line printer's do-block text is
     the concatenation of chunks whose comment chunks are exactly the comments of the
     statements and of the `return`, each once, in source order, leading comments on their
     own line before the statement, the trailing comment after it on the same line.

  PROVED for the width-driven layouts (`fmtImplP` and the per-kind layouts of
  `Model/Format.lean`, total functions that return the output as a list of PIECES; `render` of
  the pieces is the text of `formatter.rs`, tied to it character for character by the
  correspondence harness), for EVERY tree, width and indent, through every layout branch:
   * `format_preserves_comments`   : the comments in the output (the comment pieces) ARE
     `printedComments e` — every leading and trailing comment of every `Commented` wrapper of
     the tree except the trailing comment of a do-block's `return` item — one for one, in
     source order, character for character; no hypothesis on the tree or the comments;
   * `format_keeps_every_comment`  : the same with the counting consequences spelled out;
   * `format_preserves_all_comments`: … and are `commentsOf e` (all comments) for trees
     without trailing comment on a `return` item — every tree the parser builds;
   * `every_layout_preserves_comments`: the same for each function of `formatter.rs`
     (`format_lambda`, `format_multiline`, `format_conditional_multiline`,
     `format_binary_op_multiline`, the list / record / call / do-block loops);
   * `format_expr_preserves_comments`, `render_pieces_is_format` : for `format_expr` itself.
  The model is total by structural recursion, there is no fuel (`layouts_are_total_functions`).

  Until repo commit 6027914 `format_binary_op_multiline` sent the formatted right operand of
  `via` / `into` / `where` through `lines()` and `join("\n")`, which deleted a `'\r'` in front
  of a `'\n'` inside comments (and string literals): found by this proof (the exact statement
  did not go through), repaired in the repo; `carriage_return_is_kept_in_comment` is the
  regression example.

  WHERE THE FORMATTER (as modelled) DOES NOT KEEP A COMMENT — only shapes the parser never builds:
   * `return_trailing_comment_is_dropped` : a trailing comment on the `return` item of a
     do-block is never printed.  Only trees built by hand have one: the parser sets `None`
     there and the grammar rejects `return x // c` before the closing brace.
   * `format_multiline_on_lambda_loses_comments` : `format_multiline` applied to a lambda falls
     to `expr_to_source`, which drops list / record comments — `format_expr_impl` never does
     that (lambdas go to `format_lambda`), hence the hypothesis of the `format_multiline` part.

  NOT proved: that the parser attaches every comment of the source text to some node (it does
  not for comment-only lists / records: known findings `c09.comment-only-list`, `-record`;
  and not for a comment at a line break INSIDE an expression, `z = 1 + // c⏎  2`, which the
  grammar reads as white space: known finding `c09.comment-at-line-break-in-expression`),
  and the statement-level handling of the drivers (main.rs / wasm format loops: standalone and
  end-of-line comments of statements) — there is no model of the driver loop.  Both are covered
  by the model-free oracle of `harness/src/props/c09.rs` (comment sequence of the output =
  comment sequence of the input).

  A shorthand record entry `{k}` prints only its key; its (synthetic) value is not part of
  the "printed tree" in `hasDo` / `anyComment`, exactly as in `contains_comments`.
-/
namespace Blots.C09
open Blots.FormatL Blots.PrintL Blots.FormatP

/-- THE FORCING MECHANISM.  An expression that `contains_comments` has no newline-free
    single-line form, so `format_expr_impl` (`if !single.contains('\n') && fits`) never
    returns the comment-dropping single-line text for it. -/
theorem comments_force_multiline (e : Expr) (h : containsComments e = true) :
    hasNewline (fmtSingle e) = true := cfm e h

/-- the list-shaped versions used inside calls, lists and records: some rendered element
    carries the line break (or, for lists / records, an element itself has comments and the
    whole literal is replaced by `[\n]` / `{\n}`) -/
theorem comments_force_multiline_in_sequences :
    (∀ es : List Expr, exprsContainComments es = true →
      ∃ s ∈ fmtSingleList es, hasNewline s = true) ∧
    (∀ is : List Item, itemsHaveComments is = true →
      is.any Item.hasComments = true ∨ ∃ s ∈ fmtSingleItems is, hasNewline s = true) ∧
    (∀ es : List Entry, entriesHaveComments es = true →
      es.any Entry.hasComments = true ∨ ∃ s ∈ fmtSingleEntries es, hasNewline s = true) := by
  refine ⟨cfm_list, fun is h => ?_, fun es h => ?_⟩
  · cases hany : is.any Item.hasComments
    · exact Or.inr (cfm_items is h hany)
    · exact Or.inl rfl
  · cases hany : es.any Entry.hasComments
    · exact Or.inr (cfm_entries es h hany)
    · exact Or.inl rfl

/-- the single-line printer's text of a do-block always has a line break, in any scope … -/
theorem do_block_source_has_newline (sc : Scope) (stmts : List Item) (ret : Item) :
    hasNewline (exprSrc sc (.doBlock stmts ret)) = true := doSrc _ (by simp only [hasDo]) sc

/-- … hence so has the text of every expression with a do-block in its printed part, both
    from the printer and from `format_single_line` -/
theorem do_blocks_force_multiline (e : Expr) (h : hasDo e = true) :
    (∀ sc, hasNewline (exprSrc sc e) = true) ∧ hasNewline (fmtSingle e) = true :=
  ⟨doSrc e h, doFmt e h⟩

/-- every comment of the printed tree is either counted by `contains_comments` or sits on a
    statement of a do-block -/
theorem every_comment_is_counted_or_in_do_block (e : Expr) (h : anyComment e = true) :
    containsComments e = true ∨ hasDo e = true := anyC e h

/-- If ANY node of the printed tree carries a comment, the single-line form has a line break. -/
theorem any_comment_forces_multiline (e : Expr) (h : anyComment e = true) :
    hasNewline (fmtSingle e) = true := anyComment_forces_multiline e h

/-- contrapositive: when `format_expr_impl` does take the single-line text, there was no
    comment to lose -/
theorem single_line_path_is_comment_free (e : Expr) (h : hasNewline (fmtSingle e) = false) :
    anyComment e = false := by
  cases ha : anyComment e
  · rfl
  · rw [anyComment_forces_multiline e ha] at h; cases h

/-- The printer's do-block text (`expr_to_source` — also what the formatter falls back to for
    nodes it has no layout for) is the concatenation of `doChunks`; the comment chunks among
    them are exactly `doComments stmts ret` = for each statement its leading comments then its
    trailing comment, then the leading comments of the `return` — each once, in order. -/
theorem do_block_source_emits_each_comment_once (sc : Scope) (stmts : List Item) (ret : Item) :
    exprSrc sc (.doBlock stmts ret) = joinChunks (doChunks sc stmts ret) ∧
    (doChunks sc stmts ret).filterMap Chunk.comment? = doComments stmts ret ∧
    doComments stmts ret =
      stmts.flatMap (fun i => i.leading ++ i.trailing.toList) ++ ret.leading := by
  refine ⟨doBlock_chunks sc stmts ret, doChunks_comments sc stmts ret, ?_⟩
  have : stmtComments = fun i => i.leading ++ i.trailing.toList := by funext i; cases i; rfl
  simp only [doComments, this]

/-- the chunks of one statement: leading comments each on their own line, the statement on
    its line, the trailing comment two spaces after it on the same line -/
theorem do_statement_chunks (sc : Scope) (lead : List String) (e : Expr) (tr : Option String) :
    stmtChunks sc (.mk lead e tr) =
      leadChunks lead ++ [.code ("\n  " ++ protectStatementStart (exprSrc sc e))] ++
        trailChunks tr ∧
    (∀ c cs, leadChunks (c :: cs) = .code "\n  " :: .comment c :: leadChunks cs) ∧
    (∀ t, trailChunks (some t) = [.code "  ", .comment t]) ∧ trailChunks none = [] :=
  ⟨rfl, fun _ _ => rfl, fun _ => rfl, rfl⟩

/-! ### the width-driven layouts: every comment, every layout, every width and indent -/

/-- MAIN THEOREM.  For every tree, width and indent the comments in `format_expr_impl`'s
    output — the comment pieces, in output order — are exactly the comments
    `printedComments e` of the tree in source order: nothing dropped, duplicated, reordered,
    merged into code or altered.  No hypothesis. -/
theorem format_preserves_comments (w indent : Nat) (e : Expr) :
    commentPieces (fmtImplP w indent e) = printedComments e :=
  good_impl e w indent

/-- … spelled out: as many comments in the output as in the tree, the i-th is the i-th, and
    every comment piece of the output is a comment of the tree -/
theorem format_keeps_every_comment (w indent : Nat) (e : Expr) :
    (commentPieces (fmtImplP w indent e)).length = (printedComments e).length ∧
    (∀ i (h1 : i < (commentPieces (fmtImplP w indent e)).length) (h2 : i < (printedComments e).length),
      (commentPieces (fmtImplP w indent e))[i] = (printedComments e)[i]) ∧
    (∀ c, Piece.comment c ∈ fmtImplP w indent e → c ∈ printedComments e) ∧
    (∀ c, c ∈ printedComments e → Piece.comment c ∈ fmtImplP w indent e) := by
  have h := format_preserves_comments w indent e
  refine ⟨by rw [h], fun i h1 h2 => by simp only [h], fun c hc => ?_, fun c hc => ?_⟩
  · rw [← h]
    exact List.mem_filterMap.mpr ⟨_, hc, rfl⟩
  · rw [← h] at hc
    obtain ⟨p, hp, hq⟩ := List.mem_filterMap.mp hc
    cases p with
    | text s => cases hq
    | comment s => cases hq; exact hp

/-- … and these are ALL comments of the tree when no `return` item carries a trailing comment
    (the parser never produces one) -/
theorem format_preserves_all_comments (w indent : Nat) (e : Expr) (hr : retClean e = true) :
    commentPieces (fmtImplP w indent e) = commentsOf e := by
  have he : commentsOf e = printedComments e := commentsG_retClean e hr
  rw [he]
  exact format_preserves_comments w indent e

/-- what `printedComments` leaves out of `commentsOf` is only the trailing comment of
    `return` items -/
theorem printed_comments_are_all_comments (e : Expr) (hr : retClean e = true) :
    printedComments e = commentsOf e := (commentsG_retClean e hr).symm

/-- the same for every function of `formatter.rs`: `format_lambda`,
    `format_conditional_multiline`, `format_binary_op_multiline`, `format_multiline` (on
    everything `format_expr_impl` passes to it), the loops of `format_list_multiline`,
    `format_record_multiline`, `format_call_multiline`, `format_do_block_multiline`, and
    `format_record_entry` -/
theorem every_layout_preserves_comments (w indent : Nat) :
    (∀ args body, Good (fmtLambdaP w indent args body) (printedComments (.lambda args body))) ∧
    (∀ c t e, Good (fmtCondP w indent c t e) (printedComments (.cond c t e))) ∧
    (∀ op l r, Good (fmtBinP w indent op l r) (printedComments (.bin op l r))) ∧
    (∀ e, (∀ args body, e ≠ .lambda args body) → Good (fmtMultiP w indent e) (printedComments e)) ∧
    (∀ items, Good (fmtItemsP w indent items) (itemsCommentsG false items)) ∧
    (∀ es, Good (fmtEntriesP w indent es) (entriesCommentsG false es)) ∧
    (∀ k vs vc, Good vs vc → Good (fmtKeyedP w indent k vs) (keyCommentsG false k vc)) ∧
    (∀ as, Good (fmtArgsP w indent as) (exprsCommentsG false as)) ∧
    (∀ ss, Good (fmtStmtsP w indent ss) (itemsCommentsG false ss)) ∧
    (∀ r, Good (fmtRetP w indent r) (retCommentsG false r)) :=
  ⟨good_lambda w indent, good_cond w indent, good_bin w indent, good_multi w indent,
   fun is => good_items is w indent, fun es => good_entries es w indent,
   fun k vs vc h => good_keyed k w indent vs vc h, fun as => good_args as w indent,
   fun ss => good_stmts ss w indent, fun r => good_ret r w indent⟩

/-- `Good` unfolded, so that the previous statement can be read on its own -/
theorem good_means (ps : List Piece) (cs : List String) :
    Good ps cs ↔ commentPieces ps = cs := Iff.rfl

/-- source order of `commentsOf`: the leading comments of an item, the comments inside its
    expression, its trailing comment; the statements of a do-block, then its `return` item;
    condition, then-branch, else-branch; function before arguments; key before value -/
theorem comments_in_source_order (rt : Bool) :
    (∀ l e t, itemCommentsG rt (.mk l e t) = l ++ (commentsG rt e ++ t.toList)) ∧
    (∀ ss r, commentsG rt (.doBlock ss r) = itemsCommentsG rt ss ++ retCommentsG rt r) ∧
    (∀ i is, itemsCommentsG rt (i :: is) = itemCommentsG rt i ++ itemsCommentsG rt is) ∧
    (∀ c t e, commentsG rt (.cond c t e) = commentsG rt c ++ (commentsG rt t ++ commentsG rt e)) ∧
    (∀ f as, commentsG rt (.call f as) = commentsG rt f ++ exprsCommentsG rt as) ∧
    (∀ op l r, commentsG rt (.bin op l r) = commentsG rt l ++ commentsG rt r) ∧
    (∀ l k v t, entryCommentsG rt (.mk l (.dyn k) v t) =
      l ++ ((commentsG rt k ++ commentsG rt v) ++ t.toList)) := by
  refine ⟨fun _ _ _ => ?_, fun _ _ => ?_, fun _ _ => ?_, fun _ _ _ => ?_, fun _ _ => ?_,
    fun _ _ _ => ?_, fun _ _ _ _ => ?_⟩ <;> simp only [commentsG, itemCommentsG, itemsCommentsG,
      entryCommentsG, keyCommentsG]

/-- The single-line output has no comment piece, and is taken only when there is no comment:
    consistent with `single_line_path_is_comment_free`. -/
theorem single_line_output_has_no_comment_piece (w indent : Nat) (e : Expr)
    (hl : ∀ args body, e ≠ .lambda args body) (hd : ∀ ss r, e ≠ .doBlock ss r)
    (h1 : hasNewline (fmtSingle e) = false) (h2 : indent + blen (firstLine (fmtSingle e)) ≤ w) :
    fmtImplP w indent e = [.text (fmtSingle e)] ∧
    commentPieces (fmtImplP w indent e) = [] ∧ commentsOf e = [] ∧ anyComment e = false := by
  have hs : fmtImplP w indent e = [.text (fmtSingle e)] := by
    rw [fmtImplP_eq]
    cases e with
    | lambda a b => exact absurd rfl (hl a b)
    | doBlock s r => exact absurd rfl (hd s r)
    | _ => simp [orSingle, h1, h2]
  refine ⟨hs, ?_, commentsG_nil_of_single e true h1, single_line_path_is_comment_free e h1⟩
  rw [hs]; rfl

/-- conversely, whenever the tree has a comment the output is not the single-line text -/
theorem commented_tree_is_laid_out (w indent : Nat) (e : Expr) (h : anyComment e = true) :
    fmtImplP w indent e = (match e with
      | .lambda args body => fmtLambdaP w indent args body
      | e => fmtMultiP w indent e) := by
  have hn := anyComment_forces_multiline e h
  rw [fmtImplP_eq]
  cases e <;> simp [orSingle, hn]

/-- `format_expr` is the rendering of its pieces; the layouts are total functions of
    (width, indent, tree) — structural recursion, no fuel, so there is no "enough fuel"
    side condition anywhere above -/
theorem render_pieces_is_format (e : Expr) (w : Option Nat) :
    formatExpr e w = render (formatExprP e w) ∧
    formatExpr e w = protectStatementStart (render (fmtImplP (w.getD DEFAULT_MAX_COLUMNS) 0 e)) ∧
    fmtImpl (w.getD DEFAULT_MAX_COLUMNS) 0 e = render (fmtImplP (w.getD DEFAULT_MAX_COLUMNS) 0 e) :=
  ⟨(render_protectP _).symm, rfl, rfl⟩

/-- `fmtImplP` satisfies the equations of `format_expr_impl` / `format_multiline` /
    `format_conditional_multiline` of `formatter.rs` (which re-enter the same node) -/
theorem layouts_are_total_functions (w indent : Nat) :
    (∀ args body, fmtImplP w indent (.lambda args body) = fmtLambdaP w indent args body) ∧
    (∀ ss r, fmtImplP w indent (.doBlock ss r) = fmtMultiP w indent (.doBlock ss r)) ∧
    (∀ e, (∀ args body, e ≠ .lambda args body) → (∀ ss r, e ≠ .doBlock ss r) →
      fmtImplP w indent e =
        if !hasNewline (fmtSingle e) && indent + blen (firstLine (fmtSingle e)) ≤ w
        then [.text (fmtSingle e)] else fmtMultiP w indent e) ∧
    (∀ c t e, fmtMultiP w indent (.cond c t e) = fmtCondP w indent c t e) ∧
    (∀ c t c' t' e', fmtCondP w indent c t (.cond c' t' e') =
      condLayout w indent (fmtImplP w indent c) (fun _ => fmtImplP w (indent + INDENT_SIZE) c)
        (fmtImplP w (indent + INDENT_SIZE) t) (.text "else " :: fmtCondP w indent c' t' e')) := by
  refine ⟨fun _ _ => by rw [fmtImplP_eq], fun _ _ => by rw [fmtImplP_eq], fun e hl hd => ?_,
    fun _ _ _ => rfl, fun _ _ _ _ _ => ?_⟩
  · rw [fmtImplP_eq]
    cases e with
    | lambda a b => exact absurd rfl (hl a b)
    | doBlock s r => exact absurd rfl (hd s r)
    | _ => rfl
  · simp only [fmtCondP, fmtChainP, elseLayout]

/-- `format_expr`: the comments in its result are the comments of the tree -/
theorem format_expr_preserves_comments (e : Expr) (w : Option Nat) :
    commentPieces (formatExprP e w) = printedComments e ∧
    formatExpr e w = render (formatExprP e w) :=
  ⟨Good.protect (good_impl e _ 0), (render_protectP _).symm⟩

/-- The right operand of via / into / where is emitted as it was formatted (since repo commit
    6027914; before, it went through `lines()` and `join("\n")`): when the first line fits, the
    branch renders to `format!("{} {} {}", left_str, op_str, right_str)`; `firstLine` is used
    for the width test only. -/
theorem chain_branch_emits_right_operand_unchanged :
    ∀ w indent op l r lP rSame rIn,
      (op == .via || op == .into || op == .where_) = true → isLambda r = true →
      indent + blen (render (parenP (needsParens l (.binLeft op)) lP) ++ " " ++ fmtSpelling op ++
        " " ++ firstLine (render (parenP (needsParens r (.binRight op)) (rSame ())))) ≤ w →
      render (binLayout w indent op l r lP rSame rIn) =
        render (parenP (needsParens l (.binLeft op)) lP) ++ " " ++ fmtSpelling op ++ " " ++
          render (parenP (needsParens r (.binRight op)) (rSame ())) :=
  render_binLayout_chain

/-! ### regression example for the repaired defect, and the two AST shapes the parser never
    builds where a comment is not printed -/

/-- `y = l via x => [⏎ v, // c␍␍⏎]`: the comment is `// c␍` -/
private abbrev crTree : Expr :=
  .bin .via (.ident "l") (.lambda [.req "x"] (.list [.mk [] (.ident "v") (some "// c\r")]))

/-- REGRESSION EXAMPLE (defect repaired by repo commit 6027914): a carriage return at the end of
    a comment inside the function after via / into / where is kept (the `lines()` /
    `join("\n")` round trip used to delete it) -/
theorem carriage_return_is_kept_in_comment :
    printedComments crTree = ["// c\r"] ∧
    commentPieces (fmtImplP 80 0 crTree) = ["// c\r"] ∧
    formatExpr crTree (some 80) = "l via x =>\n  [\n    v,  // c\r\n  ]" := by
  decide

/-- A trailing comment on the `return` item of a do-block is not printed
    (`format_do_block_multiline` reads only `return_expr.leading`).  The parser never builds
    such a tree. -/
theorem return_trailing_comment_is_dropped :
    let e : Expr := .doBlock [] (.mk ["// r"] (.ident "x") (some "// t"))
    commentsOf e = ["// r", "// t"] ∧ printedComments e = ["// r"] ∧
    commentPieces (fmtImplP 80 0 e) = ["// r"] ∧ retClean e = false := by
  decide

/-- `format_multiline` applied to a lambda (which `format_expr_impl` never does) falls to
    `expr_to_source` and loses the comments of lists / records inside -/
theorem format_multiline_on_lambda_loses_comments :
    let e : Expr := .lambda [.req "x"] (.list [.mk ["// c"] (.ident "v") none])
    printedComments e = ["// c"] ∧ commentPieces (fmtMultiP 80 0 e) = [] ∧
    commentPieces (fmtImplP 80 0 e) = ["// c"] := by
  decide

/-! #### examples: the statement is true of the model on the shapes that matter, and the
    hypotheses are satisfiable -/

section examples
/-- a list whose only item has a leading comment -/
private abbrev cl : Expr := .list [.mk ["// c"] (.ident "v") none]
private abbrev f : Expr := .ident "f"

example : containsComments cl = true := by decide
example : fmtSingle cl = "[\n]" := by decide
/-- inside a call argument -/
example : containsComments (.call f [.ident "a", cl]) = true := by decide
example : fmtSingle (.call f [.ident "a", cl]) = "f(a, [\n])" := by decide
/-- inside a lambda body -/
example : containsComments (.lambda [.req "x"] cl) = true := by decide
example : fmtSingle (.lambda [.req "x"] cl) = "x => [\n]" := by decide
/-- inside a record value under a dynamic key, and inside the dynamic key itself -/
example : containsComments (.record [.mk [] (.dyn (.ident "k")) cl none]) = true := by decide
example : fmtSingle (.record [.mk [] (.dyn (.ident "k")) cl none]) = "{[k]: [\n]}" := by decide
example : fmtSingle (.record [.mk [] (.dyn cl) (.ident "k") none]) = "{[[\n]]: k}" := by decide
/-- inside an operand -/
example : fmtSingle (.bin .add (.ident "a") cl) = "\n" := by decide
/-- inside a do-block statement -/
example : containsComments (.doBlock [.mk [] cl none] (.mk [] (.ident "x") none)) = true := by
  decide

/-- a do-block whose statement has its own comments: NOT counted by `contains_comments`,
    but a do-block — in a list it still forces the multi-line path -/
private abbrev db : Expr :=
  .doBlock [.mk ["// a"] (.assign "y" (.ident "z")) (some "// b")] (.mk ["// r"] (.ident "y") none)
example : containsComments (.list [.mk [] db none]) = false := by decide
example : anyComment (.list [.mk [] db none]) = true ∧ hasDo (.list [.mk [] db none]) = true := by
  decide
example : exprSrc [] db = "do {\n  // a\n  y = z  // b\n  // r\n  return y\n}" := by decide
example : doComments [.mk ["// a"] (.assign "y" (.ident "z")) (some "// b")]
    (.mk ["// r"] (.ident "y") none) = ["// a", "// b", "// r"] := by decide

/-- a comment-free tree on the single-line path -/
example : hasNewline (fmtSingle (.call f [.ident "a", .list [.mk [] (.ident "v") none]])) = false := by
  decide

/-- the layouts on commented trees: every position the property lists, narrow and wide -/
private abbrev big : Expr :=
  .assign "r" (.record [
    .mk ["// lead a"] (.static "a") (.list [.mk [] (.ident "v") (some "// one"),
                                            .mk ["// two"] (.ident "w") none]) (some "// after a"),
    .mk [] (.dyn (.list [.mk [] (.ident "k") (some "// in key")]))
      (.lambda [.req "x"] db) none])

example : commentsOf big =
    ["// lead a", "// one", "// two", "// after a", "// in key", "// a", "// b", "// r"] := by decide
example : retClean big = true := by decide
example : commentPieces (fmtImplP 80 0 big) = commentsOf big := by decide
example : commentPieces (fmtImplP 10 4 big) = commentsOf big := by decide
set_option maxRecDepth 8192 in
example : formatExpr big (some 80) =
    "r = {\n  // lead a\n  a: [\n    v,  // one\n    // two\n    w,\n  ],  // after a\n" ++
    "  [[\n    k,  // in key\n  ]]: x => do {\n    // a\n    y = z  // b\n    // r\n    return y\n  },\n}" := by
  decide
/-- else-if chain, call arguments, operands, via + lambda with a commented list -/
private abbrev chain : Expr :=
  .cond (.call f [cl]) (.bin .add (.ident "a") cl)
    (.cond (.ident "p") (.un .negate cl) (.bin .via cl (.lambda [.req "x"] cl)))
example : commentPieces (fmtImplP 80 0 chain) = ["// c", "// c", "// c", "// c", "// c"] ∧
    commentsOf chain = ["// c", "// c", "// c", "// c", "// c"] := by decide
example : commentPieces (fmtImplP 0 0 chain) = commentsOf chain := by decide
/-- hypotheses of `single_line_output_has_no_comment_piece` -/
example : hasNewline (fmtSingle (.call f [.ident "a"])) = false ∧
    0 + blen (firstLine (fmtSingle (.call f [.ident "a"]))) ≤ 80 := by decide
example : fmtImplP 80 0 (.call f [.ident "a"]) = [.text "f(a)"] := by decide
/-- `Good` of a layout whose parts are given -/
example : Good (fmtItemsP 80 2 [.mk ["// l"] (.ident "v") (some "// t")]) ["// l", "// t"] :=
  (every_layout_preserves_comments 80 2).2.2.2.2.1 _

/-- `firstLine` is `lines().next().unwrap_or(s)` -/
example : firstLine "a\r\nb" = "a" ∧ firstLine "a\r" = "a\r" ∧ firstLine "" = "" ∧
    firstLine "\r\n" = "" ∧ firstLine "a\rb\nc" = "a\rb" := by decide
end examples

end Blots.C09
