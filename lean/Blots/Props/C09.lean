import Blots.Lemmas.FormatLemmas
import Blots.Lemmas.PrintLemmas
/-
  C09 — formatting never loses or reorders comments: the parts that are logic of the model.

  How the formatter keeps comments (formatter.rs): `format_expr_impl` first renders the node
  with `format_single_line` and uses that text only if it has no line break and fits;
  otherwise it goes to the multi-line layouts, which print the leading / trailing comments of
  every list item, record entry and do-block statement.  `format_single_line` itself prints
  NO comments — so the whole scheme is sound only if the single-line text of a node that
  carries a comment anywhere inside can never be taken.  That is the *forcing mechanism*:
  such a text always contains a line break.

  PROVED here, for all trees (mutual structural induction over Expr / Item / Entry / Key):
   * `comments_force_multiline`   : `containsComments e → hasNewline (fmtSingle e)`;
   * `do_blocks_force_multiline`  : a do-block anywhere in the printed part of the tree has
     the same effect (`contains_comments` does not look at the comments of do-block
     statements; they are safe because a do-block never prints on one line);
   * `any_comment_forces_multiline`: the two combined — if ANY `Commented` node of the printed
     tree carries a comment, the single-line text has a line break; contrapositive
     `single_line_path_is_comment_free`;
   * `do_block_source_emits_each_comment_once`: the single-line printer's do-block text is
     the concatenation of chunks whose comment chunks are exactly the comments of the
     statements and of the `return`, each once, in source order, leading comments on their
     own line before the statement, the trailing comment after it on the same line.

  NOT proved: that the multi-line layouts (`fmtItems`, `fmtEntries`, `fmtStmts`, … — `partial`
  functions of the model, no equations available) emit each comment once, and that the
  parser attaches every comment of the source text to some node (it does not for
  comment-only lists / records: known findings `c09.comment-only-list`, `-record`).  Both are
  covered by the model-free oracle of `harness/src/props/c09.rs` (comment sequence of the
  output = comment sequence of the input) and the correspondence harness.

  A shorthand record entry `{k}` prints only its key; its (synthetic) value is not part of
  the "printed tree" in `hasDo` / `anyComment`, exactly as in `contains_comments`.
-/
namespace Blots.C09
open Blots.FormatL Blots.PrintL

/-- THE FORCING MECHANISM.  An expression that `contains_comments` has no newline-free
    single-line form, so `format_expr_impl` (`if !single.contains('\n') && fits`) never
    returns the comment-dropping single-line text for it. -/
theorem comments_force_multiline (e : Expr) (h : containsComments e = true) :
    hasNewline (fmtSingle e) = true := cfm e h

/-- the list-shaped versions used inside calls, lists and records: some rendered element
    carries the line break (or, for lists / records, an element itself has comments and the
    whole literal is replaced by `[\n]` / `{\n}`) -/
theorem comments_force_multiline_in_sequences :
    (∀ es : List Expr, exprsContainComments es = true →
      ∃ s ∈ fmtSingleList es, hasNewline s = true) ∧
    (∀ is : List Item, itemsHaveComments is = true →
      is.any Item.hasComments = true ∨ ∃ s ∈ fmtSingleItems is, hasNewline s = true) ∧
    (∀ es : List Entry, entriesHaveComments es = true →
      es.any Entry.hasComments = true ∨ ∃ s ∈ fmtSingleEntries es, hasNewline s = true) := by
  refine ⟨cfm_list, fun is h => ?_, fun es h => ?_⟩
  · cases hany : is.any Item.hasComments
    · exact Or.inr (cfm_items is h hany)
    · exact Or.inl rfl
  · cases hany : es.any Entry.hasComments
    · exact Or.inr (cfm_entries es h hany)
    · exact Or.inl rfl

/-- the single-line printer's text of a do-block always has a line break, in any scope … -/
theorem do_block_source_has_newline (sc : Scope) (stmts : List Item) (ret : Item) :
    hasNewline (exprSrc sc (.doBlock stmts ret)) = true := doSrc _ (by simp only [hasDo]) sc

/-- … hence so has the text of every expression with a do-block in its printed part, both
    from the printer and from `format_single_line` -/
theorem do_blocks_force_multiline (e : Expr) (h : hasDo e = true) :
    (∀ sc, hasNewline (exprSrc sc e) = true) ∧ hasNewline (fmtSingle e) = true :=
  ⟨doSrc e h, doFmt e h⟩

/-- every comment of the printed tree is either counted by `contains_comments` or sits on a
    statement of a do-block -/
theorem every_comment_is_counted_or_in_do_block (e : Expr) (h : anyComment e = true) :
    containsComments e = true ∨ hasDo e = true := anyC e h

/-- If ANY node of the printed tree carries a comment, the single-line form has a line break. -/
theorem any_comment_forces_multiline (e : Expr) (h : anyComment e = true) :
    hasNewline (fmtSingle e) = true := anyComment_forces_multiline e h

/-- contrapositive: when `format_expr_impl` does take the single-line text, there was no
    comment to lose -/
theorem single_line_path_is_comment_free (e : Expr) (h : hasNewline (fmtSingle e) = false) :
    anyComment e = false := by
  cases ha : anyComment e
  · rfl
  · rw [anyComment_forces_multiline e ha] at h; cases h

/-- The printer's do-block text (`expr_to_source` — also what the formatter falls back to for
    nodes it has no layout for) is the concatenation of `doChunks`; the comment chunks among
    them are exactly `doComments stmts ret` = for each statement its leading comments then its
    trailing comment, then the leading comments of the `return` — each once, in order. -/
theorem do_block_source_emits_each_comment_once (sc : Scope) (stmts : List Item) (ret : Item) :
    exprSrc sc (.doBlock stmts ret) = joinChunks (doChunks sc stmts ret) ∧
    (doChunks sc stmts ret).filterMap Chunk.comment? = doComments stmts ret ∧
    doComments stmts ret =
      stmts.flatMap (fun i => i.leading ++ i.trailing.toList) ++ ret.leading := by
  refine ⟨doBlock_chunks sc stmts ret, doChunks_comments sc stmts ret, ?_⟩
  have : stmtComments = fun i => i.leading ++ i.trailing.toList := by funext i; cases i; rfl
  simp only [doComments, this]

/-- the chunks of one statement: leading comments each on their own line, the statement on
    its line, the trailing comment two spaces after it on the same line -/
theorem do_statement_chunks (sc : Scope) (lead : List String) (e : Expr) (tr : Option String) :
    stmtChunks sc (.mk lead e tr) =
      leadChunks lead ++ [.code ("\n  " ++ protectStatementStart (exprSrc sc e))] ++
        trailChunks tr ∧
    (∀ c cs, leadChunks (c :: cs) = .code "\n  " :: .comment c :: leadChunks cs) ∧
    (∀ t, trailChunks (some t) = [.code "  ", .comment t]) ∧ trailChunks none = [] :=
  ⟨rfl, fun _ _ => rfl, fun _ => rfl, rfl⟩

/-! #### examples: the statement is true of the model on the shapes that matter, and the
    hypotheses are satisfiable -/

section examples
/-- a list whose only item has a leading comment -/
private abbrev cl : Expr := .list [.mk ["// c"] (.ident "v") none]
private abbrev f : Expr := .ident "f"

example : containsComments cl = true := by decide
example : fmtSingle cl = "[\n]" := by decide
/-- inside a call argument -/
example : containsComments (.call f [.ident "a", cl]) = true := by decide
example : fmtSingle (.call f [.ident "a", cl]) = "f(a, [\n])" := by decide
/-- inside a lambda body -/
example : containsComments (.lambda [.req "x"] cl) = true := by decide
example : fmtSingle (.lambda [.req "x"] cl) = "x => [\n]" := by decide
/-- inside a record value under a dynamic key, and inside the dynamic key itself -/
example : containsComments (.record [.mk [] (.dyn (.ident "k")) cl none]) = true := by decide
example : fmtSingle (.record [.mk [] (.dyn (.ident "k")) cl none]) = "{[k]: [\n]}" := by decide
example : fmtSingle (.record [.mk [] (.dyn cl) (.ident "k") none]) = "{[[\n]]: k}" := by decide
/-- inside an operand -/
example : fmtSingle (.bin .add (.ident "a") cl) = "\n" := by decide
/-- inside a do-block statement -/
example : containsComments (.doBlock [.mk [] cl none] (.mk [] (.ident "x") none)) = true := by
  decide

/-- a do-block whose statement has its own comments: NOT counted by `contains_comments`,
    but a do-block — in a list it still forces the multi-line path -/
private abbrev db : Expr :=
  .doBlock [.mk ["// a"] (.assign "y" (.ident "z")) (some "// b")] (.mk ["// r"] (.ident "y") none)
example : containsComments (.list [.mk [] db none]) = false := by decide
example : anyComment (.list [.mk [] db none]) = true ∧ hasDo (.list [.mk [] db none]) = true := by
  decide
example : exprSrc [] db = "do {\n  // a\n  y = z  // b\n  // r\n  return y\n}" := by decide
example : doComments [.mk ["// a"] (.assign "y" (.ident "z")) (some "// b")]
    (.mk ["// r"] (.ident "y") none) = ["// a", "// b", "// r"] := by decide

/-- a comment-free tree on the single-line path -/
example : hasNewline (fmtSingle (.call f [.ident "a", .list [.mk [] (.ident "v") none]])) = false := by
  decide
end examples

end Blots.C09
