import Blots.Model.Format
namespace Blots.C09
/-- placeholder replaced later in this session -/
theorem formatExpr_default (e : Expr) : formatExpr e none = formatExpr e (some DEFAULT_MAX_COLUMNS) := rfl
end Blots.C09
