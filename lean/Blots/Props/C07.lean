import Blots.Model.Format
import Blots.Model.Pratt
/-
  C07 — placeholder while the theorems are being written (see C10 for the operator table
  and the Pratt round trip); replaced below in this session.
-/
namespace Blots.C07

/-- `expr_to_source` is `expr_to_source_with_scope` with nothing to inline -/
theorem exprToSource_is_empty_scope (e : Expr) : exprToSource e = exprSrc [] e := rfl

end Blots.C07
