import Blots.Lemmas.PrattRoundTrip
import Blots.Lemmas.PrintLemmas
import Blots.Model.Format
/-
  C07 — the formatter preserves program meaning: the parts that are *logic of the printer*.

  The model (`Model/Print.lean`, `Model/Format.lean`) mirrors `ast_to_source.rs` /
  `formatter.rs`; `Model/Pratt.lean` mirrors pest's Pratt parser as `build_pratt_parser`
  configures it.  Statements only; lemmas and auxiliary definitions are in
  `Lemmas/PrattRoundTrip.lean` and `Lemmas/PrintLemmas.lean`.

  PROVED here, for all inputs:
   1. the operator skeleton of every printed expression re-parses to the same tree
      (`needsParens` against the Pratt parser, any depth);
   2. every string literal the printer emits is read back, CHARACTER BY CHARACTER, by the
      grammar rule `string = ${ PUSH("\"" | "'") ~ string_value ~ POP }` (model `readString`)
      to the original characters — all three branches of `string_to_source`; a literal can
      never contain its own delimiter (why the old escaping printer, finding F2, was wrong);
      record keys;
   3. a statement never starts with `-` (it would continue the previous line);
   4. open-ended forms (lambda / if / assignment / output at the right edge) are parenthesised
      wherever something follows them; `endsOpen` characterised inductively;
   5. `lambdaBodyNeedsParens` characterised inductively (`via`/`into`/`where` reachable along
      the left spine of loosest-level operators), with the level facts from the generated table;
   6. `numberToSource` by cases; no minus sign for a number without sign bit.

  NOT proved (and not provable in this model): that the *whole* printed text, lexed character
  by character by the PEG grammar, yields the item sequence `items e` (identifiers, numbers,
  keywords, white space, brackets), and that the width-driven layouts (`fmtImplP`, … — total
  functions since the C09 work, but only comment preservation is proved about them) print a
  text with the same items as the single-line printer.  Those are tied to the real code by the
  correspondence harness (model output = Rust output on generated programs) and by the
  model-free reparse oracle of `harness/src/props/c07.rs` (format, parse again, compare trees).
-/
namespace Blots.C07
open Blots.PrattRT Blots.PrintL

/-! ### 1. operator skeleton -/

/-- `expr_to_source` is `expr_to_source_with_scope` with nothing to inline -/
theorem exprToSource_is_empty_scope (e : Expr) : exprToSource e = exprSrc [] e := rfl

/-- The pair sequence of the minimally parenthesised print of a tree (a parenthesised child
    is one primary) is parsed back to that tree by the Pratt parser — unbounded depth. -/
theorem printed_operators_reparse (e : Expr) (h : NoInvert e) : prattParse (items e) = some e :=
  (items_PExpr e h).parse

/-! ### 2. string literals, character level -/

/-- branch 1 of `string_to_source`: a string without `"` is printed `"s"` and the grammar's
    `string` rule reads exactly `s` back, leaving whatever follows -/
theorem string_without_dquote_reads_back (s rest : List Char) (h : '"' ∉ s) :
    stringToSource (String.ofList s) = "\"" ++ String.ofList s ++ "\"" ∧
    readString ((stringToSource (String.ofList s)).toList ++ rest) = some (s, rest) :=
  ⟨stringToSource_dq _ (by simpa using h), readString_dq s rest h⟩

/-- branch 2: a string with `"` but without `'` is printed `'s'` and reads back -/
theorem string_with_dquote_reads_back (s rest : List Char) (h1 : '"' ∈ s) (h2 : '\'' ∉ s) :
    stringToSource (String.ofList s) = "'" ++ String.ofList s ++ "'" ∧
    readString ((stringToSource (String.ofList s)).toList ++ rest) = some (s, rest) :=
  ⟨stringToSource_sq _ (by simpa using h1) (by simpa using h2), readString_sq s rest h1 h2⟩

/-- branch 3: both quote kinds occur.  The text is `( lit + lit + … )` with at least one
    literal; every literal is `q content q` with `q` a quote character not occurring in
    `content`, so `readString` reads it back to `content`; and the contents, concatenated in
    order, are the original string. -/
theorem string_with_both_quotes_is_concatenation (s : String)
    (h1 : '"' ∈ s.toList) (h2 : '\'' ∈ s.toList) :
    stringToSource s = "(" ++ " + ".intercalate ((quotedPieces s.toList).map litOf) ++ ")" ∧
    quotedPieces s.toList ≠ [] ∧
    (∀ qc ∈ quotedPieces s.toList,
      (qc.1 = '"' ∨ qc.1 = '\'') ∧ qc.1 ∉ qc.2 ∧
      (litOf qc).toList = qc.1 :: (qc.2 ++ [qc.1]) ∧
      ∀ rest, readString ((litOf qc).toList ++ rest) = some (qc.2, rest)) ∧
    (pieces s.toList).flatten = s.toList ∧
    pieces s.toList = (quotedPieces s.toList).map (·.2) := by
  refine ⟨stringToSource_both s h1 h2, quotedPieces_ne_nil _ h1, ?_, pieces_flatten _, rfl⟩
  intro qc hqc
  obtain ⟨hq, hf⟩ := quotedPieces_ok _ qc hqc
  exact ⟨hq, hf, by simp [litOf], litOf_reads qc hq hf⟩

/-- What the `string` rule can read at all: `q content q` with `q ∉ content`.  No literal
    denotes a string containing its own delimiter — the grammar has no escapes, which is why
    a printer that escapes quotes (the old one, finding F2) cannot be read back. -/
theorem string_rule_reads_only_delimiter_free (inp c rest : List Char)
    (h : readString inp = some (c, rest)) :
    ∃ q, (q = '"' ∨ q = '\'') ∧ inp = q :: (c ++ q :: rest) ∧ q ∉ c :=
  readString_content_free inp c rest h

/-- `format_record_key`: a valid identifier is printed bare; any other key as a string literal
    that reads back to the key; when both quote kinds occur, as a computed key `[ … ]` around
    the concatenation of the previous theorem. -/
theorem record_key_printed (k : String) :
    (isValidIdentifier k = true → formatRecordKey k = k) ∧
    (isValidIdentifier k = false → ¬ ('"' ∈ k.toList ∧ '\'' ∈ k.toList) →
      formatRecordKey k = stringToSource k ∧
      ∀ rest, readString ((formatRecordKey k).toList ++ rest) = some (k.toList, rest)) ∧
    (isValidIdentifier k = false → '"' ∈ k.toList → '\'' ∈ k.toList →
      formatRecordKey k = "[" ++ stringToSource k ++ "]") :=
  ⟨formatRecordKey_ident k,
   fun h hq => ⟨formatRecordKey_string k h hq, formatRecordKey_reads k h hq⟩,
   formatRecordKey_computed k⟩

/-- a bare key is not a reserved word and is made of identifier characters; the printer's
    list of reserved words is the grammar's (both generated from the sources) -/
theorem bare_key_is_identifier (k : String) (h : isValidIdentifier k = true) :
    k ∉ Gen.grammarReserved ∧
    ∃ c rest, k.toList = c :: rest ∧ (isAsciiAlpha c = true ∨ c = '_') ∧
      ∀ d ∈ rest, isAsciiAlpha d = true ∨ isAsciiDigit d = true ∨ d = '_' := by
  have := isValidIdentifier_spec k h
  rwa [reserved_lists_agree] at this

/-! ### 3. statement start -/

/-- `protect_statement_start`: the result never starts with `-`; strings that do not start
    with `-` are unchanged, the others are wrapped in parentheses -/
theorem statement_start_protected (s : String) :
    (protectStatementStart s).toList.head? ≠ some '-' ∧
    (s.toList.head? ≠ some '-' → protectStatementStart s = s) ∧
    (s.toList.head? = some '-' → protectStatementStart s = "(" ++ s ++ ")") :=
  ⟨protectStatementStart_head s, protectStatementStart_id s, protectStatementStart_minus s⟩

/-- so no formatted top-level statement, whatever the layout, starts with `-` -/
theorem formatted_statement_never_starts_with_minus (e : Expr) (w : Option Nat) :
    (formatExpr e w).toList.head? ≠ some '-' :=
  protectStatementStart_head _

/-! ### 4. open-ended forms -/

/-- `ends_open` holds exactly when the rightmost leaf along binary-right / unary-operand
    edges is a lambda, conditional, assignment or output -/
theorem endsOpen_characterised (e : Expr) : endsOpen e = true ↔ EndsOpen e := endsOpen_iff e

/-- such a child is never left exposed where something follows it: as a left operand of any
    binary operator and as the operand of any postfix operator it is parenthesised -/
theorem open_ended_forms_are_parenthesised (c : Expr) (op : BinOp) (h : endsOpen c = true) :
    needsParens c (.binLeft op) = true ∧ needsParens c .postfix_ = true :=
  endsOpen_needsParens c op h

/-! ### 5. lambda bodies -/

/-- `lambda_body_needs_parens` holds exactly when the left spine of loosest-level binary
    operators of the body reaches a `via` / `into` / `where` -/
theorem lambda_body_parens_characterised (e : Expr) :
    lambdaBodyNeedsParens e = true ↔ ChainExposed e := lambdaBodyNeedsParens_iff e

/-- the level used there, from the generated precedence table: the operators on the level of
    `via` are exactly `&&`, `and`, `||`, `or`, `via`, `into`, `where`, and no operator is looser -/
theorem chain_level_operators (op : BinOp) :
    ((opInfo op).1 = (opInfo .via).1 ↔
      op ∈ [BinOp.and, .nand, .or, .nor, .via, .into, .where_]) ∧
    (opInfo .via).1 ≤ (opInfo op).1 := chain_level op

/-! ### 6. numbers -/

/-- `number_to_source` by cases: +∞ ↦ `1e999` (an out-of-range literal; there is no literal
    for infinity); integral with |x| < 1e15 ↦ `{:.0}`; otherwise `to_string()` -/
theorem number_to_source_cases (x : F64) :
    (x.isInf = true → x.neg = false → numberToSource x = "1e999") ∧
    (¬ (x.isInf = true ∧ x.neg = false) → x.isIntegral = true →
      F64.flt x.abs f64_1e15 = true → numberToSource x = x.toFixed 0) ∧
    (¬ (x.isInf = true ∧ x.neg = false) →
      ¬ (x.isIntegral = true ∧ F64.flt x.abs f64_1e15 = true) → numberToSource x = x.toDisplay) :=
  ⟨numberToSource_inf x, numberToSource_int x, numberToSource_other x⟩

/-- a number without the sign bit is printed without any `-` (in particular it does not
    start with one) -/
theorem number_without_sign_prints_no_minus (x : F64) (h : x.neg = false) :
    '-' ∉ (numberToSource x).toList := numberToSource_no_minus x h

/-! #### examples: the hypotheses are satisfiable by non-trivial values -/

section examples
private abbrev a : Expr := .ident "a"
private abbrev b : Expr := .ident "b"
private abbrev c : Expr := .ident "c"
private abbrev lam : Expr := .lambda [.req "x"] (.bin .add (.ident "x") (.ident "y"))

/-- `(a - (b - c)) * -c! ^ b` -/
private abbrev t1 : Expr :=
  .bin .mul (.bin .sub a (.bin .sub b c)) (.bin .pow (.un .negate (.fact c)) b)
example : NoInvert t1 := by decide
example : prattParse (items t1) = some t1 := printed_operators_reparse t1 (by decide)

/-- branch 1: `it's` ↦ `"it's"`, read back in front of ` + x` -/
example : '"' ∉ "it's".toList := by decide
example : stringToSource "it's" = "\"it's\"" := by decide
example : readString "\"it's\" + x".toList = some ("it's".toList, " + x".toList) := by decide

/-- branch 2: `say "hi"` ↦ `'say "hi"'` -/
example : '"' ∈ "say \"hi\"".toList ∧ '\'' ∉ "say \"hi\"".toList := by decide
example : stringToSource "say \"hi\"" = "'say \"hi\"'" := by decide

/-- branch 3: `it's "x"` ↦ `("it's " + '"' + "x" + '"')` -/
example : '"' ∈ "it's \"x\"".toList ∧ '\'' ∈ "it's \"x\"".toList := by decide
example : stringToSource "it's \"x\"" = "(\"it's \" + '\"' + \"x\" + '\"')" := by decide
example : quotedPieces "it's \"x\"".toList =
    [('"', "it's ".toList), ('\'', ['"']), ('"', ['x']), ('\'', ['"'])] := by decide

/-- the escaped form the old printer produced is cut at the first quote: `"a\"b"` reads as `a\` -/
example : readString "\"a\\\"b\"".toList = some ("a\\".toList, "b\"".toList) := by decide

/-- record keys: bare, quoted, computed -/
example : isValidIdentifier "rate_2" = true := by decide
example : isValidIdentifier "two words" = false ∧
    ¬ ('"' ∈ "two words".toList ∧ '\'' ∈ "two words".toList) := by decide
example : formatRecordKey "two words" = "\"two words\"" := by decide
example : isValidIdentifier "if" = false := by decide
example : isValidIdentifier "a'\"" = false ∧ '"' ∈ "a'\"".toList ∧ '\'' ∈ "a'\"".toList := by decide
example : formatRecordKey "a'\"" = "[(\"a'\" + '\"')]" := by decide

/-- statement start -/
example : "-x + 1".toList.head? = some '-' := by decide
example : protectStatementStart "-x + 1" = "(-x + 1)" := by decide
example : "x - 1".toList.head? ≠ some '-' := by decide

/-- open-ended: `a + (x => x + y)` ends with a lambda; as the left operand of `*` or under a
    call it must be parenthesised -/
example : endsOpen (.bin .add a lam) = true := by decide
example : EndsOpen (.bin .add a lam) := .binRight _ _ (.lambda _ _)
example : needsParens (.un .negate lam) .postfix_ = true := by decide

/-- lambda body `a && b via c`-like: `(a && b) via c` has `via` on top; `(a via b) || c`
    reaches it along the left spine; `a + (b via c)` does not -/
example : ChainExposed (.bin .or (.bin .via a b) c) := .left _ (by decide +kernel) (.via _ _)
example : lambdaBodyNeedsParens (.bin .or (.bin .via a b) c) = true := by decide +kernel
example : lambdaBodyNeedsParens (.bin .add a (.bin .via b c)) = false := by decide +kernel

/-- numbers: +∞, 3.0, 0.5 (bit patterns) -/
example : F64.inf.isInf = true ∧ F64.inf.neg = false := by decide +kernel
example : (⟨0x4008000000000000⟩ : F64).isIntegral = true ∧
    F64.flt (⟨0x4008000000000000⟩ : F64).abs f64_1e15 = true ∧
    (⟨0x4008000000000000⟩ : F64).neg = false := by decide +kernel
example : ¬ ((⟨0x3FE0000000000000⟩ : F64).isIntegral = true ∧
    F64.flt (⟨0x3FE0000000000000⟩ : F64).abs f64_1e15 = true) := by decide +kernel
end examples

end Blots.C07
