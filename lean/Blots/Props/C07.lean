import Blots.Lemmas.PrattRoundTrip
import Blots.Lemmas.PrintLemmas
import Blots.Lemmas.FormatSquashLayouts
import Blots.Lemmas.FormatFragment
import Blots.Model.Format
/-
  C07 — the formatter preserves program meaning: the parts that are *logic of the printer*.

  The model (`Model/Print.lean`, `Model/Format.lean`) mirrors `ast_to_source.rs` /
  `formatter.rs`; `Model/Pratt.lean` mirrors pest's Pratt parser as `build_pratt_parser`
  configures it.  Statements only; lemmas and auxiliary definitions are in
  `Lemmas/PrattRoundTrip.lean` and `Lemmas/PrintLemmas.lean`.

  PROVED here, for all inputs:
   1. the operator skeleton of every printed expression re-parses to the same tree
      (`needsParens` against the Pratt parser, any depth);
   2. every string literal the printer emits is read back, CHARACTER BY CHARACTER, by the
      grammar rule `string = ${ PUSH("\"" | "'") ~ string_value ~ POP }` (model `readString`)
      to the original characters — all three branches of `string_to_source`; a literal can
      never contain its own delimiter (why the old escaping printer, finding F2, was wrong);
      record keys;
   3. a statement never starts with `-` (it would continue the previous line);
   4. open-ended forms (lambda / if / assignment / output at the right edge) are parenthesised
      wherever something follows them; `endsOpen` characterised inductively;
   5. `lambdaBodyNeedsParens` characterised inductively (`via`/`into`/`where` reachable along
      the left spine of loosest-level operators), with the level facts from the generated table;
   6. `numberToSource` by cases; no minus sign for a number without sign bit.

   7. THE LAYOUTS CHANGE ONLY LAYOUT.  `squash` (`Lemmas/FormatSquash.lean`) deletes, outside
      string literals, spaces / tabs / line breaks and a comma followed by a closing bracket;
      inside a literal nothing.  For every tree, width and indent the text pieces of every
      width-driven layout (`fmtImplP`, `fmtMultiP`, `fmtLambdaP`, `fmtCondP`, `fmtBinP`,
      `formatExpr`) squash to the same characters as the single-line print `expr_to_source` of
      the tree without its comments — so the width changes nothing but layout
      (`format_same_tokens_as_single_line`).  Two exclusions, both necessary:
        * `namesOk`: no identifier-like string of the tree contains a quote character (true of
          every parsed tree; an identifier `a"b` would open a literal);
        * `noBare` / `lamOk`: FINDING — `format_lambda` and `format_single_line` print a lambda
          with one required parameter as `x => …`, `expr_to_source` prints `(x) => …`, and
          `format_single_line` falls back on `expr_to_source` below a conditional, a binary /
          unary / postfix operation, an index, a field access and a spread.  So `xs via x => x + y`
          is formatted `xs via (x) => x + y` when it fits and `xs⏎via x => x + y` when it does
          not (`one_parameter_lambda_parens_depend_on_width`; the same on the real binary):
          harmless for the meaning (same tree), but not "layout only".  `noBare` excludes such
          lambdas everywhere (reference: `expr_to_source`), `lamOk` only below those nodes
          (reference: `flat`, which prints the parameter list as the formatter does).

   8. END TO END ON THE FRAGMENT OF C10 (`Frag t`, `Lemmas/ExprPegLemmas.lean`: binary
      operators, prefix `-` / `!`, postfix `!`, calls, index, field, list literals, lambdas,
      conditionals, string literals without both kinds of quote, record literals, do-blocks
      whose statements are expressions with a leftmost name other than `via` / `into` / `where`,
      assignments — all without comments — over non-reserved identifiers, built-in names, `true false
      null`, integers 0 ≤ n < 10^15; unbounded depth).  For EVERY
      width the text `format_expr` returns is a re-layout (`Relayout`) of the printed text, in
      at most one redundant pair of parentheses, and the character-level PEG model of the
      `expression` rule followed by the Pratt parser reads it back to the tree
      (`format_is_relayout`, `format_text_roundtrip`).  The layout the formatter chooses —
      line break + indent in front of the operator, one blank behind it — is admissible for all
      26 operators, word or symbol (`break_before_operator_is_admissible`); no operator /
      layout combination the formatter can emit on the fragment is refused by the grammar.
      (`Lemmas/FormatFragment.lean`.)

  NOT proved: the text-level round trip OUTSIDE that fragment — that the whole formatted text
  of a tree with comments, `output`, input references, general numbers, strings
  with both kinds of quote, do-block statements that start with a word-operator name, lexed
  character by character by the PEG grammar, yields the tree; nor the statement level (a whole
  program).  That is
  tied to the real code by the correspondence harness (model output = Rust output on generated
  programs) and by the model-free reparse oracle of `harness/src/props/c07.rs` (format, parse
  again, compare trees).
-/
namespace Blots.C07
open Blots.PrattRT Blots.PrintL Blots.Squash Blots.FormatL

/-! ### 1. operator skeleton -/

/-- `expr_to_source` is `expr_to_source_with_scope` with nothing to inline -/
theorem exprToSource_is_empty_scope (e : Expr) : exprToSource e = exprSrc [] e := rfl

/-- The pair sequence of the minimally parenthesised print of a tree (a parenthesised child
    is one primary) is parsed back to that tree by the Pratt parser — unbounded depth. -/
theorem printed_operators_reparse (e : Expr) (h : NoInvert e) : prattParse (items e) = some e :=
  (items_PExpr e h).parse

/-! ### 2. string literals, character level -/

/-- branch 1 of `string_to_source`: a string without `"` is printed `"s"` and the grammar's
    `string` rule reads exactly `s` back, leaving whatever follows -/
theorem string_without_dquote_reads_back (s rest : List Char) (h : '"' ∉ s) :
    stringToSource (String.ofList s) = "\"" ++ String.ofList s ++ "\"" ∧
    readString ((stringToSource (String.ofList s)).toList ++ rest) = some (s, rest) :=
  ⟨stringToSource_dq _ (by simpa using h), readString_dq s rest h⟩

/-- branch 2: a string with `"` but without `'` is printed `'s'` and reads back -/
theorem string_with_dquote_reads_back (s rest : List Char) (h1 : '"' ∈ s) (h2 : '\'' ∉ s) :
    stringToSource (String.ofList s) = "'" ++ String.ofList s ++ "'" ∧
    readString ((stringToSource (String.ofList s)).toList ++ rest) = some (s, rest) :=
  ⟨stringToSource_sq _ (by simpa using h1) (by simpa using h2), readString_sq s rest h1 h2⟩

/-- branch 3: both quote kinds occur.  The text is `( lit + lit + … )` with at least one
    literal; every literal is `q content q` with `q` a quote character not occurring in
    `content`, so `readString` reads it back to `content`; and the contents, concatenated in
    order, are the original string. -/
theorem string_with_both_quotes_is_concatenation (s : String)
    (h1 : '"' ∈ s.toList) (h2 : '\'' ∈ s.toList) :
    stringToSource s = "(" ++ " + ".intercalate ((quotedPieces s.toList).map litOf) ++ ")" ∧
    quotedPieces s.toList ≠ [] ∧
    (∀ qc ∈ quotedPieces s.toList,
      (qc.1 = '"' ∨ qc.1 = '\'') ∧ qc.1 ∉ qc.2 ∧
      (litOf qc).toList = qc.1 :: (qc.2 ++ [qc.1]) ∧
      ∀ rest, readString ((litOf qc).toList ++ rest) = some (qc.2, rest)) ∧
    (pieces s.toList).flatten = s.toList ∧
    pieces s.toList = (quotedPieces s.toList).map (·.2) := by
  refine ⟨stringToSource_both s h1 h2, quotedPieces_ne_nil _ h1, ?_, pieces_flatten _, rfl⟩
  intro qc hqc
  obtain ⟨hq, hf⟩ := quotedPieces_ok _ qc hqc
  exact ⟨hq, hf, by simp [litOf], litOf_reads qc hq hf⟩

/-- What the `string` rule can read at all: `q content q` with `q ∉ content`.  No literal
    denotes a string containing its own delimiter — the grammar has no escapes, which is why
    a printer that escapes quotes (the old one, finding F2) cannot be read back. -/
theorem string_rule_reads_only_delimiter_free (inp c rest : List Char)
    (h : readString inp = some (c, rest)) :
    ∃ q, (q = '"' ∨ q = '\'') ∧ inp = q :: (c ++ q :: rest) ∧ q ∉ c :=
  readString_content_free inp c rest h

/-- `format_record_key`: a valid identifier is printed bare; any other key as a string literal
    that reads back to the key; when both quote kinds occur, as a computed key `[ … ]` around
    the concatenation of the previous theorem. -/
theorem record_key_printed (k : String) :
    (isValidIdentifier k = true → formatRecordKey k = k) ∧
    (isValidIdentifier k = false → ¬ ('"' ∈ k.toList ∧ '\'' ∈ k.toList) →
      formatRecordKey k = stringToSource k ∧
      ∀ rest, readString ((formatRecordKey k).toList ++ rest) = some (k.toList, rest)) ∧
    (isValidIdentifier k = false → '"' ∈ k.toList → '\'' ∈ k.toList →
      formatRecordKey k = "[" ++ stringToSource k ++ "]") :=
  ⟨formatRecordKey_ident k,
   fun h hq => ⟨formatRecordKey_string k h hq, formatRecordKey_reads k h hq⟩,
   formatRecordKey_computed k⟩

/-- a bare key is not a reserved word and is made of identifier characters; the printer's
    list of reserved words is the grammar's (both generated from the sources) -/
theorem bare_key_is_identifier (k : String) (h : isValidIdentifier k = true) :
    k ∉ Gen.grammarReserved ∧
    ∃ c rest, k.toList = c :: rest ∧ (isAsciiAlpha c = true ∨ c = '_') ∧
      ∀ d ∈ rest, isAsciiAlpha d = true ∨ isAsciiDigit d = true ∨ d = '_' := by
  have := isValidIdentifier_spec k h
  rwa [reserved_lists_agree] at this

/-! ### 3. statement start -/

/-- `protect_statement_start`: the result starts neither with `-` nor with `via` / `into` /
    `where` followed by a blank or a tab (`wordOperatorStart`); strings that start with none of
    these are unchanged, the others are wrapped in one pair of parentheses -/
theorem statement_start_protected (s : String) :
    (protectStatementStart s).toList.head? ≠ some '-' ∧
    wordOperatorStart (protectStatementStart s).toList = false ∧
    (s.toList.head? ≠ some '-' → wordOperatorStart s.toList = false → protectStatementStart s = s) ∧
    (s.toList.head? = some '-' → protectStatementStart s = "(" ++ s ++ ")") ∧
    (wordOperatorStart s.toList = true → protectStatementStart s = "(" ++ s ++ ")") :=
  ⟨protectStatementStart_head s, protectStatementStart_word s, protectStatementStart_id s,
    protectStatementStart_minus s, protectStatementStart_wordStart s⟩

/-- hence no statement `format_expr` prints can continue the line before it as a subtraction -/
theorem formatted_statement_never_starts_with_minus (e : Expr) (w : Option Nat) :
    (formatExpr e w).toList.head? ≠ some '-' :=
  protectStatementStart_head _

/-- … nor as the right operand of `via` / `into` / `where` (names that are no reserved words:
    `a` ⏎ `where into x` would be read as `a where into` and a stray `x` — found by the
    character-level model of the statement rules, C10; since repo commit 1decf6c such a statement
    is parenthesised) -/
theorem formatted_statement_never_starts_with_word_operator (e : Expr) (w : Option Nat) :
    wordOperatorStart (formatExpr e w).toList = false :=
  protectStatementStart_word _

/-! ### 4. open-ended forms -/

/-- `ends_open` holds exactly when the rightmost leaf along binary-right / unary-operand
    edges is a lambda, conditional, assignment or output -/
theorem endsOpen_characterised (e : Expr) : endsOpen e = true ↔ EndsOpen e := endsOpen_iff e

/-- such a child is never left exposed where something follows it: as a left operand of any
    binary operator and as the operand of any postfix operator it is parenthesised -/
theorem open_ended_forms_are_parenthesised (c : Expr) (op : BinOp) (h : endsOpen c = true) :
    needsParens c (.binLeft op) = true ∧ needsParens c .postfix_ = true :=
  endsOpen_needsParens c op h

/-! ### 5. lambda bodies -/

/-- `lambda_body_needs_parens` holds exactly when the left spine of loosest-level binary
    operators of the body reaches a `via` / `into` / `where` -/
theorem lambda_body_parens_characterised (e : Expr) :
    lambdaBodyNeedsParens e = true ↔ ChainExposed e := lambdaBodyNeedsParens_iff e

/-- the level used there, from the generated precedence table: the operators on the level of
    `via` are exactly `&&`, `and`, `||`, `or`, `via`, `into`, `where`, and no operator is looser -/
theorem chain_level_operators (op : BinOp) :
    ((opInfo op).1 = (opInfo .via).1 ↔
      op ∈ [BinOp.and, .nand, .or, .nor, .via, .into, .where_]) ∧
    (opInfo .via).1 ≤ (opInfo op).1 := chain_level op

/-! ### 6. numbers -/

/-- `number_to_source` by cases: +∞ ↦ `1e999` (an out-of-range literal; there is no literal
    for infinity); integral with |x| < 1e15 ↦ `{:.0}`; otherwise `to_string()` -/
theorem number_to_source_cases (x : F64) :
    (x.isInf = true → x.neg = false → numberToSource x = "1e999") ∧
    (¬ (x.isInf = true ∧ x.neg = false) → x.isIntegral = true →
      F64.flt x.abs f64_1e15 = true → numberToSource x = x.toFixed 0) ∧
    (¬ (x.isInf = true ∧ x.neg = false) →
      ¬ (x.isIntegral = true ∧ F64.flt x.abs f64_1e15 = true) → numberToSource x = x.toDisplay) :=
  ⟨numberToSource_inf x, numberToSource_int x, numberToSource_other x⟩

/-- a number without the sign bit is printed without any `-` (in particular it does not
    start with one) -/
theorem number_without_sign_prints_no_minus (x : F64) (h : x.neg = false) :
    '-' ∉ (numberToSource x).toList := numberToSource_no_minus x h

/-! ### 7. the width-driven layouts change only layout -/

/-- `squash` keeps a text without layout characters, commas and quotes as it is … -/
theorem squash_keeps_solid_text (s : String)
    (h : ∀ c ∈ s.toList, isLayout c = false ∧ c ≠ ',' ∧ isQuote c = false) : squash s = s := by
  obtain ⟨h1, h2⟩ := squashL_solid s.toList h
  unfold squash squashL
  rw [h1, h2]
  simp [flush, commas]

/-- … and a string literal, whatever it contains (layout, commas, brackets, the other quote),
    and goes on behind it -/
theorem squash_keeps_string_literals (q : Char) (hq : q = '"' ∨ q = '\'') (s rest : List Char)
    (h : q ∉ s) :
    squash (String.ofList (q :: (s ++ q :: rest))) =
      String.ofList (q :: (s ++ [q])) ++ squash (String.ofList rest) := by
  have hq' : isQuote q = true := by rcases hq with rfl | rfl <;> decide
  apply String.toList_inj.mp
  simp only [squash, String.toList_ofList, String.toList_append, squashL_literal q hq' s _ h]
  simp

/-- texts compose: `squash (a ++ b)` is computed from the state `a` leaves behind -/
theorem squash_append_from_state (a b : String) :
    (squash (a ++ b)).toList =
      outp (.out 0) a.toList ++
        (outp (fin (.out 0) a.toList) b.toList ++ flush (fin (fin (.out 0) a.toList) b.toList)) := by
  simp only [squash, String.toList_ofList, String.toList_append, squashL_append]

/-- `flat` — the single-line form the layouts are compared with — is `expr_to_source` of the
    tree without its comments, unless a lambda has exactly one required parameter -/
theorem flat_is_single_line_print (e : Expr) (hb : noBare e = true) :
    flat e = exprToSource (eraseComments e) := (src_erase e hb).symm

/-- … and it is `format_single_line` wherever `format_expr_impl` uses that text -/
theorem flat_is_format_single_line (e : Expr) (hl : lamOk e = true)
    (h1 : hasNewline (fmtSingle e) = false) : fmtSingle e = flat e := single_flat e hl h1

/-- erasing the comments of a tree without comments changes nothing -/
theorem eraseComments_of_comment_free (e : Expr) (hc : anyComment e = false) :
    eraseComments e = e := erase_id e hc

/-- `noBare` is the stronger exclusion -/
theorem noBare_implies_lamOk (e : Expr) (hb : noBare e = true) : lamOk e = true :=
  lamOk_of_noBare e hb

/-- MAIN THEOREM.  For every width, indent and tree (names without quotes, no lambda with
    exactly one required parameter): the text pieces of `format_expr_impl`'s layout — the
    comment pieces dropped; what remains of their lines is white space — and the single-line
    print of the comment-free tree have the same characters up to layout. -/
theorem layout_only_changes_layout (w indent : Nat) (e : Expr) (hn : namesOk e = true)
    (hb : noBare e = true) :
    squash (render (textOnly (fmtImplP w indent e))) = squash (exprToSource (eraseComments e)) := by
  rw [squash_of_eqv (sq_impl e w indent hn (lamOk_of_noBare e hb)), exprToSource, src_erase e hb]

/-- the same with the weaker exclusion `lamOk` (one-parameter lambdas allowed wherever
    `format_single_line` itself prints them), against `flat` -/
theorem layout_only_changes_layout_general (w indent : Nat) (e : Expr) (hn : namesOk e = true)
    (hl : lamOk e = true) : squash (render (textOnly (fmtImplP w indent e))) = squash (flat e) :=
  squash_of_eqv (sq_impl e w indent hn hl)

/-- for a tree without comments: the layout text itself against `expr_to_source` of the tree -/
theorem layout_of_comment_free_tree (w indent : Nat) (e : Expr) (hn : namesOk e = true)
    (hb : noBare e = true) (hc : anyComment e = false) :
    squash (fmtImpl w indent e) = squash (exprToSource e) := by
  have := layout_only_changes_layout w indent e hn hb
  rwa [textOnly_impl e w indent hc, erase_id e hc] at this

/-- `format_expr` = `protect_statement_start ∘ format_expr_impl`: the parentheses around a
    statement that starts with `-` are decided alike on the layout and on the single-line text;
    so are those around a statement that starts with `via` / `into` / `where` and a blank WHEN
    NO SUCH NAME STANDS AT ITS START (`headSafe`: the leftmost name of the tree is none of the
    three) — otherwise the decision depends on the layout (`via + b` is parenthesised, `via` ⏎
    `+ b` is not and need not be), see `word_operator_name_breaks_layout_equivalence`.  The
    same exclusion is part of `namesOk` for the statements of every do-block inside the tree. -/
theorem format_expr_only_changes_layout (e : Expr) (mw : Option Nat) (hn : namesOk e = true)
    (hb : noBare e = true) (hs : headSafe e = true) :
    squash (render (textOnly (formatExprP e mw))) =
      squash (protectStatementStart (exprToSource (eraseComments e))) := by
  rw [squash_of_eqv (eqv_formatExprP e mw hn (lamOk_of_noBare e hb) hs), exprToSource, src_erase e hb]

theorem format_expr_only_changes_layout_general (e : Expr) (mw : Option Nat)
    (hn : namesOk e = true) (hl : lamOk e = true) (hs : headSafe e = true) :
    squash (render (textOnly (formatExprP e mw))) = squash (protectStatementStart (flat e)) :=
  squash_of_eqv (eqv_formatExprP e mw hn hl hs)

/-- … for a tree without comments, on the string `format_expr` returns -/
theorem format_expr_of_comment_free_tree (e : Expr) (mw : Option Nat) (hn : namesOk e = true)
    (hb : noBare e = true) (hs : headSafe e = true) (hc : anyComment e = false) :
    squash (formatExpr e mw) = squash (protectStatementStart (exprToSource e)) := by
  have := format_expr_only_changes_layout e mw hn hb hs
  rwa [textOnly_formatExprP e mw hc, render_formatExprP, erase_id e hc] at this

/-- `format_multiline` on every node `format_expr_impl` passes to it -/
theorem multiline_layout_only_changes_layout (w indent : Nat) (e : Expr)
    (hnl : ∀ args body, e ≠ .lambda args body) (hn : namesOk e = true) (hl : lamOk e = true) :
    squash (render (textOnly (fmtMultiP w indent e))) = squash (flat e) :=
  squash_of_eqv (sq_multi e w indent hn hl hnl)

/-- `format_lambda`: argument list, `=>` with a space or a line break, parenthesised body -/
theorem lambda_layout_only_changes_layout (w indent : Nat) (args : List LArg) (body : Expr)
    (hn : namesOk (.lambda args body) = true) (hl : lamOk (.lambda args body) = true) :
    squash (render (textOnly (fmtLambdaP w indent args body))) = squash (flat (.lambda args body)) :=
  squash_of_eqv (sq_lambda w indent args body hn hl)

/-- `format_conditional_multiline`: both `if … then` layouts, `else if` chains -/
theorem conditional_layout_only_changes_layout (w indent : Nat) (c t e : Expr)
    (hn : namesOk (.cond c t e) = true) (hl : lamOk (.cond c t e) = true) :
    squash (render (textOnly (fmtCondP w indent c t e))) = squash (flat (.cond c t e)) :=
  squash_of_eqv (sq_cond w indent c t e hn hl)

/-- `format_binary_op_multiline`: the `via` / `into` / `where` chain layouts and the operator
    on a new line -/
theorem binary_layout_only_changes_layout (w indent : Nat) (op : BinOp) (l r : Expr)
    (hn : namesOk (.bin op l r) = true) (hl : lamOk (.bin op l r) = true) :
    squash (render (textOnly (fmtBinP w indent op l r))) = squash (flat (.bin op l r)) :=
  squash_of_eqv (sq_bin w indent op l r hn hl)

/-- where `format_expr_impl` takes the single-line path its result IS `format_single_line` -/
theorem single_line_path_is_fmtSingle (e : Expr) (w indent : Nat)
    (h1 : ∀ args body, e ≠ .lambda args body) (h2 : ∀ ss r, e ≠ .doBlock ss r)
    (hnl : hasNewline (fmtSingle e) = false) (hfit : indent + blen (firstLine (fmtSingle e)) ≤ w) :
    fmtImpl w indent e = fmtSingle e := fmtImpl_single e w indent h1 h2 hnl hfit

/-- whenever the single-line text is one line, every width prints its characters -/
theorem format_squashes_to_single_line (e : Expr) (mw : Option Nat) (hn : namesOk e = true)
    (hl : lamOk e = true) (hs : headSafe e = true) (h1 : hasNewline (fmtSingle e) = false) :
    squash (formatExpr e mw) = squash (protectStatementStart (fmtSingle e)) := by
  have hc := anyComment_false_of_single h1
  have := format_expr_only_changes_layout_general e mw hn hl hs
  rwa [textOnly_formatExprP e mw hc, render_formatExprP, ← single_flat e hl h1] at this

/-- COROLLARY: layout is the only thing the width changes.  For a tree without comments the
    outputs of `format_expr` at any two widths have the same characters up to layout … -/
theorem format_same_tokens_as_single_line (e : Expr) (w w' : Nat) (hn : namesOk e = true)
    (hl : lamOk e = true) (hs : headSafe e = true) (hc : anyComment e = false) :
    squash (formatExpr e (some w)) = squash (formatExpr e (some w')) := by
  have h1 := format_expr_only_changes_layout_general e (some w) hn hl hs
  have h2 := format_expr_only_changes_layout_general e (some w') hn hl hs
  rw [textOnly_formatExprP e _ hc, render_formatExprP] at h1 h2
  rw [h1, h2]

/-- … and for any tree the text pieces do (the comment pieces are the same at every width:
    C09 `comments_preserved`) -/
theorem format_same_tokens_at_any_width (e : Expr) (mw mw' : Option Nat) (hn : namesOk e = true)
    (hl : lamOk e = true) (hs : headSafe e = true) :
    squash (render (textOnly (formatExprP e mw))) = squash (render (textOnly (formatExprP e mw'))) := by
  rw [format_expr_only_changes_layout_general e mw hn hl hs,
    format_expr_only_changes_layout_general e mw' hn hl hs]

/-- FINDING (why `lamOk` is needed): the parentheses around a single lambda parameter depend
    on the width.  `xs via x => x + y` fits in 80 columns and is printed by `expr_to_source`
    — `(x) =>` —, in 10 columns `format_binary_op_multiline` hands the lambda to
    `format_lambda` — `x =>`.  Same tree, but more than layout. -/
theorem one_parameter_lambda_parens_depend_on_width :
    let e : Expr := .bin .via (.ident "xs") (.lambda [.req "x"] (.bin .add (.ident "x") (.ident "y")))
    formatExpr e (some 80) = "xs via (x) => x + y" ∧
    formatExpr e (some 10) = "xs\nvia x => x + y" ∧
    squash (formatExpr e (some 80)) ≠ squash (formatExpr e (some 10)) ∧
    namesOk e = true ∧ anyComment e = false ∧ lamOk e = false := by
  decide +kernel

/-- why `namesOk` is needed: a "name" with a quote character opens a literal, in which line
    breaks are not layout -/
theorem quote_in_a_name_breaks_layout_equivalence :
    let e : Expr := .list [.mk [] (.ident "a\"b") none, .mk [] (.ident "c\"d") none]
    squash (formatExpr e (some 80)) ≠ squash (formatExpr e (some 5)) ∧
    lamOk e = true ∧ anyComment e = false ∧ namesOk e = false := by
  decide +kernel

/-- FINDING (why `headSafe` is needed, since repo commit 1decf6c): a statement whose leftmost
    name is `via` / `into` / `where` is parenthesised by `protect_statement_start` when a blank
    follows the name, and is not when the layout breaks the line there — more than layout.  At
    the top level (`format_expr`) and for a statement of a do-block (`namesOk` excludes it). -/
theorem word_operator_name_breaks_layout_equivalence :
    let e : Expr := .bin .add (.ident "via") (.ident "b")
    let d : Expr := .doBlock [.mk [] e none] (.mk [] (.ident "x") none)
    formatExpr e (some 80) = "(via + b)" ∧ formatExpr e (some 3) = "via\n  + b" ∧
    squash (formatExpr e (some 80)) ≠ squash (formatExpr e (some 3)) ∧
    headSafe e = false ∧ namesOk e = true ∧ lamOk e = true ∧ anyComment e = false ∧
    fmtImpl 3 0 d = "do {\n  via\n    + b\n  return x\n}" ∧
    exprToSource d = "do {\n  (via + b)\n  return x\n}" ∧
    squash (fmtImpl 3 0 d) ≠ squash (exprToSource d) ∧ namesOk d = false ∧ noBare d = true := by
  decide +kernel

/-! ### 8. END TO END on the fragment of C10 (`Frag`: operators, calls, index, field, list
    literals, lambdas, conditionals, string literals without both kinds of quote, record
    literals, do-blocks, assignments): format, then read the TEXT back.

    `canonF t` is `format_single_line t` as a concrete syntax tree: the printer's tree `canon t`
    except that, where `format_single_line` itself descends (lambda bodies, call arguments, list
    items), a lambda with ONE required parameter is written `x => e` instead of `(x) => e`. -/

section text
open Blots.ExprPeg Blots.FormatFrag

/-- `format_expr_impl` ONLY RE-LAYOUTS the printed text of a fragment tree: for every width and
    indent its result is, character for character, the text of a concrete syntax tree `c` with
    `Relayout t c` — the atoms, operators and parentheses `expr_to_source` writes, with other
    ADMISSIBLE layout strings (`CST.layOk`) around the binary operators. -/
theorem format_is_relayout (t : Expr) (h : Frag t) (w indent : Nat) :
    ∃ c : CST, Relayout t c ∧ fmtImpl w indent t = String.ofList c.text :=
  ⟨fmtCST w indent t, fmtCST_relayout t h w indent, fmtImpl_eq_text t h w indent⟩

/-- … and which tree that is (`fmtCST`): the printer's own wherever the single-line form fits;
    otherwise, for a binary operator, `left ⏎ indent+2 blanks  op ␣ right` over the re-formatted
    operands, for a prefix / postfix operator the sign directly at the re-formatted operand, for
    an assignment `name = ` in front of the value re-formatted at the same indent. -/
theorem format_layout_tree (w indent : Nat) :
    (∀ t, Frag t → isLambda t = false → fits w indent t = true → fmtCST w indent t = canonF t) ∧
    (∀ op l r, fits w indent (.bin op l r) = false → (chainOp op && isLambda r) = false →
      fmtCST w indent (.bin op l r) =
      .bin op (wrap (needsParens l (.binLeft op)) (fmtCST w indent l))
        (.lf :: List.replicate (indent + 2) .sp) [.sp]
        (wrap (needsParens r (.binRight op)) (fmtCST w (indent + 2) r))) ∧
    (∀ op l r, fits w indent (.bin op l r) = false → (chainOp op && isLambda r) = true →
      fmtCST w indent (.bin op l r) =
      .bin op (wrap (needsParens l (.binLeft op)) (fmtCST w indent l))
        (if chainFits w indent op l r then [.sp] else .lf :: List.replicate indent .sp) [.sp]
        (wrap (needsParens r (.binRight op)) (fmtCST w indent r))) ∧
    (∀ args body, fmtCST w indent (.lambda args body) =
      if lambdaBodyNeedsParens body then
        .lambda (headF args) [.sp] [.sp] (.paren [] (fmtCST w indent body) [])
      else if isDoBlock body || lamFits w indent args body then
        .lambda (headF args) [.sp] [.sp] (fmtCST w indent body)
      else .lambda (headF args) [.sp] (.lf :: List.replicate (indent + 2) .sp)
        (fmtCST w (indent + 2) body)) ∧
    (∀ op e, fits w indent (.un op e) = false → fmtCST w indent (.un op e) =
      .un op (wrap (needsParens e .prefix_) (fmtCST w indent e))) ∧
    (∀ e, fits w indent (.fact e) = false → fmtCST w indent (.fact e) =
      .fact (wrap (needsParens e .postfix_) (fmtCST w indent e))) ∧
    (∀ f args, fits w indent (.call f args) = false → fmtCST w indent (.call f args) =
      mkCallML indent (wrap (needsParens f .postfix_) (fmtCST w indent f))
        (fmtArgsCST w (indent + 2) args)) ∧
    (∀ e i, fits w indent (.access e i) = false → fmtCST w indent (.access e i) =
      .access (wrap (needsParens e .postfix_) (fmtCST w indent e)) [] (fmtCST w indent i) []) ∧
    (∀ e n, fits w indent (.dot e n) = false → fmtCST w indent (.dot e n) =
      .dot (wrap (needsParens e .postfix_) (fmtCST w indent e)) n) ∧
    (∀ items, fits w indent (.list items) = false → fmtCST w indent (.list items) =
      mkListML indent (fmtItemsCST w (indent + 2) items)) ∧
    (∀ c t e, fits w indent (.cond c t e) = false → fmtCST w indent (.cond c t e) =
      condCST indent (condHeadFits w indent c) (fmtCST w indent c) (fmtCST w (indent + 2) c)
        (fmtCST w (indent + 2) t)
        (match fmtChainCST w indent e with | some _ => [.sp] | none => .lf :: List.replicate (indent + 2) .sp)
        (match fmtChainCST w indent e with | some x => x | none => fmtCST w (indent + 2) e)) ∧
    (∀ es, fits w indent (.record es) = false → fmtCST w indent (.record es) =
      mkRecordML indent (fmtEntsCST w (indent + 2) es)) ∧
    (∀ n v, fits w indent (.assign n v) = false → fmtCST w indent (.assign n v) =
      .asg n [.sp] [.sp] (fmtCST w indent v)) := by
  refine ⟨?_, ?_, ?_, ?_, ?_, ?_, ?_, ?_, ?_, ?_, ?_, ?_, ?_⟩
  · intro t h hl hf
    cases t <;> first
      | (simp [Frag, frag, fragB] at h; done)
      | (simp [isLambda] at hl; done)
      | (rw [fits_doBlock] at hf; cases hf)
      | (unfold fmtCST; rw [if_pos hf])
      | (unfold fmtCST canonF; rfl)
  · intro op l r hf hc; rw [fmtCST, hf, hc]; rfl
  · intro op l r hf hc; rw [fmtCST, hf, hc]; rfl
  · intro args body; rw [fmtCST]; rfl
  · intro op e hf; rw [fmtCST, hf]; rfl
  · intro e hf; rw [fmtCST, hf]; rfl
  · intro f args hf; rw [fmtCST, hf]; rfl
  · intro e i hf; rw [fmtCST, hf]; rfl
  · intro e n hf; rw [fmtCST, hf]; rfl
  · intro items hf; rw [fmtCST, hf]; rfl
  · intro c t e hf; rw [fmtCST, hf]; rfl
  · intro es hf; rw [fmtCST, hf]; rfl
  · intro n v hf; rw [fmtCST, hf]; rfl

/-- the multi-line conditional: `if c then⏎ (indent+2) t⏎ indent else …` when `if c then` fits,
    else `if c'⏎ indent then⏎ (indent+2) t⏎ indent else …` with the condition re-formatted one
    level deeper; `else` is followed by one blank and the else-if chain at the same indent, or
    by a line break and the else-expression one level deeper.  Every gap is non-empty layout, the
    one behind `if` is a blank: what the atomic rule `conditional` asks for. -/
theorem format_cond_layout (indent : Nat) (cC cIn tIn eC : CST) (l4 : Lay) :
    condCST indent true cC cIn tIn l4 eC =
      .cond [.sp] cC [.sp] (.lf :: List.replicate (indent + 2) .sp) tIn
        (.lf :: List.replicate indent .sp) l4 eC ∧
    condCST indent false cC cIn tIn l4 eC =
      .cond [.sp] cIn (.lf :: List.replicate indent .sp) (.lf :: List.replicate (indent + 2) .sp) tIn
        (.lf :: List.replicate indent .sp) l4 eC :=
  ⟨rfl, rfl⟩

/-- the multi-line call: `f(` line break, every argument at `indent + 2` followed by a comma and
    a line break, `)` at `indent` — the trailing comma is followed by a line break, as
    `call_list` requires (`("," ~ NEWLINE)?`); a multi-line list is laid out the same way -/
theorem format_call_layout (indent : Nat) (f : CST) (p : Bool × CST) (ps : List (Bool × CST)) :
    mkCallML indent f (p :: ps) =
      .call f (.lf :: List.replicate (indent + 2) .sp) (mkArgsML indent p ps)
        (.comma [] (.lf :: List.replicate indent .sp)) ∧
    mkListML indent (p :: ps) =
      .list (.lf :: List.replicate (indent + 2) .sp) (mkArgsML indent p ps)
        (.comma [] (.lf :: List.replicate indent .sp)) ∧
    (Close.comma [] (.lf :: List.replicate indent .sp)).okCall = true ∧
    (Close.comma [] (.lf :: List.replicate indent .sp)).okList = true ∧
    mkArgsML indent p [] = .last p.1 p.2 ∧
    (∀ q rest, mkArgsML indent p (q :: rest) =
      .cons p.1 p.2 [] (.lf :: List.replicate (indent + 2) .sp) (mkArgsML indent q rest)) :=
  ⟨rfl, rfl, rfl, rfl, rfl, fun _ _ => rfl⟩

/-- the multi-line record: `{` line break, every entry at `indent + 2` followed by a comma and a
    line break, `}` at `indent` (the layout of a multi-line list).  An entry is `key: value` with
    the key as `format_record_key` writes it — bare when it is an identifier, else a string
    literal — and the value formatted at the entry's indent; `[key]: value` with both formatted
    there; a shorthand; `...e`. -/
theorem format_record_layout (w indent inner : Nat) (e : Ent) (es : List Ent) :
    mkRecordML indent (e :: es) =
      .record (.lf :: List.replicate (indent + 2) .sp) (mkEntsML indent e es)
        (.comma [] (.lf :: List.replicate indent .sp)) ∧
    mkRecordML indent [] = .rec0 [] ∧
    mkEntsML indent e [] = .last e ∧
    (∀ q rest, mkEntsML indent e (q :: rest) =
      .cons e [] (.lf :: List.replicate (indent + 2) .sp) (mkEntsML indent q rest)) ∧
    (∀ k v, fmtEntCST w inner (.mk [] (.static k) v none) =
      if isValidIdentifier k || !bothQuotes k then keyEnt k (fmtCST w inner v)
      else .raw (.mk [] (.static k) v none)) ∧
    (∀ k v, keyEnt k v =
      if isValidIdentifier k then .pairId k [] [.sp] v
      else .pairStr (!k.toList.contains '"') k [] [.sp] v) ∧
    (∀ ke v, fmtEntCST w inner (.mk [] (.dyn ke) v none) =
      .pairDyn [] (fmtCST w inner ke) [] [] [.sp] (fmtCST w inner v)) ∧
    (∀ n, fmtEntCST w inner (.mk [] (.short n) .null none) = .short n) ∧
    (∀ x, fmtEntCST w inner (.mk [] (.spread (.spread x)) .null none) =
      .spread (fmtCST w inner (.spread x))) :=
  ⟨rfl, rfl, rfl, fun _ _ => rfl, fun _ _ => by simp [fmtEntCST, entPlain],
    fun _ _ => rfl, fun _ _ => by simp [fmtEntCST, entPlain],
    fun _ => by simp [fmtEntCST, entPlain, isNullE], fun _ => by simp [fmtEntCST, entPlain, isNullE]⟩

/-- the do-block: ALWAYS on several lines (its single-line form never "fits": it contains line
    breaks).  `do {`, every statement on its own line at `indent + 2` — in parentheses when its
    formatted text starts with `-` (`protC`, the structural reading of `protect_statement_start`
    on fragment statements, `protC_text`) —, `return e` at `indent + 2`, `}` at `indent`.  Every
    statement separator is a line break, never `;`.  A lambda whose body is a do-block keeps
    `=> do {` on the line of its head (clause 4 of `format_layout_tree`). -/
theorem format_do_block_layout (w indent : Nat) (ss : List Item) (lead : List String) (e : Expr)
    (tr : Option String) :
    fits w indent (.doBlock ss (.mk lead e tr)) = false ∧
    fmtCST w indent (.doBlock ss (.mk lead e tr)) =
      .doB [.sp] (.lf :: List.replicate (indent + 2) .sp) (fmtStmtsCST w indent ss) [.sp]
        (fmtCST w (indent + 2) e) (.lf :: List.replicate indent .sp) ∧
    fmtStmtsCST w indent [] = .nil ∧
    (∀ l s t rest, fmtStmtsCST w indent (.mk l s t :: rest) =
      .cons (protC (fmtCST w (indent + 2) s)) (.line (.lf :: List.replicate (indent + 2) .sp))
        (fmtStmtsCST w indent rest)) ∧
    (∀ c : CST, protC c = if c.startsMinus then .paren [] c [] else c) :=
  ⟨fits_doBlock w indent ss _, by rw [fmtCST]; rfl, rfl, fun _ _ _ _ => rfl, fun _ => rfl⟩

/-- the same on strings: where the single-line form fits the output is `expr_to_source`;
    where it does not, the operator of a binary node starts a new line two columns deeper and
    is followed by one blank. -/
theorem format_layout_text (w indent : Nat) :
    (∀ t, Frag t → isLambda t = false → fits w indent t = true →
      fmtImpl w indent t = fmtSingle t) ∧
    (∀ op l r, isLambda r = false → fits w indent (.bin op l r) = false →
      fmtImpl w indent (.bin op l r) =
        parenIf (needsParens l (.binLeft op)) (fmtImpl w indent l) ++ "\n" ++
          makeIndent (indent + 2) ++ opSpelling op ++ " " ++
          parenIf (needsParens r (.binRight op)) (fmtImpl w (indent + 2) r)) ∧
    (∀ op e, fits w indent (.un op e) = false → fmtImpl w indent (.un op e) =
      unaryOpToSource op ++ parenIf (needsParens e .prefix_) (fmtImpl w indent e)) ∧
    (∀ e, fits w indent (.fact e) = false → fmtImpl w indent (.fact e) =
      parenIf (needsParens e .postfix_) (fmtImpl w indent e) ++ "!") ∧
    (∀ f a rest, fits w indent (.call f (a :: rest)) = false →
      fmtImpl w indent (.call f (a :: rest)) =
        parenIf (needsParens f .postfix_) (fmtImpl w indent f) ++ "(" ++
          render (fmtArgsP w (indent + 2) (a :: rest)) ++ "\n" ++ makeIndent indent ++ ")") ∧
    (∀ e i, fits w indent (.access e i) = false → fmtImpl w indent (.access e i) =
      parenIf (needsParens e .postfix_) (fmtImpl w indent e) ++ "[" ++ fmtImpl w indent i ++ "]") ∧
    (∀ e n, fits w indent (.dot e n) = false → fmtImpl w indent (.dot e n) =
      parenIf (needsParens e .postfix_) (fmtImpl w indent e) ++ "." ++ n) :=
  ⟨fun t h hl hf => fmtImpl_fits t h w indent hf hl,
   fun op l r hr hf => fmtImpl_bin_break w indent op l r hr hf,
   fmtImpl_un_break w indent, fmtImpl_fact_break w indent, fmtImpl_call_break w indent,
   fmtImpl_access_break w indent, fmtImpl_dot_break w indent⟩

/-- THE LAYOUT THE FORMATTER CHOOSES IS ADMISSIBLE for each of the 26 binary operators, word
    or symbol: any layout that starts with a line break in front of the operator, one blank
    behind it.  (A line break BEHIND a word operator, or no layout in front of `!=`, would not
    be: `CST.layOk`.) -/
theorem break_before_operator_is_admissible (op : BinOp) (indent : Nat) :
    CST.layOk op (.lf :: List.replicate (indent + 2) .sp) [.sp] = true ∧
    CST.layOk op [.sp] [.sp] = true :=
  ⟨layOk_break op indent, layOk_sp op⟩

/-- `format_expr` = `protect_statement_start ∘ format_expr_impl` at indent 0: a re-layout of the
    printed text, in ONE extra pair of parentheses when it starts with `-`. -/
theorem format_expr_is_relayout_in_parens (t : Expr) (h : Frag t) (mw : Option Nat) :
    ∃ c c' : CST, Relayout t c ∧ Wraps c c' ∧ formatExpr t mw = String.ofList c'.text ∧
      (c' = c ∨ c' = .paren [] c []) := by
  refine ⟨fmtCST (mw.getD DEFAULT_MAX_COLUMNS) 0 t, formatCST t mw,
    fmtCST_relayout t h _ 0, formatCST_wraps t mw, formatCST_text t h mw, ?_⟩
  unfold formatCST
  simp only
  split
  · exact Or.inr rfl
  · exact Or.inl rfl

/-- C07 AT TEXT LEVEL (operator fragment, every width): formatting a tree and reading the
    text back — character-level PEG recogniser for `expression`, then the Pratt parser — gives
    the tree.  Unbounded depth; includes the parentheses of `protect_statement_start`. -/
theorem format_text_roundtrip (t : Expr) (h : Frag t) (w : Nat) :
    parseText (formatExpr t (some w)) = some t := formatExpr_parse t h (some w)

/-- … at the default width … -/
theorem format_text_roundtrip_default (t : Expr) (h : Frag t) :
    parseText (formatExpr t none) = some t := formatExpr_parse t h none

/-- … and for `format_expr_impl` at any indent (the text of a nested operand) -/
theorem format_impl_text_roundtrip (t : Expr) (h : Frag t) (w indent : Nat) :
    parseText (fmtImpl w indent t) = some t := by
  obtain ⟨hwf, _, ht⟩ := relayout_wf h (fmtCST_relayout t h w indent)
  have := cst_roundtrip _ hwf
  rw [ht] at this
  rw [fmtImpl_eq_text t h w indent]
  exact this

/-- the formatted text is split by the grammar into exactly the item sequence of the printed
    text (`items t` of `printed_operators_reparse`) when no parentheses are added -/
theorem format_impl_lexes_to_items (t : Expr) (h : Frag t) (w indent : Nat) (fuel : Nat)
    (hf : fuelFor (fmtImpl w indent t).toList ≤ fuel) :
    exprItems fuel (fmtImpl w indent t).toList = some (items t, []) := by
  obtain ⟨hwf, hi, _⟩ := relayout_wf h (fmtCST_relayout t h w indent)
  rw [← fmtCST_text t w indent h] at hf ⊢
  rw [← hi]
  exact cst_lex _ hwf fuel hf

end text
/-! #### examples: the hypotheses are satisfiable by non-trivial values -/

section examples
private abbrev a : Expr := .ident "a"
private abbrev b : Expr := .ident "b"
private abbrev c : Expr := .ident "c"
private abbrev lam : Expr := .lambda [.req "x"] (.bin .add (.ident "x") (.ident "y"))

/-- `(a - (b - c)) * -c! ^ b` -/
private abbrev t1 : Expr :=
  .bin .mul (.bin .sub a (.bin .sub b c)) (.bin .pow (.un .negate (.fact c)) b)
example : NoInvert t1 := by decide
example : prattParse (items t1) = some t1 := printed_operators_reparse t1 (by decide)

/-- branch 1: `it's` ↦ `"it's"`, read back in front of ` + x` -/
example : '"' ∉ "it's".toList := by decide
example : stringToSource "it's" = "\"it's\"" := by decide
example : readString "\"it's\" + x".toList = some ("it's".toList, " + x".toList) := by decide

/-- branch 2: `say "hi"` ↦ `'say "hi"'` -/
example : '"' ∈ "say \"hi\"".toList ∧ '\'' ∉ "say \"hi\"".toList := by decide
example : stringToSource "say \"hi\"" = "'say \"hi\"'" := by decide

/-- branch 3: `it's "x"` ↦ `("it's " + '"' + "x" + '"')` -/
example : '"' ∈ "it's \"x\"".toList ∧ '\'' ∈ "it's \"x\"".toList := by decide
example : stringToSource "it's \"x\"" = "(\"it's \" + '\"' + \"x\" + '\"')" := by decide
example : quotedPieces "it's \"x\"".toList =
    [('"', "it's ".toList), ('\'', ['"']), ('"', ['x']), ('\'', ['"'])] := by decide

/-- the escaped form the old printer produced is cut at the first quote: `"a\"b"` reads as `a\` -/
example : readString "\"a\\\"b\"".toList = some ("a\\".toList, "b\"".toList) := by decide

/-- record keys: bare, quoted, computed -/
example : isValidIdentifier "rate_2" = true := by decide
example : isValidIdentifier "two words" = false ∧
    ¬ ('"' ∈ "two words".toList ∧ '\'' ∈ "two words".toList) := by decide
example : formatRecordKey "two words" = "\"two words\"" := by decide
example : isValidIdentifier "if" = false := by decide
example : isValidIdentifier "a'\"" = false ∧ '"' ∈ "a'\"".toList ∧ '\'' ∈ "a'\"".toList := by decide
example : formatRecordKey "a'\"" = "[(\"a'\" + '\"')]" := by decide

/-- statement start -/
example : "-x + 1".toList.head? = some '-' := by decide
example : protectStatementStart "-x + 1" = "(-x + 1)" := by decide
example : protectStatementStart "where into x" = "(where into x)" ∧
    protectStatementStart "via\t+ 1" = "(via\t+ 1)" ∧ protectStatementStart "via(1)" = "via(1)" ∧
    protectStatementStart "viaduct + 1" = "viaduct + 1" ∧ protectStatementStart "via\n  + 1" = "via\n  + 1" ∧
    protectStatementStart "and b" = "and b" := by decide
example : "x - 1".toList.head? ≠ some '-' := by decide

/-- open-ended: `a + (x => x + y)` ends with a lambda; as the left operand of `*` or under a
    call it must be parenthesised -/
example : endsOpen (.bin .add a lam) = true := by decide
example : EndsOpen (.bin .add a lam) := .binRight _ _ (.lambda _ _)
example : needsParens (.un .negate lam) .postfix_ = true := by decide

/-- lambda body `a && b via c`-like: `(a && b) via c` has `via` on top; `(a via b) || c`
    reaches it along the left spine; `a + (b via c)` does not -/
example : ChainExposed (.bin .or (.bin .via a b) c) := .left _ (by decide +kernel) (.via _ _)
example : lambdaBodyNeedsParens (.bin .or (.bin .via a b) c) = true := by decide +kernel
example : lambdaBodyNeedsParens (.bin .add a (.bin .via b c)) = false := by decide +kernel

/-- numbers: +∞, 3.0, 0.5 (bit patterns) -/
example : F64.inf.isInf = true ∧ F64.inf.neg = false := by decide +kernel
example : (⟨0x4008000000000000⟩ : F64).isIntegral = true ∧
    F64.flt (⟨0x4008000000000000⟩ : F64).abs f64_1e15 = true ∧
    (⟨0x4008000000000000⟩ : F64).neg = false := by decide +kernel
example : ¬ ((⟨0x3FE0000000000000⟩ : F64).isIntegral = true ∧
    F64.flt (⟨0x3FE0000000000000⟩ : F64).abs f64_1e15 = true) := by decide +kernel

/-- layouts: a nested list / record / conditional / lambda tree at widths 1, 20, 80 — three
    different strings, one squash; the hypotheses of the theorems hold for it -/
private abbrev ex7 : Expr :=
  .list [.mk [] (.str "a, b ]") none,
    .mk [] (.record [.mk [] (.static "k") (.cond (.ident "c") (.ident "t") (.ident "u")) none]) none,
    .mk [] (.lambda [.req "x", .req "y"] (.bin .add (.bin .mul (.ident "x") (.ident "y")) (.ident "z"))) none]
example : namesOk ex7 = true ∧ noBare ex7 = true ∧ lamOk ex7 = true ∧ anyComment ex7 = false := by
  decide
example : formatExpr ex7 (some 80) = "[\"a, b ]\", {k: if c then t else u}, (x, y) => x * y + z]" := by
  decide +kernel
example : formatExpr ex7 (some 20) =
    "[\n  \"a, b ]\",\n  {\n    k: if c then\n      t\n    else\n      u,\n  },\n  (x, y) =>\n    x * y + z,\n]" := by
  decide +kernel
example : formatExpr ex7 (some 1) ≠ formatExpr ex7 (some 20) ∧
    formatExpr ex7 (some 20) ≠ formatExpr ex7 (some 80) ∧
    squash (formatExpr ex7 (some 1)) = squash (formatExpr ex7 (some 80)) ∧
    squash (formatExpr ex7 (some 20)) = squash (formatExpr ex7 (some 80)) ∧
    squash (formatExpr ex7 (some 80)) = "[\"a, b ]\",{k:ifcthentelseu},(x,y)=>x*y+z]" := by
  decide +kernel
/-- a binary chain with a call, a one-parameter lambda where `lamOk` allows it (an argument) -/
private abbrev ex7b : Expr :=
  .assign "r" (.bin .into (.bin .via (.ident "xs") (.lambda [.req "p", .opt "q"] (.bin .mul (.ident "p") (.ident "q"))))
    (.call (.ident "g") [.lambda [.req "v"] (.un .negate (.ident "v"))]))
example : namesOk ex7b = true ∧ lamOk ex7b = false ∧ noBare ex7b = false := by decide
/-- … the same with two parameters: inside the theorems -/
private abbrev ex7c : Expr :=
  .assign "r" (.bin .into (.bin .via (.ident "xs") (.lambda [.req "p", .opt "q"] (.bin .mul (.ident "p") (.ident "q"))))
    (.call (.ident "g") [.lambda [.req "v", .rest "o"] (.un .negate (.ident "v"))]))
example : namesOk ex7c = true ∧ lamOk ex7c = true ∧ noBare ex7c = true ∧ anyComment ex7c = false := by
  decide
example : formatExpr ex7c (some 1) ≠ formatExpr ex7c (some 20) ∧
    formatExpr ex7c (some 20) ≠ formatExpr ex7c (some 80) ∧
    squash (formatExpr ex7c (some 1)) = squash (formatExpr ex7c (some 80)) ∧
    squash (formatExpr ex7c (some 20)) = squash (formatExpr ex7c (some 80)) := by
  decide +kernel
/-- a one-parameter lambda where `format_single_line` prints it itself (`lamOk`, not `noBare`) -/
example : lamOk (.call (.ident "map") [.ident "xs", .lambda [.req "x"] (.ident "x")]) = true ∧
    noBare (.call (.ident "map") [.ident "xs", .lambda [.req "x"] (.ident "x")]) = false := by decide
/-- a statement starting with `-`, a do-block with comments: the text pieces only -/
private abbrev ex7d : Expr :=
  .doBlock [.mk ["// lead"] (.un .negate (.ident "a")) (some "// trail")] (.mk [] (.ident "b") none)
example : namesOk ex7d = true ∧ noBare ex7d = true ∧ anyComment ex7d = true := by decide
example : render (textOnly (formatExprP ex7d (some 80))) = "do {\n  \n  (-a)  \n  return b\n}" ∧
    exprToSource (eraseComments ex7d) = "do {\n  (-a)\n  return b\n}" := by decide +kernel
/-- squash itself -/
example : squash "[\n  1,\n  \"a, b ]\",\n]" = "[1,\"a, b ]\"]" := by decide
example : squash "f(a, 'x ,)' ,\n)" = "f(a,'x ,)')" := by decide
example : squash "a, b" = "a,b" := by decide
example : squash "x => x" ≠ squash "(x) => x" := by decide
end examples

/-! #### examples for 8 (text level) -/

section text_examples
open Blots.ExprPeg Blots.FormatFrag
private abbrev ia : Expr := .ident "a"
private abbrev ib : Expr := .ident "b"
private abbrev ic : Expr := .ident "c"
private abbrev id4 : Expr := .ident "d"
private abbrev ie : Expr := .ident "e"
private abbrev ig : Expr := .ident "g"
private abbrev two : Expr := .num ⟨0x4000000000000000⟩

/-- what the model reads from a text, shown as the printer's text of the parsed tree (`Expr`
    has no decidable equality; the theorems give the trees themselves) -/
private def reads (s : String) : Option String := (parseText s).map exprToSource

/-- `a + b * c - d ^ 2 ?? e and !g! != true`: symbol operators on five levels, a word
    operator, `!=` behind a postfix `!` -/
private abbrev x1 : Expr :=
  .bin .nand
    (.bin .sub (.bin .add ia (.bin .mul ib ic)) (.bin .pow id4 (.bin .coalesce two ie)))
    (.bin .ne (.un .not (.fact ig)) (.bool true))
example : Frag x1 := by decide +kernel
/-- three widths, three texts … -/
example : formatExpr x1 (some 80) = "a + b * c - d ^ 2 ?? e and !g! != true" ∧
    formatExpr x1 (some 10) = "a + b * c\n  - d\n    ^ 2 ?? e\n  and !g!\n    != true" ∧
    formatExpr x1 (some 1) =
      "a\n  + b\n    * c\n  - d\n    ^ 2\n      ?? e\n  and !g!\n    != true" := by
  decide +kernel
/-- … one parse: by the theorem (the tree itself) … -/
example : parseText (formatExpr x1 (some 1)) = some x1 ∧
    parseText (formatExpr x1 (some 10)) = some x1 ∧ parseText (formatExpr x1 (some 80)) = some x1 :=
  ⟨format_text_roundtrip x1 (by decide +kernel) 1, format_text_roundtrip x1 (by decide +kernel) 10,
    format_text_roundtrip x1 (by decide +kernel) 80⟩
/-- … and by evaluating the PEG + Pratt model on the three texts (no theorem involved) -/
example : reads (formatExpr x1 (some 1)) = some "a + b * c - d ^ 2 ?? e and !g! != true" ∧
    reads (formatExpr x1 (some 10)) = some "a + b * c - d ^ 2 ?? e and !g! != true" ∧
    reads (formatExpr x1 (some 80)) = some "a + b * c - d ^ 2 ?? e and !g! != true" := by
  decide +kernel
/-- the concrete syntax tree at width 10 and indent 0: which nodes are broken -/
example : fits 10 0 x1 = false ∧ fits 10 0 (.bin .add ia (.bin .mul ib ic)) = true ∧
    fits 10 2 (.bin .coalesce two ie) = true := by decide +kernel

/-- a statement that starts with `-` (parenthesised by `protect_statement_start`), `via`
    with a non-lambda right operand in parentheses, a parenthesised prefix under a postfix:
    `-(a + (b via c)) * (-d)!` -/
private abbrev x2 : Expr :=
  .bin .mul (.un .negate (.bin .add ia (.bin .via ib ic))) (.fact (.un .negate id4))
example : Frag x2 := by decide +kernel
example : formatExpr x2 (some 80) = "(-(a + (b via c)) * (-d)!)" ∧
    formatExpr x2 (some 6) = "(-(a\n  + (b\n    via c))\n  * (-d)!)" ∧
    formatExpr x2 (some 1) = formatExpr x2 (some 6) := by decide +kernel
example : parseText (formatExpr x2 (some 6)) = some x2 :=
  format_text_roundtrip x2 (by decide +kernel) 6
example : reads (formatExpr x2 (some 6)) = some "-(a + (b via c)) * (-d)!" ∧
    reads (formatExpr x2 (some 80)) = some "-(a + (b via c)) * (-d)!" := by decide +kernel
/-- the witnesses of `format_expr_is_relayout_in_parens` for it: the second alternative -/
example : (formatCST x2 (some 6)).text = '(' :: ((fmtCST 6 0 x2).text ++ [')']) ∧
    (formatCST x2 (some 6)).isParen = true ∧ (formatCST x1 (some 6)).isParen = false := by
  decide +kernel

/-- WHAT WOULD NOT READ BACK, and the formatter never writes: the line break BEHIND a word
    operator, `!=` directly behind its operand -/
example : reads "a and\n  b" = none ∧ reads "a\n  and b" = some "a and b" ∧
    reads "g!!= true" = none ∧ reads "g!\n  != true" = some "g! != true" := by decide +kernel

/-- calls, index and field accesses: `g(a + b, ...c.d)[e](2)` at three widths — the multi-line
    call layout (every argument on its own line, trailing comma, `)` on its own line) nests -/
private abbrev x3 : Expr :=
  .call (.access (.call ig [.bin .add ia ib, .spread (.dot ic "d")]) ie) [two]
example : Frag x3 := by decide +kernel
example : formatExpr x3 (some 80) = "g(a + b, ...c.d)[e](2)" ∧
    formatExpr x3 (some 12) = "g(\n  a + b,\n  ...c.d,\n)[e](\n  2,\n)" ∧
    formatExpr x3 (some 1) = "g(\n  a\n    + b,\n  ...c.d,\n)[e](\n  2,\n)" := by
  decide +kernel
example : parseText (formatExpr x3 (some 1)) = some x3 ∧
    parseText (formatExpr x3 (some 12)) = some x3 ∧ parseText (formatExpr x3 (some 80)) = some x3 :=
  ⟨format_text_roundtrip x3 (by decide +kernel) 1, format_text_roundtrip x3 (by decide +kernel) 12,
    format_text_roundtrip x3 (by decide +kernel) 80⟩
example : reads (formatExpr x3 (some 1)) = some "g(a + b, ...c.d)[e](2)" ∧
    reads (formatExpr x3 (some 12)) = some "g(a + b, ...c.d)[e](2)" := by decide +kernel
/-- WHAT WOULD NOT READ BACK, and the formatter never writes: a trailing comma without a line
    break behind it, a line break in front of a comma, blanks inside the brackets of an index -/
example : reads "g(\n  2,)" = none ∧ reads "g(\n  2, )" = none ∧ reads "g(a\n  , b)" = none ∧
    reads "g[ 2 ]" = none ∧ reads "g(\n  2,\n)" = some "g(2)" := by decide +kernel

/-- list literals: `[a + b, ...g(c), []]` at three widths -/
private abbrev li (e : Expr) : Item := .mk [] e none
private abbrev x4 : Expr :=
  .list [li (.bin .add ia ib), li (.spread (.call ig [ic])), li (.list [])]
example : Frag x4 := by decide +kernel
example : formatExpr x4 (some 80) = "[a + b, ...g(c), []]" ∧
    formatExpr x4 (some 10) = "[\n  a + b,\n  ...g(c),\n  [],\n]" ∧
    formatExpr x4 (some 1) = "[\n  a\n    + b,\n  ...g(\n    c,\n  ),\n  [],\n]" := by
  decide +kernel
example : parseText (formatExpr x4 (some 1)) = some x4 ∧
    parseText (formatExpr x4 (some 10)) = some x4 ∧ parseText (formatExpr x4 (some 80)) = some x4 :=
  ⟨format_text_roundtrip x4 (by decide +kernel) 1, format_text_roundtrip x4 (by decide +kernel) 10,
    format_text_roundtrip x4 (by decide +kernel) 80⟩
example : reads (formatExpr x4 (some 1)) = some "[a + b, ...g(c), []]" := by decide +kernel

/-- conditionals: an else-if chain at three widths -/
private abbrev x5 : Expr :=
  .cond (.bin .lt ia ib) (.call ig [ia]) (.cond (.bin .eq ia ib) (.list [li ia, li ib]) (.un .negate ic))
example : Frag x5 := by decide +kernel
example : formatExpr x5 (some 80) = "if a < b then g(a) else if a == b then [a, b] else -c" ∧
    formatExpr x5 (some 20) =
      "if a < b then\n  g(a)\nelse if a == b then\n  [a, b]\nelse\n  -c" ∧
    formatExpr x5 (some 4) =
      "if a\n    < b\nthen\n  g(\n    a,\n  )\nelse if a\n    == b\nthen\n  [\n    a,\n    b,\n  ]\nelse\n  -c" := by
  decide +kernel
example : parseText (formatExpr x5 (some 4)) = some x5 ∧
    parseText (formatExpr x5 (some 20)) = some x5 ∧ parseText (formatExpr x5 (some 80)) = some x5 :=
  ⟨format_text_roundtrip x5 (by decide +kernel) 4, format_text_roundtrip x5 (by decide +kernel) 20,
    format_text_roundtrip x5 (by decide +kernel) 80⟩
example : reads (formatExpr x5 (some 4)) = some "if a < b then g(a) else if a == b then [a, b] else -c" := by
  decide +kernel

/-- lambdas: a lambda argument with a parenthesised `via` body, `via` with a lambda on the right
    (its own layout in `format_binary_op_multiline`: the operator at the SAME indent), the
    parameter of a one-parameter lambda without parentheses where `format_lambda` writes it -/
private abbrev x6 : Expr :=
  .bin .via (.call ig [ia, .lambda [.req "y", .opt "z"] (.bin .via (.ident "y") (.ident "z"))])
    (.lambda [.req "x"] (.bin .add (.ident "x") ib))
example : Frag x6 := by decide +kernel
example : formatExpr x6 (some 80) = "g(a, (y, z?) => (y via z)) via (x) => x + b" ∧
    formatExpr x6 (some 24) = "g(\n  a,\n  (y, z?) => (y via z),\n)\nvia x => x + b" ∧
    formatExpr x6 (some 4) =
      "g(\n  a,\n  (y, z?) => (y\n    via z),\n)\nvia x =>\n  x\n    + b" := by decide +kernel
example : parseText (formatExpr x6 (some 4)) = some x6 ∧
    parseText (formatExpr x6 (some 24)) = some x6 ∧ parseText (formatExpr x6 (some 80)) = some x6 :=
  ⟨format_text_roundtrip x6 (by decide +kernel) 4, format_text_roundtrip x6 (by decide +kernel) 24,
    format_text_roundtrip x6 (by decide +kernel) 80⟩
example : reads (formatExpr x6 (some 4)) = some "g(a, (y, z?) => (y via z)) via (x) => x + b" := by
  decide +kernel

/-- string literals: the printer's choice of quote; a literal that contains a line break never
    "fits on one line", so its parents are laid out multi-line at EVERY width — still a
    re-layout, and the line break inside the literal is read back as part of the string -/
private abbrev x7 : Expr :=
  .call ig [.bin .add (.str "a b") (.str "it's"), .str "say \"hi\"\nbye"]
private abbrev x8 : Expr :=
  .call ig [.bin .add (.str "a b") (.str "it's"), .str "say \"hi\""]
example : Frag x7 ∧ Frag x8 := by decide +kernel
example : formatExpr x7 (some 80) = "g(\n  \"a b\" + \"it's\",\n  'say \"hi\"\nbye',\n)" ∧
    formatExpr x8 (some 80) = "g(\"a b\" + \"it's\", 'say \"hi\"')" ∧
    formatExpr x8 (some 12) = "g(\n  \"a b\"\n    + \"it's\",\n  'say \"hi\"',\n)" := by
  decide +kernel
example : parseText (formatExpr x7 (some 80)) = some x7 ∧ parseText (formatExpr x7 (some 1)) = some x7 ∧
    parseText (formatExpr x8 (some 12)) = some x8 :=
  ⟨format_text_roundtrip x7 (by decide +kernel) 80, format_text_roundtrip x7 (by decide +kernel) 1,
    format_text_roundtrip x8 (by decide +kernel) 12⟩
example : reads (formatExpr x7 (some 80)) = some "g(\"a b\" + \"it's\", 'say \"hi\"\nbye')" ∧
    reads (formatExpr x8 (some 12)) = some "g(\"a b\" + \"it's\", 'say \"hi\"')" := by decide +kernel
/-- record literals at three widths: keys bare / quoted / computed, a shorthand, a spread; a
    one-parameter lambda as a value loses its parentheses (`format_single_line`) -/
private abbrev ent (k : Key) (v : Expr) : Entry := .mk [] k v none
private abbrev x9 : Expr :=
  .record [ent (.static "a") (.bin .add ia ib), ent (.static "k 2") (.lambda [.req "y"] (.ident "y")),
    ent (.dyn (.call ig [ia])) (.record []), ent (.short "b") .null,
    ent (.spread (.spread (.call ig [ib]))) .null]
example : Frag x9 := by decide +kernel
example : formatExpr x9 (some 80) = "{a: a + b, \"k 2\": y => y, [g(a)]: {}, b, ...g(b)}" ∧
    formatExpr x9 (some 20) =
      "{\n  a: a + b,\n  \"k 2\": y => y,\n  [g(a)]: {},\n  b,\n  ...g(b),\n}" ∧
    formatExpr x9 (some 1) =
      "{\n  a: a\n    + b,\n  \"k 2\": y =>\n    y,\n  [g(\n    a,\n  )]: {},\n  b,\n  ...g(\n    b,\n  ),\n}" := by
  decide +kernel
example : parseText (formatExpr x9 (some 1)) = some x9 ∧
    parseText (formatExpr x9 (some 20)) = some x9 ∧ parseText (formatExpr x9 (some 80)) = some x9 :=
  ⟨format_text_roundtrip x9 (by decide +kernel) 1, format_text_roundtrip x9 (by decide +kernel) 20,
    format_text_roundtrip x9 (by decide +kernel) 80⟩
example : reads (formatExpr x9 (some 1)) = some "{a: a + b, \"k 2\": (y) => y, [g(a)]: {}, b, ...g(b)}" := by
  decide +kernel

/-- a string with both kinds of quote is outside the fragment: the formatter writes the
    concatenation of section 2, which reads back as that concatenation (C10
    `both_quotes_string_reads_back_as_concatenation`) -/
example : ¬ Frag (.str "a\"b'c") ∧ formatExpr (.str "a\"b'c") (some 80) = "(\"a\" + '\"' + \"b'c\")" ∧
    reads (formatExpr (.str "a\"b'c") (some 80)) = some "\"a\" + '\"' + \"b'c\"" := by decide +kernel

/-- do-blocks: always on several lines; a statement that starts with `-` in parentheses; a lambda
    keeps `=> do {` on the line of its head, the block's lines are indented from the lambda's
    indent; a block nested in a call argument -/
private abbrev stm (e : Expr) : Item := .mk [] e none
private abbrev x10 : Expr :=
  .call ig [.lambda [.req "x"] (.doBlock
    [stm (.call ig [.ident "x", ia]), stm (.un .negate (.bin .add (.ident "x") ib))]
    (stm (.doBlock [] (stm (.bin .mul (.ident "x") ib)))))]
example : Frag x10 := by decide +kernel
example : formatExpr x10 (some 80) =
      "g(\n  x => do {\n    g(x, a)\n    (-(x + b))\n    return do {\n      return x * b\n    }\n  },\n)" ∧
    formatExpr x10 (some 10) =
      "g(\n  x => do {\n    g(\n      x,\n      a,\n    )\n    (-(x + b))\n    return do {\n      return x\n        * b\n    }\n  },\n)" := by
  decide +kernel
example : parseText (formatExpr x10 (some 1)) = some x10 ∧
    parseText (formatExpr x10 (some 10)) = some x10 ∧ parseText (formatExpr x10 (some 80)) = some x10 :=
  ⟨format_text_roundtrip x10 (by decide +kernel) 1, format_text_roundtrip x10 (by decide +kernel) 10,
    format_text_roundtrip x10 (by decide +kernel) 80⟩
example : reads (formatExpr x10 (some 10)) =
    some "g((x) => do {\n  g(x, a)\n  (-(x + b))\n  return do {\n  return x * b\n}\n})" := by
  decide +kernel
/-- outside the fragment: a statement whose leftmost name is a word operator — parenthesised on
    one line, not when the operator moves to the next line (section 7) -/
example : ¬ Frag (.doBlock [stm (.bin .add (.ident "via") ib)] (stm ia)) ∧
    formatExpr (.doBlock [stm (.bin .add (.ident "via") ib)] (stm ia)) (some 80) =
      "do {\n  (via + b)\n  return a\n}" ∧
    formatExpr (.doBlock [stm (.bin .add (.ident "via") ib)] (stm ia)) (some 3) =
      "do {\n  via\n    + b\n  return a\n}" := by decide +kernel

/-- assignments: `name = ` and the value formatted at the same indent (the width test of the
    value does not count the name); as a left operand in parentheses -/
private abbrev x11 : Expr :=
  .assign "f" (.lambda [.req "x"] (.doBlock [stm (.assign "y" (.call ig [.ident "x", ia]))]
    (stm (.bin .mul (.ident "y") (.bin .add ib (.assign "z" (.ident "c")))))))
example : Frag x11 := by decide +kernel
example : formatExpr x11 (some 80) = "f = x => do {\n  y = g(x, a)\n  return y * (b + z = c)\n}" ∧
    formatExpr x11 (some 14) = "f = x => do {\n  y = g(x, a)\n  return y\n    * (b + z = c)\n}" ∧
    formatExpr x11 (some 1) =
      "f = x => do {\n  y = g(\n    x,\n    a,\n  )\n  return y\n    * (b\n      + z = c)\n}" := by
  decide +kernel
example : parseText (formatExpr x11 (some 1)) = some x11 ∧
    parseText (formatExpr x11 (some 14)) = some x11 ∧ parseText (formatExpr x11 (some 80)) = some x11 :=
  ⟨format_text_roundtrip x11 (by decide +kernel) 1, format_text_roundtrip x11 (by decide +kernel) 14,
    format_text_roundtrip x11 (by decide +kernel) 80⟩
example : reads (formatExpr x11 (some 14)) =
    some "f = (x) => do {\n  y = g(x, a)\n  return y * (b + z = c)\n}" := by decide +kernel
example : formatExpr (.assign "total" (.bin .add ia ib)) (some 8) = "total = a + b" ∧
    formatExpr (.bin .add (.assign "t" ia) ib) (some 3) = "(t = a)\n  + b" := by decide +kernel
end text_examples

end Blots.C07
