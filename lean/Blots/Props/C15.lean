import Blots.Lemmas.AggLaws
import Blots.Lemmas.ToyOps
import Blots.Lemmas.Rounding
/-
  C15 — Aggregates equal their mathematical definitions in both calling conventions.

  Statements only (helpers in `Blots/Lemmas/AggLaws.lean`).  `callPure ops name args` models
  `BuiltInFunction::call` (functions.rs:423-639) for `min max avg sum prod median percentile`;
  `aggArgs args = .ok ns` says "the call hands the numbers `ns` to the aggregate", which both
  conventions `f([x1, …, xn])` and `f(x1, …, xn)` do (`numbers_of_both_conventions`).
  Every theorem holds for ALL float primitives `ops`; where the float index computation of
  `percentile` matters, the needed facts about `ops` are explicit hypotheses.
  Comparison is on bit patterns: `F64.fle` is IEEE `<=`, `F64.feq` IEEE `==`, `totalKey` the
  key of `f64::total_cmp`.  `sum` / `prod` / `avg` are the left folds of `ops.add` / `ops.mul`
  from `-0.0` / `1.0` (what `Iterator::sum` / `product` do).  They are not bit-exactly
  permutation invariant (`sum_order_matters_under_model`).  "Up to rounding" is made exact in
  section 7: under the STANDARD MODEL of floating-point arithmetic, an explicit hypothesis
  `RoundingModel ops u` on the abstract `ops` (Lemmas/Rounding.lean; IEEE binary64 is the
  intended inhabitant with `u = 2^-53`, validated numerically by the harness), the classical
  forward error bounds hold, hence permutation invariance within twice the bound.
  `median` / `percentile` are bit-exactly permutation invariant; `min` / `max` only up to IEEE
  `==` (the sign of a zero result depends on the order: `min_exact_permutation_invariance_fails`),
  and `percentile(l, 0)` / `percentile(l, 100)` equal `min` / `max` up to IEEE `==` as well.
-/
namespace Blots.C15

/-! #### 1. the two calling conventions -/

/-- both conventions hand the same numbers to the aggregate (any length, also 0 and 1) -/
theorem numbers_of_both_conventions (ns : List F64) :
    aggArgs [.list (ns.map Value.num)] = .ok ns ∧ aggArgs (ns.map Value.num) = .ok ns :=
  ⟨by rw [aggArgs_list, numList_map_num], aggArgs_map_num ns⟩

/-- `f([v1, …, vn]) = f(v1, …, vn)` for ARBITRARY values (not only numbers) when `n ≥ 2`:
    same result, same failure -/
theorem conventions_agree (ops : NumOps) (name : String)
    (hname : name ∈ ["min", "max", "avg", "sum", "prod", "median"])
    (L : List Value) (hL : 2 ≤ L.length) :
    callPure ops name [.list L] = callPure ops name L := by
  obtain ⟨f, hf⟩ := callPure_agg ops name hname
  rw [hf, hf, aggThen_congr (aggArgs_list_eq L (.inl (by omega)))]

/-- on lists of numbers the conventions agree for every length -/
theorem conventions_agree_numbers (ops : NumOps) (name : String)
    (hname : name ∈ ["min", "max", "avg", "sum", "prod", "median"]) (ns : List F64) :
    callPure ops name [.list (ns.map Value.num)] = callPure ops name (ns.map Value.num) := by
  obtain ⟨f, hf⟩ := callPure_agg ops name hname
  have h := numbers_of_both_conventions ns
  rw [hf, hf, aggThen_congr (h.1.trans h.2.symm)]

/-- one element: `f([v]) = f(v)` unless `v` is itself a list -/
theorem conventions_agree_single (ops : NumOps) (name : String)
    (hname : name ∈ ["min", "max", "avg", "sum", "prod", "median"])
    (v : Value) (hv : ∀ xs, v ≠ .list xs) :
    callPure ops name [.list [v]] = callPure ops name [v] := by
  obtain ⟨f, hf⟩ := callPure_agg ops name hname
  rw [hf, hf, aggThen_congr (aggArgs_list_eq [v] (.inr ⟨v, rfl, hv⟩))]

/-- … and when `v` IS a list the single argument is unpacked once, so `f([[x…]])` is a type
    error while `f([x…])` is the aggregate of the `x…` -/
theorem nested_singleton_is_type_error (ops : NumOps) (name : String)
    (hname : name ∈ ["min", "max", "avg", "sum", "prod", "median"]) (xs : List Value) :
    callPure ops name [.list [.list xs]] = some (.err .type_) := by
  obtain ⟨f, hf⟩ := callPure_agg ops name hname
  rw [hf]; rfl

/-- the empty list (and no arguments at all) is a domain error -/
theorem empty_is_domain_error (ops : NumOps) (name : String)
    (hname : name ∈ ["min", "max", "avg", "sum", "prod", "median"]) :
    callPure ops name [.list []] = some (.err .domain) ∧ callPure ops name [] = some (.err .domain) := by
  obtain ⟨f, hf⟩ := callPure_agg ops name hname
  rw [hf, hf]; exact ⟨rfl, rfl⟩

/-- a lone argument that is neither a number nor a list is a type error -/
theorem lone_non_number_is_type_error (ops : NumOps) (name : String)
    (hname : name ∈ ["min", "max", "avg", "sum", "prod", "median"])
    (v : Value) (hl : ∀ xs, v ≠ .list xs) (hn : ∀ x, v ≠ .num x) :
    callPure ops name [v] = some (.err .type_) := by
  obtain ⟨f, hf⟩ := callPure_agg ops name hname
  rw [hf, aggThen, aggArgs_single_err v hl hn]; rfl

/-- a list with a non-number member is a type error, in both conventions -/
theorem non_number_member_is_type_error (ops : NumOps) (name : String)
    (hname : name ∈ ["min", "max", "avg", "sum", "prod", "median"])
    (L : List Value) (v : Value) (hv : v ∈ L) (hn : ∀ x, v ≠ .num x) :
    callPure ops name [.list L] = some (.err .type_) ∧
    (2 ≤ L.length → callPure ops name L = some (.err .type_)) := by
  have h1 : callPure ops name [.list L] = some (.err .type_) := by
    obtain ⟨f, hf⟩ := callPure_agg ops name hname
    rw [hf, aggThen, aggArgs_list, numList_err_of_mem L v hv hn]; rfl
  exact ⟨h1, fun h2 => by rw [← conventions_agree ops name hname L h2, h1]⟩

/-- the aggregates never panic and never run out of fuel -/
theorem aggregates_total (ops : NumOps) (name : String)
    (hname : name ∈ ["min", "max", "avg", "sum", "prod", "median"]) (args : List Value) :
    (∃ x, callPure ops name args = some (.ok (.num x))) ∨
    callPure ops name args = some (.err .type_) ∨ callPure ops name args = some (.err .domain) := by
  obtain ⟨f, hf⟩ := callPure_agg ops name hname
  rw [hf]
  have hcases : (∃ ns, aggArgs args = .ok ns) ∨ aggArgs args = .err .type_ := by
    match args with
    | [] => exact .inl ⟨[], rfl⟩
    | [v] =>
      by_cases hl : ∃ xs, v = .list xs
      · obtain ⟨xs, rfl⟩ := hl
        rw [aggArgs_list]
        rcases numList_cases xs with ⟨ns, _, h⟩ | ⟨_, h⟩
        · exact .inl ⟨ns, h⟩
        · exact .inr h
      · have hl' : ∀ xs, v ≠ .list xs := fun xs hx => hl ⟨xs, hx⟩
        rw [aggArgs_single v hl']
        cases v with
        | num x => exact .inl ⟨[x], rfl⟩
        | _ => exact .inr rfl
    | a :: b :: r =>
      rw [aggArgs_cons_cons]
      rcases numList_cases (a :: b :: r) with ⟨ns, _, h⟩ | ⟨_, h⟩
      · exact .inl ⟨ns, h⟩
      · exact .inr h
  rcases hcases with ⟨ns, h⟩ | h
  · by_cases hne : ns = []
    · subst hne; exact .inr (.inr (by rw [aggThen_of_empty h]))
    · exact .inl ⟨f ns, by rw [aggThen_of_ok h hne]⟩
  · refine .inr (.inl ?_)
    simp only [aggThen, h, Outcome.bind]

/-! #### 2. `min` / `max`: a member that bounds every member -/

/-- `min` of non-NaN numbers is one of them (same bit pattern) and IEEE-`<=` all of them -/
theorem min_bound_and_member (ops : NumOps) (args : List Value) (ns : List F64)
    (h : aggArgs args = .ok ns) (hne : ns ≠ []) (hnan : ∀ x ∈ ns, x.isNaN = false) :
    ∃ m, callPure ops "min" args = some (.ok (.num m)) ∧ m ∈ ns ∧ ∀ x ∈ ns, F64.fle m x = true := by
  obtain ⟨h1, h2⟩ := foldl_fmin_inf_spec ns hne hnan
  exact ⟨_, by rw [callPure_min, aggThen_of_ok h hne], h1, h2⟩

theorem max_bound_and_member (ops : NumOps) (args : List Value) (ns : List F64)
    (h : aggArgs args = .ok ns) (hne : ns ≠ []) (hnan : ∀ x ∈ ns, x.isNaN = false) :
    ∃ m, callPure ops "max" args = some (.ok (.num m)) ∧ m ∈ ns ∧ ∀ x ∈ ns, F64.fle x m = true := by
  obtain ⟨h1, h2⟩ := foldl_fmax_negInf_spec ns hne hnan
  exact ⟨_, by rw [callPure_max, aggThen_of_ok h hne], h1, h2⟩

/-- with NaNs present: NaN members are ignored; when every member is NaN the result is `+inf`,
    otherwise a non-NaN member that is `<=` every non-NaN member -/
theorem min_ignores_nan (ops : NumOps) (args : List Value) (ns : List F64)
    (h : aggArgs args = .ok ns) (hne : ns ≠ []) :
    ∃ m, callPure ops "min" args = some (.ok (.num m)) ∧
      (((∀ x ∈ ns, x.isNaN = true) ∧ m = F64.inf) ∨
       (m ∈ ns ∧ m.isNaN = false ∧ ∀ x ∈ ns, x.isNaN = false → F64.fle m x = true)) := by
  refine ⟨_, by rw [callPure_min, aggThen_of_ok h hne], ?_⟩
  rcases foldl_fmin_inf_general ns with ⟨h1, h2⟩ | h1
  · refine .inl ⟨fun x hx => ?_, h2⟩
    cases hn : x.isNaN with
    | true => rfl
    | false => have := mem_nonNaNs.mpr ⟨hx, hn⟩; rw [h1] at this; cases this
  · exact .inr h1

theorem max_ignores_nan (ops : NumOps) (args : List Value) (ns : List F64)
    (h : aggArgs args = .ok ns) (hne : ns ≠ []) :
    ∃ m, callPure ops "max" args = some (.ok (.num m)) ∧
      (((∀ x ∈ ns, x.isNaN = true) ∧ m = F64.negInf) ∨
       (m ∈ ns ∧ m.isNaN = false ∧ ∀ x ∈ ns, x.isNaN = false → F64.fle x m = true)) := by
  refine ⟨_, by rw [callPure_max, aggThen_of_ok h hne], ?_⟩
  rcases foldl_fmax_negInf_general ns with ⟨h1, h2⟩ | h1
  · refine .inl ⟨fun x hx => ?_, h2⟩
    cases hn : x.isNaN with
    | true => rfl
    | false => have := mem_nonNaNs.mpr ⟨hx, hn⟩; rw [h1] at this; cases this
  · exact .inr h1

/-! #### 6. `sum`, `prod`, `avg` -/

/-- `sum` is the left fold of `ops.add` from `-0.0`, `prod` of `ops.mul` from `1.0`, `avg` the
    sum divided by the count converted to a double -/
theorem sum_prod_avg_are_left_folds (ops : NumOps) (args : List Value) (ns : List F64)
    (h : aggArgs args = .ok ns) (hne : ns ≠ []) :
    callPure ops "sum" args = some (.ok (.num (ns.foldl ops.add F64.negZero))) ∧
    callPure ops "prod" args = some (.ok (.num (ns.foldl ops.mul F64.one))) ∧
    callPure ops "avg" args =
      some (.ok (.num (ops.div (ns.foldl ops.add F64.negZero) (F64.ofNat ns.length)))) := by
  refine ⟨?_, ?_, ?_⟩
  · rw [callPure_sum, aggThen_of_ok h hne]
  · rw [callPure_prod, aggThen_of_ok h hne]
  · rw [callPure_avg, aggThen_of_ok h hne]

/-- whenever `sum` returns `s`, `avg` returns `s / n` for the number `n` of numbers passed -/
theorem avg_is_sum_div_count (ops : NumOps) (args : List Value) (s : F64)
    (h : callPure ops "sum" args = some (.ok (.num s))) :
    ∃ ns, aggArgs args = .ok ns ∧ ns ≠ [] ∧
      callPure ops "avg" args = some (.ok (.num (ops.div s (F64.ofNat ns.length)))) := by
  rw [callPure_sum] at h
  obtain ⟨ns, h1, h2, h3⟩ := aggThen_ok_inv (Option.some.inj h)
  refine ⟨ns, h1, h2, ?_⟩
  rw [callPure_avg, aggThen_of_ok h1 h2]
  cases h3
  rfl

/-- … and whenever `sum` fails, `avg` (and `prod`) fail in the same way -/
theorem avg_fails_like_sum (ops : NumOps) (args : List Value) (k : ErrKind)
    (h : callPure ops "sum" args = some (.err k)) :
    callPure ops "avg" args = some (.err k) ∧ callPure ops "prod" args = some (.err k) := by
  rw [callPure_sum] at h
  have h := Option.some.inj h
  rw [callPure_avg, callPure_prod]
  unfold aggThen at *
  cases ha : aggArgs args with
  | ok ns =>
    rw [ha] at h
    cases ns with
    | nil => simp only [Outcome.bind] at h ⊢; exact ⟨congrArg some h, congrArg some h⟩
    | cons x xs => simp [Outcome.bind] at h
  | err k' => rw [ha] at h; simp only [Outcome.bind] at h ⊢; exact ⟨congrArg some h, congrArg some h⟩
  | panic s => rw [ha] at h; simp [Outcome.bind] at h
  | fuel => rw [ha] at h; simp [Outcome.bind] at h

/-! #### 3. `median` is the middle order statistic -/

/-- the sort used by `median` / `percentile`: a permutation of the input in `total_cmp` order -/
theorem sortTotal_is_sorted_permutation (ns : List F64) :
    (sortTotal ns).Perm ns ∧ (sortTotal ns).Pairwise fun a b => totalKey a ≤ totalKey b :=
  ⟨sortTotal_perm ns, sortTotal_sorted ns⟩

/-- `total_cmp` order refines IEEE order: it only adds `-0 < +0` (and places NaNs) -/
theorem totalKey_refines_key (a b : F64) (h : totalKey a ≤ totalKey b) : a.key ≤ b.key :=
  F64.key_le_of_totalKey_le h

/-- so on non-NaN inputs the sorted list ascends for IEEE `<=` -/
theorem sortTotal_ascending_fle (ns : List F64) (hnan : ∀ x ∈ ns, x.isNaN = false) :
    (sortTotal ns).Pairwise fun a b => F64.fle a b = true :=
  sortTotal_sorted_fle ns hnan

/-- odd count: the median is the element of rank `n / 2` of the sorted numbers, a member -/
theorem median_odd_is_middle (ops : NumOps) (args : List Value) (ns : List F64)
    (h : aggArgs args = .ok ns) (hodd : ns.length % 2 = 1) :
    ∃ x, (sortTotal ns)[ns.length / 2]? = some x ∧ x ∈ ns ∧
      callPure ops "median" args = some (.ok (.num x)) := by
  have hne : ns ≠ [] := by intro h0; subst h0; simp at hodd
  have hl := sortTotal_length ns
  obtain ⟨x, h1, h2⟩ := medianOf_odd ops (sortTotal ns) (by rw [hl]; exact hodd)
  rw [hl] at h1
  refine ⟨x, h1, mem_sortTotal.mp (List.mem_of_getElem? h1), ?_⟩
  rw [callPure_median, aggThen_of_ok h hne, h2]

/-- even count: the mean `(a + b) / 2` (in `ops`) of the two middle elements `a ≤ b` (ranks
    `n/2 - 1` and `n/2`), both members -/
theorem median_even_is_mean_of_middle (ops : NumOps) (args : List Value) (ns : List F64)
    (h : aggArgs args = .ok ns) (hne : ns ≠ []) (heven : ns.length % 2 = 0) :
    ∃ a b, (sortTotal ns)[ns.length / 2 - 1]? = some a ∧ (sortTotal ns)[ns.length / 2]? = some b ∧
      a ∈ ns ∧ b ∈ ns ∧ totalKey a ≤ totalKey b ∧
      callPure ops "median" args = some (.ok (.num (ops.div (ops.add a b) f64Two))) := by
  have hl := sortTotal_length ns
  have hne' : sortTotal ns ≠ [] := by
    intro h0; exact hne (List.length_eq_zero_iff.mp (by rw [← hl, h0]; rfl))
  obtain ⟨a, b, h1, h2, h3⟩ := medianOf_even ops (sortTotal ns) (by rw [hl]; exact heven) hne'
  rw [hl] at h1 h2
  refine ⟨a, b, h1, h2, mem_sortTotal.mp (List.mem_of_getElem? h1),
    mem_sortTotal.mp (List.mem_of_getElem? h2),
    sortTotal_getElem_le ns (Nat.sub_le _ _) h1 h2, ?_⟩
  rw [callPure_median, aggThen_of_ok h hne, h3]

/-! #### 4. `percentile` -/

/-- Under the explicit hypothesis that the float index computation of `ops` stays in range,
    `percentile(L, p)` is the element of that rank of the sorted numbers, a member of `L`. -/
theorem percentile_is_member (ops : NumOps) (L : List Value) (p : F64) (ns : List F64)
    (hL : numList L = .ok ns) (hne : ns ≠ [])
    (hp : F64.fle F64.zero p = true ∧ F64.fle p hundred = true)
    (hidx : (ops.round (ops.mul (ops.div p hundred) (F64.ofNat (ns.length - 1)))).toU64 < ns.length) :
    ∃ x, callPure ops "percentile" [.list L, .num p] = some (.ok (.num x)) ∧
      (sortTotal ns)[(ops.round (ops.mul (ops.div p hundred) (F64.ofNat (ns.length - 1)))).toU64]?
        = some x ∧ x ∈ ns := by
  obtain ⟨x, h1, h2⟩ := pctOf_of_lt ops p ns hidx
  refine ⟨x, ?_, h1, mem_sortTotal.mp (List.mem_of_getElem? h1)⟩
  have hemp : ns.isEmpty = false := by cases ns with | nil => exact absurd rfl hne | cons _ _ => rfl
  rw [callPure_percentile, hL]
  simp only [hp.1, hp.2, Bool.and_self, Bool.not_true, Bool.false_eq_true, if_false, Outcome.bind,
    hemp, h2]

/-- the complementary case: an index out of range is the Rust panic `nums[index]` -/
theorem percentile_index_out_of_range_panics (ops : NumOps) (L : List Value) (p : F64) (ns : List F64)
    (hL : numList L = .ok ns) (hne : ns ≠ [])
    (hp : F64.fle F64.zero p = true ∧ F64.fle p hundred = true)
    (hidx : ns.length ≤ (ops.round (ops.mul (ops.div p hundred) (F64.ofNat (ns.length - 1)))).toU64) :
    callPure ops "percentile" [.list L, .num p] = some (.panic "nums[index] in percentile") := by
  have h2 := pctOf_of_ge ops p ns hidx
  have hemp : ns.isEmpty = false := by cases ns with | nil => exact absurd rfl hne | cons _ _ => rfl
  rw [callPure_percentile, hL]
  simp only [hp.1, hp.2, Bool.and_self, Bool.not_true, Bool.false_eq_true, if_false, Outcome.bind,
    hemp, h2]

/-- the guards: `p` outside `[0, 100]` (or NaN) and the empty list are domain errors, a
    non-number member a type error -/
theorem percentile_guards (ops : NumOps) (L : List Value) (p : F64) :
    ((F64.fle F64.zero p && F64.fle p hundred) = false →
      callPure ops "percentile" [.list L, .num p] = some (.err .domain)) ∧
    ((F64.fle F64.zero p && F64.fle p hundred) = true → L = [] →
      callPure ops "percentile" [.list L, .num p] = some (.err .domain)) ∧
    ((F64.fle F64.zero p && F64.fle p hundred) = true → (∃ v, v ∈ L ∧ ∀ x, v ≠ .num x) →
      callPure ops "percentile" [.list L, .num p] = some (.err .type_)) := by
  refine ⟨fun h => ?_, fun h h0 => ?_, fun h ⟨v, hv, hn⟩ => ?_⟩
  · rw [callPure_percentile, h]; rfl
  · rw [callPure_percentile, h, h0]; rfl
  · rw [callPure_percentile, h, numList_err_of_mem L v hv hn]; rfl

/-- if the computed index for `p` is not above the one for `q` (and both are in range), the
    results are ordered: `total_cmp`-wise always, IEEE-`<=` without NaNs -/
theorem percentile_monotone_of_index (ops : NumOps) (L : List Value) (p q : F64) (ns : List F64)
    (hL : numList L = .ok ns) (hne : ns ≠ [])
    (hp : F64.fle F64.zero p = true ∧ F64.fle p hundred = true)
    (hq : F64.fle F64.zero q = true ∧ F64.fle q hundred = true)
    (hpq : (ops.round (ops.mul (ops.div p hundred) (F64.ofNat (ns.length - 1)))).toU64 ≤
           (ops.round (ops.mul (ops.div q hundred) (F64.ofNat (ns.length - 1)))).toU64)
    (hidx : (ops.round (ops.mul (ops.div q hundred) (F64.ofNat (ns.length - 1)))).toU64 < ns.length) :
    ∃ x y, callPure ops "percentile" [.list L, .num p] = some (.ok (.num x)) ∧
      callPure ops "percentile" [.list L, .num q] = some (.ok (.num y)) ∧
      totalKey x ≤ totalKey y ∧ ((∀ z ∈ ns, z.isNaN = false) → F64.fle x y = true) := by
  obtain ⟨x, h1, h2, h3⟩ := percentile_is_member ops L p ns hL hne hp (by omega)
  obtain ⟨y, g1, g2, g3⟩ := percentile_is_member ops L q ns hL hne hq hidx
  have hle := sortTotal_getElem_le ns hpq h2 g2
  exact ⟨x, y, h1, g1, hle, fun hnan => F64.fle_of_totalKey_le (hnan x h3) (hnan y g3) hle⟩

/-- `percentile(L, p)` is non-decreasing in `p`, for every `ops` whose `/ 100`, `* c` (`c ≥ 0`)
    and `round` are monotone for IEEE `<=` (explicit hypotheses; the cast `as usize` is monotone
    by `F64.toU64_mono`), and fewer than 2^53 numbers (so that `(n-1) as f64 ≥ 0` is exact). -/
theorem percentile_monotone (ops : NumOps) (L : List Value) (p q : F64) (ns : List F64)
    (hdiv : ∀ a b, F64.fle a b = true → F64.fle (ops.div a hundred) (ops.div b hundred) = true)
    (hmul : ∀ a b c, F64.fle a b = true → F64.fle F64.zero c = true →
      F64.fle (ops.mul a c) (ops.mul b c) = true)
    (hround : ∀ a b, F64.fle a b = true → F64.fle (ops.round a) (ops.round b) = true)
    (hL : numList L = .ok ns) (hlen : ns.length ≤ 2 ^ 53)
    (h0p : F64.fle F64.zero p = true) (hpq : F64.fle p q = true) (hq100 : F64.fle q hundred = true)
    (x y : F64) (hx : callPure ops "percentile" [.list L, .num p] = some (.ok (.num x)))
    (hy : callPure ops "percentile" [.list L, .num q] = some (.ok (.num y))) :
    totalKey x ≤ totalKey y ∧ ((∀ z ∈ ns, z.isNaN = false) → F64.fle x y = true) := by
  have hp : F64.fle F64.zero p = true ∧ F64.fle p hundred = true := ⟨h0p, F64.fle_trans hpq hq100⟩
  have hq : F64.fle F64.zero q = true ∧ F64.fle q hundred = true := ⟨F64.fle_trans h0p hpq, hq100⟩
  have hne : ns ≠ [] := by
    intro h0
    have hg := (percentile_guards ops L q).2.1 (by simp [hq.1, hq.2])
      ((numList_ok_iff L ns).mp hL ▸ by rw [h0]; rfl)
    rw [hg] at hy
    injection hy with hy
    cases hy
  have hidx : (ops.round (ops.mul (ops.div q hundred) (F64.ofNat (ns.length - 1)))).toU64 < ns.length := by
    apply Nat.lt_of_not_le
    intro hge
    rw [percentile_index_out_of_range_panics ops L q ns hL hne hq hge] at hy
    injection hy with hy
    cases hy
  have hmono := hround _ _ (hmul _ _ (F64.ofNat (ns.length - 1)) (hdiv p q hpq)
    (F64.fle_zero_ofNat _ (by have := List.length_pos_iff.mpr hne; omega)))
  have hm := (F64.fle_iff _ _).mp hmono
  obtain ⟨x', y', h1, h2, h3, h4⟩ := percentile_monotone_of_index ops L p q ns hL hne hp hq
    (F64.toU64_mono hm.1 hm.2.1 hm.2.2) hidx
  rw [h1] at hx
  rw [h2] at hy
  injection hx with hx; injection hx with hx; injection hx with hx
  injection hy with hy; injection hy with hy; injection hy with hy
  subst hx; subst hy
  exact ⟨h3, h4⟩

/-- `percentile(L, 0)` is the first element of the sorted numbers: a member that is least for
    `total_cmp`, hence IEEE-`<=` every member when there is no NaN, hence `==` to `min(L)`.
    Hypotheses on `ops`: `0/100 = 0`, `0 * (n-1) = 0`, `round 0 = 0` (bit-exactly `+0.0`). -/
theorem percentile_0_is_min (ops : NumOps) (L : List Value) (ns : List F64)
    (hL : numList L = .ok ns) (hne : ns ≠ [])
    (hdiv : ops.div F64.zero hundred = F64.zero)
    (hmul : ops.mul F64.zero (F64.ofNat (ns.length - 1)) = F64.zero)
    (hround : ops.round F64.zero = F64.zero) :
    ∃ x, callPure ops "percentile" [.list L, .num F64.zero] = some (.ok (.num x)) ∧
      (sortTotal ns)[0]? = some x ∧ x ∈ ns ∧ (∀ y ∈ ns, totalKey x ≤ totalKey y) ∧
      ((∀ y ∈ ns, y.isNaN = false) →
        (∀ y ∈ ns, F64.fle x y = true) ∧
        ∃ m, callPure ops "min" [.list L] = some (.ok (.num m)) ∧ F64.feq x m = true) := by
  have hidx : (ops.round (ops.mul (ops.div F64.zero hundred) (F64.ofNat (ns.length - 1)))).toU64 = 0 := by
    rw [hdiv, hmul, hround, F64.toU64_zero]
  have hpos : 0 < ns.length := List.length_pos_iff.mpr hne
  obtain ⟨x, h1, h2, h3⟩ := percentile_is_member ops L F64.zero ns hL hne
    ⟨by decide, by decide +kernel⟩ (by rw [hidx]; exact hpos)
  rw [hidx] at h2
  have hleast : ∀ y ∈ ns, totalKey x ≤ totalKey y := by
    intro y hy
    obtain ⟨j, hj⟩ := List.mem_iff_getElem?.mp (mem_sortTotal.mpr hy)
    exact sortTotal_getElem_le ns (Nat.zero_le j) h2 hj
  refine ⟨x, h1, h2, h3, hleast, fun hnan => ?_⟩
  have hfle : ∀ y ∈ ns, F64.fle x y = true := fun y hy =>
    F64.fle_of_totalKey_le (hnan x h3) (hnan y hy) (hleast y hy)
  refine ⟨hfle, ?_⟩
  obtain ⟨m, hm1, hm2, hm3⟩ := min_bound_and_member ops [.list L] ns (by rw [aggArgs_list, hL]) hne hnan
  refine ⟨m, hm1, ?_⟩
  have a1 := (F64.fle_iff _ _).mp (hfle m hm2)
  have a2 := (F64.fle_iff _ _).mp (hm3 x h3)
  have : x.key = m.key := by omega
  simp [F64.feq, a1.1, a1.2.1, this]

/-- `percentile(L, 100)` is the last element of the sorted numbers: a member that is greatest
    for `total_cmp`, hence IEEE-`>=` every member when there is no NaN, hence `==` to `max(L)`.
    Hypotheses on `ops`: `100/100 = 1`, `1 * (n-1) = (n-1)`, `round (n-1) = (n-1)` on the double
    `(n-1) as f64`; and fewer than 2^53 numbers (so that `(n-1) as f64 as usize = n-1`,
    `F64.toU64_ofNat`). -/
theorem percentile_100_is_max (ops : NumOps) (L : List Value) (ns : List F64)
    (hL : numList L = .ok ns) (hne : ns ≠ []) (hlen : ns.length ≤ 2 ^ 53)
    (hdiv : ops.div hundred hundred = F64.one)
    (hmul : ops.mul F64.one (F64.ofNat (ns.length - 1)) = F64.ofNat (ns.length - 1))
    (hround : ops.round (F64.ofNat (ns.length - 1)) = F64.ofNat (ns.length - 1)) :
    ∃ x, callPure ops "percentile" [.list L, .num hundred] = some (.ok (.num x)) ∧
      (sortTotal ns)[ns.length - 1]? = some x ∧ x ∈ ns ∧ (∀ y ∈ ns, totalKey y ≤ totalKey x) ∧
      ((∀ y ∈ ns, y.isNaN = false) →
        (∀ y ∈ ns, F64.fle y x = true) ∧
        ∃ m, callPure ops "max" [.list L] = some (.ok (.num m)) ∧ F64.feq x m = true) := by
  have hpos : 0 < ns.length := List.length_pos_iff.mpr hne
  have hidx : (ops.round (ops.mul (ops.div hundred hundred) (F64.ofNat (ns.length - 1)))).toU64
      = ns.length - 1 := by
    rw [hdiv, hmul, hround, F64.toU64_ofNat _ (by omega)]
  obtain ⟨x, h1, h2, h3⟩ := percentile_is_member ops L hundred ns hL hne
    ⟨by decide +kernel, by decide +kernel⟩ (by rw [hidx]; omega)
  rw [hidx] at h2
  have hgreatest : ∀ y ∈ ns, totalKey y ≤ totalKey x := by
    intro y hy
    obtain ⟨j, hj⟩ := List.mem_iff_getElem?.mp (mem_sortTotal.mpr hy)
    have hjlt : j < (sortTotal ns).length := (List.getElem?_eq_some_iff.mp hj).1
    rw [sortTotal_length] at hjlt
    exact sortTotal_getElem_le ns (by omega) hj h2
  refine ⟨x, h1, h2, h3, hgreatest, fun hnan => ?_⟩
  have hfle : ∀ y ∈ ns, F64.fle y x = true := fun y hy =>
    F64.fle_of_totalKey_le (hnan y hy) (hnan x h3) (hgreatest y hy)
  refine ⟨hfle, ?_⟩
  obtain ⟨m, hm1, hm2, hm3⟩ := max_bound_and_member ops [.list L] ns (by rw [aggArgs_list, hL]) hne hnan
  refine ⟨m, hm1, ?_⟩
  have a1 := (F64.fle_iff _ _).mp (hfle m hm2)
  have a2 := (F64.fle_iff _ _).mp (hm3 x h3)
  have : x.key = m.key := by omega
  simp [F64.feq, a1.1, a1.2.1, this]

/-- the pure cast fact used above: `k as f64 as usize = k` below 2^53 -/
theorem usize_f64_round_trip (k : Nat) (hk : k < 2 ^ 53) : (F64.ofNat k).toU64 = k :=
  F64.toU64_ofNat k hk

/-! #### 5. permutation invariance -/

/-- `total_cmp` distinguishes all bit patterns … -/
theorem totalKey_injective (a b : F64) (h : totalKey a = totalKey b) : a = b :=
  F64.totalKey_inj h

/-- … so the sorted arrangement depends on the multiset only -/
theorem sortTotal_perm_invariant (ns ms : List F64) (h : ns.Perm ms) : sortTotal ns = sortTotal ms :=
  sortTotal_eq_of_perm h

/-- `median` of a permuted argument list is EXACTLY the same outcome (bit-identical result or
    same error), for arbitrary values, in both conventions -/
theorem median_permutation_invariant (ops : NumOps) (L M : List Value) (h : L.Perm M) :
    callPure ops "median" [.list L] = callPure ops "median" [.list M] ∧
    callPure ops "median" L = callPure ops "median" M := by
  have hf : ∀ ns ms : List F64, ns.Perm ms →
      medianOf ops (sortTotal ns) = medianOf ops (sortTotal ms) :=
    fun ns ms hp => by rw [sortTotal_eq_of_perm hp]
  rw [callPure_median, callPure_median, callPure_median, callPure_median]
  exact ⟨congrArg some (aggThen_perm_exact (aggPerm_list h) _ hf),
    congrArg some (aggThen_perm_exact (aggPerm_varargs h) _ hf)⟩

/-- `percentile` of a permuted list is EXACTLY the same outcome, for every `p` (in or out of
    range) and every `ops` (also when the index computation panics) -/
theorem percentile_permutation_invariant (ops : NumOps) (L M : List Value) (p : F64) (h : L.Perm M) :
    callPure ops "percentile" [.list L, .num p] = callPure ops "percentile" [.list M, .num p] := by
  rw [callPure_percentile, callPure_percentile]
  congr 1
  split
  · rfl
  · rcases numList_perm h with ⟨ns, ms, h1, h2, hp⟩ | ⟨h1, h2⟩
    · have hl : ns.isEmpty = ms.isEmpty := by
        cases ns with
        | nil => rw [hp.symm.eq_nil]
        | cons x xs =>
          cases ms with
          | nil => exact absurd hp.eq_nil (by simp)
          | cons _ _ => rfl
      simp only [h1, h2, Outcome.bind, hl, pctOf, sortTotal_eq_of_perm hp]
    · rw [h1, h2]

/-- `min` / `max` of a permuted argument list: same failure, or results that are IEEE-equal
    (`==`).  Bit-exact equality fails only through the sign of zero (see the example below). -/
theorem min_max_permutation_invariant (ops : NumOps) (name : String) (hname : name ∈ ["min", "max"])
    (L M : List Value) (h : L.Perm M) (a b : List Value)
    (hab : (a = [.list L] ∧ b = [.list M]) ∨ (a = L ∧ b = M)) :
    (∃ x y, callPure ops name a = some (.ok (.num x)) ∧ callPure ops name b = some (.ok (.num y)) ∧
      F64.feq x y = true) ∨
    (∃ k, callPure ops name a = some (.err k) ∧ callPure ops name b = some (.err k)) := by
  have hperm : AggPerm a b := by
    rcases hab with ⟨rfl, rfl⟩ | ⟨rfl, rfl⟩
    · exact aggPerm_list h
    · exact aggPerm_varargs h
  simp only [List.mem_cons, List.not_mem_nil, or_false] at hname
  rcases hname with rfl | rfl
  · rw [callPure_min, callPure_min]
    rcases aggThen_of_aggPerm hperm (fun ns => ns.foldl fmin F64.inf) with
      ⟨ns, ms, hp, h1, h2⟩ | ⟨k, h1, h2⟩
    · exact .inl ⟨_, _, congrArg some h1, congrArg some h2, foldl_fmin_perm hp⟩
    · exact .inr ⟨k, congrArg some h1, congrArg some h2⟩
  · rw [callPure_max, callPure_max]
    rcases aggThen_of_aggPerm hperm (fun ns => ns.foldl fmax F64.negInf) with
      ⟨ns, ms, hp, h1, h2⟩ | ⟨k, h1, h2⟩
    · exact .inl ⟨_, _, congrArg some h1, congrArg some h2, foldl_fmax_perm hp⟩
    · exact .inr ⟨k, congrArg some h1, congrArg some h2⟩

/-- `min` is NOT bit-exactly permutation invariant in the model: `min(0, -0) = 0` but
    `min(-0, 0) = -0` (`fmin` keeps its first operand on IEEE-equal operands) -/
theorem min_sign_of_zero_depends_on_order (ops : NumOps) :
    callPure ops "min" [.num F64.zero, .num F64.negZero] = some (.ok (.num F64.zero)) ∧
    callPure ops "min" [.num F64.negZero, .num F64.zero] = some (.ok (.num F64.negZero)) ∧
    F64.zero ≠ F64.negZero := by
  have h1 : [F64.zero, F64.negZero].foldl fmin F64.inf = F64.zero := by decide
  have h2 : [F64.negZero, F64.zero].foldl fmin F64.inf = F64.negZero := by decide
  refine ⟨?_, ?_, by decide⟩
  · rw [callPure_min, aggThen_of_ok (ns := [F64.zero, F64.negZero]) rfl (by simp), h1]
  · rw [callPure_min, aggThen_of_ok (ns := [F64.negZero, F64.zero]) rfl (by simp), h2]

/-- the bit-exact version of permutation invariance for `min` (FALSE in the model, and on
    the real binary: `min(0, -0)` prints `0.0`, `min(-0, 0)` prints `-0.0`) -/
def min_exact_permutation_invariance_statement : Prop :=
  ∀ (ops : NumOps) (L M : List Value), L.Perm M → callPure ops "min" L = callPure ops "min" M

theorem min_exact_permutation_invariance_fails : ¬ min_exact_permutation_invariance_statement := by
  intro h
  obtain ⟨h1, h2, h3⟩ := min_sign_of_zero_depends_on_order intOps
  have := h intOps [.num F64.zero, .num F64.negZero] [.num F64.negZero, .num F64.zero]
    (List.Perm.swap _ _ _)
  rw [h1, h2] at this
  injection this with this
  injection this with this
  injection this with this
  exact h3 this

/-! #### 7. `sum`, `avg`, `prod` up to rounding: error bounds under the standard model

  `RoundingModel ops u` (Lemmas/Rounding.lean) is Higham's model (2.4):
  `fl(a op b) = (a op b)(1 + δ)`, `|δ| ≤ u`, for `+ × /` on finite operands whenever the
  computed result is finite and (for `× /`) the exact result did not underflow.  `x.toRat` is
  the exact rational value of a finite double; `exactSum ns = Σ xᵢ`, `exactAbsSum ns = Σ |xᵢ|`,
  `exactProd ns = Π xᵢ` in ℚ.  The accumulated factor is written `(1+u)^n − 1` (it is `≤ γₙ =
  n·u/(1 − n·u)` when `n·u < 1`; for `n = 50`, `u = 2^-53`: `< 5.6e-15`).  The exponent is `n`,
  not `n − 1`, because the model's fold starts with `-0.0 + x₁` / `1.0 × x₁`, which the abstract
  model does not know to be exact.

  Side conditions, each NEEDED:
  * `PartialsFinite f a ns`: operands and every partial result finite.  Overflow:
    `sum(1.7e308, 1.7e308, -1.7e308)` is `inf` in one order and `1.7e308` in another.
  * `PartialProductsNoUnderflow` (prod) / `NoUnderflow (s / n)` (avg): no exact product /
    quotient lands strictly between `0` and the smallest normal double `2^-1022`.  Underflow:
    `prod(5e-324, 0.5, 2)` is `0` (`5e-324 × 0.5` rounds to `0`) while `prod(2, 5e-324, 0.5)`
    is `5e-324`, and the exact product is `4.9e-324`: relative error `1` whatever `n`
    (`underflow_breaks_relative_model`).  Sums need no such condition (IEEE addition is exact
    in the subnormal range).
  * `ns.length < 2^53` (avg): the count converts to a double exactly. -/

/-- `sum` of `n` numbers: `|fl(Σ) − Σ xᵢ| ≤ ((1+u)^n − 1) · Σ |xᵢ|` (both conventions: any
    `args` that hands `ns` to the aggregate, `numbers_of_both_conventions`) -/
theorem sum_error_bound (ops : NumOps) (u : ℚ) (M : RoundingModel ops u)
    (args : List Value) (ns : List F64) (h : aggArgs args = .ok ns) (hne : ns ≠ [])
    (hfin : PartialsFinite ops.add F64.negZero ns) :
    ∃ s, callPure ops "sum" args = some (.ok (.num s)) ∧ s.isFinite = true ∧
      |s.toRat - exactSum ns| ≤ ((1 + u) ^ ns.length - 1) * exactAbsSum ns :=
  ⟨_, (sum_prod_avg_are_left_folds ops args ns h hne).1, hfin.result, sum_error M ns hfin⟩

/-- INVARIANT UNDER PERMUTATION UP TO ROUNDING, exactly: two sums of the same numbers in two
    orders (and in either convention each) differ by at most `2 · ((1+u)^n − 1) · Σ |xᵢ|` -/
theorem sum_permutation_invariant_up_to_rounding (ops : NumOps) (u : ℚ) (M : RoundingModel ops u)
    (ns ms : List F64) (hp : ns.Perm ms) (hne : ns ≠ [])
    (h1 : PartialsFinite ops.add F64.negZero ns) (h2 : PartialsFinite ops.add F64.negZero ms)
    (a b : List Value) (ha : aggArgs a = .ok ns) (hb : aggArgs b = .ok ms) :
    ∃ s t, callPure ops "sum" a = some (.ok (.num s)) ∧ callPure ops "sum" b = some (.ok (.num t)) ∧
      |s.toRat - t.toRat| ≤ 2 * ((1 + u) ^ ns.length - 1) * exactAbsSum ns := by
  have hne' : ms ≠ [] := fun h0 => hne (by rw [h0] at hp; exact hp.eq_nil)
  exact ⟨_, _, (sum_prod_avg_are_left_folds ops a ns ha hne).1,
    (sum_prod_avg_are_left_folds ops b ms hb hne').1, sum_perm_error M hp h1 h2⟩

/-- `avg`: one more rounding, the division by the count:
    `|fl(avg) − (Σ xᵢ)/n| ≤ ((1+u)^(n+1) − 1) · (Σ |xᵢ|)/n` -/
theorem avg_error_bound (ops : NumOps) (u : ℚ) (M : RoundingModel ops u)
    (args : List Value) (ns : List F64) (h : aggArgs args = .ok ns) (hne : ns ≠ [])
    (hlen : ns.length < 2 ^ 53)
    (hfin : PartialsFinite ops.add F64.negZero ns)
    (hdiv : (ops.div (ns.foldl ops.add F64.negZero) (F64.ofNat ns.length)).isFinite = true)
    (hnu : NoUnderflow ((ns.foldl ops.add F64.negZero).toRat / (ns.length : ℚ))) :
    ∃ m, callPure ops "avg" args = some (.ok (.num m)) ∧ m.isFinite = true ∧
      |m.toRat - exactSum ns / (ns.length : ℚ)| ≤
        ((1 + u) ^ (ns.length + 1) - 1) * exactAbsSum ns / (ns.length : ℚ) :=
  ⟨_, (sum_prod_avg_are_left_folds ops args ns h hne).2.2, hdiv,
    avg_error M ns hne hlen hfin hdiv hnu⟩

/-- `avg` of the same numbers in two orders: within twice the bound -/
theorem avg_permutation_invariant_up_to_rounding (ops : NumOps) (u : ℚ) (M : RoundingModel ops u)
    (ns ms : List F64) (hp : ns.Perm ms) (hne : ns ≠ []) (hlen : ns.length < 2 ^ 53)
    (h1 : PartialsFinite ops.add F64.negZero ns) (h2 : PartialsFinite ops.add F64.negZero ms)
    (d1 : (ops.div (ns.foldl ops.add F64.negZero) (F64.ofNat ns.length)).isFinite = true)
    (d2 : (ops.div (ms.foldl ops.add F64.negZero) (F64.ofNat ms.length)).isFinite = true)
    (n1 : NoUnderflow ((ns.foldl ops.add F64.negZero).toRat / (ns.length : ℚ)))
    (n2 : NoUnderflow ((ms.foldl ops.add F64.negZero).toRat / (ms.length : ℚ)))
    (a b : List Value) (ha : aggArgs a = .ok ns) (hb : aggArgs b = .ok ms) :
    ∃ s t, callPure ops "avg" a = some (.ok (.num s)) ∧ callPure ops "avg" b = some (.ok (.num t)) ∧
      |s.toRat - t.toRat| ≤
        2 * (((1 + u) ^ (ns.length + 1) - 1) * exactAbsSum ns / (ns.length : ℚ)) := by
  have hne' : ms ≠ [] := fun h0 => hne (by rw [h0] at hp; exact hp.eq_nil)
  obtain ⟨s, hs, _, es⟩ := avg_error_bound ops u M a ns ha hne hlen h1 d1 n1
  obtain ⟨t, ht, _, et⟩ := avg_error_bound ops u M b ms hb hne' (by rw [← hp.length_eq]; exact hlen)
    h2 d2 n2
  rw [← hp.length_eq, ← exactSum_perm hp, ← exactAbsSum_perm hp] at et
  refine ⟨s, t, hs, ht, ?_⟩
  have : s.toRat - t.toRat = (s.toRat - exactSum ns / (ns.length : ℚ)) -
      (t.toRat - exactSum ns / (ns.length : ℚ)) := by ring
  rw [this]
  refine (abs_sub _ _).trans ?_
  linarith

/-- `prod` of `n` numbers: RELATIVE error `|fl(Π) − Π xᵢ| ≤ ((1+u)^n − 1) · |Π xᵢ|` -/
theorem prod_error_bound (ops : NumOps) (u : ℚ) (M : RoundingModel ops u)
    (args : List Value) (ns : List F64) (h : aggArgs args = .ok ns) (hne : ns ≠ [])
    (hfin : PartialsFinite ops.mul F64.one ns)
    (hnu : PartialProductsNoUnderflow ops F64.one ns) :
    ∃ p, callPure ops "prod" args = some (.ok (.num p)) ∧ p.isFinite = true ∧
      |p.toRat - exactProd ns| ≤ ((1 + u) ^ ns.length - 1) * |exactProd ns| :=
  ⟨_, (sum_prod_avg_are_left_folds ops args ns h hne).2.1, hfin.result, prod_error M ns hfin hnu⟩

/-- `prod` of the same numbers in two orders: within `2 · ((1+u)^n − 1) · |Π xᵢ|` -/
theorem prod_permutation_invariant_up_to_rounding (ops : NumOps) (u : ℚ) (M : RoundingModel ops u)
    (ns ms : List F64) (hp : ns.Perm ms) (hne : ns ≠ [])
    (h1 : PartialsFinite ops.mul F64.one ns) (n1 : PartialProductsNoUnderflow ops F64.one ns)
    (h2 : PartialsFinite ops.mul F64.one ms) (n2 : PartialProductsNoUnderflow ops F64.one ms)
    (a b : List Value) (ha : aggArgs a = .ok ns) (hb : aggArgs b = .ok ms) :
    ∃ s t, callPure ops "prod" a = some (.ok (.num s)) ∧ callPure ops "prod" b = some (.ok (.num t)) ∧
      |s.toRat - t.toRat| ≤ 2 * ((1 + u) ^ ns.length - 1) * |exactProd ns| := by
  have hne' : ms ≠ [] := fun h0 => hne (by rw [h0] at hp; exact hp.eq_nil)
  exact ⟨_, _, (sum_prod_avg_are_left_folds ops a ns ha hne).2.1,
    (sum_prod_avg_are_left_folds ops b ms hb hne').2.1, prod_perm_error M hp h1 n1 h2 n2⟩

/-- the textbook constant: the factor `(1+u)^n − 1` of all the bounds above is at most
    `γₙ = n·u / (1 − n·u)` when `n·u < 1` (Higham Lemma 3.1), so e.g.
    `|fl(Σ) − Σ xᵢ| ≤ γₙ · Σ |xᵢ|` -/
theorem rounding_factor_le_gamma (u : ℚ) (hu : 0 ≤ u) (n : ℕ) (hn : (n : ℚ) * u < 1) :
    (1 + u) ^ n - 1 ≤ (n : ℚ) * u / (1 - (n : ℚ) * u) :=
  Rounding.E_le_gamma hu n hn

/-- "up to rounding" cannot be dropped: there are primitives satisfying the standard model
    (`guardedOps`: correct rounding by `F64.ofRatio`, `u = 2^-53`) for which
    `sum(0.1, 0.2, 0.3) = 0.6000000000000001` and `sum(0.3, 0.2, 0.1) = 0.6` (as on the real
    binary), and likewise `prod` -/
theorem sum_order_matters_under_model :
    ∃ (ops : NumOps) (u : ℚ), RoundingModel ops u ∧ ∃ ns ms : List F64, ns.Perm ms ∧
      callPure ops "sum" (ns.map .num) ≠ callPure ops "sum" (ms.map .num) ∧
      callPure ops "prod" (ns.map .num) ≠ callPure ops "prod" (ms.map .num) := by
  refine ⟨guardedOps, u64, guardedOps_model, [dbl01, dbl02, dbl03], [dbl03, dbl02, dbl01],
    by decide, ?_, ?_⟩
  · have h1 : [dbl01, dbl02, dbl03].foldl guardedOps.add F64.negZero =
        F64.ofNatBits 0x3FE3333333333334 := by decide +kernel
    have h2 : [dbl03, dbl02, dbl01].foldl guardedOps.add F64.negZero =
        F64.ofNatBits 0x3FE3333333333333 := by decide +kernel
    rw [callPure_sum, callPure_sum, aggThen_of_ok (aggArgs_map_num _) (by simp),
      aggThen_of_ok (aggArgs_map_num _) (by simp), h1, h2]
    intro h
    injection h with h; injection h with h; injection h with h
    exact absurd h (by decide)
  · have h1 : [dbl01, dbl02, dbl03].foldl guardedOps.mul F64.one =
        F64.ofNatBits 0x3F789374BC6A7EFB := by decide +kernel
    have h2 : [dbl03, dbl02, dbl01].foldl guardedOps.mul F64.one =
        F64.ofNatBits 0x3F789374BC6A7EFA := by decide +kernel
    rw [callPure_prod, callPure_prod, aggThen_of_ok (aggArgs_map_num _) (by simp),
      aggThen_of_ok (aggArgs_map_num _) (by simp), h1, h2]
    intro h
    injection h with h; injection h with h; injection h with h
    exact absurd h (by decide)

/-- why `NoUnderflow` is in the model for `×` (and `/`): the correctly rounded product of the
    finite doubles `5e-324 = 2^-1074` and `0.5` is the finite double `0`, while the exact
    product `2^-1075` is not `0`; no `δ` with `|δ| ≤ u < 1` can give
    `fl(a × b) = (a × b)(1 + δ)`.  (Correct rounding = `roundRat`, i.e. `F64.ofRatio`.) -/
theorem underflow_breaks_relative_model :
    dblTiny.isFinite = true ∧ dblHalf.isFinite = true ∧
    dblTiny.toRat * dblHalf.toRat = 1 / 2 ^ 1075 ∧ ¬ NoUnderflow (dblTiny.toRat * dblHalf.toRat) ∧
    roundRat (dblTiny.toRat * dblHalf.toRat) = F64.zero ∧
    ∀ u δ : ℚ, u < 1 → |δ| ≤ u →
      (roundRat (dblTiny.toRat * dblHalf.toRat)).toRat ≠ dblTiny.toRat * dblHalf.toRat * (1 + δ) := by
  have hq : dblTiny.toRat * dblHalf.toRat = 1 / 2 ^ 1075 := by decide +kernel
  have hr : roundRat (dblTiny.toRat * dblHalf.toRat) = F64.zero := by decide +kernel
  refine ⟨by decide, by decide, hq, by unfold NoUnderflow; decide +kernel, hr, fun u δ hu hδ h => ?_⟩
  rw [hr, F64.toRat_zero, hq] at h
  have h1 : (1 : ℚ) + δ = 0 := by
    rcases mul_eq_zero.mp h.symm with h0 | h0
    · exact absurd h0 (by positivity)
    · exact h0
  have h2 := (abs_le.mp hδ).1
  linarith

/-! #### examples: hypotheses are satisfiable, concrete runs with the toy `ops` -/

-- `conventions_agree`: a two-element list with a non-number (both sides are type errors)
example : callPure intOps "sum" [.list [.num int1, .bool true]] = callPure intOps "sum" [.num int1, .bool true] :=
  conventions_agree intOps "sum" (by simp) [.num int1, .bool true] (by decide)
-- `conventions_agree_single` / `lone_non_number_is_type_error`: `v = true`
example : callPure intOps "avg" [.list [.bool true]] = callPure intOps "avg" [.bool true] :=
  conventions_agree_single intOps "avg" (by simp) (.bool true) (fun _ h => by cases h)
example : callPure intOps "prod" [.bool true] = some (.err .type_) :=
  lone_non_number_is_type_error intOps "prod" (by simp) (.bool true) (fun _ h => by cases h) (fun _ h => by cases h)
-- `non_number_member_is_type_error`
example : callPure intOps "max" [.list [.num int1, .null]] = some (.err .type_) :=
  (non_number_member_is_type_error intOps "max" (by simp) [.num int1, .null] .null (by simp)
    (fun _ h => by cases h)).1
-- the one-element exception: `min([[1]])` is a type error while `min([1]) = 1`
example : callPure intOps "min" [.list [.list [.num int1]]] = some (.err .type_) ∧
    callPure intOps "min" [.list [.num int1]] = some (.ok (.num int1)) := by
  refine ⟨nested_singleton_is_type_error intOps "min" (by simp) _, ?_⟩
  have h : [int1].foldl fmin F64.inf = int1 := by decide
  rw [callPure_min, aggThen_of_ok (ns := [int1]) rfl (by simp), h]

-- `min_bound_and_member` / `max_bound_and_member` on `[3, 1, 2]`: hypotheses hold, result `1` / `3`
example : aggArgs [.list [.num int3, .num int1, .num int2]] = .ok [int3, int1, int2] ∧
    [int3, int1, int2] ≠ [] ∧ (∀ x ∈ [int3, int1, int2], x.isNaN = false) :=
  ⟨rfl, by simp, by decide⟩
example : callPure intOps "min" [.num int3, .num int1, .num int2] = some (.ok (.num int1)) := by
  have h : [int3, int1, int2].foldl fmin F64.inf = int1 := by decide
  rw [callPure_min, aggThen_of_ok (ns := [int3, int1, int2]) rfl (by simp), h]
example : callPure intOps "max" [.list [.num int3, .num int1, .num int2]] = some (.ok (.num int3)) := by
  have h : [int3, int1, int2].foldl fmax F64.negInf = int3 := by decide
  rw [callPure_max, aggThen_of_ok (ns := [int3, int1, int2]) rfl (by simp), h]
-- `min_ignores_nan`: `min(NaN, 2) = 2`, `min(NaN) = inf`
example : callPure intOps "min" [.num F64.nan, .num int2] = some (.ok (.num int2)) := by
  have h : [F64.nan, int2].foldl fmin F64.inf = int2 := by decide
  rw [callPure_min, aggThen_of_ok (ns := [F64.nan, int2]) rfl (by simp), h]
example : callPure intOps "min" [.num F64.nan] = some (.ok (.num F64.inf)) := by
  have h : [F64.nan].foldl fmin F64.inf = F64.inf := by decide
  rw [callPure_min, aggThen_of_ok (ns := [F64.nan]) rfl (by simp), h]

-- `avg_is_sum_div_count`: `sum(1, 2) = 3` with the toy ops, so `avg(1, 2) = 3 / 2`
example : callPure intOps "sum" [.num int1, .num int2] = some (.ok (.num int3)) := by
  have h : [int1, int2].foldl intOps.add F64.negZero = int3 := by decide +kernel
  rw [callPure_sum, aggThen_of_ok (ns := [int1, int2]) rfl (by simp), h]
-- `avg_fails_like_sum`: `sum([]) ` is a domain error
example : callPure intOps "sum" [.list []] = some (.err .domain) := rfl

-- `median_odd_is_middle` on `[3, 1, 2]` (median 2) and `median_even_is_mean_of_middle` on `[3, 1]`
example : aggArgs [.num int3, .num int1, .num int2] = .ok [int3, int1, int2] ∧
    [int3, int1, int2].length % 2 = 1 := ⟨rfl, rfl⟩
example : callPure intOps "median" [.num int3, .num int1, .num int2] = some (.ok (.num int2)) := by
  have h : medianOf intOps (sortTotal [int3, int1, int2]) = int2 := by decide +kernel
  rw [callPure_median, aggThen_of_ok (ns := [int3, int1, int2]) rfl (by simp), h]
example : aggArgs [.list [.num int3, .num int1]] = .ok [int3, int1] ∧ [int3, int1] ≠ [] ∧
    [int3, int1].length % 2 = 0 := ⟨rfl, by simp, rfl⟩
example : callPure intOps "median" [.list [.num int3, .num int1]] = some (.ok (.num int2)) := by
  have h : medianOf intOps (sortTotal [int3, int1]) = int2 := by decide +kernel
  rw [callPure_median, aggThen_of_ok (ns := [int3, int1]) rfl (by simp), h]

-- `percentile_is_member`: the index hypothesis holds for the toy ops, `p = 100`, three numbers
example : numList [.num int3, .num int1, .num int2] = .ok [int3, int1, int2] ∧
    F64.fle F64.zero hundred = true ∧ F64.fle hundred hundred = true ∧
    (intOps.round (intOps.mul (intOps.div hundred hundred) (F64.ofNat ([int3, int1, int2].length - 1)))).toU64
      < [int3, int1, int2].length :=
  ⟨rfl, by decide +kernel, by decide +kernel, by decide +kernel⟩
-- `percentile_index_out_of_range_panics`: an `ops` whose `round` returns `+inf` violates it
example : [int1].length ≤
    ({ intOps with round := fun _ => F64.inf }.round
      ({ intOps with round := fun _ => F64.inf }.mul
        ({ intOps with round := fun _ => F64.inf }.div F64.zero hundred) (F64.ofNat ([int1].length - 1)))).toU64 := by
  decide +kernel
-- `percentile_0_is_min`: the three facts about `ops` hold for the toy ops (three numbers)
example : intOps.div F64.zero hundred = F64.zero ∧
    intOps.mul F64.zero (F64.ofNat ([int3, int1, int2].length - 1)) = F64.zero ∧
    intOps.round F64.zero = F64.zero := by decide +kernel
-- `percentile_100_is_max`: likewise
example : [int3, int1, int2].length ≤ 2 ^ 53 ∧ intOps.div hundred hundred = F64.one ∧
    intOps.mul F64.one (F64.ofNat ([int3, int1, int2].length - 1)) = F64.ofNat ([int3, int1, int2].length - 1) ∧
    intOps.round (F64.ofNat ([int3, int1, int2].length - 1)) = F64.ofNat ([int3, int1, int2].length - 1) := by
  decide +kernel
-- `percentile_guards`: `p = -0.0 … ` is in range, `p = NaN` is not
example : (F64.fle F64.zero F64.nan && F64.fle F64.nan hundred) = false := by decide +kernel
-- `percentile_guards` (2nd, 3rd part) and `percentile_monotone_of_index`: `p = 0`, `q = 100` are in range;
-- with the toy ops the indices for three numbers are `0 ≤ 2 < 3`
example : (F64.fle F64.zero hundred && F64.fle hundred hundred) = true := by decide +kernel
example : (intOps.round (intOps.mul (intOps.div F64.zero hundred) (F64.ofNat ([int3, int1, int2].length - 1)))).toU64 ≤
    (intOps.round (intOps.mul (intOps.div hundred hundred) (F64.ofNat ([int3, int1, int2].length - 1)))).toU64 := by
  decide +kernel
-- `percentile_monotone`: the hypotheses hold for the (non-constant) primitives `a / _ = a`,
-- `a * _ = a`, `round a = a`, with `p = 1 ≤ q = 2` on three numbers (results `2` and `3`)
example : (∀ a b, F64.fle a b = true →
      F64.fle ({ intOps with div := fun a _ => a, mul := fun a _ => a }.div a hundred)
        ({ intOps with div := fun a _ => a, mul := fun a _ => a }.div b hundred) = true) ∧
    (∀ a b c, F64.fle a b = true → F64.fle F64.zero c = true →
      F64.fle ({ intOps with div := fun a _ => a, mul := fun a _ => a }.mul a c)
        ({ intOps with div := fun a _ => a, mul := fun a _ => a }.mul b c) = true) ∧
    (∀ a b, F64.fle a b = true →
      F64.fle ({ intOps with div := fun a _ => a, mul := fun a _ => a }.round a)
        ({ intOps with div := fun a _ => a, mul := fun a _ => a }.round b) = true) ∧
    F64.fle F64.zero int1 = true ∧ F64.fle int1 int2 = true ∧ F64.fle int2 hundred = true :=
  ⟨fun _ _ h => h, fun _ _ _ h _ => h, fun _ _ h => h, by decide, by decide, by decide +kernel⟩
set_option exponentiation.threshold 2000 in
set_option maxRecDepth 10000 in
example : callPure { intOps with div := fun a _ => a, mul := fun a _ => a } "percentile"
      [.list [.num int3, .num int1, .num int2], .num int1] = some (.ok (.num int2)) ∧
    callPure { intOps with div := fun a _ => a, mul := fun a _ => a } "percentile"
      [.list [.num int3, .num int1, .num int2], .num int2] = some (.ok (.num int3)) := by
  exact ⟨by rfl, by rfl⟩
-- a concrete run: `percentile([3, 1, 2], 100) = 3`, `percentile([3, 1, 2], 0) = 1`
set_option exponentiation.threshold 2000 in
set_option maxRecDepth 10000 in
example : callPure intOps "percentile" [.list [.num int3, .num int1, .num int2], .num hundred] =
    some (.ok (.num int3)) := by rfl
set_option exponentiation.threshold 2000 in
set_option maxRecDepth 10000 in
example : callPure intOps "percentile" [.list [.num int3, .num int1, .num int2], .num F64.zero] =
    some (.ok (.num int1)) := by rfl
-- `min_max_permutation_invariant` on the swapped pair `(+0, -0)`: results are `==`, not identical
example : ∃ x y, callPure intOps "min" [.num F64.zero, .num F64.negZero] = some (.ok (.num x)) ∧
    callPure intOps "min" [.num F64.negZero, .num F64.zero] = some (.ok (.num y)) ∧ F64.feq x y = true :=
  ⟨_, _, (min_sign_of_zero_depends_on_order intOps).1, (min_sign_of_zero_depends_on_order intOps).2.1,
    by decide⟩
-- `usize_f64_round_trip` / `totalKey_refines_key` / `totalKey_injective`
example : (F64.ofNat 2).toU64 = 2 := usize_f64_round_trip 2 (by decide)
example : totalKey F64.negZero ≤ totalKey F64.zero ∧ F64.negZero.key ≤ F64.zero.key := by decide
example : totalKey F64.one = totalKey (F64.ofNat 1) := by decide +kernel

-- permutation invariance: `[3, 1, 2]` is a permutation of `[1, 2, 3]`
example : callPure intOps "median" [.num int3, .num int1, .num int2] =
    callPure intOps "median" [.num int1, .num int2, .num int3] :=
  (median_permutation_invariant intOps [.num int3, .num int1, .num int2] [.num int1, .num int2, .num int3]
    ((List.Perm.swap _ _ _).trans ((List.Perm.swap _ _ _).cons _))).2

-- section 7.  `RoundingModel` is satisfiable, with the unit roundoff of binary64 …
example : RoundingModel guardedOps (1 / 2 ^ 53) := guardedOps_model
-- … and the side conditions of the bounds hold for `[0.1, 0.2, 0.3]` in both orders
example : [dbl01, dbl02, dbl03].Perm [dbl03, dbl02, dbl01] ∧
    PartialsFinite guardedOps.add F64.negZero [dbl01, dbl02, dbl03] ∧
    PartialsFinite guardedOps.add F64.negZero [dbl03, dbl02, dbl01] ∧
    PartialsFinite guardedOps.mul F64.one [dbl01, dbl02, dbl03] ∧
    PartialsFinite guardedOps.mul F64.one [dbl03, dbl02, dbl01] ∧
    PartialProductsNoUnderflow guardedOps F64.one [dbl01, dbl02, dbl03] ∧
    PartialProductsNoUnderflow guardedOps F64.one [dbl03, dbl02, dbl01] := by
  unfold PartialsFinite PartialProductsNoUnderflow NoUnderflow
  decide +kernel
example : ([dbl01, dbl02, dbl03].length < 2 ^ 53) ∧
    (guardedOps.div ([dbl01, dbl02, dbl03].foldl guardedOps.add F64.negZero)
      (F64.ofNat [dbl01, dbl02, dbl03].length)).isFinite = true ∧
    NoUnderflow (([dbl01, dbl02, dbl03].foldl guardedOps.add F64.negZero).toRat /
      ([dbl01, dbl02, dbl03].length : ℚ)) := by
  unfold NoUnderflow
  decide +kernel
-- the bounds instantiated: `sum([0.1, 0.2, 0.3])` (one list) against `sum(0.3, 0.2, 0.1)`
-- (separate arguments): the results differ in the last bit (`sum_order_matters_under_model`)
-- and are within `2((1 + 2^-53)^3 − 1)(0.1 + 0.2 + 0.3) ≈ 4e-16` of each other
example : ∃ s t,
    callPure guardedOps "sum" [.list [.num dbl01, .num dbl02, .num dbl03]] = some (.ok (.num s)) ∧
    callPure guardedOps "sum" [.num dbl03, .num dbl02, .num dbl01] = some (.ok (.num t)) ∧
    |s.toRat - t.toRat| ≤ 2 * ((1 + u64) ^ 3 - 1) * exactAbsSum [dbl01, dbl02, dbl03] :=
  sum_permutation_invariant_up_to_rounding guardedOps u64 guardedOps_model
    [dbl01, dbl02, dbl03] [dbl03, dbl02, dbl01] (by decide) (by simp)
    (by unfold PartialsFinite; decide +kernel) (by unfold PartialsFinite; decide +kernel)
    _ _ rfl rfl
example : ∃ p, callPure guardedOps "prod" [.num dbl01, .num dbl02, .num dbl03] = some (.ok (.num p)) ∧
    p.isFinite = true ∧
    |p.toRat - exactProd [dbl01, dbl02, dbl03]| ≤ ((1 + u64) ^ 3 - 1) * |exactProd [dbl01, dbl02, dbl03]| :=
  prod_error_bound guardedOps u64 guardedOps_model _ [dbl01, dbl02, dbl03] rfl (by simp)
    (by unfold PartialsFinite; decide +kernel)
    (by unfold PartialProductsNoUnderflow NoUnderflow; decide +kernel)
example : ∃ m, callPure guardedOps "avg" [.list [.num dbl01, .num dbl02, .num dbl03]] = some (.ok (.num m)) ∧
    m.isFinite = true ∧
    |m.toRat - exactSum [dbl01, dbl02, dbl03] / 3| ≤
      ((1 + u64) ^ (3 + 1) - 1) * exactAbsSum [dbl01, dbl02, dbl03] / 3 := by
  have := avg_error_bound guardedOps u64 guardedOps_model [.list [.num dbl01, .num dbl02, .num dbl03]]
    [dbl01, dbl02, dbl03] rfl (by simp) (by decide)
    (by unfold PartialsFinite; decide +kernel) (by decide +kernel)
    (by unfold NoUnderflow; decide +kernel)
  simpa using this
-- `rounding_factor_le_gamma`: for the 50 numbers of the property's quantifier and binary64,
-- `n·u = 50 · 2^-53 < 1`
example : (0 : ℚ) ≤ u64 ∧ ((50 : ℕ) : ℚ) * u64 < 1 := by unfold u64; norm_num
-- overflow: with correct rounding `max + max` is not finite, so `PartialsFinite` fails and
-- `toRat` of the result means nothing
example : (guardedOps.add dblMax dblMax).isFinite = false ∧ (roundRat (dblMax.toRat + dblMax.toRat)) = F64.inf := by
  decide +kernel

end Blots.C15
