import Blots.Lemmas.NoPanic
import Blots.Lemmas.ToyOps
/-
  C01 — No input crashes the pipeline (the logic part: no `panic` outcome of the model is
  reachable once arity was checked).

  Statements only (helper lemmas live in `Blots/Lemmas/NoPanic.lean`).  In the model every Rust
  `args[i]`, `unwrap`, slice index … is a checked operation that yields `Outcome.panic`.
  All theorems hold for every `ops : NumOps`; the only hypothesis is `PercentileIndexOk ops`
  (the float-computed index of `percentile` is `< len`; validated by the harness on the native
  operations, and shown necessary by the last `example`).
-/
namespace Blots.C01

/-! #### 1. built-ins without callbacks: no panic on any argument list of an accepted length -/

/-- every row of the generated table, all `ops`, all argument lists whose length passed
    `check_arity`.  For the HOF rows and `time_now` `callPure` is `none` (trivially no panic). -/
theorem callPure_no_panic (ops : NumOps) (variant name : String) (ar : Gen.Arity)
    (hrow : (variant, name, ar) ∈ Gen.builtins)
    (hperc : name = "percentile" → PercentileIndexOk ops)
    (args : List Value) (harity : checkArity ar args.length = .ok ()) :
    ∀ p, callPure ops name args ≠ some (.panic p) :=
  callPure_noPanic_of_mem' ops hrow hperc args (checkArity_ok_iff.mp harity)

/-- unconditional for every built-in except `percentile` -/
theorem callPure_no_panic_except_percentile (ops : NumOps) (variant name : String)
    (ar : Gen.Arity) (hrow : (variant, name, ar) ∈ Gen.builtins) (hname : name ≠ "percentile")
    (args : List Value) (harity : checkArity ar args.length = .ok ()) :
    ∀ p, callPure ops name args ≠ some (.panic p) :=
  callPure_no_panic ops variant name ar hrow (fun h => absurd h hname) args harity

theorem callPure_no_panic_percentile (ops : NumOps) (hperc : PercentileIndexOk ops)
    (args : List Value) (harity : checkArity (.exact 2) args.length = .ok ()) :
    ∀ p, callPure ops "percentile" args ≠ some (.panic p) :=
  callPure_no_panic ops "Percentile" "percentile" (.exact 2) (by decide) (fun _ => hperc) args harity

/-- the table rows are exactly what `builtinArity` (used by `callFn`) looks up -/
theorem builtinArity_iff_row (name : String) (ar : Gen.Arity) :
    builtinArity name = some ar ↔ ∃ variant, (variant, name, ar) ∈ Gen.builtins :=
  ⟨mem_builtins_of_builtinArity, fun ⟨_, h⟩ => builtinArity_of_mem h⟩

/-- the same in the form `callFn` uses it -/
theorem callPure_no_panic_of_arity (ops : NumOps) (hperc : PercentileIndexOk ops) (name : String)
    (ar : Gen.Arity) (har : builtinArity name = some ar) (args : List Value)
    (harity : checkArity ar args.length = .ok ()) :
    ∀ p, callPure ops name args ≠ some (.panic p) :=
  callPure_ne_panic ops hperc har args harity

example : ("Slice", "slice", Gen.Arity.exact 3) ∈ Gen.builtins := by decide
example : "slice" ≠ "percentile" := by decide
example : checkArity (.exact 3) [Value.str "héllo", .num int1, .num int3].length = .ok () := rfl
example : builtinArity "slice" = some (.exact 3) := rfl
/-- `slice("ab", 1, 3)`: out of range is a reported error -/
example : callPure intOps "slice" [.str "ab", .num int1, .num int3] = some (.err .domain) := by
  set_option maxRecDepth 10000 in rfl

/-- an `ops` satisfying the `percentile` hypothesis -/
example : PercentileIndexOk { intOps with round := fun _ => F64.zero } := by
  intro p n hn _ _
  show F64.zero.toU64 < n
  have : F64.zero.toU64 = 0 := by decide +kernel
  omega

/-! #### 2. binding parameters never panics (even for `(a?, b)` with one argument) -/

theorem bindParams_no_panic (ps : List LArg) (args : List Value) :
    ∀ p, bindParams ps args ≠ .panic p :=
  bindParams_noPanic ps args

example : bindParams [.opt "a", .req "b"] [.num int1] = .err .arity := rfl
example : bindParams [.rest "r", .req "b"] [] = .err .arity := rfl

/-! #### 3. `FunctionDef::call` checks arity before anything else -/

theorem callFn_builtin_checks_arity_first (ops : NumOps) (fuel : Nat) (name : String)
    (ar : Gen.Arity) (this : Value) (args : List Value) (depth : Nat) (s : ES)
    (har : builtinArity name = some ar) (hbad : checkArity ar args.length = .err .arity) :
    callFn ops (fuel + 1) (.builtin name) this args depth s = (.err .arity, s) := by
  simp only [callFn, har, hbad]

theorem callFn_lambda_checks_arity_first (ops : NumOps) (fuel id : Nat) (ps : List LArg)
    (body : Expr) (sc : List (String × Value)) (this : Value) (args : List Value) (depth : Nat)
    (s : ES) (hbad : (lambdaArity ps).canAccept args.length = false) :
    callFn ops (fuel + 1) (.lambda id ps body sc) this args depth s = (.err .arity, s) := by
  simp only [callFn, checkArity_err hbad]

/-- `checkArity` has exactly two results: the second hypothesis above is "not accepted" -/
theorem checkArity_err_iff (ar : Gen.Arity) (n : Nat) :
    checkArity ar n = .err .arity ↔ ar.canAccept n = false := by
  unfold checkArity; split <;> simp_all

example : builtinArity "reduce" = some (.exact 3) := rfl
example : checkArity (.exact 3) [Value.list [], Value.null].length = .err .arity := rfl
example : (lambdaArity [.req "x", .opt "y"]).canAccept ([] : List Value).length = false := rfl

/-! #### 4. the evaluator never panics -/

/-- the checked `args[0]`, `args[1]`, `args[2]` of the higher-order built-ins are covered by
    their table arity (exact 2, `reduce` exact 3) -/
theorem hof_arity_covers_index (name : String) (ar : Gen.Arity) (n : Nat)
    (hhof : isHof name = true) (har : builtinArity name = some ar)
    (hacc : ar.canAccept n = true) : 2 ≤ n ∧ (name = "reduce" → 3 ≤ n) :=
  hof_args_length hhof har hacc

example : isHof "reduce" = true := by decide
example : (Gen.Arity.exact 3).canAccept 3 = true := rfl

theorem eval_no_panic (ops : NumOps) (hperc : PercentileIndexOk ops) (fuel depth : Nat)
    (e : Expr) (s : ES) : ∀ p, (eval ops fuel depth e s).1 ≠ .panic p :=
  R_noPanic_of_ne ((NPAll_all ops hperc fuel).eval depth e s)

theorem callFn_no_panic (ops : NumOps) (hperc : PercentileIndexOk ops) (fuel : Nat)
    (fv this : Value) (args : List Value) (depth : Nat) (s : ES) :
    ∀ p, (callFn ops fuel fv this args depth s).1 ≠ .panic p :=
  R_noPanic_of_ne ((NPAll_all ops hperc fuel).callFn fv this args depth s)

theorem callHof_no_panic (ops : NumOps) (hperc : PercentileIndexOk ops) (fuel : Nat)
    (name : String) (args : List Value) (depth : Nat) (s : ES) (h2 : 2 ≤ args.length)
    (h3 : name = "reduce" → 3 ≤ args.length) :
    ∀ p, (callHof ops fuel name args depth s).1 ≠ .panic p :=
  R_noPanic_of_ne (fun p s' => (NPAll_all ops hperc fuel).callHof name args depth s p s' h2 h3)

example : 2 ≤ [Value.list [], Value.builtin "abs"].length := by decide
example : "map" = "reduce" → 3 ≤ [Value.list [], Value.builtin "abs"].length := by decide

/-- the whole mutual block (`NPAll` is the conjunction of the fifteen statements: for every
    function and all its arguments the result is not `(panic _, _)`; for `keyCalls` no key is
    a panic; for `callHof` under the two length hypotheses above) -/
theorem evaluator_no_panic (ops : NumOps) (hperc : PercentileIndexOk ops) (fuel : Nat) :
    (∀ depth e s p, (eval ops fuel depth e s).1 ≠ .panic p) ∧
    (∀ depth es s p, (evalList ops fuel depth es s).1 ≠ .panic p) ∧
    (∀ depth es s p, (evalItems ops fuel depth es s).1 ≠ .panic p) ∧
    (∀ depth es acc s p, (evalEntries ops fuel depth es acc s).1 ≠ .panic p) ∧
    (∀ depth e s p, (evalDoStmt ops fuel depth e s).1 ≠ .panic p) ∧
    (∀ depth stmts ret s p, (evalDo ops fuel depth stmts ret s).1 ≠ .panic p) ∧
    (∀ fv this args depth s p, (callFn ops fuel fv this args depth s).1 ≠ .panic p) ∧
    (∀ f wi xs start depth s p, (mapCalls ops fuel f wi xs start depth s).1 ≠ .panic p) ∧
    (∀ f wi ie xs start depth s p, (quantCalls ops fuel f wi ie xs start depth s).1 ≠ .panic p) ∧
    (∀ f wi acc xs start depth s p, (foldCalls ops fuel f wi acc xs start depth s).1 ≠ .panic p) ∧
    (∀ f xs depth s kr, kr ∈ (keyCalls ops fuel f xs depth s).1 → ∀ p, kr.2 ≠ .panic p) ∧
    (∀ name args depth s p, 2 ≤ args.length → (name = "reduce" → 3 ≤ args.length) →
      (callHof ops fuel name args depth s).1 ≠ .panic p) ∧
    (∀ depth op a b s p, (evalBin ops fuel depth op a b s).1 ≠ .panic p) ∧
    (∀ la lb depth s p, (viaPairs ops fuel la lb depth s).1 ≠ .panic p) ∧
    (∀ f wi xs start depth s p, (whereCalls ops fuel f wi xs start depth s).1 ≠ .panic p) := by
  have h := NPAll_all ops hperc fuel
  refine ⟨?_, ?_, ?_, ?_, ?_, ?_, ?_, ?_, ?_, ?_, h.keyCalls, ?_, ?_, ?_, ?_⟩
  · intro depth e s; exact R_noPanic_of_ne (h.eval depth e s)
  · intro depth es s; exact R_noPanic_of_ne (h.evalList depth es s)
  · intro depth es s; exact R_noPanic_of_ne (h.evalItems depth es s)
  · intro depth es acc s; exact R_noPanic_of_ne (h.evalEntries depth es acc s)
  · intro depth e s; exact R_noPanic_of_ne (h.evalDoStmt depth e s)
  · intro depth stmts ret s; exact R_noPanic_of_ne (h.evalDo depth stmts ret s)
  · intro fv this args depth s; exact R_noPanic_of_ne (h.callFn fv this args depth s)
  · intro f wi xs start depth s; exact R_noPanic_of_ne (h.mapCalls f wi xs start depth s)
  · intro f wi ie xs start depth s; exact R_noPanic_of_ne (h.quantCalls f wi ie xs start depth s)
  · intro f wi acc xs start depth s; exact R_noPanic_of_ne (h.foldCalls f wi acc xs start depth s)
  · intro name args depth s p h2 h3
    exact R_noPanic_of_ne (fun p s' => h.callHof name args depth s p s' h2 h3) p
  · intro depth op a b s; exact R_noPanic_of_ne (h.evalBin depth op a b s)
  · intro la lb depth s; exact R_noPanic_of_ne (h.viaPairs la lb depth s)
  · intro f wi xs start depth s; exact R_noPanic_of_ne (h.whereCalls f wi xs start depth s)

/-- `reduce([], null)`: a missing third argument is the arity error, not `args[2]` -/
example : (eval intOps 5 0 (.call (.builtin "reduce") [.list [], .null]) ⟨[[]], 1, []⟩).1
    = .err .arity := by
  have h : builtinArity "reduce" = some (.exact 3) := rfl
  simp [eval, evalList, evalItems, flattenSpreads, Value.isCallable, callFn, h, checkArity,
    Gen.Arity.canAccept]

/-- the `percentile` hypothesis is needed: with a `round` that returns 3, `percentile([1], 0)`
    reaches the model's `nums[index]` with index 3 ≥ len 1 -/
example : callPure { intOps with round := fun _ => int3 } "percentile" [.list [.num int1], .num int0]
    = some (.panic "nums[index] in percentile") := by
  set_option maxRecDepth 10000 in rfl

end Blots.C01
