import Blots.Model.Outcome
import Blots.Model.Data
import Blots.Lemmas.ValueEq
import Blots.Lemmas.ValueOrder
/-
  C12 — Equality and ordering are coherent.

  Statements only (helper lemmas live in `Blots/Lemmas`).  `veq` / `vcmp` model
  `Value::equals` / `Value::compare`; `compareOp` is the meaning of the six dot operators
  (and of the plain ones on scalars); `uncheckedCmp` models `ugt ult ugte ulte`.
  "Data value" = `isData` (no NaN, no functions, records with distinct keys).
-/
namespace Blots.C12

/-- the Boolean an operator returned, if it returned one -/
def holds (r : Outcome Value) : Option Bool :=
  match r with
  | .ok (.bool b) => some b
  | _ => none

/-! #### `.==` is an equivalence on data values, ignoring record key order; `.!=` negates it -/

theorem eq_refl (v : Value) (h : isData v = true) : holds (compareOp .deq v v) = some true := by
  simp [holds, compareOp, veq_refl v h]

theorem eq_symm (a b : Value) (ha : isData a = true) (hb : isData b = true) :
    holds (compareOp .deq a b) = holds (compareOp .deq b a) := by
  simp [holds, compareOp, veq_symm a b ha hb]

theorem eq_trans (a b c : Value) (ha : isData a = true)
    (h1 : holds (compareOp .deq a b) = some true) (h2 : holds (compareOp .deq b c) = some true) :
    holds (compareOp .deq a c) = some true := by
  simp only [holds, compareOp, Option.some.injEq] at *
  exact veq_trans a b c ha h1 h2

theorem eq_ignores_key_order (ra rb : List (String × Value)) (hd : isData (.record ra) = true)
    (hp : ra.Perm rb) : holds (compareOp .deq (.record ra) (.record rb)) = some true := by
  simp [holds, compareOp, veq_record_perm ra rb hd hp]

/-- `.==` never fails and `.!=` is its negation — for all values, not only data -/
theorem ne_is_negation (a b : Value) :
    ∃ e, holds (compareOp .deq a b) = some e ∧ holds (compareOp .dne a b) = some (!e) :=
  ⟨veq a b, by simp [holds, compareOp], by simp [holds, compareOp]⟩

/-! #### on mutually comparable values exactly one of `.<`, `.==`, `.>` holds -/

theorem trichotomy (a b : Value) (o : Ordering) (h : vcmp a b = some o) :
    ∃ l e g, holds (compareOp .dlt a b) = some l ∧ holds (compareOp .deq a b) = some e ∧
      holds (compareOp .dgt a b) = some g ∧
      ((l = true ∧ e = false ∧ g = false) ∨ (l = false ∧ e = true ∧ g = false) ∨
       (l = false ∧ e = false ∧ g = true)) := by
  have hiff := vcmp_eq_iff_veq h
  refine ⟨o == .lt, veq a b, o == .gt, ?_, ?_, ?_, ?_⟩
  · cases o <;> simp [holds, compareOp, orderingsOf, checkOrdering, h, Outcome.bind]
  · simp [holds, compareOp]
  · cases o <;> simp [holds, compareOp, orderingsOf, checkOrdering, h, Outcome.bind]
  · cases o with
    | lt => have : veq a b = false := by
              cases hv : veq a b with
              | false => rfl
              | true => exact absurd (hiff.mpr hv) (by decide)
            simp [this]
    | eq => simp [hiff.mp rfl]
    | gt => have : veq a b = false := by
              cases hv : veq a b with
              | false => rfl
              | true => exact absurd (hiff.mpr hv) (by decide)
            simp [this]

/-- `.<=` and `.>=` are the unions `< ∪ ==` and `> ∪ ==` -/
theorem le_ge_are_unions (a b : Value) (o : Ordering) (h : vcmp a b = some o) :
    holds (compareOp .dle a b) = some (o == .lt || veq a b) ∧
    holds (compareOp .dge a b) = some (o == .gt || veq a b) := by
  have hiff := vcmp_eq_iff_veq h
  cases o with
  | lt =>
    have : veq a b = false := by
      cases hv : veq a b with
      | false => rfl
      | true => exact absurd (hiff.mpr hv) (by decide)
    simp [holds, compareOp, orderingsOf, checkOrdering, h, Outcome.bind, this]
  | eq => simp [holds, compareOp, orderingsOf, checkOrdering, h, Outcome.bind, hiff.mp rfl]
  | gt =>
    have : veq a b = false := by
      cases hv : veq a b with
      | false => rfl
      | true => exact absurd (hiff.mpr hv) (by decide)
    simp [holds, compareOp, orderingsOf, checkOrdering, h, Outcome.bind, this]

/-- `a .< b` exactly when `b .> a` (and comparability is symmetric) -/
theorem lt_gt_dual (a b : Value) : holds (compareOp .dlt a b) = holds (compareOp .dgt b a) := by
  simp only [holds, compareOp, orderingsOf, checkOrdering, Outcome.bind]
  rw [vcmp_swap a b]
  cases vcmp a b with
  | none => rfl
  | some o => cases o <;> rfl

/-- the order is transitive -/
theorem lt_trans (a b c : Value) (h1 : holds (compareOp .dlt a b) = some true)
    (h2 : holds (compareOp .dlt b c) = some true) : holds (compareOp .dlt a c) = some true := by
  have key : ∀ x y, holds (compareOp .dlt x y) = some true → vcmp x y = some .lt := by
    intro x y h
    simp only [holds, compareOp, orderingsOf, checkOrdering, Outcome.bind] at h
    cases hv : vcmp x y with
    | none => simp [hv] at h
    | some o => cases o <;> simp_all
  have := vcmp_lt_trans a b c (key a b h1) (key b c h2)
  simp [holds, compareOp, orderingsOf, checkOrdering, Outcome.bind, this]

/-- equal values are interchangeable in comparisons -/
theorem eq_congruent (a b c : Value) (h : vcmp b c = some .eq) :
    holds (compareOp .dlt a b) = holds (compareOp .dlt a c) ∧
    holds (compareOp .dlt b a) = holds (compareOp .dlt c a) := by
  simp only [holds, compareOp, orderingsOf, checkOrdering, Outcome.bind]
  rw [vcmp_congr b c h a, vcmp_congr_left h a]
  exact ⟨rfl, rfl⟩

/-! #### `.<=` is a total preorder on comparable values whose symmetric part is `.==` -/

/-- `a .<= b` succeeded with true only if `compare` said less or equal -/
theorem le_key (x y : Value) (h : holds (compareOp .dle x y) = some true) :
    vcmp x y = some .lt ∨ vcmp x y = some .eq := by
  simp only [holds, compareOp, orderingsOf, checkOrdering, Outcome.bind] at h
  cases hv : vcmp x y with
  | none => simp [hv] at h
  | some o => cases o <;> simp_all

/-- and conversely -/
theorem le_of (x y : Value) (h : vcmp x y = some .lt ∨ vcmp x y = some .eq) :
    holds (compareOp .dle x y) = some true := by
  rcases h with h | h <;> simp [holds, compareOp, orderingsOf, checkOrdering, Outcome.bind, h]

/-- `.<=` is transitive -/
theorem le_trans (a b c : Value) (h1 : holds (compareOp .dle a b) = some true)
    (h2 : holds (compareOp .dle b c) = some true) : holds (compareOp .dle a c) = some true := by
  apply le_of
  rcases le_key a b h1 with hab | hab
  · rcases le_key b c h2 with hbc | hbc
    · exact Or.inl (vcmp_lt_trans a b c hab hbc)
    · exact Or.inl ((vcmp_congr b c hbc a) ▸ hab)
  · rw [vcmp_congr_left hab c]
    exact le_key b c h2

/-- `.<=` is antisymmetric up to `.==` -/
theorem le_antisymm (a b : Value) (h1 : holds (compareOp .dle a b) = some true)
    (h2 : holds (compareOp .dle b a) = some true) : holds (compareOp .deq a b) = some true := by
  have hab : vcmp a b = some .eq := by
    rcases le_key a b h1 with hab | hab
    · rcases le_key b a h2 with hba | hba
      · rw [vcmp_lt_gt hab] at hba; cases hba
      · exact vcmp_eq_symm hba
    · exact hab
  simp [holds, compareOp, vcmp_eq_imp_veq a b hab]

/-- `.<` is asymmetric -/
theorem lt_asymm (a b : Value) (h : holds (compareOp .dlt a b) = some true) :
    holds (compareOp .dlt b a) = some false := by
  simp only [holds, compareOp, orderingsOf, checkOrdering, Outcome.bind] at h ⊢
  rw [vcmp_swap a b]
  cases hv : vcmp a b with
  | none => simp [hv] at h
  | some o => cases o <;> simp_all [Ordering.swap]

/-- `.<` is irreflexive: no value is below itself -/
theorem lt_irrefl (a : Value) : holds (compareOp .dlt a a) ≠ some true := by
  intro h
  have := lt_asymm a a h
  rw [h] at this
  cases this

/-- on mutually comparable values `.<=` is total -/
theorem le_total (a b : Value) (o : Ordering) (h : vcmp a b = some o) :
    holds (compareOp .dle a b) = some true ∨ holds (compareOp .dle b a) = some true := by
  cases o with
  | lt => exact Or.inl (le_of a b (Or.inl h))
  | eq => exact Or.inl (le_of a b (Or.inr h))
  | gt => exact Or.inr (le_of b a (Or.inl (vcmp_gt_lt h)))

/-- `a .<= b` is exactly "not `a .> b`" on comparable values -/
theorem le_iff_not_gt (a b : Value) (o : Ordering) (h : vcmp a b = some o) :
    ∃ g, holds (compareOp .dgt a b) = some g ∧ holds (compareOp .dle a b) = some (!g) := by
  cases o <;> simp [holds, compareOp, orderingsOf, checkOrdering, Outcome.bind, h]

/-! #### lists and strings compare lexicographically, a proper prefix first -/

theorem list_lex_head (x y : Value) (xs ys : List Value) (o : Ordering) (h : vcmp x y = some o)
    (hne : o ≠ .eq) : vcmp (.list (x :: xs)) (.list (y :: ys)) = some o := by
  simp only [vcmp, vcmpList, h]
  cases o <;> simp_all

theorem list_lex_tail (x y : Value) (xs ys : List Value) (h : vcmp x y = some .eq) :
    vcmp (.list (x :: xs)) (.list (y :: ys)) = vcmp (.list xs) (.list ys) := by
  simp only [vcmp, vcmpList, h]

theorem list_prefix_first (xs ys : List Value) (hself : vcmp (.list xs) (.list xs) = some .eq)
    (hne : ys ≠ []) : holds (compareOp .dlt (.list xs) (.list (xs ++ ys))) = some true := by
  simp only [vcmp] at hself
  have := vcmpList_prefix xs hself ys hne
  simp [holds, compareOp, orderingsOf, checkOrdering, Outcome.bind, vcmp, this]

theorem string_prefix_first (s t : String) (hne : t ≠ "") :
    holds (compareOp .dlt (.str s) (.str (s ++ t))) = some true := by
  have h2 : t.toList ≠ [] := by
    intro h; apply hne; exact String.ext_iff.mpr (by simpa using h)
  have := strCmpL_prefix s.toList t.toList h2
  simp [holds, compareOp, orderingsOf, checkOrdering, Outcome.bind, vcmp, strCmp, String.toList_append, this]

/-! #### different or unordered types: never equal, ordering fails, `u*` return false -/

theorem cross_type_never_equal (a b : Value) (h : a.typeName ≠ b.typeName) :
    holds (compareOp .deq a b) = some false := by
  simp [holds, compareOp, veq_type_mismatch a b h]

theorem ordering_fails_iff_incomparable (a b : Value) (op : BinOp)
    (hop : op = .dlt ∨ op = .dle ∨ op = .dgt ∨ op = .dge) :
    (compareOp op a b).isErr = true ↔ vcmp a b = none := by
  rcases hop with h | h | h | h <;> subst h <;>
    cases hv : vcmp a b <;>
    simp [compareOp, orderingsOf, checkOrdering, Outcome.bind, Outcome.isErr, hv]

theorem cross_type_ordering_fails (a b : Value) (h : a.typeName ≠ b.typeName) (op : BinOp)
    (hop : op = .dlt ∨ op = .dle ∨ op = .dgt ∨ op = .dge) :
    (compareOp op a b).isErr = true :=
  (ordering_fails_iff_incomparable a b op hop).mpr (vcmp_type_mismatch a b h)

/-- `ugt ult ugte ulte` agree with the operators when those succeed, and are false otherwise -/
theorem unchecked_agree (a b : Value) :
    (∀ o, vcmp a b = some o →
      holds (uncheckedCmp "ugt" a b) = holds (compareOp .dgt a b) ∧
      holds (uncheckedCmp "ult" a b) = holds (compareOp .dlt a b) ∧
      holds (uncheckedCmp "ugte" a b) = holds (compareOp .dge a b) ∧
      holds (uncheckedCmp "ulte" a b) = holds (compareOp .dle a b)) ∧
    (vcmp a b = none →
      holds (uncheckedCmp "ugt" a b) = some false ∧ holds (uncheckedCmp "ult" a b) = some false ∧
      holds (uncheckedCmp "ugte" a b) = some false ∧ holds (uncheckedCmp "ulte" a b) = some false) := by
  constructor
  · intro o h
    cases o <;>
      simp [holds, uncheckedCmp, compareOp, orderingsOf, checkOrdering, Outcome.bind, h]
  · intro h
    simp [holds, uncheckedCmp, h]

/-! #### non-vacuity: concrete non-trivial values meeting the hypotheses -/

def r1 : Value := .record [("a", .num F64.one), ("b", .list [.str "x", .null])]
def r2 : Value := .record [("b", .list [.str "x", .null]), ("a", .num F64.one)]

example : isData r1 = true ∧ isData r2 = true := by decide
example : holds (compareOp .deq r1 r2) = some true := by decide
example : vcmp (.list [.num F64.one, .str "a"]) (.list [.num F64.one, .str "ab"]) = some .lt := by decide
example : vcmp (.num F64.zero) (.num F64.negZero) = some .eq := by decide
example : vcmp (.list [.num F64.one]) (.list [.str "a"]) = none := by decide
example : F64.nan.isNaN = true ∧ veq (.num F64.nan) (.num F64.nan) = false := by decide

end Blots.C12
