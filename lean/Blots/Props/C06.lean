import Blots.Model.Json
import Blots.Model.JsonText
import Blots.Model.Data
import Blots.Lemmas.Json
import Blots.Lemmas.JsonText
/-
  C06 — Data survives output → JSON → input unchanged.

  Statements only (helper lemmas: `Blots/Lemmas/Json.lean`).  The model
  (`Blots/Model/Json.lean`) has three layers: `Value` ⇄ `SV` (`from_value`/`to_value`),
  `SV` ⇄ `serde_json::Value` trees (`to_json`/`from_json`), and documents → trees
  (`Json.norm`: serde_json is built without `preserve_order`, so object members are sorted
  by key and a duplicate key keeps its last value).

  The JSON TEXT layer is modelled too (`Blots/Model/JsonText.lean`): `jsonWrite` is
  `serde_json::to_string` on a tree of `f64` numbers (ryu's number format, serde_json's
  string escapes), `jsonRead` is `serde_json::from_str::<Value>` as a document tree (RFC
  8259 with serde_json's recursion limit of 128; numbers by correct rounding: the crate is
  built with `float_roundtrip`).  `text_roundtrip`: reading a written tree gives the tree
  back, for all strings, all finite doubles, any nesting below the recursion limit; hence
  `value_text_roundtrip`: value → tree → TEXT → tree → value is `.==` the original.
  ASSUMPTION (validated by the harness on every run, `c06.model.json-text`): the two real
  functions agree with `jsonWrite` / `jsonRead` (character for character; accept/reject
  and tree).  FINDING: the recursion limit makes the property fail on the real code for
  values nested 127 levels or deeper (`deep_nesting_is_written_but_not_read`).

  `pf : ParseFn` ("the string parses as a lambda") and `pb : ParseBody` are the two facts
  about the Blots parser the JSON layer consults; every theorem holds for all of them.
-/
namespace Blots.C06

/-! #### output side, tree level: `from_json (to_json v)` -/

/-- A function-free value with finite numbers in which no record is "function shaped"
    comes back from `to_json`/`from_json` as the same tree — numbers bit for bit, strings
    and keys character for character, at any depth — except that the keys of every record
    are in `BTreeMap` order. -/
theorem tree_roundtrip (pf : ParseFn) (sv : SV) (hp : sv.plain = true) (hf : sv.finite = true)
    (hn : sv.noFn pf = true) : fromJson pf (toJson sv) = sv.sortKeys :=
  fromJson_toJson pf sv hp hf hn

/-- … and exactly the same tree when its record keys are already in that order (which is
    the case for every value that was itself read from JSON). -/
theorem tree_roundtrip_exact (pf : ParseFn) (sv : SV) (hp : sv.plain = true) (hf : sv.finite = true)
    (hn : sv.noFn pf = true) (hc : sv.canonical = true) : fromJson pf (toJson sv) = sv := by
  rw [fromJson_toJson pf sv hp hf hn, sortKeys_of_canonical sv hc]

/-- the text that is printed is re-parsed to the same tree: `to_json` only produces trees
    serde_json can hold (finite numbers, sorted unique keys), on which parsing a faithful
    print is the identity -/
theorem printed_tree_is_canonical (sv : SV) : (toJson sv).canonical = true ∧ (toJson sv).norm = toJson sv :=
  ⟨toJson_canonical sv, norm_of_canonical _ (toJson_canonical sv)⟩

example : (SV.record [("b", .num F64.one), ("a", .list [.str "x\"\\", .null, .bool true])]).plain = true ∧
    (SV.record [("b", .num F64.one), ("a", .list [.str "x\"\\", .null, .bool true])]).finite = true := by
  decide

example : ∀ pf : ParseFn,
    (SV.record [("b", .num F64.one), ("a", .list [.str "x", .null]), ("__blots_function", .null)]).noFn pf = true := by
  intro pf; rfl

example : (SV.record [("a", .null), ("b", .record [("", .num F64.one), ("1", .str "s")])]).canonical = true := by
  decide

/-! #### `Value` ⇄ `SV` is exact on data -/

/-- `to_value (from_value v) = v` for every data value, as trees (no reordering, no
    rounding; this leg also preserves ±inf) -/
theorem value_sv_roundtrip (pb : ParseBody) (v : Value) (hd : isData v = true) :
    ∃ sv, fromValue v = .ok sv ∧ sv.plain = true ∧ toValue pb sv = .ok v := by
  refine ⟨svOf v, fromValue_data v hd, svOf_plain v hd, ?_⟩
  rw [toValue_plain pb _ (svOf_plain v hd), valOf_svOf v hd]

/-- hence `.==` holds -/
theorem value_sv_roundtrip_veq (pb : ParseBody) (v : Value) (hd : isData v = true) :
    ∃ sv w, fromValue v = .ok sv ∧ toValue pb sv = .ok w ∧ veq w v = true := by
  obtain ⟨sv, h1, _, h2⟩ := value_sv_roundtrip pb v hd
  exact ⟨sv, v, h1, h2, veq_refl v hd⟩

/-! #### the composite: value → output JSON → input value -/

/-- Any data value whose numbers are finite and that contains no function-shaped record is
    written (`from_value`, `to_json`) to a JSON tree that is read back (`parse`,
    `from_json`, `to_value`) as a value `.==` to the original.  (`.==` ignores record key
    order, which is all that changes: see `tree_roundtrip`.) -/
theorem data_roundtrip (pf : ParseFn) (pb : ParseBody) (v : Value) (hd : isData v = true)
    (sv : SV) (hsv : fromValue v = .ok sv) (hf : sv.finite = true) (hn : sv.noFn pf = true) :
    ∃ j w, writeJson v = .ok j ∧ readJson pf pb j = .ok w ∧ veq w v = true := by
  have e : sv = svOf v := by
    have := fromValue_data v hd; rw [hsv] at this; cases this; rfl
  subst e
  have hp := svOf_plain v hd
  refine ⟨toJson (svOf v), valOf (svOf v).sortKeys, ?_, ?_, veq_sorted_reload v hd⟩
  · simp [writeJson, hsv]
  · unfold readJson
    rw [norm_of_canonical _ (toJson_canonical _), fromJson_toJson pf _ hp hf hn,
      toValue_plain pb _ (sortKeys_plain _ hp)]

example : isData (.record [("k", .list [.num F64.one, .str "é"]), ("", .null)]) = true := by decide

/-! #### the hypotheses are necessary -/

/-- the round trip for ALL numbers: false -/
def roundtrip_any_number_statement : Prop :=
  ∀ (pf : ParseFn) (sv : SV), sv.plain = true → sv.noFn pf = true → fromJson pf (toJson sv) = sv.sortKeys

/-- a non-finite number is written as `0` by `to_json` (`Number::from_f64(..).unwrap_or(0)`).
    This is the library function; the CLI no longer reaches it for its outputs object
    (C19 `nonfinite_output_is_error`: such an output is refused with exit 1), so the
    "finite" hypothesis of the property is necessary for `to_json` itself and enforced by
    the CLI. -/
theorem nonfinite_written_as_zero :
    toJson (.num F64.inf) = .num F64.zero ∧ toJson (.num F64.negInf) = .num F64.zero ∧
    toJson (.num F64.nan) = .num F64.zero := by
  have h1 : F64.inf.isFinite = false := by decide
  have h2 : F64.negInf.isFinite = false := by decide
  have h3 : F64.nan.isFinite = false := by decide
  simp [toJson, h1, h2, h3]

theorem roundtrip_any_number_false : ¬ roundtrip_any_number_statement := by
  intro h
  have h0 := h (fun _ => none) (.num F64.inf) rfl rfl
  rw [nonfinite_written_as_zero.1] at h0
  simp only [fromJson, SV.sortKeys, SV.num.injEq] at h0
  revert h0
  decide

/-- the round trip for ALL records: false -/
def roundtrip_any_record_statement : Prop :=
  ∀ (pf : ParseFn) (sv : SV), sv.plain = true → sv.finite = true → fromJson pf (toJson sv) = sv.sortKeys

/-- a record `{__blots_function: "map"}` is read back as the built-in `map` -/
theorem function_shaped_record_becomes_function (pf : ParseFn) :
    fromJson pf (toJson (.record [("__blots_function", .str "map")])) = .builtin "map" := by
  simp [toJson, toJsonMembers, collectSorted, insertSorted, fromJson, fnObject, lookupAL, isBuiltinName,
    Gen.fromIdent]

theorem roundtrip_any_record_false : ¬ roundtrip_any_record_statement := by
  intro h
  have h1 := h (fun _ => none) (.record [("__blots_function", .str "map")]) rfl rfl
  rw [function_shaped_record_becomes_function] at h1
  simp [SV.sortKeys] at h1

/-- a `__blots_function` string that neither names a built-in nor parses as a lambda
    leaves the object a plain record -/
theorem unparsable_function_string_is_a_record (pf : ParseFn) (ms : List (String × Json)) (s : String)
    (hl : lookupAL "__blots_function" ms = some (.str s)) (hb : isBuiltinName s = false)
    (hpf : pf s = none) : fromJson pf (.obj ms) = .record (fromJsonMembers pf ms) := by
  simp [fromJson, fnObject, hl, hb, hpf]

/-! #### input side: document → `inputs.x` → `output x = inputs.x` -/

/-- A document with no function-shaped object is reproduced by `from_json`/`to_json`
    exactly as the tree serde_json parsed it … -/
theorem json_echo_tree (pf : ParseFn) (j : Json) (hf : j.finite = true) (hn : j.norm.noFnObj pf = true) :
    toJson (fromJson pf j.norm) = j.norm :=
  toJson_fromJson_canonical pf _ (norm_canonical j hf) hn

/-- … and that tree is the document up to JSON value equality (`jeq`: numbers as doubles,
    object member order ignored, a duplicate key standing for its LAST value). -/
theorem json_echo (pf : ParseFn) (j : Json) (hf : j.finite = true) (hn : j.norm.noFnObj pf = true) :
    jeq (toJson (fromJson pf j.norm)) j = true := by
  rw [json_echo_tree pf j hf hn]; exact jeq_norm j hf

example : ∀ pf : ParseFn,
    (Json.obj [("b", .num F64.one), ("a", .arr [.str "x"]), ("b", .null)]).finite = true ∧
    (Json.obj [("b", .num F64.one), ("a", .arr [.str "x"]), ("b", .null)]).norm.noFnObj pf = true := by
  intro pf; exact ⟨by decide, rfl⟩

/-- the whole path of `output x = inputs.x`: document → value → output tree -/
theorem document_echo (pf : ParseFn) (pb : ParseBody) (j : Json) (hf : j.finite = true)
    (hn : j.norm.noFnObj pf = true) :
    ∃ w j', readJson pf pb j = .ok w ∧ writeJson w = .ok j' ∧ jeq j' j = true := by
  have hp := fromJson_plain pf _ hn
  refine ⟨valOf (fromJson pf j.norm), toJson (fromJson pf j.norm), ?_, ?_, json_echo pf j hf hn⟩
  · simp [readJson, toValue_plain pb _ hp]
  · simp [writeJson, fromValue_valOf _ hp]

/-- duplicate keys: the parsed object holds, under each key, the LAST member of that name -/
theorem duplicate_keys_last_wins (k : String) (ms : List (String × Json)) :
    ∃ ms', (Json.obj ms).norm = .obj ms' ∧ keysSorted ms' = true ∧
      lookupAL k ms' = (lookupLast k ms).map Json.norm := by
  refine ⟨collectSorted (Json.normMembers ms), rfl, collectSorted_sorted _, ?_⟩
  rw [lookupAL_collectSorted, normMembers_eq, lookupLast_mapVals]

example : jeq (.obj [("b", .num F64.one), ("a", .null), ("b", .str "x")])
    (.obj [("a", .null), ("b", .str "x")]) = true := by decide

/-! #### the JSON text layer: tree → text → tree -/

open Blots.JsonText

/-- ryu's text of every finite double — whichever of its five layouts (`1.0`, `12.34`,
    `0.00001234`, `1e21`, `1.234e-6`) applies — denotes, under correct rounding, exactly
    that double (so does `-0.0`); and the reader reads it back -/
theorem number_text_roundtrip (x : F64) (hf : x.isFinite = true) :
    F64.parseDec (String.ofList (ryuChars x)) = some x ∧ jsonRead (jsonWrite (.num x)) = some (.num x) :=
  ⟨parseDec_ryu x hf, read_write_with 128 (.num x) (by simpa [Json.finite] using hf) (by simp [Json.depth])⟩

/-- every string — any sequence of Unicode scalar values: quotes, backslashes, control
    characters, U+007F, non-ASCII, astral — is read back character for character -/
theorem string_text_roundtrip (s : String) : jsonRead (jsonWrite (.str s)) = some (.str s) :=
  read_write_with 128 (.str s) rfl (by simp [Json.depth])

/-- THE TEXT LAYER INVERTS ON TREES: every tree of finite numbers nested less than 128
    deep (serde_json's recursion limit) is read back from its written text as the same
    tree: member order, duplicate keys, strings and numbers exactly -/
theorem text_roundtrip (j : Json) (hf : j.finite = true) (hd : j.depth < 128) :
    jsonRead (jsonWrite j) = some j :=
  read_write_with 128 j hf hd

/-- … and the depth bound is only the reader's recursion limit: with a limit above the
    depth of the tree the text of ANY tree of finite numbers is read back -/
theorem text_roundtrip_any_depth (j : Json) (hf : j.finite = true) :
    jsonReadWith (j.depth + 1) (jsonWrite j) = some j :=
  read_write_with (j.depth + 1) j hf (Nat.lt_succ_self _)

/-- the reader on EVERY JSON number literal `-? int frac? exp?` (what a user may type):
    the correct rounding of its exact value `± digits × 10^(exponent − #fraction digits)`;
    out of range (rounds to ±inf) is an error -/
theorem number_literal_read_correctly_rounded (neg : Bool) (ip fp : List Char) (dot : Bool)
    (ex : List Char) (ev : Int) (rest : List Char)
    (hip : ∀ c ∈ ip, F64.isDigit c = true) (hlead : numLeadOk ip = true)
    (hfp : ∀ c ∈ fp, F64.isDigit c = true) (hdot1 : dot = false → fp = []) (hdot2 : dot = true → fp ≠ [])
    (hex : F64.IsExpText (400 + ip.length + fp.length) ex ev) (hrest : F64.HeadSat NumEnd rest) :
    jsonReadNumber ((if neg then ['-'] else []) ++ (ip ++ F64.fracText dot fp ++ ex) ++ rest) =
      (if (F64.decVal neg (F64.digitsVal (ip ++ fp)) (ev - Int.ofNat fp.length)).isFinite
       then some (.num (F64.decVal neg (F64.digitsVal (ip ++ fp)) (ev - Int.ofNat fp.length)), rest)
       else none) :=
  readNumber_lit neg ip fp dot ex ev rest hip hlead hfp hdot1 hdot2 hex hrest

/-- a tree with a string of quote, backslash, newline, U+0001, "é", an astral character; -0.0,
    1e21, 5e-324, f64::MAX; empty and nested containers; awkward keys -/
def exTree : Json :=
  .obj [("k\"", .arr [.str "q\"b\\n\nc\x01é😀", .num F64.negZero, .num (F64.ofNatBits 0x444B1AE4D6E2EF50),
      .num (F64.ofNatBits 1), .num (F64.ofNatBits 0x7FEFFFFFFFFFFFFF), .null, .bool true, .arr [], .obj []]),
    ("", .obj [("é", .num F64.one)])]

example : exTree.finite = true ∧ exTree.depth = 3 := by decide
example : exTree.chars =
    "{\"k\\\"\":[\"q\\\"b\\\\n\\nc\\u0001é😀\",-0.0,1e21,5e-324,1.7976931348623157e308,null,true,[],{}],\"\":{\"é\":1.0}}".toList := by
  decide +kernel
example : jsonRead (jsonWrite exTree) = some exTree := text_roundtrip exTree (by decide) (by decide)
example : jsonRead (jsonWrite (.num F64.negZero)) = some (.num F64.negZero) :=
  (number_text_roundtrip _ (by decide)).2
example : ryuChars (F64.ofNatBits 1) = "5e-324".toList ∧ ryuChars F64.negZero = "-0.0".toList ∧
    ryuChars (F64.ofNatBits 0x3E60000000000000) = "2.9802322387695312e-8".toList := by decide +kernel
-- the reader on texts a user may type: white space, escapes, a surrogate pair, number forms
example : (jsonRead " [ 1E5 , -0 , 1.0e-3 ] ").isSome = true ∧ (jsonRead "\"\\ud83d\\ude00\\/\"").isSome = true ∧
    (jsonRead "01").isSome = false ∧ (jsonRead "[1,]").isSome = false ∧ (jsonRead "\"\\ud83d\"").isSome = false ∧
    (jsonRead "1e999").isSome = false ∧ (jsonRead "{\"a\":1,\"a\":2}").isSome = true := by decide +kernel

/-- arrays nested `n + 1` deep -/
def nestArr : Nat → Json
  | 0 => .arr []
  | n + 1 => .arr [nestArr n]

/-- THE DEPTH HYPOTHESIS IS NEEDED (a defect of the real code with respect to "at any
    nesting depth"): a list nested 128 deep is written (`[[[…]]]`) but its text is refused by
    the reader — serde_json's recursion limit — while 127 levels are read back -/
theorem deep_nesting_is_written_but_not_read :
    (nestArr 127).finite = true ∧ (nestArr 127).depth = 128 ∧
      jsonRead (jsonWrite (nestArr 127)) = none ∧ jsonRead (jsonWrite (nestArr 126)) = some (nestArr 126) := by
  refine ⟨by decide +kernel, by decide +kernel, ?_, text_roundtrip _ (by decide +kernel) (by decide +kernel)⟩
  have h : (jsonReadValue (2 * (nestArr 127).chars.length + 2) 128 (nestArr 127).chars).isSome = false := by
    decide +kernel
  unfold jsonRead jsonReadWith jsonWrite
  rw [String.toList_ofList]
  cases hr : jsonReadValue (2 * (nestArr 127).chars.length + 2) 128 (nestArr 127).chars with
  | none => rfl
  | some p => rw [hr] at h; cases h

/-! #### the whole chain: value → tree → text → tree → value -/

/-- Any data value whose numbers are finite, that contains no function-shaped record and
    is nested less than 128 deep is written (`from_value`, `to_json`,
    `serde_json::to_string`) to a TEXT that is read back (`serde_json::from_str`,
    `from_json`, `to_value`) as a value `.==` to the original. -/
theorem value_text_roundtrip (pf : ParseFn) (pb : ParseBody) (v : Value) (hd : isData v = true)
    (sv : SV) (hsv : fromValue v = .ok sv) (hf : sv.finite = true) (hn : sv.noFn pf = true)
    (hdepth : sv.depth < 128) :
    ∃ t w, writeText v = .ok t ∧ readText pf pb t = .ok w ∧ veq w v = true := by
  obtain ⟨j, w, h1, h2, h3⟩ := data_roundtrip pf pb v hd sv hsv hf hn
  have hj : j = toJson sv := by
    simp only [writeJson, hsv, Outcome.ok.injEq] at h1; exact h1.symm
  subst hj
  refine ⟨jsonWrite (toJson sv), w, ?_, ?_, h3⟩
  · simp only [writeText, h1]
  · have ht := text_roundtrip (toJson sv) (finite_of_canonical _ (toJson_canonical sv))
      (Nat.lt_of_le_of_lt (toJson_depth_le sv) hdepth)
    simp only [readText, ht, h2]

/-- the written text is canonical JSON text of the tree: reading it and writing again
    gives the same text (output of one program piped through another is stable) -/
theorem rewrite_is_identity (j : Json) (hf : j.finite = true) (hd : j.depth < 128) :
    (jsonRead (jsonWrite j)).map jsonWrite = some (jsonWrite j) := by
  rw [text_roundtrip j hf hd]; rfl

example : isData (.record [("k", .list [.num F64.negZero, .str "é\"\\\n\x01😀"]), ("", .null)]) = true := by decide
example : ∀ pf : ParseFn, ∃ t w,
    writeText (.record [("k", .list [.num F64.negZero, .str "é\"\n\x01😀"]), ("", .null)]) = .ok t ∧
    readText pf (fun _ => none) t = .ok w ∧
    veq w (.record [("k", .list [.num F64.negZero, .str "é\"\n\x01😀"]), ("", .null)]) = true := by
  intro pf
  exact value_text_roundtrip pf _ _ (by decide) _ rfl (by decide) rfl (by decide)

end Blots.C06
