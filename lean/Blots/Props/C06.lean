import Blots.Model.Json
import Blots.Model.Data
import Blots.Lemmas.Json
/-
  C06 — Data survives output → JSON → input unchanged.

  Statements only (helper lemmas: `Blots/Lemmas/Json.lean`).  The model
  (`Blots/Model/Json.lean`) has three layers: `Value` ⇄ `SV` (`from_value`/`to_value`),
  `SV` ⇄ `serde_json::Value` trees (`to_json`/`from_json`), and documents → trees
  (`Json.norm`: serde_json is built without `preserve_order`, so object members are sorted
  by key and a duplicate key keeps its last value).

  ASSUMPTION (not proved here, validated by the harness on every run): the JSON TEXT
  layer — `serde_json::to_string` followed by `serde_json::from_str` is the identity on
  canonical trees (strings code-point exact, numbers `parse (print x) = x`).  The number
  half currently FAILS on the real code (serde_json without `float_roundtrip` reads some
  printed doubles back one ulp off): known finding `c06.json-number-roundtrip`.

  `pf : ParseFn` ("the string parses as a lambda") and `pb : ParseBody` are the two facts
  about the Blots parser the JSON layer consults; every theorem holds for all of them.
-/
namespace Blots.C06

/-! #### output side, tree level: `from_json (to_json v)` -/

/-- A function-free value with finite numbers in which no record is "function shaped"
    comes back from `to_json`/`from_json` as the same tree — numbers bit for bit, strings
    and keys character for character, at any depth — except that the keys of every record
    are in `BTreeMap` order. -/
theorem tree_roundtrip (pf : ParseFn) (sv : SV) (hp : sv.plain = true) (hf : sv.finite = true)
    (hn : sv.noFn pf = true) : fromJson pf (toJson sv) = sv.sortKeys :=
  fromJson_toJson pf sv hp hf hn

/-- … and exactly the same tree when its record keys are already in that order (which is
    the case for every value that was itself read from JSON). -/
theorem tree_roundtrip_exact (pf : ParseFn) (sv : SV) (hp : sv.plain = true) (hf : sv.finite = true)
    (hn : sv.noFn pf = true) (hc : sv.canonical = true) : fromJson pf (toJson sv) = sv := by
  rw [fromJson_toJson pf sv hp hf hn, sortKeys_of_canonical sv hc]

/-- the text that is printed is re-parsed to the same tree: `to_json` only produces trees
    serde_json can hold (finite numbers, sorted unique keys), on which parsing a faithful
    print is the identity -/
theorem printed_tree_is_canonical (sv : SV) : (toJson sv).canonical = true ∧ (toJson sv).norm = toJson sv :=
  ⟨toJson_canonical sv, norm_of_canonical _ (toJson_canonical sv)⟩

example : (SV.record [("b", .num F64.one), ("a", .list [.str "x\"\\", .null, .bool true])]).plain = true ∧
    (SV.record [("b", .num F64.one), ("a", .list [.str "x\"\\", .null, .bool true])]).finite = true := by
  decide

example : ∀ pf : ParseFn,
    (SV.record [("b", .num F64.one), ("a", .list [.str "x", .null]), ("__blots_function", .null)]).noFn pf = true := by
  intro pf; rfl

example : (SV.record [("a", .null), ("b", .record [("", .num F64.one), ("1", .str "s")])]).canonical = true := by
  decide

/-! #### `Value` ⇄ `SV` is exact on data -/

/-- `to_value (from_value v) = v` for every data value, as trees (no reordering, no
    rounding; this leg also preserves ±inf) -/
theorem value_sv_roundtrip (pb : ParseBody) (v : Value) (hd : isData v = true) :
    ∃ sv, fromValue v = .ok sv ∧ sv.plain = true ∧ toValue pb sv = .ok v := by
  refine ⟨svOf v, fromValue_data v hd, svOf_plain v hd, ?_⟩
  rw [toValue_plain pb _ (svOf_plain v hd), valOf_svOf v hd]

/-- hence `.==` holds -/
theorem value_sv_roundtrip_veq (pb : ParseBody) (v : Value) (hd : isData v = true) :
    ∃ sv w, fromValue v = .ok sv ∧ toValue pb sv = .ok w ∧ veq w v = true := by
  obtain ⟨sv, h1, _, h2⟩ := value_sv_roundtrip pb v hd
  exact ⟨sv, v, h1, h2, veq_refl v hd⟩

/-! #### the composite: value → output JSON → input value -/

/-- Any data value whose numbers are finite and that contains no function-shaped record is
    written (`from_value`, `to_json`) to a JSON tree that is read back (`parse`,
    `from_json`, `to_value`) as a value `.==` to the original.  (`.==` ignores record key
    order, which is all that changes: see `tree_roundtrip`.) -/
theorem data_roundtrip (pf : ParseFn) (pb : ParseBody) (v : Value) (hd : isData v = true)
    (sv : SV) (hsv : fromValue v = .ok sv) (hf : sv.finite = true) (hn : sv.noFn pf = true) :
    ∃ j w, writeJson v = .ok j ∧ readJson pf pb j = .ok w ∧ veq w v = true := by
  have e : sv = svOf v := by
    have := fromValue_data v hd; rw [hsv] at this; cases this; rfl
  subst e
  have hp := svOf_plain v hd
  refine ⟨toJson (svOf v), valOf (svOf v).sortKeys, ?_, ?_, veq_sorted_reload v hd⟩
  · simp [writeJson, hsv]
  · unfold readJson
    rw [norm_of_canonical _ (toJson_canonical _), fromJson_toJson pf _ hp hf hn,
      toValue_plain pb _ (sortKeys_plain _ hp)]

example : isData (.record [("k", .list [.num F64.one, .str "é"]), ("", .null)]) = true := by decide

/-! #### the hypotheses are necessary -/

/-- the round trip for ALL numbers: false -/
def roundtrip_any_number_statement : Prop :=
  ∀ (pf : ParseFn) (sv : SV), sv.plain = true → sv.noFn pf = true → fromJson pf (toJson sv) = sv.sortKeys

/-- a non-finite number is written as `0` by `to_json` (`Number::from_f64(..).unwrap_or(0)`).
    This is the library function; the CLI no longer reaches it for its outputs object
    (C19 `nonfinite_output_is_error`: such an output is refused with exit 1), so the
    "finite" hypothesis of the property is necessary for `to_json` itself and enforced by
    the CLI. -/
theorem nonfinite_written_as_zero :
    toJson (.num F64.inf) = .num F64.zero ∧ toJson (.num F64.negInf) = .num F64.zero ∧
    toJson (.num F64.nan) = .num F64.zero := by
  have h1 : F64.inf.isFinite = false := by decide
  have h2 : F64.negInf.isFinite = false := by decide
  have h3 : F64.nan.isFinite = false := by decide
  simp [toJson, h1, h2, h3]

theorem roundtrip_any_number_false : ¬ roundtrip_any_number_statement := by
  intro h
  have h0 := h (fun _ => none) (.num F64.inf) rfl rfl
  rw [nonfinite_written_as_zero.1] at h0
  simp only [fromJson, SV.sortKeys, SV.num.injEq] at h0
  revert h0
  decide

/-- the round trip for ALL records: false -/
def roundtrip_any_record_statement : Prop :=
  ∀ (pf : ParseFn) (sv : SV), sv.plain = true → sv.finite = true → fromJson pf (toJson sv) = sv.sortKeys

/-- a record `{__blots_function: "map"}` is read back as the built-in `map` -/
theorem function_shaped_record_becomes_function (pf : ParseFn) :
    fromJson pf (toJson (.record [("__blots_function", .str "map")])) = .builtin "map" := by
  simp [toJson, toJsonMembers, collectSorted, insertSorted, fromJson, fnObject, lookupAL, isBuiltinName,
    Gen.fromIdent]

theorem roundtrip_any_record_false : ¬ roundtrip_any_record_statement := by
  intro h
  have h1 := h (fun _ => none) (.record [("__blots_function", .str "map")]) rfl rfl
  rw [function_shaped_record_becomes_function] at h1
  simp [SV.sortKeys] at h1

/-- a `__blots_function` string that neither names a built-in nor parses as a lambda
    leaves the object a plain record -/
theorem unparsable_function_string_is_a_record (pf : ParseFn) (ms : List (String × Json)) (s : String)
    (hl : lookupAL "__blots_function" ms = some (.str s)) (hb : isBuiltinName s = false)
    (hpf : pf s = none) : fromJson pf (.obj ms) = .record (fromJsonMembers pf ms) := by
  simp [fromJson, fnObject, hl, hb, hpf]

/-! #### input side: document → `inputs.x` → `output x = inputs.x` -/

/-- A document with no function-shaped object is reproduced by `from_json`/`to_json`
    exactly as the tree serde_json parsed it … -/
theorem json_echo_tree (pf : ParseFn) (j : Json) (hf : j.finite = true) (hn : j.norm.noFnObj pf = true) :
    toJson (fromJson pf j.norm) = j.norm :=
  toJson_fromJson_canonical pf _ (norm_canonical j hf) hn

/-- … and that tree is the document up to JSON value equality (`jeq`: numbers as doubles,
    object member order ignored, a duplicate key standing for its LAST value). -/
theorem json_echo (pf : ParseFn) (j : Json) (hf : j.finite = true) (hn : j.norm.noFnObj pf = true) :
    jeq (toJson (fromJson pf j.norm)) j = true := by
  rw [json_echo_tree pf j hf hn]; exact jeq_norm j hf

example : ∀ pf : ParseFn,
    (Json.obj [("b", .num F64.one), ("a", .arr [.str "x"]), ("b", .null)]).finite = true ∧
    (Json.obj [("b", .num F64.one), ("a", .arr [.str "x"]), ("b", .null)]).norm.noFnObj pf = true := by
  intro pf; exact ⟨by decide, rfl⟩

/-- the whole path of `output x = inputs.x`: document → value → output tree -/
theorem document_echo (pf : ParseFn) (pb : ParseBody) (j : Json) (hf : j.finite = true)
    (hn : j.norm.noFnObj pf = true) :
    ∃ w j', readJson pf pb j = .ok w ∧ writeJson w = .ok j' ∧ jeq j' j = true := by
  have hp := fromJson_plain pf _ hn
  refine ⟨valOf (fromJson pf j.norm), toJson (fromJson pf j.norm), ?_, ?_, json_echo pf j hf hn⟩
  · simp [readJson, toValue_plain pb _ hp]
  · simp [writeJson, fromValue_valOf _ hp]

/-- duplicate keys: the parsed object holds, under each key, the LAST member of that name -/
theorem duplicate_keys_last_wins (k : String) (ms : List (String × Json)) :
    ∃ ms', (Json.obj ms).norm = .obj ms' ∧ keysSorted ms' = true ∧
      lookupAL k ms' = (lookupLast k ms).map Json.norm := by
  refine ⟨collectSorted (Json.normMembers ms), rfl, collectSorted_sorted _, ?_⟩
  rw [lookupAL_collectSorted, normMembers_eq, lookupLast_mapVals]

example : jeq (.obj [("b", .num F64.one), ("a", .null), ("b", .str "x")])
    (.obj [("a", .null), ("b", .str "x")]) = true := by decide

end Blots.C06
