import Blots.Model.Eval
import Blots.Drv.Eval
/-
  Environment invariants of the evaluator (C03 / C04 / C02 helpers).

  * `call_group_env`  : the call group (`callFn`, the higher-order helpers, `evalBin`) returns the
                        caller's environment exactly.
  * `eval_group_ext`  : `eval`, `evalList`, `evalItems`, `evalEntries` only EXTEND the innermost
                        frame (`EnvExt`), the do-block functions leave everything below the block's
                        own frame untouched (`SameBelow`) — whatever the outcome.
  * `runStmts`        : a session (mirror of `Drv.runSession`).
-/
namespace Blots

theorem lookupAL_insertAL_self {α} (k : String) (v : α) : ∀ (f : List (String × α)),
    lookupAL k (insertAL k v f) = some v
  | [] => by simp [insertAL, lookupAL]
  | (k', v') :: rest => by
    by_cases h : k' = k
    · simp [insertAL, lookupAL, h]
    · simp [insertAL, lookupAL, h, lookupAL_insertAL_self k v rest]

theorem lookupAL_insertAL_ne {α} (k k2 : String) (v : α) (hne : k2 ≠ k) : ∀ (f : List (String × α)),
    lookupAL k2 (insertAL k v f) = lookupAL k2 f
  | [] => by simp [insertAL, lookupAL, Ne.symm hne]
  | (k', v') :: rest => by
    by_cases h : k' = k
    · subst h; simp [insertAL, lookupAL, Ne.symm hne]
    · by_cases h2 : k' = k2
      · subst h2; simp [insertAL, lookupAL, h]
      · simp [insertAL, lookupAL, h, h2, lookupAL_insertAL_ne k k2 v hne rest]

/-- the environment part of the result of the call group is the caller's, exactly -/
theorem call_group_env (ops : NumOps) : ∀ fuel : Nat,
    (∀ fv this args depth s, (callFn ops fuel fv this args depth s).2.env = s.env) ∧
    (∀ f w xs st depth s, (mapCalls ops fuel f w xs st depth s).2.env = s.env) ∧
    (∀ f w q xs st depth s, (quantCalls ops fuel f w q xs st depth s).2.env = s.env) ∧
    (∀ f w acc xs st depth s, (foldCalls ops fuel f w acc xs st depth s).2.env = s.env) ∧
    (∀ f xs depth s, (keyCalls ops fuel f xs depth s).2.env = s.env) ∧
    (∀ name args depth s, (callHof ops fuel name args depth s).2.env = s.env) ∧
    (∀ depth op a b s, (evalBin ops fuel depth op a b s).2.env = s.env) ∧
    (∀ la lb depth s, (viaPairs ops fuel la lb depth s).2.env = s.env) ∧
    (∀ f w xs st depth s, (whereCalls ops fuel f w xs st depth s).2.env = s.env) := by
  intro fuel
  induction fuel with
  | zero =>
    refine ⟨?_, ?_, ?_, ?_, ?_, ?_, ?_, ?_, ?_⟩ <;> intros <;> simp [callFn, mapCalls, quantCalls, foldCalls, keyCalls, callHof, evalBin, viaPairs, whereCalls]
  | succ fuel ih =>
    obtain ⟨ihC, ihM, ihQ, ihF, ihK, ihH, ihB, ihV, ihW⟩ := ih
    refine ⟨?_, ?_, ?_, ?_, ?_, ?_, ?_, ?_, ?_⟩
    · -- callFn
      intro fv this args depth s
      cases fv <;> try (simp [callFn]; done)
      · rw [callFn]
        split
        · split
          · rfl
          · simp only []
            split <;> rfl
        all_goals rfl
      · rw [callFn]
        split
        · rfl
        · split
          · split
            · rfl
            · split
              · exact ihH ..
              · split <;> rfl
          all_goals rfl
    · -- mapCalls
      intro f w xs st depth s
      cases xs with
      | nil => simp [mapCalls]
      | cons x xs =>
        rw [mapCalls]
        have h1 := ihC f f (if w then [x, .num (F64.ofNat st)] else [x]) depth s
        generalize callFn ops fuel f f _ depth s = p at h1 ⊢
        obtain ⟨r, s1⟩ := p
        cases r with
        | ok v =>
          dsimp only
          have h2 := ihM f w xs (st + 1) depth s1
          generalize mapCalls ops fuel f w xs (st + 1) depth s1 = q at h2 ⊢
          obtain ⟨r2, s2⟩ := q
          cases r2 <;> exact h2.trans h1
        | _ => exact h1
    · -- quantCalls
      intro f w q xs st depth s
      cases xs with
      | nil => simp [quantCalls]
      | cons x xs =>
        rw [quantCalls]
        have h1 := ihC f f (if w then [x, .num (F64.ofNat st)] else [x]) depth s
        generalize callFn ops fuel f f _ depth s = p at h1 ⊢
        obtain ⟨r, s1⟩ := p
        have h2 := ihQ f w q xs (st + 1) depth s1
        split
        · rename_i heq
          cases heq
          split
          · exact h1
          · split
            · exact h1
            · rw [h2]; exact h1
        · rename_i heq; cases heq; exact h1
        · exact h1
    · -- foldCalls
      intro f w acc xs st depth s
      cases xs with
      | nil => simp [foldCalls]
      | cons x xs =>
        rw [foldCalls]
        have h1 := ihC f f (if w then [acc, x, .num (F64.ofNat st)] else [acc, x]) depth s
        generalize callFn ops fuel f f _ depth s = p at h1 ⊢
        obtain ⟨r, s1⟩ := p
        split
        · rename_i heq; cases heq
          rw [ihF]; exact h1
        · exact h1
    · -- keyCalls
      intro f xs depth s
      cases xs with
      | nil => simp [keyCalls]
      | cons x xs =>
        rw [keyCalls]
        have h1 := ihC f f [x] depth s
        generalize callFn ops fuel f f _ depth s = p at h1 ⊢
        obtain ⟨r, s1⟩ := p
        dsimp only
        have h2 := ihK f xs depth s1
        generalize keyCalls ops fuel f xs depth s1 = q at h2 ⊢
        obtain ⟨r2, s2⟩ := q
        exact h2.trans h1
    · -- callHof
      intro name args depth s
      rw [callHof]
      have hk : ∀ {α} {p : α × ES} {r s1 s0}, p = (r, s1) → p.2.env = s0 → s1.env = s0 := by
        intro α p r s1 s0 h1 h2; subst h1; exact h2
      repeat' split
      all_goals first
        | rfl
        | exact ihQ ..
        | exact ihF ..
        | exact ihW ..
        | exact hk ‹_› (ihM ..)
        | exact hk ‹_› (ihK ..)
        | skip
    · -- evalBin
      intro depth op a b s
      rw [evalBin.eq_def]; dsimp only
      have hk : ∀ {α} {p : α × ES} {r s1 s0}, p = (r, s1) → p.2.env = s0 → s1.env = s0 := by
        intro α p r s1 s0 h1 h2; subst h1; exact h2
      split
      · rfl
      split
      · rfl
      split
      all_goals repeat' split
      all_goals first
        | rfl
        | exact ihC ..
        | exact ihV ..
        | exact ihW ..
        | exact hk ‹_› (ihM ..)
        | skip
    · -- viaPairs
      intro la lb depth s
      rw [viaPairs.eq_def]; dsimp only
      have hk : ∀ {α} {p : α × ES} {r s1 s0}, p = (r, s1) → p.2.env = s0 → s1.env = s0 := by
        intro α p r s1 s0 h1 h2; subst h1; exact h2
      split
      · split
        · rfl
        · split
          · rename_i h1
            have e1 := hk h1 (ihC ..)
            split
            · rename_i h2
              exact (hk h2 (ihV ..)).trans e1
            · rw [ihV]; exact e1
          · exact ihC ..
      · rfl
    · -- whereCalls
      intro f w xs st depth s
      cases xs with
      | nil => simp [whereCalls]
      | cons x xs =>
        rw [whereCalls]
        have hk : ∀ {α} {p : α × ES} {r s1 s0}, p = (r, s1) → p.2.env = s0 → s1.env = s0 := by
          intro α p r s1 s0 h1 h2; subst h1; exact h2
        split
        · rename_i h1
          have e1 := hk h1 (ihC ..)
          split
          · rename_i h2
            exact (hk h2 (ihW ..)).trans e1
          · rw [ihW]; exact e1
        · rename_i h1; exact hk h1 (ihC ..)
        · exact ihC ..
theorem callFn_env (ops : NumOps) (fuel fv this args depth s) :
    (callFn ops fuel fv this args depth s).2.env = s.env := (call_group_env ops fuel).1 ..
theorem evalBin_env (ops : NumOps) (fuel depth op a b s) :
    (evalBin ops fuel depth op a b s).2.env = s.env := (call_group_env ops fuel).2.2.2.2.2.2.1 ..

def FrameExt (f f' : Frame) : Prop := ∀ k v, lookupAL k f = some v → lookupAL k f' = some v
def SameBelow (e e' : List Frame) : Prop := e' = e ∨ ∃ f', e' = f' :: e.tail
/-- a name a top-level assignment accepts (when it is not yet bound) -/
def Assignable (n : String) : Prop := isBuiltinIdent n = false ∧ Gen.assignKeywords.contains n = false

instance (n : String) : Decidable (Assignable n) := by unfold Assignable; exact inferInstance

/-- what every evaluation guarantees, at any call depth: same frames below the innermost one,
    every binding of the innermost frame kept with its value, and every new key of the
    innermost frame is a name an assignment accepts.  (Inside a function call a plain
    assignment may add to the call's own frame a name that is also bound further out —
    `alreadyDefined` looks only at that frame there — so visibility through the whole chain is
    only guaranteed at depth 0, see `EnvExt`.) -/
structure TopExt (e e' : List Frame) : Prop where
  below : SameBelow e e'
  top : FrameExt (e.headD []) (e'.headD [])
  fresh : ∀ k, (lookupAL k (e'.headD [])).isSome → (lookupAL k (e.headD [])).isSome ∨ Assignable k

/-- `e'` is `e` with the innermost frame extended: `TopExt`, and every visible binding is still
    visible with its value (top level, depth 0) -/
structure EnvExt (e e' : List Frame) : Prop extends TopExt e e' where
  get : ∀ k v, envGet e k = some v → envGet e' k = some v

/-- the invariant of `eval` at call depth `depth` -/
structure ExtD (depth : Nat) (e e' : List Frame) : Prop extends TopExt e e' where
  get0 : depth = 0 → ∀ k v, envGet e k = some v → envGet e' k = some v

theorem FrameExt.refl (f : Frame) : FrameExt f f := fun _ _ h => h
theorem FrameExt.trans {a b c : Frame} (h1 : FrameExt a b) (h2 : FrameExt b c) : FrameExt a c :=
  fun k v h => h2 k v (h1 k v h)
theorem SameBelow.refl (e : List Frame) : SameBelow e e := Or.inl rfl
theorem SameBelow.trans {a b c : List Frame} (h1 : SameBelow a b) (h2 : SameBelow b c) : SameBelow a c := by
  rcases h1 with rfl | ⟨f, rfl⟩
  · exact h2
  · rcases h2 with rfl | ⟨g, rfl⟩
    · exact Or.inr ⟨f, rfl⟩
    · exact Or.inr ⟨g, rfl⟩
theorem TopExt.refl (e : List Frame) : TopExt e e :=
  ⟨SameBelow.refl e, FrameExt.refl _, fun _ h => Or.inl h⟩
theorem TopExt.trans {a b c : List Frame} (h1 : TopExt a b) (h2 : TopExt b c) : TopExt a c :=
  ⟨h1.below.trans h2.below, h1.top.trans h2.top, fun k h => (h2.fresh k h).elim (h1.fresh k) Or.inr⟩
theorem EnvExt.refl (e : List Frame) : EnvExt e e := ⟨TopExt.refl e, fun _ _ h => h⟩
theorem EnvExt.trans {a b c : List Frame} (h1 : EnvExt a b) (h2 : EnvExt b c) : EnvExt a c :=
  ⟨h1.toTopExt.trans h2.toTopExt, fun k v h => h2.get k v (h1.get k v h)⟩
theorem ExtD.refl (d : Nat) (e : List Frame) : ExtD d e e := ⟨TopExt.refl e, fun _ _ _ h => h⟩
theorem ExtD.trans {d : Nat} {a b c : List Frame} (h1 : ExtD d a b) (h2 : ExtD d b c) : ExtD d a c :=
  ⟨h1.toTopExt.trans h2.toTopExt, fun hd k v h => h2.get0 hd k v (h1.get0 hd k v h)⟩
theorem ExtD.toEnvExt {a b : List Frame} (h : ExtD 0 a b) : EnvExt a b := ⟨h.toTopExt, h.get0 rfl⟩

theorem SameBelow.insert (e : List Frame) (n : String) (v : Value) : SameBelow e (envInsert e n v) := by
  cases e with
  | nil => exact Or.inr ⟨_, rfl⟩
  | cons f r => exact Or.inr ⟨_, rfl⟩

theorem TopExt.insert (e : List Frame) (n : String) (v : Value)
    (h : lookupAL n (e.headD []) = none) (ha : Assignable n) : TopExt e (envInsert e n v) := by
  refine ⟨SameBelow.insert e n v, ?_, ?_⟩
  · cases e with
    | nil => intro k w hk; simp [lookupAL] at hk
    | cons f r =>
      intro k w hk
      simp only [envInsert, List.headD_cons] at hk h ⊢
      by_cases hkn : k = n
      · subst hkn; rw [h] at hk; cases hk
      · rw [lookupAL_insertAL_ne n k v hkn]; exact hk
  · intro k hk
    by_cases hkn : k = n
    · subst hkn; exact Or.inr ha
    · left
      cases e with
      | nil => simp [envInsert, lookupAL, Ne.symm hkn] at hk
      | cons f r =>
        simp only [envInsert, List.headD_cons] at hk ⊢
        rw [lookupAL_insertAL_ne n k v hkn] at hk; exact hk

theorem envGet_insert_of_not_contains (e : List Frame) (n : String) (v : Value)
    (h : envContains e n = false) : ∀ k w, envGet e k = some w → envGet (envInsert e n v) k = some w := by
  intro k w hk
  have hkn : k ≠ n := by
    intro e'; subst e'; simp [envContains, hk] at h
  cases e with
  | nil => simp [envGet] at hk
  | cons f r =>
    simp only [envInsert, envGet] at hk ⊢
    rw [lookupAL_insertAL_ne n k v hkn]; exact hk

theorem alreadyDefined_false_top {depth : Nat} {e : List Frame} {n : String}
    (h : alreadyDefined depth e n = false) : lookupAL n (e.headD []) = none := by
  unfold alreadyDefined at h
  split at h
  · cases e with
    | nil => rfl
    | cons f r => simpa using h
  · cases e with
    | nil => rfl
    | cons f r =>
      simp only [envContains, envGet, List.headD_cons] at h ⊢
      cases hl : lookupAL n f with
      | none => rfl
      | some w => rw [hl] at h; simp at h

theorem ExtD.insert (depth : Nat) (e : List Frame) (n : String) (v : Value)
    (h : alreadyDefined depth e n = false) (ha : Assignable n) : ExtD depth e (envInsert e n v) := by
  refine ⟨TopExt.insert e n v (alreadyDefined_false_top h) ha, ?_⟩
  intro hd
  subst hd
  exact envGet_insert_of_not_contains e n v (by simpa [alreadyDefined] using h)

theorem setNameIfLambda_env (s : ES) (n : String) (v : Value) : (setNameIfLambda s n v).env = s.env := by
  unfold setNameIfLambda; split
  · split <;> rfl
  · rfl
theorem kx {α} {d : Nat} {e : List Frame} {p : α × ES} {r s1} (h1 : p = (r, s1)) (h2 : ExtD d e p.2.env) :
    ExtD d e s1.env := by
  subst h1; exact h2
theorem SameBelow.of_ext {a b : List Frame} (h : TopExt a b) : SameBelow a b := h.below

theorem SameBelow.drop_push {e e' : List Frame} (h : SameBelow ([] :: e) e') : e'.drop 1 = e := by
  rcases h with rfl | ⟨f, rfl⟩ <;> rfl

/-- the main invariant, all six functions at once -/
theorem eval_group_ext (ops : NumOps) : ∀ fuel : Nat,
    (∀ depth e s, ExtD depth s.env (eval ops fuel depth e s).2.env) ∧
    (∀ depth es s, ExtD depth s.env (evalList ops fuel depth es s).2.env) ∧
    (∀ depth is s, ExtD depth s.env (evalItems ops fuel depth is s).2.env) ∧
    (∀ depth es acc s, ExtD depth s.env (evalEntries ops fuel depth es acc s).2.env) ∧
    (∀ depth e s, SameBelow s.env (evalDoStmt ops fuel depth e s).2.env) ∧
    (∀ depth stmts ret s, SameBelow s.env (evalDo ops fuel depth stmts ret s).2.env) := by
  intro fuel
  induction fuel with
  | zero =>
    refine ⟨?_, ?_, ?_, ?_, ?_, ?_⟩ <;> intros <;>
      simp [eval, evalList, evalItems, evalEntries, evalDoStmt, evalDo, ExtD.refl, SameBelow.refl]
  | succ fuel ih =>
    obtain ⟨ihE, ihL, ihI, ihR, ihS, ihD⟩ := ih
    refine ⟨?_, ?_, ?_, ?_, ?_, ?_⟩
    · intro depth e s
      cases e with
      | assign n v =>
        rw [eval]
        split
        · exact ExtD.refl _ _
        rename_i hb
        split
        · exact ExtD.refl _ _
        rename_i hkw
        split
        · exact ExtD.refl _ _
        split
        · rename_i val s1 h1
          have e1 := kx h1 (ihE ..)
          split
          · exact e1
          · rename_i hc
            simp only [Bool.not_eq_true] at hc
            refine e1.trans ?_
            simp only [setNameIfLambda_env]
            exact ExtD.insert _ _ _ _ hc ⟨by simpa using hb, by simpa using hkw⟩
        · exact ihE ..
      | doBlock stmts ret =>
        rw [eval]
        have h := ihD depth stmts ret { s with env := [] :: s.env }
        generalize evalDo ops fuel depth stmts ret _ = p at h ⊢
        obtain ⟨r, s1⟩ := p
        simp only [h.drop_push]
        exact ExtD.refl _ _
      | lambda args body => rw [eval]; split <;> exact ExtD.refl _ _
      | _ =>
        rw [eval]
        repeat' split
        all_goals grind [ExtD.trans, ExtD.refl, evalBin_env, callFn_env]
    · intro depth es s
      cases es with
      | nil => rw [evalList]; exact ExtD.refl _ _
      | cons e es =>
        rw [evalList]
        repeat' split
        all_goals grind [ExtD.trans, ExtD.refl]
    · intro depth is s
      cases is with
      | nil => rw [evalItems]; exact ExtD.refl _ _
      | cons i is =>
        cases i
        rw [evalItems]
        repeat' split
        all_goals grind [ExtD.trans, ExtD.refl]
    · intro depth es acc s
      cases es with
      | nil => rw [evalEntries]; exact ExtD.refl _ _
      | cons e es =>
        obtain ⟨_, key, value, _⟩ := e
        cases key <;> rw [evalEntries] <;> repeat' split
        all_goals grind [ExtD.trans, ExtD.refl]
    · intro depth e s
      rw [evalDoStmt.eq_def]; dsimp only
      split
      · split
        · exact SameBelow.refl _
        · split
          · rename_i val s1 h1
            have e1 := (kx h1 (ihE ..)).below
            refine e1.trans ?_
            simp only [setNameIfLambda_env]
            exact SameBelow.insert ..
          · exact (ihE ..).below
      · exact (ihE ..).below
    · intro depth stmts ret s
      cases stmts with
      | nil => cases ret; rw [evalDo]; exact ihS ..
      | cons i rest =>
        obtain ⟨_, e, _⟩ := i
        rw [evalDo]
        split
        · rename_i v1 s1 h1
          have e1 : SameBelow s.env s1.env := by have := ihS depth e s; rw [h1] at this; exact this
          exact e1.trans (ihD ..)
        · exact ihS ..

/-- at any depth -/
theorem eval_extD (ops : NumOps) (fuel depth e s) : ExtD depth s.env (eval ops fuel depth e s).2.env :=
  (eval_group_ext ops fuel).1 depth e s

theorem eval_topExt (ops : NumOps) (fuel depth e s) : TopExt s.env (eval ops fuel depth e s).2.env :=
  (eval_extD ops fuel depth e s).toTopExt

/-- at top level (depth 0) -/
theorem eval_ext (ops : NumOps) (fuel e s) : EnvExt s.env (eval ops fuel 0 e s).2.env :=
  (eval_extD ops fuel 0 e s).toEnvExt

/-! ### consequences of `EnvExt` -/

/-- a name an assignment refuses, and which is not visible, stays invisible -/
theorem TopExt.get_none {e e' : List Frame} (h : TopExt e e') {n : String} (hn : ¬ Assignable n)
    (hg : envGet e n = none) : envGet e' n = none := by
  rcases h.below with he | ⟨f', he⟩
  · rw [he]; exact hg
  · have hf := h.fresh n
    rw [he] at hf ⊢
    simp only [List.headD_cons] at hf
    cases e with
    | nil =>
      simp only [envGet, List.tail_nil]
      cases hl : lookupAL n f' with
      | none => rfl
      | some v =>
        rw [hl] at hf
        rcases hf rfl with h1 | h1
        · simp [lookupAL] at h1
        · exact absurd h1 hn
    | cons f r =>
      simp only [envGet, List.tail_cons] at hg ⊢
      cases hl0 : lookupAL n f with
      | some v => rw [hl0] at hg; cases hg
      | none =>
        rw [hl0] at hg
        cases hl : lookupAL n f' with
        | none => exact hg
        | some v =>
          rw [hl] at hf
          rcases hf rfl with h1 | h1
          · simp [hl0] at h1
          · exact absurd h1 hn

theorem SameBelow.single {f : Frame} {e' : List Frame} (h : SameBelow [f] e') : ∃ f', e' = [f'] := by
  rcases h with rfl | ⟨f', rfl⟩
  · exact ⟨f, rfl⟩
  · exact ⟨f', rfl⟩

theorem SameBelow.length {e e' : List Frame} (h : SameBelow e e') (hne : e ≠ []) : e'.length = e.length := by
  rcases h with rfl | ⟨f', rfl⟩
  · rfl
  · cases e with
    | nil => exact absurd rfl hne
    | cons f r => rfl

theorem SameBelow.tail {e e' : List Frame} (h : SameBelow e e') (hne : e ≠ []) : e'.tail = e.tail := by
  rcases h with rfl | ⟨f', rfl⟩ <;> rfl

/-! ### sessions -/

/-- statements evaluated in order in one state, continuing after failures (a REPL session /
    a program run statement by statement) -/
def runStmts (ops : NumOps) (fuel : Nat) (s : ES) : List Expr → List (Outcome Value) × ES
  | [] => ([], s)
  | e :: es =>
    ((eval ops fuel 0 e s).1 :: (runStmts ops fuel (eval ops fuel 0 e s).2 es).1,
     (runStmts ops fuel (eval ops fuel 0 e s).2 es).2)

theorem runStmts_append (ops : NumOps) (fuel : Nat) : ∀ (pre : List Expr) (s : ES) (post : List Expr),
    runStmts ops fuel s (pre ++ post) =
      ((runStmts ops fuel s pre).1 ++ (runStmts ops fuel (runStmts ops fuel s pre).2 post).1,
       (runStmts ops fuel (runStmts ops fuel s pre).2 post).2)
  | [], s, post => by simp [runStmts]
  | e :: pre, s, post => by
    simp only [List.cons_append, runStmts, runStmts_append ops fuel pre]

/-- `runStmts` is the driver's `runSession` (the function the harness compares with the real
    interpreter) -/
theorem runStmts_eq_runSession (ops : NumOps) (fuel : Nat) (s : ES) (stmts : List Expr) :
    runStmts ops fuel s stmts = Drv.runSession ops fuel s stmts := by
  have gen : ∀ (stmts : List Expr) (acc : List (Outcome Value)) (s : ES),
      stmts.foldl (fun (p : List (Outcome Value) × ES) e =>
        (p.1 ++ [(eval ops fuel 0 e p.2).1], (eval ops fuel 0 e p.2).2)) (acc, s)
      = (acc ++ (runStmts ops fuel s stmts).1, (runStmts ops fuel s stmts).2) := by
    intro stmts
    induction stmts with
    | nil => intro acc s; simp [runStmts]
    | cons e es ih => intro acc s; simp [runStmts, ih]
  unfold Drv.runSession
  have := gen stmts [] s
  simp only [List.nil_append] at this
  exact this.symm

theorem runStmts_ext (ops : NumOps) (fuel : Nat) : ∀ (stmts : List Expr) (s : ES),
    EnvExt s.env (runStmts ops fuel s stmts).2.env
  | [], _ => EnvExt.refl _
  | e :: es, s => (eval_ext ops fuel e s).trans (runStmts_ext ops fuel es _)

/-! ### a toy total `NumOps` (for concrete examples) -/

def toyOps : NumOps :=
  { add := fun a _ => a, sub := fun a _ => a, mul := fun a _ => a, div := fun a _ => a,
    rem := fun a _ => a, powf := fun a _ => a, sqrt := id, sin := id, cos := id, tan := id,
    asin := id, acos := id, atan := id, ln := id, log10 := id, exp := id, floor := id,
    ceil := id, round := id, trunc := id }

/-- a root state: one empty frame -/
def root0 : ES := { env := [[]], nextId := 1, names := [] }
/-- an item / statement without comments -/
def it (e : Expr) : Item := .mk [] e none

end Blots
