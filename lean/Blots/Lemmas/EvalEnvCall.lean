import Blots.Lemmas.EvalEnv
import Blots.Lemmas.EvalEnvFree
/-
  Helpers for C04 / C02: association lists (order independence of lookups), `bindParams`,
  `lambdaArity` / `checkArity`, `captureScope`, the frames of a call.
-/
namespace Blots

/-! ### association lists -/

theorem lookupAL_append {α} (k : String) : ∀ (a b : List (String × α)),
    lookupAL k (a ++ b) = match lookupAL k a with | some v => some v | none => lookupAL k b
  | [], b => by simp [lookupAL]
  | (k', v) :: a, b => by
    by_cases h : k' = k
    · simp [lookupAL, h]
    · simp [lookupAL, h, lookupAL_append k a b]

theorem lookupAL_eq_none_iff {α} (k : String) : ∀ (f : List (String × α)),
    lookupAL k f = none ↔ k ∉ f.map Prod.fst
  | [] => by simp [lookupAL]
  | (k', v) :: f => by
    by_cases h : k' = k
    · simp [lookupAL, h]
    · have := lookupAL_eq_none_iff k f
      simp [lookupAL, h, this, Ne.symm h]

theorem lookupAL_mem {α} {k : String} {v : α} : ∀ {f : List (String × α)}, lookupAL k f = some v → (k, v) ∈ f
  | [], h => by simp [lookupAL] at h
  | (k', v') :: f, h => by
    by_cases hk : k' = k
    · simp [lookupAL, hk] at h; subst hk; subst h; simp
    · simp [lookupAL, hk] at h; exact List.mem_cons_of_mem _ (lookupAL_mem h)

/-- with distinct keys, lookup finds exactly the pairs of the list -/
theorem lookupAL_eq_some_iff {α} {k : String} {v : α} : ∀ {f : List (String × α)},
    (f.map Prod.fst).Nodup → (lookupAL k f = some v ↔ (k, v) ∈ f)
  | [], _ => by simp [lookupAL]
  | (k', v') :: f, hnd => by
    simp only [List.map_cons, List.nodup_cons] at hnd
    by_cases hk : k' = k
    · subst hk
      simp only [lookupAL, if_true, Option.some.injEq, List.mem_cons, Prod.mk.injEq, true_and]
      constructor
      · intro h; exact Or.inl h.symm
      · rintro (h | h)
        · exact h.symm
        · exact absurd (List.mem_map_of_mem (f := Prod.fst) h) hnd.1
    · simp only [lookupAL, hk, if_false, List.mem_cons, Prod.mk.injEq]
      rw [lookupAL_eq_some_iff hnd.2]
      constructor
      · exact Or.inr
      · rintro (⟨h, _⟩ | h)
        · exact absurd h.symm hk
        · exact h

/-- HashMap-order independence: lookup in a frame with distinct keys does not depend on the
    order of its entries -/
theorem frame_lookup_perm {α} {f f' : List (String × α)} (k : String)
    (hnd : (f.map Prod.fst).Nodup) (hp : f.Perm f') : lookupAL k f = lookupAL k f' := by
  have hnd' : (f'.map Prod.fst).Nodup := (hp.map Prod.fst).nodup_iff.mp hnd
  cases h : lookupAL k f with
  | some v =>
    have := (lookupAL_eq_some_iff hnd).mp h
    exact ((lookupAL_eq_some_iff hnd').mpr (hp.mem_iff.mp this)).symm
  | none =>
    have h1 := (lookupAL_eq_none_iff k f).mp h
    have : k ∉ f'.map Prod.fst := fun hm => h1 ((hp.map Prod.fst).mem_iff.mpr hm)
    exact ((lookupAL_eq_none_iff k f').mpr this).symm

theorem insertAL_keys {α} (k : String) (v : α) : ∀ (f : List (String × α)),
    (insertAL k v f).map Prod.fst = if k ∈ f.map Prod.fst then f.map Prod.fst else f.map Prod.fst ++ [k]
  | [] => by simp [insertAL]
  | (k', v') :: f => by
    by_cases h : k' = k
    · subst h; simp [insertAL]
    · have := insertAL_keys k v f
      simp only [insertAL, h, if_false, List.map_cons, this, List.mem_cons, Ne.symm h, false_or]
      split <;> simp

theorem insertAL_nodup {α} (k : String) (v : α) (f : List (String × α))
    (h : (f.map Prod.fst).Nodup) : ((insertAL k v f).map Prod.fst).Nodup := by
  rw [insertAL_keys]
  split
  · exact h
  · rename_i hk
    rw [List.nodup_append]
    refine ⟨h, by simp, ?_⟩
    intro a ha b hb
    simp at hb; subst hb
    intro e; subst e; exact hk ha

/-- `frame.extend(pairs)`: insert the pairs in order -/
def insertAll (f : Frame) (kvs : List (String × Value)) : Frame :=
  kvs.foldl (fun f kv => insertAL kv.1 kv.2 f) f

theorem insertAll_nodup : ∀ (kvs : List (String × Value)) (f : Frame),
    (f.map Prod.fst).Nodup → ((insertAll f kvs).map Prod.fst).Nodup
  | [], _, h => h
  | kv :: kvs, f, h => insertAll_nodup kvs _ (insertAL_nodup kv.1 kv.2 f h)

/-- the last pair with a given key wins; keys not inserted keep the old value -/
theorem lookupAL_insertAll (k : String) : ∀ (kvs : List (String × Value)) (f : Frame),
    lookupAL k (insertAll f kvs) =
      match lookupAL k kvs.reverse with | some v => some v | none => lookupAL k f
  | [], f => by simp [insertAll, lookupAL]
  | kv :: kvs, f => by
    have ih := lookupAL_insertAll k kvs (insertAL kv.1 kv.2 f)
    simp only [insertAll, List.foldl_cons] at ih ⊢
    rw [ih, List.reverse_cons, lookupAL_append]
    cases h : lookupAL k kvs.reverse with
    | some v => rfl
    | none =>
      simp only
      by_cases hk : kv.1 = k
      · subst hk; simp [lookupAL, lookupAL_insertAL_self]
      · simp [lookupAL, hk, lookupAL_insertAL_ne kv.1 k kv.2 (Ne.symm hk)]

/-! ### `bindParams` -/

/-- the value the parameter at position `i` receives -/
def paramValue (args : List Value) (i : Nat) : LArg → Value
  | .req _ => (args[i]?).getD .null
  | .opt _ => (args[i]?).getD .null
  | .rest _ => .list (args.drop i)

/-- (name, value) for the parameters from position `i` on -/
def paramPairs (args : List Value) : List LArg → Nat → List (String × Value)
  | [], _ => []
  | p :: rest, i => (p.name, paramValue args i p) :: paramPairs args rest (i + 1)

/-- every required parameter has an argument at its position -/
def reqsInRange (nargs : Nat) : List LArg → Nat → Bool
  | [], _ => true
  | .req _ :: rest, i => decide (i < nargs) && reqsInRange nargs rest (i + 1)
  | _ :: rest, i => reqsInRange nargs rest (i + 1)

theorem bindParams_go_eq (args : List Value) : ∀ (ps : List LArg) (i : Nat) (frame : Frame),
    bindParams.go args ps i frame =
      if reqsInRange args.length ps i then .ok (insertAll frame (paramPairs args ps i)) else .err .arity
  | [], i, frame => by simp [bindParams.go, reqsInRange, paramPairs, insertAll]
  | .req n :: rest, i, frame => by
    rw [bindParams.go]
    by_cases h : i < args.length
    · have : args[i]? = some args[i] := List.getElem?_eq_getElem h
      simp only [this, bindParams_go_eq args rest, reqsInRange, h, decide_true, Bool.true_and,
        paramPairs, paramValue, LArg.name, Option.getD_some, insertAll, List.foldl_cons]
    · have : args[i]? = none := List.getElem?_eq_none (by omega)
      simp [reqsInRange, h]
  | .opt n :: rest, i, frame => by
    rw [bindParams.go]
    simp only [bindParams_go_eq args rest, reqsInRange, paramPairs, paramValue, LArg.name, insertAll,
      List.foldl_cons]
    rfl
  | .rest n :: rest, i, frame => by
    rw [bindParams.go]
    simp only [bindParams_go_eq args rest, reqsInRange, paramPairs, paramValue, LArg.name, insertAll,
      List.foldl_cons]
    rfl

theorem bindParams_eq (ps : List LArg) (args : List Value) :
    bindParams ps args =
      if reqsInRange args.length ps 0 then .ok (insertAll [] (paramPairs args ps 0)) else .err .arity := by
  unfold bindParams; exact bindParams_go_eq args ps 0 []

theorem reqsInRange_false_iff (nargs : Nat) : ∀ (ps : List LArg) (i : Nat),
    reqsInRange nargs ps i = false ↔ ∃ j n, ps[j]? = some (.req n) ∧ nargs ≤ i + j
  | [], i => by simp [reqsInRange]
  | p :: rest, i => by
    have ih := reqsInRange_false_iff nargs rest (i + 1)
    constructor
    · intro h
      cases p with
      | req n =>
        simp only [reqsInRange, Bool.and_eq_false_iff, decide_eq_false_iff_not] at h
        rcases h with h | h
        · exact ⟨0, n, rfl, by omega⟩
        · obtain ⟨j, m, h1, h2⟩ := ih.mp h
          exact ⟨j + 1, m, by simpa using h1, by omega⟩
      | opt n =>
        simp only [reqsInRange] at h
        obtain ⟨j, m, h1, h2⟩ := ih.mp h
        exact ⟨j + 1, m, by simpa using h1, by omega⟩
      | rest n =>
        simp only [reqsInRange] at h
        obtain ⟨j, m, h1, h2⟩ := ih.mp h
        exact ⟨j + 1, m, by simpa using h1, by omega⟩
    · rintro ⟨j, n, h1, h2⟩
      cases j with
      | zero =>
        simp only [List.getElem?_cons_zero, Option.some.injEq] at h1
        subst h1
        simp only [reqsInRange, Bool.and_eq_false_iff, decide_eq_false_iff_not]
        exact Or.inl (by omega)
      | succ j =>
        simp only [List.getElem?_cons_succ] at h1
        have := ih.mpr ⟨j, n, h1, by omega⟩
        cases p <;> simp [reqsInRange, this]

/-! ### arity -/

def reqCount (ps : List LArg) : Nat := (ps.filter fun | .req _ => true | _ => false).length
def hasRest (ps : List LArg) : Bool := ps.any fun | .rest _ => true | _ => false

theorem reqCount_le_length (ps : List LArg) : reqCount ps ≤ ps.length := List.length_filter_le _ _

theorem lambdaArity_eq (ps : List LArg) :
    lambdaArity ps = if hasRest ps then .atLeast (reqCount ps)
      else if reqCount ps == ps.length then .exact (reqCount ps) else .between (reqCount ps) ps.length := rfl

theorem checkArity_lambda_iff (ps : List LArg) (n : Nat) :
    checkArity (lambdaArity ps) n = .ok () ↔ reqCount ps ≤ n ∧ (hasRest ps = true ∨ n ≤ ps.length) := by
  have hle := reqCount_le_length ps
  rw [lambdaArity_eq]
  unfold checkArity
  by_cases hr : hasRest ps = true
  · simp only [hr, if_true, Gen.Arity.canAccept, decide_eq_true_eq, true_or, and_true]
    split <;> simp_all
  · simp only [hr, Bool.false_eq_true, if_false, false_or]
    by_cases he : reqCount ps = ps.length
    · simp only [he, beq_self_eq_true, if_true, Gen.Arity.canAccept]
      constructor
      · intro h; split at h <;> simp_all
      · intro h
        have : n = ps.length := by omega
        simp [this]
    · have : (reqCount ps == ps.length) = false := by simpa using he
      simp only [this, Bool.false_eq_true, if_false, Gen.Arity.canAccept]
      constructor
      · intro h; split at h <;> simp_all
      · intro h; simp [h.1, h.2]

/-! ### positional binding -/

theorem paramPairs_keys (args : List Value) : ∀ (ps : List LArg) (j : Nat),
    (paramPairs args ps j).map Prod.fst = ps.map LArg.name
  | [], _ => rfl
  | p :: ps, j => by simp [paramPairs, paramPairs_keys args ps (j + 1)]

theorem paramPairs_getElem? (args : List Value) : ∀ (ps : List LArg) (j i : Nat),
    (paramPairs args ps j)[i]? = (ps[i]?).map fun p => (p.name, paramValue args (j + i) p)
  | [], _, _ => by simp [paramPairs]
  | p :: ps, j, 0 => by simp [paramPairs]
  | p :: ps, j, i + 1 => by
    simp only [paramPairs, List.getElem?_cons_succ, paramPairs_getElem? args ps (j + 1) i]
    congr 1; funext q; congr 2; omega

/-- with distinct parameter names every parameter is bound to the value at its own position -/
theorem lookup_bound_param (args : List Value) (ps : List LArg) (hnd : (ps.map LArg.name).Nodup)
    (i : Nat) (p : LArg) (hp : ps[i]? = some p) :
    lookupAL p.name (insertAll [] (paramPairs args ps 0)) = some (paramValue args i p) := by
  rw [lookupAL_insertAll]
  have hk : ((paramPairs args ps 0).map Prod.fst).Nodup := by rw [paramPairs_keys]; exact hnd
  have hk' : ((paramPairs args ps 0).reverse.map Prod.fst).Nodup := by
    rw [List.map_reverse]; exact (List.reverse_perm _).nodup_iff.mpr hk
  have hm : (p.name, paramValue args i p) ∈ paramPairs args ps 0 := by
    have := paramPairs_getElem? args ps 0 i
    rw [hp] at this
    simp only [Option.map_some, Nat.zero_add] at this
    exact List.mem_of_getElem? this
  have := (lookupAL_eq_some_iff hk').mpr (List.mem_reverse.mpr hm)
  rw [this]

/-- names that are not parameters are not in the frame -/
theorem lookup_not_param (args : List Value) (ps : List LArg) (k : String) (hk : k ∉ ps.map LArg.name) :
    lookupAL k (insertAll [] (paramPairs args ps 0)) = none := by
  rw [lookupAL_insertAll]
  have : lookupAL k (paramPairs args ps 0).reverse = none := by
    rw [lookupAL_eq_none_iff, List.map_reverse, List.mem_reverse, paramPairs_keys]; exact hk
  rw [this]; rfl

/-- the documented parameter shape: required*, optional*, at most one trailing rest -/
def docShape (reqs opts : List String) (rest : Option String) : List LArg :=
  reqs.map .req ++ (opts.map .opt ++ (match rest with | some r => [.rest r] | none => []))

theorem docShape_names (reqs opts : List String) (rest : Option String) :
    (docShape reqs opts rest).map LArg.name = reqs ++ (opts ++ rest.toList) := by
  cases rest <;> simp [docShape, LArg.name, Function.comp_def]

theorem docShape_length (reqs opts : List String) (rest : Option String) :
    (docShape reqs opts rest).length = reqs.length + opts.length + rest.toList.length := by
  cases rest <;> simp [docShape] <;> omega

theorem docShape_reqCount (reqs opts : List String) (rest : Option String) :
    reqCount (docShape reqs opts rest) = reqs.length := by
  unfold reqCount docShape
  rw [List.filter_append, List.filter_append]
  have h1 : (reqs.map LArg.req).filter (fun | .req _ => true | _ => false) = reqs.map LArg.req := by
    rw [List.filter_eq_self]; intro a ha; simp at ha; obtain ⟨x, _, rfl⟩ := ha; rfl
  have h2 : (opts.map LArg.opt).filter (fun | .req _ => true | _ => false) = [] := by
    rw [List.filter_eq_nil_iff]; intro a ha; simp at ha; obtain ⟨x, _, rfl⟩ := ha; simp
  rw [h1, h2]
  cases rest <;> simp

theorem docShape_hasRest (reqs opts : List String) (rest : Option String) :
    hasRest (docShape reqs opts rest) = rest.isSome := by
  unfold hasRest docShape
  cases rest with
  | none =>
    simp only [Option.isSome_none, List.append_nil, List.any_append, Bool.or_eq_false_iff, List.any_eq_false]
    constructor
    · intro a ha; simp at ha; obtain ⟨x, _, rfl⟩ := ha; simp
    · intro a ha; simp at ha; obtain ⟨x, _, rfl⟩ := ha; simp
  | some r => simp

theorem docShape_reqsInRange (n : Nat) (reqs opts : List String) (rest : Option String)
    (h : reqs.length ≤ n) : reqsInRange n (docShape reqs opts rest) 0 = true := by
  cases hr : reqsInRange n (docShape reqs opts rest) 0 with
  | true => rfl
  | false =>
    obtain ⟨j, m, h1, h2⟩ := (reqsInRange_false_iff n _ 0).mp hr
    exfalso
    unfold docShape at h1
    by_cases hj : j < reqs.length
    · omega
    · rw [List.getElem?_append_right (by simpa using Nat.le_of_not_lt hj)] at h1
      have := List.mem_of_getElem? h1
      cases rest <;> simp at this

/-! ### `captureScope` -/

/-- one step of `captureScope` -/
def captureStep (env : List Frame) (sc : Frame) (y : String) : Frame :=
  match envGet env y with
  | some v => insertAL y v sc
  | none => sc

theorem captureScope_eq (env : List Frame) (vars : List String) :
    captureScope env vars = vars.foldl (captureStep env) [] := rfl

theorem captureScope_go_lookup (env : List Frame) (x : String) : ∀ (vars : List String) (sc : Frame),
    lookupAL x (vars.foldl (captureStep env) sc) =
      if x ∈ vars ∧ (envGet env x).isSome then envGet env x else lookupAL x sc
  | [], sc => by simp
  | y :: vars, sc => by
    rw [List.foldl_cons, captureScope_go_lookup env x vars]
    by_cases hin : x ∈ vars ∧ (envGet env x).isSome
    · have : x ∈ y :: vars ∧ (envGet env x).isSome :=
        ⟨List.mem_cons_of_mem _ hin.1, hin.2⟩
      rw [if_pos hin, if_pos this]
    · rw [if_neg hin]
      by_cases hxy : x = y
      · subst hxy
        unfold captureStep
        cases hg : envGet env x with
        | none => simp
        | some v => simp [lookupAL_insertAL_self]
      · have h2 : (x ∈ y :: vars ∧ (envGet env x).isSome) ↔ (x ∈ vars ∧ (envGet env x).isSome) := by
          simp [hxy]
        rw [if_neg (fun h => hin (h2.mp h))]
        unfold captureStep
        cases hg : envGet env y with
        | none => rfl
        | some v => exact lookupAL_insertAL_ne y x v hxy sc

/-- what a new function captures: exactly the listed names that are visible now, each with its
    current value — whatever the order of `vars` -/
theorem captureScope_lookup (env : List Frame) (vars : List String) (x : String) :
    lookupAL x (captureScope env vars) = if x ∈ vars then envGet env x else none := by
  rw [captureScope_eq, captureScope_go_lookup]
  by_cases h : x ∈ vars
  · rw [if_pos h]
    cases hg : envGet env x with
    | none => simp [lookupAL]
    | some v => simp [h]
  · rw [if_neg h, if_neg (fun h' => h h'.1)]; rfl

theorem captureScope_nodup (env : List Frame) (vars : List String) :
    ((captureScope env vars).map Prod.fst).Nodup := by
  rw [captureScope_eq]
  suffices ∀ (vars : List String) (sc : Frame), (sc.map Prod.fst).Nodup →
      ((vars.foldl (captureStep env) sc).map Prod.fst).Nodup from this vars [] (by simp)
  intro vars
  induction vars with
  | nil => intro sc h; exact h
  | cons y vars ih =>
    intro sc h
    rw [List.foldl_cons]
    apply ih
    unfold captureStep
    split
    · exact insertAL_nodup _ _ _ h
    · exact h

/-! ### the environment a function body runs in -/

/-- the self-reference frame: the function's display name ↦ the function, unless the captured
    scope already has that name -/
def selfFrame (names : List (Nat × String)) (id : Nat) (scope : Frame) (this : Value) : Frame :=
  match nameOf names id with
  | some n => if (lookupAL n scope).isSome then [] else [(n, this)]
  | none => []

/-- plus `inputs`, copied from the caller -/
def baseFrame (names : List (Nat × String)) (id : Nat) (scope : Frame) (this : Value)
    (inputs : Option Value) : Frame :=
  match inputs with
  | some v => insertAL "inputs" v (selfFrame names id scope this)
  | none => selfFrame names id scope this

/-- the innermost frame of a call: parameters on top of `baseFrame` -/
def callFrame (names : List (Nat × String)) (id : Nat) (scope : Frame) (this : Value)
    (inputs : Option Value) (pf : Frame) : Frame :=
  insertAll (baseFrame names id scope this inputs) pf

/-- the whole environment of the body -/
def callEnv (names : List (Nat × String)) (id : Nat) (scope : Frame) (this : Value)
    (pf : Frame) (caller : List Frame) : List Frame :=
  callFrame names id scope this (envGet caller "inputs") pf ::
    (if scope.isEmpty then caller else scope :: caller)

/-- `callFn` on a function value, when arity, depth and binding succeed: the body is evaluated
    in `callEnv`, the caller's environment is restored -/
theorem callFn_lambda_eq (ops : NumOps) (fuel id : Nat) (ps : List LArg) (body : Expr) (scope : Frame)
    (this : Value) (args : List Value) (depth : Nat) (s : ES) (pf : Frame)
    (ha : checkArity (lambdaArity ps) args.length = .ok ()) (hd : ¬ depth > MAX_DEPTH)
    (hb : bindParams ps args = .ok pf) :
    callFn ops (fuel + 1) (.lambda id ps body scope) this args depth s =
      ((eval ops fuel (depth + 1) body { s with env := callEnv s.names id scope this pf s.env }).1,
       { (eval ops fuel (depth + 1) body { s with env := callEnv s.names id scope this pf s.env }).2
          with env := s.env }) := by
  rw [callFn, ha]
  simp only [hd, if_false, hb]
  rfl

theorem envGet_cons (f : Frame) (rest : List Frame) (x : String) :
    envGet (f :: rest) x = match lookupAL x f with | some v => some v | none => envGet rest x := rfl

theorem lookup_selfFrame (names : List (Nat × String)) (id : Nat) (scope : Frame) (this : Value) (x : String) :
    lookupAL x (selfFrame names id scope this) =
      if nameOf names id = some x ∧ lookupAL x scope = none then some this else none := by
  unfold selfFrame
  cases hn : nameOf names id with
  | none => simp [lookupAL]
  | some n =>
    by_cases hnx : n = x
    · subst hnx
      cases hs : lookupAL n scope <;> simp [lookupAL, hs]
    · have : ¬ (some n = some x ∧ lookupAL x scope = none) := by
        intro h; exact hnx (Option.some.inj h.1)
      rw [if_neg this]
      simp only
      split <;> simp [lookupAL, hnx]

/-- name resolution inside a call: parameters, then `inputs` of the caller, then the
    function's own name (if it has one and did not capture something under it), then the
    captured scope, then the caller's environment -/
theorem envGet_callEnv (names : List (Nat × String)) (id : Nat) (scope : Frame) (this : Value)
    (pf : Frame) (caller : List Frame) (x : String) :
    envGet (callEnv names id scope this pf caller) x =
      match lookupAL x pf.reverse with
      | some v => some v
      | none =>
        if x = "inputs" ∧ (envGet caller "inputs").isSome then envGet caller "inputs"
        else if nameOf names id = some x ∧ lookupAL x scope = none then some this
        else match lookupAL x scope with
          | some v => some v
          | none => envGet caller x := by
  unfold callEnv callFrame
  rw [envGet_cons, lookupAL_insertAll]
  cases hp : lookupAL x pf.reverse with
  | some v => rfl
  | none =>
    simp only
    have hparent : envGet (if scope.isEmpty then caller else scope :: caller) x =
        match lookupAL x scope with | some v => some v | none => envGet caller x := by
      cases scope with
      | nil => simp [lookupAL]
      | cons a b => simp [envGet_cons]
    rw [hparent]
    unfold baseFrame
    cases hi : envGet caller "inputs" with
    | none =>
      simp only [Option.isSome_none, Bool.false_eq_true, and_false, if_false, lookup_selfFrame]
      by_cases hc : nameOf names id = some x ∧ lookupAL x scope = none
      · rw [if_pos hc, if_pos hc]
      · rw [if_neg hc, if_neg hc]
    | some iv =>
      simp only [Option.isSome_some, and_true]
      by_cases hx : x = "inputs"
      · subst hx; simp [lookupAL_insertAL_self]
      · rw [lookupAL_insertAL_ne "inputs" x iv hx, lookup_selfFrame, if_neg hx]
        by_cases hc : nameOf names id = some x ∧ lookupAL x scope = none
        · rw [if_pos hc, if_pos hc]
        · rw [if_neg hc, if_neg hc]

/-- two environments whose frames are pairwise permutations of each other (distinct keys) -/
inductive FramesPerm : List Frame → List Frame → Prop
  | nil : FramesPerm [] []
  | cons {f f' : Frame} {env env' : List Frame} : (f.map Prod.fst).Nodup → f.Perm f' →
      FramesPerm env env' → FramesPerm (f :: env) (f' :: env')

theorem envGet_framesPerm (k : String) {env env' : List Frame} (h : FramesPerm env env') :
    envGet env k = envGet env' k := by
  induction h with
  | nil => rfl
  | cons h1 h2 _ ih => simp only [envGet]; rw [frame_lookup_perm k h1 h2, ih]

/-- keys of the frame `bindParams` builds: the parameter names -/
theorem bindParams_lookup_isSome (ps : List LArg) (args : List Value) (pf : Frame)
    (hb : bindParams ps args = .ok pf) (x : String) (hx : x ∈ ps.map LArg.name) :
    (lookupAL x pf.reverse).isSome := by
  rw [bindParams_eq] at hb
  split at hb
  · cases hb
    have hnd := insertAll_nodup (paramPairs args ps 0) [] (by simp)
    rw [← frame_lookup_perm x hnd (List.reverse_perm _).symm, lookupAL_insertAll]
    have : lookupAL x (paramPairs args ps 0).reverse ≠ none := by
      rw [Ne, lookupAL_eq_none_iff, List.map_reverse, List.mem_reverse, paramPairs_keys]
      exact fun h => h hx
    cases h : lookupAL x (paramPairs args ps 0).reverse with
    | none => exact absurd h this
    | some v => rfl
  · cases hb

/-- the environments of the body in two calls of the same function with the same arguments
    from two call sites agree on every name that is resolved before the caller's frames -/
theorem callEnv_agree (names : List (Nat × String)) (id : Nat) (scope : Frame) (this : Value)
    (pf : Frame) (caller caller' : List Frame)
    (hin : envGet caller "inputs" = envGet caller' "inputs") (x : String)
    (hx : (lookupAL x pf.reverse).isSome ∨ (lookupAL x scope).isSome ∨ nameOf names id = some x ∨
          x = "inputs") :
    envGet (callEnv names id scope this pf caller) x = envGet (callEnv names id scope this pf caller') x := by
  rw [envGet_callEnv, envGet_callEnv, ← hin]
  cases hp : lookupAL x pf.reverse with
  | some v => rfl
  | none =>
    simp only
    by_cases h1 : x = "inputs" ∧ (envGet caller "inputs").isSome
    · rw [if_pos h1, if_pos h1]
    · rw [if_neg h1, if_neg h1]
      by_cases h2 : nameOf names id = some x ∧ lookupAL x scope = none
      · rw [if_pos h2, if_pos h2]
      · rw [if_neg h2, if_neg h2]
        cases hs : lookupAL x scope with
        | some v => rfl
        | none =>
          simp only
          rcases hx with h | h | h | h
          · rw [hp] at h; cases h
          · rw [hs] at h; cases h
          · exact absurd ⟨h, hs⟩ h2
          · subst h
            -- `inputs` not bound by the caller (else h1): both callers answer `none`… only if
            -- both lookups are the same, which is `hin`
            exact hin

/-- the coincidence property of ONE body at one fuel and depth: its outcome depends on the
    state only through the id counter, the display names, `inputs` and the values of the names
    free in it.  (False for some bodies — see the examples in Props/C04.lean: an assignment
    that is not a do-block statement looks at every frame of the caller; a call of a function
    value with unbound free names reads them from the caller.) -/
def Coincidence (ops : NumOps) (fuel depth : Nat) (body : Expr) : Prop :=
  ∀ (s s' : ES), s.nextId = s'.nextId → s.names = s'.names →
    envGet s.env "inputs" = envGet s'.env "inputs" →
    (∀ x, FreeIn x body → envGet s.env x = envGet s'.env x) →
    (eval ops fuel depth body s).1 = (eval ops fuel depth body s').1

/-- every name free in the body is a parameter, captured, the function's own name, or `inputs` -/
def ClosedFn (names : List (Nat × String)) (id : Nat) (ps : List LArg) (body : Expr) (scope : Frame) : Prop :=
  ∀ x, FreeIn x body → x ∈ ps.map LArg.name ∨ (lookupAL x scope).isSome ∨ nameOf names id = some x ∨
    x = "inputs"

end Blots
