import Blots.Lemmas.Units
import Blots.Lemmas.Rounding
/-
  Rounding analysis of `units::convert` (C17) under the standard model of floating-point
  arithmetic `RoundingModel ops u` of `Lemmas/Rounding.lean`.

  The float conversion is `fromBaseF ops b (toBaseF ops a x)`:

      linear a      → linear b       (x * ca) / cb            exact  x·qa / qb
      linear a      → reciprocal b   cb / (x * ca)                   qb / (x·qa)
      reciprocal a  → linear b       (ca / x) / cb                   (qa / x) / qb
      reciprocal a  → reciprocal b   cb / (ca / x)                   qb / (qa / x)
      temperature   → temperature    `fromK (toK x)`, see `TempFn.evalF`

  where `ca`, `cb` are the doubles of the table and `qa`, `qb` the exact rationals of the source
  literals.  Every kind of the first four performs TWO rounded operations and uses TWO rounded
  coefficients, and — this is the point — some of the rounded quantities are DIVIDED by.

  Why the bound is `(1-u)^-k − 1` and not `(1+u)^k − 1`.  A factor `1/(1+δ)`, `|δ| ≤ u`, can
  be as large as `1/(1-u) = 1 + u + u² + …  >  1 + u`, so "`(1+u)^k − 1` with `k` = number of
  roundings" is false as soon as one rounded quantity is in a denominator (already for `k = 1`).
  The classical remedy (Higham, Lemma 3.1) is a class of factors closed under inversion:

      Near u n θ   :=   (1-u)^n ≤ θ ≤ 1/(1-u)^n

  contains `(1+δ)` and `1/(1+δ)` for `n = 1`, is closed under products (`n` adds up) and under
  inverses (same `n`).  `G u n = (1-u)^-n − 1` is the resulting relative error, and
  `G u n ≤ γₙ = n·u/(1 − n·u)` (`G_le_gamma`), `G u n ≤ (1+u)^(2n) − 1` for `u ≤ 1/2`
  (`G_le_E_double`).
-/
namespace Blots.Units
open Blots Blots.Gen

/-! ### pure rational arithmetic: factors close to one -/

/-- relative error of `n` factors `(1+δ)^{±1}`, `|δ| ≤ u`: `(1-u)^-n − 1` -/
def G (u : ℚ) (n : ℕ) : ℚ := ((1 - u) ^ n)⁻¹ - 1

/-- `θ` is a product of (at most) `n` factors `(1+δ)^{±1}` with `|δ| ≤ u` -/
def Near (u : ℚ) (n : ℕ) (θ : ℚ) : Prop := (1 - u) ^ n ≤ θ ∧ θ ≤ ((1 - u) ^ n)⁻¹

theorem pow_one_sub_pos {u : ℚ} (hu1 : u < 1) (n : ℕ) : 0 < (1 - u) ^ n :=
  pow_pos (by linarith) n

theorem pow_one_sub_le_one {u : ℚ} (hu : 0 ≤ u) (hu1 : u < 1) (n : ℕ) : (1 - u) ^ n ≤ 1 :=
  pow_le_one₀ (by linarith) (by linarith)

theorem G_zero (u : ℚ) : G u 0 = 0 := by simp [G]

theorem G_nonneg {u : ℚ} (hu : 0 ≤ u) (hu1 : u < 1) (n : ℕ) : 0 ≤ G u n := by
  unfold G
  have h1 := pow_one_sub_pos hu1 n
  have h2 := pow_one_sub_le_one hu hu1 n
  have : 1 ≤ ((1 - u) ^ n)⁻¹ := (one_le_inv₀ h1).mpr h2
  linarith

theorem G_mono {u : ℚ} (hu : 0 ≤ u) (hu1 : u < 1) {n m : ℕ} (h : n ≤ m) : G u n ≤ G u m := by
  unfold G
  have h1 := pow_one_sub_pos hu1 m
  have h2 : (1 - u) ^ m ≤ (1 - u) ^ n := pow_le_pow_of_le_one (by linarith) (by linarith) h
  have := inv_anti₀ h1 h2
  linarith

/-- `(1-u)^-n − 1 ≤ γₙ = n·u / (1 − n·u)` when `n·u < 1` (Bernoulli) -/
theorem G_le_gamma {u : ℚ} (hu : 0 ≤ u) (hu1 : u < 1) (n : ℕ) (hn : (n : ℚ) * u < 1) :
    G u n ≤ (n : ℚ) * u / (1 - (n : ℚ) * u) := by
  have key : ∀ m : ℕ, 1 - (m : ℚ) * u ≤ (1 - u) ^ m := by
    intro m
    induction m with
    | zero => simp
    | succ m ih =>
      push_cast
      have h0 : (0 : ℚ) ≤ 1 - u := by linarith
      have hm : (0 : ℚ) ≤ (m : ℚ) := Nat.cast_nonneg m
      calc 1 - ((m : ℚ) + 1) * u ≤ (1 - (m : ℚ) * u) * (1 - u) := by nlinarith [mul_nonneg hm (mul_nonneg hu hu)]
        _ ≤ (1 - u) ^ m * (1 - u) := mul_le_mul_of_nonneg_right ih h0
        _ = (1 - u) ^ (m + 1) := by ring
  have hd : 0 < 1 - (n : ℚ) * u := by linarith
  have h1 := inv_anti₀ hd (key n)
  unfold G
  have : (n : ℚ) * u / (1 - (n : ℚ) * u) = (1 - (n : ℚ) * u)⁻¹ - 1 := by
    field_simp; ring
  rw [this]
  linarith

/-- in terms of the `(1+u)^k − 1` of `Lemmas/Rounding.lean`: twice the count suffices -/
theorem G_le_E_double {u : ℚ} (hu : 0 ≤ u) (hu2 : u ≤ 1 / 2) (n : ℕ) :
    G u n ≤ Rounding.E u (2 * n) := by
  have hu1 : u < 1 := by linarith
  have hp := pow_one_sub_pos hu1 n
  have hb : 1 ≤ (1 - u) * (1 + u) ^ 2 := by nlinarith [mul_nonneg hu hu, mul_nonneg hu (mul_nonneg hu hu)]
  have h1 : 1 ≤ (1 - u) ^ n * ((1 + u) ^ 2) ^ n := by
    rw [← mul_pow]; exact one_le_pow₀ hb
  unfold G Rounding.E
  rw [pow_mul]
  have : ((1 - u) ^ n)⁻¹ ≤ ((1 + u) ^ 2) ^ n := by
    rw [inv_le_iff_one_le_mul₀ hp]; linarith
  linarith

theorem near_one (u : ℚ) : Near u 0 1 := by simp [Near]

theorem Near.pos {u θ : ℚ} {n : ℕ} (hu1 : u < 1) (h : Near u n θ) : 0 < θ :=
  lt_of_lt_of_le (pow_one_sub_pos hu1 n) h.1

theorem Near.ne_zero {u θ : ℚ} {n : ℕ} (hu1 : u < 1) (h : Near u n θ) : θ ≠ 0 :=
  ne_of_gt (h.pos hu1)

theorem Near.mono {u θ : ℚ} {n m : ℕ} (hu : 0 ≤ u) (hu1 : u < 1) (h : Near u n θ) (hnm : n ≤ m) :
    Near u m θ := by
  have h2 : (1 - u) ^ m ≤ (1 - u) ^ n := pow_le_pow_of_le_one (by linarith) (by linarith) hnm
  exact ⟨h2.trans h.1, h.2.trans (inv_anti₀ (pow_one_sub_pos hu1 m) h2)⟩

theorem Near.mul {u θ₁ θ₂ : ℚ} {n m : ℕ} (hu1 : u < 1) (h₁ : Near u n θ₁) (h₂ : Near u m θ₂) :
    Near u (n + m) (θ₁ * θ₂) := by
  have p1 := pow_one_sub_pos hu1 n
  have p2 := pow_one_sub_pos hu1 m
  refine ⟨?_, ?_⟩
  · rw [pow_add]
    exact mul_le_mul h₁.1 h₂.1 p2.le ((h₁.pos hu1).le)
  · rw [pow_add, mul_inv]
    exact mul_le_mul h₁.2 h₂.2 ((h₂.pos hu1).le) (inv_pos.mpr p1).le

theorem Near.inv {u θ : ℚ} {n : ℕ} (hu1 : u < 1) (h : Near u n θ) : Near u n θ⁻¹ := by
  have p := pow_one_sub_pos hu1 n
  refine ⟨?_, inv_anti₀ p h.1⟩
  have := inv_anti₀ (h.pos hu1) h.2
  rwa [inv_inv] at this

theorem Near.div {u θ₁ θ₂ : ℚ} {n m : ℕ} (hu1 : u < 1) (h₁ : Near u n θ₁) (h₂ : Near u m θ₂) :
    Near u (n + m) (θ₁ / θ₂) := by
  rw [div_eq_mul_inv]; exact h₁.mul hu1 (h₂.inv hu1)

/-- one rounding: `1 + δ` with `|δ| ≤ u` -/
theorem near_round {u δ : ℚ} (hu : 0 ≤ u) (hu1 : u < 1) (hδ : |δ| ≤ u) : Near u 1 (1 + δ) := by
  have ⟨h1, h2⟩ := abs_le.mp hδ
  have hp : 0 < 1 - u := by linarith
  refine ⟨by rw [pow_one]; linarith, ?_⟩
  rw [pow_one, ← one_div, le_div_iff₀ hp]
  nlinarith [mul_nonneg hu hu]

theorem Near.abs_sub_one {u θ : ℚ} {n : ℕ} (hu : 0 ≤ u) (hu1 : u < 1) (h : Near u n θ) :
    |θ - 1| ≤ G u n := by
  have p := pow_one_sub_pos hu1 n
  have p1 := pow_one_sub_le_one hu hu1 n
  unfold G
  rw [abs_le]
  refine ⟨?_, by linarith [h.2]⟩
  -- 1 − p ≤ 1/p − 1
  have : 2 - (1 - u) ^ n ≤ ((1 - u) ^ n)⁻¹ := by
    rw [← one_div, le_div_iff₀ p]
    nlinarith [sq_nonneg (1 - (1 - u) ^ n)]
  linarith [h.1]

/-- the relative-error reading of `a = b·θ` -/
theorem Near.error {u θ a b : ℚ} {n : ℕ} (hu : 0 ≤ u) (hu1 : u < 1) (h : Near u n θ)
    (hab : a = b * θ) : |a - b| ≤ G u n * |b| := by
  have : a - b = (θ - 1) * b := by rw [hab]; ring
  rw [this, abs_mul]
  exact mul_le_mul_of_nonneg_right (h.abs_sub_one hu hu1) (abs_nonneg _)

/-! ### doubles -/

/-- `x == 0.0` only for the two zeros -/
theorem toRat_eq_zero_of_feq_zero (x : F64) (h : F64.feq x F64.zero = true) : x.toRat = 0 := by
  have hz : F64.zero.key = 0 := by decide
  unfold F64.feq at h
  simp only [Bool.and_eq_true, beq_iff_eq, hz] at h
  have hk := h.2
  rw [F64.key_eq] at hk
  have hm : x.nbits % 2 ^ 63 = 0 := by
    split at hk <;> omega
  have hE : x.expField = 0 := by unfold F64.expField; omega
  have hF : x.frac = 0 := by unfold F64.frac; omega
  unfold F64.toRat
  rw [F64.ratio_subnormal x hE, hF]
  simp only [Nat.cast_zero, zero_div, mul_zero]

theorem feq_zero_false_of_toRat_ne (x : F64) (h : x.toRat ≠ 0) : F64.feq x F64.zero = false := by
  cases hf : F64.feq x F64.zero with
  | false => rfl
  | true => exact absurd (toRat_eq_zero_of_feq_zero x hf) h

/-! ### accuracy of the coefficients of the table -/

/-- the double `bits` is finite and within relative distance `u` of the positive rational `q` -/
def CoefOk (u q : ℚ) (bits : Nat) : Prop :=
  0 < q ∧ (coefF bits).isFinite = true ∧ |(coefF bits).toRat - q| ≤ u * q

def ConvAccurate (u : ℚ) : Conv → Prop
  | .linear n d bits _ => CoefOk u (coefQ n d) bits
  | .reciprocal n d bits _ => CoefOk u (coefQ n d) bits
  | .temperature _ _ => True

/-- EVERY coefficient double of the generated table is within relative distance `u` of the exact
    value of its source expression (for `u = 2^-53`: `table_coef_accurate`, checked row by row
    in the kernel) -/
def CoefAccurate (u : ℚ) : Prop := ∀ r ∈ units, ConvAccurate u r.conv

theorem ConvAccurate.mono {u v : ℚ} (huv : u ≤ v) {c : Conv} (h : ConvAccurate u c) :
    ConvAccurate v c := by
  cases c with
  | temperature _ _ => trivial
  | linear n d bits p =>
    obtain ⟨h1, h2, h3⟩ := h
    exact ⟨h1, h2, h3.trans (mul_le_mul_of_nonneg_right huv h1.le)⟩
  | reciprocal n d bits p =>
    obtain ⟨h1, h2, h3⟩ := h
    exact ⟨h1, h2, h3.trans (mul_le_mul_of_nonneg_right huv h1.le)⟩

theorem CoefAccurate.mono {u v : ℚ} (huv : u ≤ v) (h : CoefAccurate u) : CoefAccurate v :=
  fun r hr => (h r hr).mono huv

/-- the integer form of `CoefOk 2^-53`, evaluated by the kernel on every row:
    with `|c| = m/e` and `q = n/d`:  `|m·d − n·e| · 2^53 ≤ n·e` -/
def coefAccBits (n : Int) (d : Nat) (bits : Nat) : Bool :=
  let c := coefF bits
  decide (0 < n) && decide (0 < d) && c.isFinite && !c.neg && decide (0 < c.ratio.2) &&
    decide (((c.ratio.1 : Int) * d - n * c.ratio.2).natAbs * 2 ^ 53 ≤ n.natAbs * c.ratio.2)

def coefAccOk : Conv → Bool
  | .linear n d bits _ => coefAccBits n d bits
  | .reciprocal n d bits _ => coefAccBits n d bits
  | .temperature _ _ => true

theorem coefAccBits_spec (n : Int) (d : Nat) (bits : Nat) (h : coefAccBits n d bits = true) :
    CoefOk u64 (coefQ n d) bits := by
  unfold coefAccBits at h
  simp only [Bool.and_eq_true, decide_eq_true_eq, Bool.not_eq_true'] at h
  obtain ⟨⟨⟨⟨⟨hn, hd⟩, hfin⟩, hneg⟩, he⟩, hle⟩ := h
  set c := coefF bits
  have hnq : (0 : ℚ) < (n : ℚ) := by exact_mod_cast hn
  have hdq : (0 : ℚ) < (d : ℚ) := by exact_mod_cast hd
  have heq : (0 : ℚ) < (c.ratio.2 : ℚ) := by exact_mod_cast he
  have hq : 0 < coefQ n d := by unfold coefQ; positivity
  refine ⟨hq, hfin, ?_⟩
  have hc : c.toRat = (c.ratio.1 : ℚ) / (c.ratio.2 : ℚ) := by
    unfold F64.toRat; rw [hneg]; simp
  have hle' : ((((c.ratio.1 : Int) * d - n * c.ratio.2).natAbs * 2 ^ 53 : ℕ) : ℚ) ≤
      ((n.natAbs * c.ratio.2 : ℕ) : ℚ) := by exact_mod_cast hle
  have hnat : ((n.natAbs : ℕ) : ℚ) = (n : ℚ) := by
    rw [Nat.cast_natAbs, abs_of_pos hn]
  have habs : ((((c.ratio.1 : Int) * d - n * c.ratio.2).natAbs : ℕ) : ℚ) =
      |(c.ratio.1 : ℚ) * d - n * c.ratio.2| := by
    rw [Nat.cast_natAbs]; push_cast; rfl
  push_cast at hle'
  rw [hnat, habs] at hle'
  have e1 : c.toRat - coefQ n d =
      ((c.ratio.1 : ℚ) * d - n * c.ratio.2) / ((c.ratio.2 : ℚ) * d) := by
    rw [hc]; unfold coefQ; field_simp
  rw [e1, abs_div, abs_of_pos (by positivity : (0 : ℚ) < (c.ratio.2 : ℚ) * d),
    div_le_iff₀ (by positivity)]
  unfold u64 coefQ
  have e2 : (1 : ℚ) / 2 ^ 53 * ((n : ℚ) / d) * ((c.ratio.2 : ℚ) * d) =
      (n : ℚ) * c.ratio.2 / 2 ^ 53 := by field_simp
  rw [e2, le_div_iff₀ (by positivity)]
  exact hle'

theorem coefAccOk_spec (c : Conv) (h : coefAccOk c = true) : ConvAccurate u64 c := by
  cases c with
  | temperature _ _ => trivial
  | linear n d bits p => exact coefAccBits_spec n d bits h
  | reciprocal n d bits p => exact coefAccBits_spec n d bits h

/-- whole generated table: every coefficient double is within `2^-53` (relative) of the exact
    rational of the source expression — including the four computed ones (`1.0 / 60.0`, …) -/
theorem table_coef_accurate : CoefAccurate u64 := by
  have h : units.all (fun r => coefAccOk r.conv) = true := by decide +kernel
  exact fun r hr => coefAccOk_spec r.conv (List.all_eq_true.mp h r hr)

theorem u64_nonneg : (0 : ℚ) ≤ u64 := by unfold u64; positivity

/-- a coefficient as a factor: `c = q·ε`, `ε` one rounding away from 1 -/
theorem CoefOk.near {u q : ℚ} {bits : Nat} (hu : 0 ≤ u) (hu1 : u < 1) (h : CoefOk u q bits) :
    ∃ ε, Near u 1 ε ∧ (coefF bits).toRat = q * ε := by
  obtain ⟨hq, _, hb⟩ := h
  refine ⟨1 + ((coefF bits).toRat - q) / q, near_round hu hu1 ?_, by field_simp; ring⟩
  rw [abs_div, abs_of_pos hq, div_le_iff₀ hq]
  exact hb

theorem CoefOk.toRat_ne_zero {u q : ℚ} {bits : Nat} (hu : 0 ≤ u) (hu1 : u < 1)
    (h : CoefOk u q bits) : (coefF bits).toRat ≠ 0 := by
  obtain ⟨ε, hε, e⟩ := h.near hu hu1
  rw [e]
  exact mul_ne_zero (ne_of_gt h.1) (hε.ne_zero hu1)

/-! ### one rounded operation as a factor -/

theorem mul_near {ops : NumOps} {u : ℚ} (M : RoundingModel ops u) (a b : F64)
    (ha : a.isFinite = true) (hb : b.isFinite = true) (hf : (ops.mul a b).isFinite = true)
    (hn : NoUnderflow (a.toRat * b.toRat)) :
    ∃ δ, Near u 1 δ ∧ (ops.mul a b).toRat = a.toRat * b.toRat * δ := by
  obtain ⟨δ, hδ, e⟩ := M.mul a b ha hb hf hn
  exact ⟨1 + δ, near_round M.u_nonneg M.u_lt_one hδ, e⟩

theorem div_near {ops : NumOps} {u : ℚ} (M : RoundingModel ops u) (a b : F64)
    (ha : a.isFinite = true) (hb : b.isFinite = true) (hb0 : b.toRat ≠ 0)
    (hf : (ops.div a b).isFinite = true) (hn : NoUnderflow (a.toRat / b.toRat)) :
    ∃ δ, Near u 1 δ ∧ (ops.div a b).toRat = a.toRat / b.toRat * δ := by
  obtain ⟨δ, hδ, e⟩ := M.div a b ha hb hb0 hf hn
  exact ⟨1 + δ, near_round M.u_nonneg M.u_lt_one hδ, e⟩

/-! ### temperature: additions and subtractions, so the error is ABSOLUTE

  The standard model of `Lemmas/Rounding.lean` has no field for `-` (the aggregates do not
  subtract); `RoundingModelSub` adds it.  Errors are tracked as
  `Approx u n v w m`:  `|v − w| ≤ G u n · m`  with `m` a bound of the magnitudes involved
  (`|w| ≤ m`; `m` only grows by the absolute values of what is added), which is the shape of
  Higham's bound for recursive summation: `n` roundings on a sum of terms of total size `m`. -/

/-- the standard model with subtraction -/
structure RoundingModelSub (ops : NumOps) (u : ℚ) : Prop extends RoundingModel ops u where
  sub : ∀ a b : F64, a.isFinite = true → b.isFinite = true → (ops.sub a b).isFinite = true →
    ∃ δ : ℚ, |δ| ≤ u ∧ (ops.sub a b).toRat = (a.toRat - b.toRat) * (1 + δ)

/-- the double `v` approximates the rational `w` with `n` roundings at magnitude `m` -/
def Approx (u : ℚ) (n : ℕ) (v : F64) (w m : ℚ) : Prop :=
  v.isFinite = true ∧ |v.toRat - w| ≤ G u n * m ∧ |w| ≤ m

theorem Approx.m_nonneg {u : ℚ} {n : ℕ} {v : F64} {w m : ℚ} (h : Approx u n v w m) : 0 ≤ m :=
  (abs_nonneg w).trans h.2.2

theorem Approx.mono {u : ℚ} {n k : ℕ} {v : F64} {w m : ℚ} (hu : 0 ≤ u) (hu1 : u < 1)
    (h : Approx u n v w m) (hnk : n ≤ k) : Approx u k v w m :=
  ⟨h.1, h.2.1.trans (mul_le_mul_of_nonneg_right (G_mono hu hu1 hnk) h.m_nonneg), h.2.2⟩

theorem approx_exact {u : ℚ} {v : F64} {w : ℚ} (hf : v.isFinite = true) (hw : v.toRat = w) :
    Approx u 0 v w |w| := by
  refine ⟨hf, ?_, le_refl _⟩
  rw [hw, sub_self, abs_zero, G_zero, zero_mul]

theorem G_step {u : ℚ} (hu : 0 ≤ u) (hu1 : u < 1) (n : ℕ) : G u n * (1 + u) + u ≤ G u (n + 1) := by
  unfold G
  have hp := pow_one_sub_pos hu1 n
  have h1 : 0 < 1 - u := by linarith
  set P := ((1 - u) ^ n)⁻¹ with hP
  have hPpos : 0 < P := inv_pos.mpr hp
  have e : ((1 - u) ^ (n + 1))⁻¹ = P / (1 - u) := by
    rw [pow_succ, mul_inv, hP, div_eq_mul_inv]
  rw [e]
  have : P * (1 + u) ≤ P / (1 - u) := by
    rw [le_div_iff₀ h1]
    nlinarith [mul_nonneg hPpos.le (mul_nonneg hu hu)]
  linarith

/-- one rounding of a quantity `r` that is within `G u n · m` of `R`, `|R| ≤ m` -/
theorem round_step {u δ r R m fl : ℚ} {n : ℕ} (hu : 0 ≤ u) (hu1 : u < 1) (hδ : |δ| ≤ u)
    (hfl : fl = r * (1 + δ)) (hr : |r - R| ≤ G u n * m) (hR : |R| ≤ m) :
    |fl - R| ≤ G u (n + 1) * m := by
  have hm : 0 ≤ m := (abs_nonneg R).trans hR
  have hG := G_nonneg hu hu1 n
  have h3 : |1 + δ| ≤ 1 + u := by
    calc |1 + δ| ≤ |1| + |δ| := abs_add_le _ _
      _ ≤ 1 + u := by rw [abs_one]; linarith
  have e : fl - R = (r - R) * (1 + δ) + R * δ := by rw [hfl]; ring
  rw [e]
  calc |(r - R) * (1 + δ) + R * δ| ≤ |(r - R) * (1 + δ)| + |R * δ| := abs_add_le _ _
    _ = |r - R| * |1 + δ| + |R| * |δ| := by rw [abs_mul, abs_mul]
    _ ≤ G u n * m * (1 + u) + m * u := by
        have a1 := mul_le_mul hr h3 (abs_nonneg _) (mul_nonneg hG hm)
        have a2 := mul_le_mul hR hδ (abs_nonneg _) hm
        linarith
    _ = (G u n * (1 + u) + u) * m := by ring
    _ ≤ G u (n + 1) * m := mul_le_mul_of_nonneg_right (G_step hu hu1 n) hm

theorem Approx.add {ops : NumOps} {u : ℚ} (M : RoundingModel ops u) {n : ℕ} {a b : F64}
    {A B ma mb : ℚ} (ha : Approx u n a A ma) (hb : Approx u n b B mb)
    (hf : (ops.add a b).isFinite = true) :
    Approx u (n + 1) (ops.add a b) (A + B) (ma + mb) := by
  obtain ⟨δ, hδ, e⟩ := M.add a b ha.1 hb.1 hf
  have hR : |A + B| ≤ ma + mb := (abs_add_le _ _).trans (add_le_add ha.2.2 hb.2.2)
  refine ⟨hf, round_step M.u_nonneg M.u_lt_one hδ e ?_ hR, hR⟩
  have : a.toRat + b.toRat - (A + B) = (a.toRat - A) + (b.toRat - B) := by ring
  rw [this]
  refine (abs_add_le _ _).trans ?_
  have := ha.2.1; have := hb.2.1
  linarith

theorem Approx.sub {ops : NumOps} {u : ℚ} (S : RoundingModelSub ops u) {n : ℕ} {a b : F64}
    {A B ma mb : ℚ} (ha : Approx u n a A ma) (hb : Approx u n b B mb)
    (hf : (ops.sub a b).isFinite = true) :
    Approx u (n + 1) (ops.sub a b) (A - B) (ma + mb) := by
  obtain ⟨δ, hδ, e⟩ := S.sub a b ha.1 hb.1 hf
  have hR : |A - B| ≤ ma + mb := (abs_sub _ _).trans (add_le_add ha.2.2 hb.2.2)
  refine ⟨hf, round_step S.u_nonneg S.u_lt_one hδ e ?_ hR, hR⟩
  have : a.toRat - b.toRat - (A - B) = (a.toRat - A) - (b.toRat - B) := by ring
  rw [this]
  refine (abs_sub _ _).trans ?_
  have := ha.2.1; have := hb.2.1
  linarith

/-- multiplication by an exactly represented positive constant -/
theorem Approx.mulC {ops : NumOps} {u : ℚ} (M : RoundingModel ops u) {n : ℕ} {a k : F64}
    {A ma K : ℚ} (ha : Approx u n a A ma) (hk : k.isFinite = true) (hK : k.toRat = K)
    (hK0 : 0 < K) (hf : (ops.mul a k).isFinite = true) (hn : NoUnderflow (a.toRat * K)) :
    Approx u (n + 1) (ops.mul a k) (A * K) (ma * K) := by
  obtain ⟨δ, hδ, e⟩ := M.mul a k ha.1 hk hf (by rw [hK]; exact hn)
  rw [hK] at e
  have hR : |A * K| ≤ ma * K := by
    rw [abs_mul, abs_of_pos hK0]; exact mul_le_mul_of_nonneg_right ha.2.2 hK0.le
  refine ⟨hf, round_step M.u_nonneg M.u_lt_one hδ e ?_ hR, hR⟩
  have : a.toRat * K - A * K = (a.toRat - A) * K := by ring
  rw [this, abs_mul, abs_of_pos hK0, ← mul_assoc]
  exact mul_le_mul_of_nonneg_right ha.2.1 hK0.le

/-- division by an exactly represented positive constant -/
theorem Approx.divC {ops : NumOps} {u : ℚ} (M : RoundingModel ops u) {n : ℕ} {a k : F64}
    {A ma K : ℚ} (ha : Approx u n a A ma) (hk : k.isFinite = true) (hK : k.toRat = K)
    (hK0 : 0 < K) (hf : (ops.div a k).isFinite = true) (hn : NoUnderflow (a.toRat / K)) :
    Approx u (n + 1) (ops.div a k) (A / K) (ma / K) := by
  obtain ⟨δ, hδ, e⟩ := M.div a k ha.1 hk (by rw [hK]; exact ne_of_gt hK0) hf
    (by rw [hK]; exact hn)
  rw [hK] at e
  have hR : |A / K| ≤ ma / K := by
    rw [abs_div, abs_of_pos hK0]; exact div_le_div_of_nonneg_right ha.2.2 hK0.le
  refine ⟨hf, round_step M.u_nonneg M.u_lt_one hδ e ?_ hR, hR⟩
  have : a.toRat / K - A / K = (a.toRat - A) / K := by ring
  rw [this, abs_div, abs_of_pos hK0, mul_div_assoc']
  exact div_le_div_of_nonneg_right ha.2.1 hK0.le

/-- the literals of the temperature functions as `rustc` holds them -/
def kC : F64 := F64.ofNatBits 0x4071126666666666     -- 273.15
def k32 : F64 := F64.ofNatBits 0x4040000000000000    -- 32.0
def k5 : F64 := F64.ofNatBits 0x4014000000000000     -- 5.0
def k9 : F64 := F64.ofNatBits 0x4022000000000000     -- 9.0

theorem toRat_of_ratio (x : F64) (m e : Nat) (hneg : x.neg = false) (hr : x.ratio = (m, e)) :
    x.toRat = (m : ℚ) / (e : ℚ) := by
  unfold F64.toRat; rw [hneg, hr]; simp

theorem k32_spec : k32.isFinite = true ∧ k32.toRat = 32 := by
  refine ⟨by decide +kernel, ?_⟩
  rw [toRat_of_ratio k32 (2 ^ 52) (2 ^ 47) (by decide +kernel) (by decide +kernel)]; norm_num

theorem k5_spec : k5.isFinite = true ∧ k5.toRat = 5 := by
  refine ⟨by decide +kernel, ?_⟩
  rw [toRat_of_ratio k5 (5 * 2 ^ 50) (2 ^ 50) (by decide +kernel) (by decide +kernel)]; norm_num

theorem k9_spec : k9.isFinite = true ∧ k9.toRat = 9 := by
  refine ⟨by decide +kernel, ?_⟩
  rw [toRat_of_ratio k9 (9 * 2 ^ 49) (2 ^ 49) (by decide +kernel) (by decide +kernel)]; norm_num

/-- `273.15` is not a double: the literal is within `2^-53` (relative) of it -/
theorem kC_spec : kC.isFinite = true ∧ |kC.toRat - 5463 / 20| ≤ u64 * (5463 / 20) := by
  have h : coefAccBits 5463 20 0x4071126666666666 = true := by decide +kernel
  obtain ⟨_, h2, h3⟩ := coefAccBits_spec _ _ _ h
  have e : coefQ 5463 20 = 5463 / 20 := by unfold coefQ; norm_num
  rw [e] at h3
  exact ⟨h2, h3⟩

theorem kC_approx {u : ℚ} (hu1 : u < 1) (hu64 : u64 ≤ u) :
    Approx u 1 kC (5463 / 20) (5463 / 20) := by
  have hu : 0 ≤ u := u64_nonneg.trans hu64
  obtain ⟨h1, h2⟩ := kC_spec
  refine ⟨h1, h2.trans ?_, by rw [abs_of_pos]; norm_num⟩
  have hG : u ≤ G u 1 := by
    have := G_step hu hu1 0
    rw [G_zero] at this
    linarith
  exact mul_le_mul_of_nonneg_right (hu64.trans hG) (by norm_num)

/-- side conditions of one temperature function at `x`: every intermediate result finite, the
    multiplication and the division not underflowed -/
def TempStepsOk (ops : NumOps) : TempFn → F64 → Prop
  | .kelvin_to_kelvin, _ => True
  | .celsius_to_kelvin, x => (ops.add x kC).isFinite = true
  | .kelvin_to_celsius, x => (ops.sub x kC).isFinite = true
  | .fahrenheit_to_kelvin, x =>
      (ops.sub x k32).isFinite = true ∧
      (ops.mul (ops.sub x k32) k5).isFinite = true ∧ NoUnderflow ((ops.sub x k32).toRat * 5) ∧
      (ops.div (ops.mul (ops.sub x k32) k5) k9).isFinite = true ∧
        NoUnderflow ((ops.mul (ops.sub x k32) k5).toRat / 9) ∧
      (ops.add (ops.div (ops.mul (ops.sub x k32) k5) k9) kC).isFinite = true
  | .kelvin_to_fahrenheit, x =>
      (ops.sub x kC).isFinite = true ∧
      (ops.mul (ops.sub x kC) k9).isFinite = true ∧ NoUnderflow ((ops.sub x kC).toRat * 9) ∧
      (ops.div (ops.mul (ops.sub x kC) k9) k5).isFinite = true ∧
        NoUnderflow ((ops.mul (ops.sub x kC) k9).toRat / 5) ∧
      (ops.add (ops.div (ops.mul (ops.sub x kC) k9) k5) k32).isFinite = true

/-- roundings charged to one temperature function (operations, plus one for the literal
    `273.15` where it enters first) -/
def tempCnt : TempFn → ℕ
  | .kelvin_to_kelvin => 0
  | .celsius_to_kelvin => 2
  | .kelvin_to_celsius => 2
  | .fahrenheit_to_kelvin => 4
  | .kelvin_to_fahrenheit => 5

/-- magnitude after one temperature function: the function with every term taken in absolute
    value -/
def tempMag : TempFn → ℚ → ℚ
  | .kelvin_to_kelvin, m => m
  | .celsius_to_kelvin, m => m + 5463 / 20
  | .kelvin_to_celsius, m => m + 5463 / 20
  | .fahrenheit_to_kelvin, m => (m + 32) * 5 / 9 + 5463 / 20
  | .kelvin_to_fahrenheit, m => (m + 5463 / 20) * 9 / 5 + 32

/-- one temperature function preserves the invariant -/
theorem temp_step {ops : NumOps} {u : ℚ} (S : RoundingModelSub ops u) (hu64 : u64 ≤ u)
    (f : TempFn) {n : ℕ} {v : F64} {w m : ℚ} (h : Approx u n v w m) (hs : TempStepsOk ops f v) :
    Approx u (n + tempCnt f) (f.evalF ops v) (f.evalQ w) (tempMag f m) := by
  have M := S.toRoundingModel
  have hu := M.u_nonneg
  have hu1 := M.u_lt_one
  have hC := kC_approx hu1 hu64
  have h32 : Approx u 0 k32 32 32 := by
    have := approx_exact (u := u) k32_spec.1 k32_spec.2
    rwa [abs_of_pos (by norm_num : (0 : ℚ) < 32)] at this
  cases f with
  | kelvin_to_kelvin => exact h
  | celsius_to_kelvin =>
    exact (h.mono hu hu1 (Nat.le_succ n)).add M (hC.mono hu hu1 (by omega)) hs
  | kelvin_to_celsius =>
    exact (h.mono hu hu1 (Nat.le_succ n)).sub S (hC.mono hu hu1 (by omega)) hs
  | fahrenheit_to_kelvin =>
    obtain ⟨f1, f2, n2, f3, n3, f4⟩ := hs
    have a1 := h.sub S (h32.mono hu hu1 (Nat.zero_le n)) f1
    have a2 := a1.mulC M k5_spec.1 k5_spec.2 (by norm_num) f2 n2
    have a3 := a2.divC M k9_spec.1 k9_spec.2 (by norm_num) f3 n3
    exact a3.add M (hC.mono hu hu1 (by omega)) f4
  | kelvin_to_fahrenheit =>
    obtain ⟨f1, f2, n2, f3, n3, f4⟩ := hs
    have a1 := (h.mono hu hu1 (Nat.le_succ n)).sub S (hC.mono hu hu1 (by omega)) f1
    have a2 := a1.mulC M k9_spec.1 k9_spec.2 (by norm_num) f2 n2
    have a3 := a2.divC M k5_spec.1 k5_spec.2 (by norm_num) f3 n3
    exact a3.add M (h32.mono hu hu1 (Nat.zero_le _)) f4

/-! ### range side conditions of one conversion (linear and reciprocal rows)

  "All intermediate results finite, no operation underflowed, nothing divided by zero":
  exactly the hypotheses the standard model needs for the two operations performed. -/

def isScaling : Conv → Bool
  | .temperature _ _ => false
  | _ => true

/-- side conditions of `toBaseF` on a linear / reciprocal row (temperature rows
    carry `TempStepsOk`) -/
def ToBaseOk (ops : NumOps) : Conv → F64 → Prop
  | .linear _ _ bits _, v =>
      (ops.mul v (coefF bits)).isFinite = true ∧ NoUnderflow (v.toRat * (coefF bits).toRat)
  | .reciprocal _ _ bits _, v =>
      v.toRat ≠ 0 ∧ (ops.div (coefF bits) v).isFinite = true ∧
        NoUnderflow ((coefF bits).toRat / v.toRat)
  | .temperature toK _, v => TempStepsOk ops toK v

def FromBaseOk (ops : NumOps) : Conv → F64 → Prop
  | .linear _ _ bits _, t =>
      (ops.div t (coefF bits)).isFinite = true ∧ NoUnderflow (t.toRat / (coefF bits).toRat)
  | .reciprocal _ _ bits _, t =>
      t.toRat ≠ 0 ∧ (ops.div (coefF bits) t).isFinite = true ∧
        NoUnderflow ((coefF bits).toRat / t.toRat)
  | .temperature _ fromK, t => TempStepsOk ops fromK t

/-- the side conditions of `convert` from a row with conversion `a` to one with `b` at `x` -/
def RangeOk (ops : NumOps) (a b : Conv) (x : F64) : Prop :=
  ToBaseOk ops a x ∧ FromBaseOk ops b (toBaseF ops a x)

/-- THE CORE: a conversion between linear / reciprocal rows is the exact conversion times a
    factor made of four roundings (two operations, two coefficients) -/
theorem scaling_factor {ops : NumOps} {u : ℚ} (M : RoundingModel ops u) (a b : Conv)
    (ha : ConvAccurate u a) (hb : ConvAccurate u b)
    (hsa : isScaling a = true) (hsb : isScaling b = true)
    (x : F64) (hx : x.isFinite = true) (hR : RangeOk ops a b x) :
    ∃ q θ, convQ (toQ a) (toQ b) x.toRat = some q ∧ Near u 4 θ ∧
      (fromBaseF ops b (toBaseF ops a x)).toRat = q * θ ∧
      (fromBaseF ops b (toBaseF ops a x)).isFinite = true := by
  have hu := M.u_nonneg
  have hu1 := M.u_lt_one
  obtain ⟨hT, hF⟩ := hR
  cases a with
  | temperature _ _ => simp [isScaling] at hsa
  | linear na da ba pa =>
    obtain ⟨εa, hεa, ea⟩ := CoefOk.near hu hu1 ha
    have hqa : coefQ na da ≠ 0 := ne_of_gt ha.1
    have hεa0 := hεa.ne_zero hu1
    obtain ⟨hTf, hTn⟩ := hT
    obtain ⟨δ₁, hδ₁, e₁⟩ := mul_near M x (coefF ba) hx ha.2.1 hTf hTn
    have hδ₁0 := hδ₁.ne_zero hu1
    cases b with
    | temperature _ _ => simp [isScaling] at hsb
    | linear nb db bb pb =>
      obtain ⟨εb, hεb, eb⟩ := CoefOk.near hu hu1 hb
      have hqb : coefQ nb db ≠ 0 := ne_of_gt hb.1
      have hεb0 := hεb.ne_zero hu1
      obtain ⟨hFf, hFn⟩ := hF
      obtain ⟨δ₂, hδ₂, e₂⟩ := div_near M _ (coefF bb) hTf hb.2.1
        (CoefOk.toRat_ne_zero hu hu1 hb) hFf hFn
      refine ⟨x.toRat * coefQ na da / coefQ nb db, εa * δ₁ * δ₂ / εb, rfl,
        (((hεa.mul hu1 hδ₁).mul hu1 hδ₂).div hu1 hεb), ?_, hFf⟩
      show (ops.div (ops.mul x (coefF ba)) (coefF bb)).toRat = _
      rw [e₂, e₁, ea, eb]
      field_simp
    | reciprocal nb db bb pb =>
      obtain ⟨εb, hεb, eb⟩ := CoefOk.near hu hu1 hb
      have hεb0 := hεb.ne_zero hu1
      obtain ⟨hF0, hFf, hFn⟩ := hF
      have hF0' : (ops.mul x (coefF ba)).toRat ≠ 0 := hF0
      obtain ⟨δ₂, hδ₂, e₂⟩ := div_near M (coefF bb) _ hb.2.1 hTf hF0' hFf hFn
      have hxq : x.toRat * coefQ na da ≠ 0 := by
        intro h0
        apply hF0'
        rw [e₁, ea, ← mul_assoc, h0]; simp
      have hx0 : x.toRat ≠ 0 := left_ne_zero_of_mul hxq
      refine ⟨coefQ nb db / (x.toRat * coefQ na da), εb * δ₂ / (εa * δ₁), ?_,
        ((hεb.mul hu1 hδ₂).div hu1 (hεa.mul hu1 hδ₁)), ?_, ?_⟩
      · simp [convQ, toQ, QConv.toBase, QConv.fromBase, hxq]
      · show (if F64.feq (ops.mul x (coefF ba)) F64.zero then F64.inf
          else ops.div (coefF bb) (ops.mul x (coefF ba))).toRat = _
        rw [feq_zero_false_of_toRat_ne _ hF0']
        simp only [Bool.false_eq_true, if_false]
        rw [e₂, e₁, ea, eb]
        field_simp
      · show (if F64.feq (ops.mul x (coefF ba)) F64.zero then F64.inf
          else ops.div (coefF bb) (ops.mul x (coefF ba))).isFinite = true
        rw [feq_zero_false_of_toRat_ne _ hF0']
        exact hFf
  | reciprocal na da ba pa =>
    obtain ⟨εa, hεa, ea⟩ := CoefOk.near hu hu1 ha
    have hqa : coefQ na da ≠ 0 := ne_of_gt ha.1
    have hεa0 := hεa.ne_zero hu1
    obtain ⟨hx0, hTf, hTn⟩ := hT
    obtain ⟨δ₁, hδ₁, e₁⟩ := div_near M (coefF ba) x ha.2.1 hx hx0 hTf hTn
    have hδ₁0 := hδ₁.ne_zero hu1
    have hfe := feq_zero_false_of_toRat_ne x hx0
    have hT' : toBaseF ops (.reciprocal na da ba pa) x = ops.div (coefF ba) x := by
      show (if F64.feq x F64.zero then F64.inf else ops.div (coefF ba) x) = _
      rw [hfe]; rfl
    rw [hT'] at hF ⊢
    cases b with
    | temperature _ _ => simp [isScaling] at hsb
    | linear nb db bb pb =>
      obtain ⟨εb, hεb, eb⟩ := CoefOk.near hu hu1 hb
      have hqb : coefQ nb db ≠ 0 := ne_of_gt hb.1
      have hεb0 := hεb.ne_zero hu1
      obtain ⟨hFf, hFn⟩ := hF
      obtain ⟨δ₂, hδ₂, e₂⟩ := div_near M _ (coefF bb) hTf hb.2.1
        (CoefOk.toRat_ne_zero hu hu1 hb) hFf hFn
      refine ⟨coefQ na da / x.toRat / coefQ nb db, εa * δ₁ * δ₂ / εb, ?_,
        (((hεa.mul hu1 hδ₁).mul hu1 hδ₂).div hu1 hεb), ?_, hFf⟩
      · simp [convQ, toQ, QConv.toBase, QConv.fromBase, hx0]
      · show (ops.div (ops.div (coefF ba) x) (coefF bb)).toRat = _
        rw [e₂, e₁, ea, eb]
        field_simp
    | reciprocal nb db bb pb =>
      obtain ⟨εb, hεb, eb⟩ := CoefOk.near hu hu1 hb
      have hεb0 := hεb.ne_zero hu1
      obtain ⟨hF0, hFf, hFn⟩ := hF
      obtain ⟨δ₂, hδ₂, e₂⟩ := div_near M (coefF bb) _ hb.2.1 hTf hF0 hFf hFn
      have hqx : coefQ na da / x.toRat ≠ 0 := div_ne_zero hqa hx0
      refine ⟨coefQ nb db / (coefQ na da / x.toRat), εb * δ₂ / (εa * δ₁), ?_,
        ((hεb.mul hu1 hδ₂).div hu1 (hεa.mul hu1 hδ₁)), ?_, ?_⟩
      · simp [convQ, toQ, QConv.toBase, QConv.fromBase, hx0, hqx]
      · show (if F64.feq (ops.div (coefF ba) x) F64.zero then F64.inf
          else ops.div (coefF bb) (ops.div (coefF ba) x)).toRat = _
        rw [feq_zero_false_of_toRat_ne _ hF0]
        simp only [Bool.false_eq_true, if_false]
        rw [e₂, e₁, ea, eb]
        field_simp
      · show (if F64.feq (ops.div (coefF ba) x) F64.zero then F64.inf
          else ops.div (coefF bb) (ops.div (coefF ba) x)).isFinite = true
        rw [feq_zero_false_of_toRat_ne _ hF0]
        exact hFf

/-! ### homogeneity of the exact conversions (degree `+1` or `−1`) -/

def QConv.scaling : QConv → Prop
  | .temperature _ _ => False
  | _ => True

theorem toQ_scaling {c : Conv} (h : isScaling c = true) : (toQ c).scaling := by
  cases c <;> simp [isScaling] at h <;> trivial

theorem ConvAccurate.wf {u : ℚ} {c : Conv} (h : ConvAccurate u c) (hs : isScaling c = true) :
    (toQ c).WellFormed := by
  cases c with
  | temperature _ _ => simp [isScaling] at hs
  | linear n d b p => exact ne_of_gt h.1
  | reciprocal n d b p => exact ne_of_gt h.1

/-- scaling the argument by `θ ≠ 0` scales the result by `θ` or by `1/θ` -/
theorem convQ_scale (A B : QConv) (hA : A.WellFormed) (hsA : A.scaling) (hsB : B.scaling)
    (w θ r : ℚ) (hθ : θ ≠ 0) (h : convQ A B w = some r) :
    convQ A B (w * θ) = some (r * θ) ∨ convQ A B (w * θ) = some (r / θ) := by
  cases A with
  | temperature _ _ => exact absurd hsA id
  | linear a =>
    have ha : a ≠ 0 := hA
    cases B with
    | temperature _ _ => exact absurd hsB id
    | linear b =>
      left
      have h' : w * a / b = r := by simpa [convQ, QConv.toBase, QConv.fromBase] using h
      simp only [convQ, QConv.toBase, QConv.fromBase, Option.bind_some, Option.some.injEq]
      rw [← h']; ring
    | reciprocal b =>
      right
      simp only [convQ, QConv.toBase, QConv.fromBase, Option.bind_some] at h ⊢
      by_cases h0 : w * a = 0
      · rw [if_pos h0] at h; cases h
      · rw [if_neg h0] at h
        have h1 : w * θ * a ≠ 0 := by
          have : w * θ * a = w * a * θ := by ring
          rw [this]; exact mul_ne_zero h0 hθ
        rw [if_neg h1]
        have h' : b / (w * a) = r := by simpa using h
        have hw : w ≠ 0 := left_ne_zero_of_mul h0
        rw [← h']; congr 1; field_simp
  | reciprocal a =>
    have ha : a ≠ 0 := hA
    simp only [convQ, QConv.toBase] at h ⊢
    by_cases hw : w = 0
    · rw [if_pos hw] at h; cases h
    · rw [if_neg hw] at h
      rw [if_neg (mul_ne_zero hw hθ)]
      simp only [Option.bind_some] at h ⊢
      cases B with
      | temperature _ _ => exact absurd hsB id
      | linear b =>
        right
        simp only [QConv.fromBase, Option.some.injEq] at h ⊢
        rw [← h]; field_simp
      | reciprocal b =>
        left
        simp only [QConv.fromBase] at h ⊢
        have h0 : a / w ≠ 0 := div_ne_zero ha hw
        have h1 : a / (w * θ) ≠ 0 := div_ne_zero ha (mul_ne_zero hw hθ)
        rw [if_neg h0] at h
        rw [if_neg h1]
        have h' : b / (a / w) = r := by simpa using h
        rw [← h']; congr 1; field_simp

/-- … and the factor stays in the class -/
theorem convQ_scale_near {u : ℚ} (hu1 : u < 1) (A B : QConv) (hA : A.WellFormed)
    (hsA : A.scaling) (hsB : B.scaling) (w θ r : ℚ) {n : ℕ} (hθ : Near u n θ)
    (h : convQ A B (w * θ) = some r) :
    ∃ θ', Near u n θ' ∧ convQ A B w = some (r * θ') := by
  have h0 := hθ.ne_zero hu1
  have hw : w * θ * θ⁻¹ = w := by field_simp
  rcases convQ_scale A B hA hsA hsB (w * θ) θ⁻¹ r (inv_ne_zero h0) h with h1 | h1
  · rw [hw] at h1; exact ⟨θ⁻¹, hθ.inv hu1, h1⟩
  · rw [hw] at h1; exact ⟨θ, hθ, by rw [h1, div_inv_eq_mul]⟩

/-! ### row-level consequences: error bound, self, there-and-back, triangle -/

/-- the float conversion between two linear / reciprocal rows -/
abbrev convRowF (ops : NumOps) (a b : Conv) (x : F64) : F64 := fromBaseF ops b (toBaseF ops a x)

theorem scaling_error_bound {ops : NumOps} {u : ℚ} (M : RoundingModel ops u) (a b : Conv)
    (ha : ConvAccurate u a) (hb : ConvAccurate u b)
    (hsa : isScaling a = true) (hsb : isScaling b = true)
    (x : F64) (hx : x.isFinite = true) (hR : RangeOk ops a b x) :
    ∃ q, convQ (toQ a) (toQ b) x.toRat = some q ∧
      |(convRowF ops a b x).toRat - q| ≤ G u 4 * |q| := by
  obtain ⟨q, θ, hq, hθ, e, _⟩ := scaling_factor M a b ha hb hsa hsb x hx hR
  exact ⟨q, hq, hθ.error M.u_nonneg M.u_lt_one e⟩

/-- a unit to itself: the coefficient is the same double in both steps, only the two
    operations round -/
theorem scaling_self_factor {ops : NumOps} {u : ℚ} (M : RoundingModel ops u) (a : Conv)
    (ha : ConvAccurate u a) (hsa : isScaling a = true)
    (x : F64) (hx : x.isFinite = true) (hR : RangeOk ops a a x) :
    ∃ θ, Near u 2 θ ∧ (convRowF ops a a x).toRat = x.toRat * θ := by
  have hu := M.u_nonneg
  have hu1 := M.u_lt_one
  obtain ⟨hT, hF⟩ := hR
  cases a with
  | temperature _ _ => simp [isScaling] at hsa
  | linear na da ba pa =>
    have hc0 := CoefOk.toRat_ne_zero hu hu1 ha
    obtain ⟨hTf, hTn⟩ := hT
    obtain ⟨δ₁, hδ₁, e₁⟩ := mul_near M x (coefF ba) hx ha.2.1 hTf hTn
    obtain ⟨hFf, hFn⟩ := hF
    obtain ⟨δ₂, hδ₂, e₂⟩ := div_near M _ (coefF ba) hTf ha.2.1 hc0 hFf hFn
    refine ⟨δ₁ * δ₂, hδ₁.mul hu1 hδ₂, ?_⟩
    show (ops.div (ops.mul x (coefF ba)) (coefF ba)).toRat = _
    rw [e₂, e₁]
    field_simp
  | reciprocal na da ba pa =>
    have hc0 := CoefOk.toRat_ne_zero hu hu1 ha
    obtain ⟨hx0, hTf, hTn⟩ := hT
    obtain ⟨δ₁, hδ₁, e₁⟩ := div_near M (coefF ba) x ha.2.1 hx hx0 hTf hTn
    have hδ₁0 := hδ₁.ne_zero hu1
    have hfe := feq_zero_false_of_toRat_ne x hx0
    have hT' : toBaseF ops (.reciprocal na da ba pa) x = ops.div (coefF ba) x := by
      show (if F64.feq x F64.zero then F64.inf else ops.div (coefF ba) x) = _
      rw [hfe]; rfl
    unfold convRowF
    rw [hT'] at hF ⊢
    obtain ⟨hF0, hFf, hFn⟩ := hF
    obtain ⟨δ₂, hδ₂, e₂⟩ := div_near M (coefF ba) _ ha.2.1 hTf hF0 hFf hFn
    refine ⟨δ₂ / δ₁, by simpa [Nat.add_comm] using hδ₂.div hu1 hδ₁, ?_⟩
    show (if F64.feq (ops.div (coefF ba) x) F64.zero then F64.inf
      else ops.div (coefF ba) (ops.div (coefF ba) x)).toRat = _
    rw [feq_zero_false_of_toRat_ne _ hF0]
    simp only [Bool.false_eq_true, if_false]
    rw [e₂, e₁]
    field_simp

theorem scaling_self {ops : NumOps} {u : ℚ} (M : RoundingModel ops u) (a : Conv)
    (ha : ConvAccurate u a) (hsa : isScaling a = true)
    (x : F64) (hx : x.isFinite = true) (hR : RangeOk ops a a x) :
    |(convRowF ops a a x).toRat - x.toRat| ≤ G u 2 * |x.toRat| := by
  obtain ⟨θ, hθ, e⟩ := scaling_self_factor M a ha hsa x hx hR
  exact hθ.error M.u_nonneg M.u_lt_one e

/-- there and back: `x → y = fl(a→b)(x) → fl(b→a)(y)` is `x` times a factor of eight roundings -/
theorem scaling_there_back {ops : NumOps} {u : ℚ} (M : RoundingModel ops u) (a b : Conv)
    (ha : ConvAccurate u a) (hb : ConvAccurate u b)
    (hsa : isScaling a = true) (hsb : isScaling b = true)
    (x : F64) (hx : x.isFinite = true) (hR₁ : RangeOk ops a b x)
    (hR₂ : RangeOk ops b a (convRowF ops a b x)) :
    |(convRowF ops b a (convRowF ops a b x)).toRat - x.toRat| ≤ G u 8 * |x.toRat| := by
  have hu := M.u_nonneg
  have hu1 := M.u_lt_one
  obtain ⟨q₁, θ₁, hq₁, hθ₁, e₁, hf₁⟩ := scaling_factor M a b ha hb hsa hsb x hx hR₁
  obtain ⟨q₂, θ₂, hq₂, hθ₂, e₂, _⟩ := scaling_factor M b a hb ha hsb hsa _ hf₁ hR₂
  rw [show (fromBaseF ops b (toBaseF ops a x)).toRat = q₁ * θ₁ from e₁] at hq₂
  obtain ⟨θ', hθ', hq'⟩ := convQ_scale_near hu1 _ _ (hb.wf hsb) (toQ_scaling hsb)
    (toQ_scaling hsa) q₁ θ₁ q₂ hθ₁ hq₂
  have hback := convQ_there_back _ _ (ha.wf hsa) (hb.wf hsb) x.toRat q₁ hq₁
  rw [hback] at hq'
  have hx' : x.toRat = q₂ * θ' := by simpa using hq'
  have hθ'0 := hθ'.ne_zero hu1
  have hN : Near u 8 (θ₂ / θ') := hθ₂.div hu1 hθ'
  refine hN.error hu hu1 ?_
  show (fromBaseF ops a (toBaseF ops b (convRowF ops a b x))).toRat = _
  rw [e₂, hx']
  field_simp

/-- triangle: `fl(b→c)(fl(a→b)(x))` against the exact `a→c` conversion `Q` of `x`, and against
    the direct float conversion `fl(a→c)(x)` -/
theorem scaling_triangle {ops : NumOps} {u : ℚ} (M : RoundingModel ops u) (a b c : Conv)
    (ha : ConvAccurate u a) (hb : ConvAccurate u b) (hc : ConvAccurate u c)
    (hsa : isScaling a = true) (hsb : isScaling b = true) (hsc : isScaling c = true)
    (x : F64) (hx : x.isFinite = true) (hR₁ : RangeOk ops a b x)
    (hR₂ : RangeOk ops b c (convRowF ops a b x)) (hR₃ : RangeOk ops a c x) :
    ∃ Q, convQ (toQ a) (toQ c) x.toRat = some Q ∧
      |(convRowF ops b c (convRowF ops a b x)).toRat - Q| ≤ G u 8 * |Q| ∧
      |(convRowF ops b c (convRowF ops a b x)).toRat - (convRowF ops a c x).toRat| ≤
        (G u 8 + G u 4) * |Q| := by
  have hu := M.u_nonneg
  have hu1 := M.u_lt_one
  obtain ⟨q₁, θ₁, hq₁, hθ₁, e₁, hf₁⟩ := scaling_factor M a b ha hb hsa hsb x hx hR₁
  obtain ⟨q₂, θ₂, hq₂, hθ₂, e₂, _⟩ := scaling_factor M b c hb hc hsb hsc _ hf₁ hR₂
  obtain ⟨q₃, θ₃, hq₃, hθ₃, e₃, _⟩ := scaling_factor M a c ha hc hsa hsc x hx hR₃
  rw [show (fromBaseF ops b (toBaseF ops a x)).toRat = q₁ * θ₁ from e₁] at hq₂
  obtain ⟨θ', hθ', hq'⟩ := convQ_scale_near hu1 _ _ (hb.wf hsb) (toQ_scaling hsb)
    (toQ_scaling hsc) q₁ θ₁ q₂ hθ₁ hq₂
  have htri := convQ_triangle (toQ a) (toQ b) (toQ c) (hb.wf hsb) x.toRat q₁ hq₁
  rw [htri, hq₃] at hq'
  have hQ : q₃ = q₂ * θ' := by simpa using hq'
  have hθ'0 := hθ'.ne_zero hu1
  have hN : Near u 8 (θ₂ / θ') := hθ₂.div hu1 hθ'
  have E1 : |(convRowF ops b c (convRowF ops a b x)).toRat - q₃| ≤ G u 8 * |q₃| := by
    refine hN.error hu hu1 ?_
    show (fromBaseF ops c (toBaseF ops b (convRowF ops a b x))).toRat = _
    rw [e₂, hQ]
    field_simp
  have E2 : |(convRowF ops a c x).toRat - q₃| ≤ G u 4 * |q₃| := hθ₃.error hu hu1 e₃
  refine ⟨q₃, hq₃, E1, ?_⟩
  have : (convRowF ops b c (convRowF ops a b x)).toRat - (convRowF ops a c x).toRat =
      ((convRowF ops b c (convRowF ops a b x)).toRat - q₃) - ((convRowF ops a c x).toRat - q₃) := by
    ring
  rw [this]
  refine (abs_sub _ _).trans ?_
  linarith

/-! ### temperature rows -/

/-- temperature → temperature: absolute error `G u (cnt) · (magnitude)`; the exact conversion is
    `fromK (toK x)` -/
theorem temperature_error_bound {ops : NumOps} {u : ℚ} (S : RoundingModelSub ops u)
    (hu64 : u64 ≤ u) (ta fa tb fb : TempFn) (x : F64) (hx : x.isFinite = true)
    (hR : RangeOk ops (.temperature ta fa) (.temperature tb fb) x) :
    convQ (toQ (.temperature ta fa)) (toQ (.temperature tb fb)) x.toRat
        = some (fb.evalQ (ta.evalQ x.toRat)) ∧
      (convRowF ops (.temperature ta fa) (.temperature tb fb) x).isFinite = true ∧
      |(convRowF ops (.temperature ta fa) (.temperature tb fb) x).toRat
          - fb.evalQ (ta.evalQ x.toRat)| ≤
        G u (tempCnt ta + tempCnt fb) * tempMag fb (tempMag ta |x.toRat|) := by
  obtain ⟨h1, h2⟩ := hR
  have a0 : Approx u 0 x x.toRat |x.toRat| := approx_exact hx rfl
  have a1 := temp_step S hu64 ta a0 h1
  have a2 := temp_step S hu64 fb a1 h2
  rw [Nat.zero_add] at a2
  exact ⟨rfl, a2.1, a2.2.1⟩

/-! ### an inhabitant of `RoundingModelSub` (the guarded correct rounding of `Lemmas/Rounding.lean`) -/

def guardedOpsSub : NumOps :=
  { guardedOps with
    sub := fun a b =>
      if a.isFinite = true ∧ b.isFinite = true then guardedRound (a.toRat - b.toRat) else F64.nan }

theorem guardedOpsSub_model : RoundingModelSub guardedOpsSub u64 where
  u_nonneg := guardedOps_model.u_nonneg
  u_lt_one := guardedOps_model.u_lt_one
  add := guardedOps_model.add
  mul := guardedOps_model.mul
  div := guardedOps_model.div
  sub := fun a b ha hb h => by
    have e : guardedOpsSub.sub a b = guardedRound (a.toRat - b.toRat) := by
      show (if a.isFinite = true ∧ b.isFinite = true then _ else _) = _
      rw [if_pos ⟨ha, hb⟩]
    rw [e] at h ⊢
    exact guardedRound_spec _ h

/-! ### from identifiers to rows -/

/-- the identifiers `a`, `b` resolve to the rows `ra`, `rb` of the table, of one category: the
    prologue of `convert` succeeds -/
def ResolvesTo (a b : List Nat) (ra rb : UnitRow) : Prop :=
  ∃ i j, resolveCodes a = .ok i ∧ resolveCodes b = .ok j ∧
    ra = units.getD i default ∧ rb = units.getD j default ∧ ra.cat = rb.cat

theorem resolved_row_mem (q : List Nat) (i : Nat) (h : resolveIn units q = .ok i) :
    units.getD i default ∈ units := by
  obtain ⟨r, hr, _⟩ := resolve_ok_sound units q i h
  have : units.getD i default = r := by simp [List.getD, hr]
  rw [this]
  exact List.mem_of_getElem? hr

theorem ResolvesTo.spec {a b : List Nat} {ra rb : UnitRow} (h : ResolvesTo a b ra rb) :
    ra ∈ units ∧ rb ∈ units ∧
    (∀ (ops : NumOps) (x : F64), convertF ops x a b = .ok (convRowF ops ra.conv rb.conv x)) ∧
    (∀ q : ℚ, convertQ q a b = .ok (convQ (toQ ra.conv) (toQ rb.conv) q)) := by
  obtain ⟨i, j, hi, hj, rfl, rfl, hc⟩ := h
  refine ⟨resolved_row_mem a i hi, resolved_row_mem b j hj, ?_, ?_⟩
  · intro ops x
    unfold convertF convertFIn
    rw [withPair_resolved units a b _ i j hi hj, if_pos hc]
  · intro q
    unfold convertQ convertQIn
    rw [withPair_resolved units a b _ i j hi hj, if_pos hc]

theorem ResolvesTo.symm {a b : List Nat} {ra rb : UnitRow} (h : ResolvesTo a b ra rb) :
    ResolvesTo b a rb ra := by
  obtain ⟨i, j, hi, hj, e1, e2, hc⟩ := h
  exact ⟨j, i, hj, hi, e2, e1, hc.symm⟩

theorem ResolvesTo.refl_left {a b : List Nat} {ra rb : UnitRow} (h : ResolvesTo a b ra rb) :
    ResolvesTo a a ra ra := by
  obtain ⟨i, j, hi, hj, e1, e2, hc⟩ := h
  exact ⟨i, i, hi, hi, e1, e1, rfl⟩

theorem ResolvesTo.trans {a b c : List Nat} {ra rb rb' rc : UnitRow} (h₁ : ResolvesTo a b ra rb)
    (h₂ : ResolvesTo b c rb' rc) : rb = rb' ∧ ResolvesTo a c ra rc := by
  obtain ⟨i, j, hi, hj, e1, e2, hc⟩ := h₁
  obtain ⟨j', k, hj', hk, e3, e4, hc'⟩ := h₂
  have : j = j' := by
    have := hj.symm.trans hj'
    cases this; rfl
  subst this
  have hbb : rb = rb' := e2.trans e3.symm
  exact ⟨hbb, i, k, hi, hk, e1, e4, by rw [hc, hbb, hc']⟩

/-- whole table: the category determines the kind (temperature, or linear / reciprocal) -/
theorem kind_of_category : ∀ r ∈ units, ∀ s ∈ units, r.cat = s.cat →
    isScaling r.conv = isScaling s.conv := by
  have h : units.all (fun r => units.all fun s =>
      !(Nat.beq r.cat s.cat) || (isScaling r.conv == isScaling s.conv)) = true := by
    decide +kernel
  intro r hr s hs hc
  have := List.all_eq_true.mp (List.all_eq_true.mp h r hr) s hs
  simpa [hc] using this

/-! ### the side conditions are decidable (used by the `example`s on concrete rows) -/

instance (q : ℚ) : Decidable (NoUnderflow q) := by unfold NoUnderflow; infer_instance

instance (ops : NumOps) (f : TempFn) (x : F64) : Decidable (TempStepsOk ops f x) := by
  cases f <;> unfold TempStepsOk <;> infer_instance

instance (ops : NumOps) (c : Conv) (x : F64) : Decidable (ToBaseOk ops c x) := by
  cases c <;> unfold ToBaseOk <;> infer_instance

instance (ops : NumOps) (c : Conv) (x : F64) : Decidable (FromBaseOk ops c x) := by
  cases c <;> unfold FromBaseOk <;> infer_instance

instance (ops : NumOps) (a b : Conv) (x : F64) : Decidable (RangeOk ops a b x) := by
  unfold RangeOk; infer_instance

end Blots.Units
