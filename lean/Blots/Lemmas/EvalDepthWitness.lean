import Blots.Lemmas.EvalDepthMono
/-
  A concrete run in the band next to the depth limit where `L via f` and `map(L, f)` BOTH succeed
  with DIFFERENT values: `f = l => sort_by(l, to_string)`, `L = [["b","a"]]`, the two forms
  evaluated at call depth 996.  `via` runs `f` at 996, its body at 997, `sort_by` at 997, the key
  calls at 999: sorted.  `map` runs `f` at 998, its body at 999, `sort_by` at 999, the key calls at
  1001 > 1000: each key call fails with the depth error, `sort_by` swallows it, the list is
  returned unsorted.
-/
namespace Blots

/-- `l => sort_by(l, to_string)` -/
def sortFn : Value :=
  .lambda 5 [.req "l"] (.call (.builtin "sort_by") [.ident "l", .builtin "to_string"]) []
def sortState : ES := { env := [[]], nextId := 6, names := [] }
def listBA : Value := .list [.str "b", .str "a"]
def listAB : Value := .list [.str "a", .str "b"]

theorem ar_sort_by : builtinArity "sort_by" = some (.exact 2) := by decide +kernel
theorem ar_to_string : builtinArity "to_string" = some (.exact 1) := by decide +kernel
theorem pure_to_string (ops : NumOps) (s : String) :
    callPure ops "to_string" [.str s] = some (.ok (.str s)) := by
  simp [callPure, bind, Outcome.bind, pure]

set_option maxRecDepth 8000 in
theorem sort_via_996 : evalBin toyOps 12 996 .via (.list [listBA]) sortFn sortState =
    (.ok (.list [listAB]), sortState) := by
  simp [evalBin_succ, isDot, isListV, sortFn, Value.isCallable, arityOf, lambdaArity,
    Gen.Arity.canAccept, mapCalls, callFn, checkArity, MAX_DEPTH, nameOf, sortState, lookupAL, envGet,
    bindParams, bindParams.go, insertAL, eval, evalList, flattenSpreads, ar_sort_by, ar_to_string, isHof,
    callHof, keyCalls, pure_to_string, listBA, listAB, mergeSortBy, mergeBy, sortByLt, vcmp, strCmp,
    strCmpL]

set_option maxRecDepth 8000 in
theorem sort_map_996 : callFn toyOps 13 (.builtin "map") .null [.list [listBA], sortFn] 996 sortState =
    (.ok (.list [listBA]), sortState) := by
  rw [callFn_hof2 toyOps 12 "map" .null _ _ 996 sortState hof_arities.1 (by decide),
    if_neg (by decide), callHof_map toyOps 11 [listBA] sortFn 997 sortState (.exact 1) rfl]
  simp [wrapList, sortFn, Value.isCallable, lambdaArity,
    Gen.Arity.canAccept, mapCalls, callFn, checkArity, MAX_DEPTH, nameOf, sortState, lookupAL, envGet,
    bindParams, bindParams.go, insertAL, eval, evalList, flattenSpreads, ar_sort_by, ar_to_string, isHof,
    callHof, keyCalls, listBA, mergeSortBy, mergeBy, sortByLt]

theorem listAB_ne_listBA : listAB ≠ listBA := by simp [listAB, listBA]

end Blots
