import Blots.Lemmas.OfRatio
/-
  `F64.parseDec` (model of Rust `str::parse::<f64>`) on well-formed decimal literals.

  * decimal text of naturals: `natDigits_toList_ne_nil`, `natDigits_all_isDigit`,
    `digitsVal_natDigits`, `digitsVal_append`, `digitsVal_zeros`, leading / trailing zeros;
  * `parseDec_eq` : `parseDec` split into named stages (`splitSign`, `parseUnsigned`,
    `parseMant`, `splitFrac`, `parseExpo`, `parseFinish`), by `rfl`;
  * `parseDec_decimal_literal` : `[sign] digits [. digits] [(e|E) [sign] digits]` parses to
    the correct rounding (`ofRatio`) of its exact value, packaged as `decVal`;
    explicit corollaries `parseDec_digits`, `parseDec_fraction`, `parseDec_exponent`;
  * `toFixed_zero_of_integral`, `parseDec_toFixed_zero` : `{:.0}` of an integral double is
    its integer text and reads back as the same double;
  * `parseDec_positional_digits`, `parseDec_positional` : the three layouts of `positional`
    read back as the rounding of `d × 10 ^ e` (bridge for `parseDec (toDisplay x) = x`).
-/
namespace Blots.F64

/-! ### decimal text of naturals -/

theorem isDigit_iff (c : Char) : isDigit c = true ↔ 48 ≤ c.toNat ∧ c.toNat ≤ 57 := by
  simp only [isDigit, Bool.and_eq_true, decide_eq_true_eq, Char.le_def, UInt32.le_iff_toNat_le]
  exact Iff.rfl

theorem isDigit_eq_isDigit (c : Char) : isDigit c = c.isDigit := by
  simp only [isDigit, Char.isDigit, Char.le_def, ge_iff_le]

theorem digitsVal_eq_ofDigitChars (cs : List Char) : digitsVal cs = Nat.ofDigitChars 10 cs 0 := by
  have h : (fun (a : Nat) (c : Char) => a * 10 + (c.toNat - 48)) =
      (fun sofar c => 10 * sofar + (c.toNat - '0'.toNat)) := by
    funext a c; rw [Nat.mul_comm]; rfl
  simp only [digitsVal, Nat.ofDigitChars, h]

theorem natDigits_toList (n : Nat) : (natDigits n).toList = Nat.toDigits 10 n := by
  simp only [natDigits, Nat.toString_eq_repr, Nat.repr_eq_ofList_toDigits, String.toList_ofList]

theorem natDigits_toList_ne_nil (n : Nat) : (natDigits n).toList ≠ [] := by
  rw [natDigits_toList]; exact Nat.toDigits_ne_nil

theorem natDigits_all_isDigit (n : Nat) : ∀ c ∈ (natDigits n).toList, isDigit c = true := by
  intro c hc
  rw [natDigits_toList] at hc
  rw [isDigit_eq_isDigit]
  exact Nat.isDigit_of_mem_toDigits (by decide) (by decide) hc

theorem digitsVal_natDigits (n : Nat) : digitsVal (natDigits n).toList = n := by
  rw [natDigits_toList, digitsVal_eq_ofDigitChars]
  exact Nat.ofDigitChars_toDigits (by decide) (by decide)

theorem foldl_digits (a : Nat) (b : List Char) :
    b.foldl (fun a c => a * 10 + (c.toNat - 48)) a =
      a * 10 ^ b.length + b.foldl (fun a c => a * 10 + (c.toNat - 48)) 0 := by
  induction b generalizing a with
  | nil => simp
  | cons c t ih =>
    simp only [List.foldl_cons, List.length_cons]
    rw [ih (a * 10 + (c.toNat - 48)), ih (0 * 10 + (c.toNat - 48))]
    rw [Nat.pow_succ, Nat.zero_mul, Nat.zero_add, Nat.add_mul, Nat.add_assoc, Nat.mul_assoc, Nat.mul_comm 10]

theorem digitsVal_append (a b : List Char) :
    digitsVal (a ++ b) = digitsVal a * 10 ^ b.length + digitsVal b := by
  simp only [digitsVal, List.foldl_append]
  exact foldl_digits _ _

theorem digitsVal_replicate_zero (n : Nat) : digitsVal (List.replicate n '0') = 0 := by
  induction n with
  | zero => rfl
  | succ n ih =>
    rw [List.replicate_succ, ← List.singleton_append, digitsVal_append, ih,
      show digitsVal ['0'] = 0 from rfl, Nat.zero_mul]

theorem zeros_toList (n : Nat) : (zeros n).toList = List.replicate n '0' := by
  simp only [zeros, String.toList_ofList]

theorem digitsVal_zeros (n : Nat) : digitsVal (zeros n).toList = 0 := by
  rw [zeros_toList, digitsVal_replicate_zero]

theorem digitsVal_zeros_append (n : Nat) (ds : List Char) :
    digitsVal (List.replicate n '0' ++ ds) = digitsVal ds := by
  rw [digitsVal_append, digitsVal_replicate_zero, Nat.zero_mul, Nat.zero_add]

theorem digitsVal_append_zeros (ds : List Char) (n : Nat) :
    digitsVal (ds ++ List.replicate n '0') = digitsVal ds * 10 ^ n := by
  rw [digitsVal_append, digitsVal_replicate_zero, Nat.add_zero, List.length_replicate]

theorem all_isDigit_replicate_zero (n : Nat) : ∀ c ∈ List.replicate n '0', isDigit c = true := by
  intro c hc
  rw [List.eq_of_mem_replicate hc]; decide


/-! ### `parseDec` in stages (verbatim pieces of the definition) -/

/-- the sign split of `parseDec` (also used for the exponent's sign) -/
def splitSign (cs : List Char) : Bool × List Char :=
  match cs with
  | '-' :: r => (true, r)
  | '+' :: r => (false, r)
  | r => (false, r)

/-- the exponent part `expo` of `parseDec`; `ipl`, `fpl` are the mantissa digit counts -/
def parseExpo (ipl fpl : Nat) (r2 : List Char) : Option Int :=
  match r2 with
  | [] => some 0
  | c :: r =>
    if c = 'e' || c = 'E' then
      let p := splitSign r
      if p.2.isEmpty || !p.2.all isDigit then none
      else
        let v := digitsVal p.2
        let bound := 400 + ipl + fpl
        let v := if v > bound then bound else v
        some (if p.1 then - Int.ofNat v else Int.ofNat v)
    else none

/-- correct rounding of `± mant × 10 ^ e10` -/
def decVal (negative : Bool) (mant : Nat) (e10 : Int) : F64 :=
  if e10 ≥ 0 then ofRatio negative (mant * 10 ^ e10.toNat) 1
  else ofRatio negative mant (10 ^ (-e10).toNat)

/-- the final `match expo with` of `parseDec` -/
def parseFinish (negative : Bool) (ip fp : List Char) (expo : Option Int) : Option F64 :=
  match expo with
  | none => none
  | some ex =>
    let mant := digitsVal (ip ++ fp)
    let e10 : Int := ex - Int.ofNat fp.length
    if e10 ≥ 0 then some (ofRatio negative (mant * 10 ^ e10.toNat) 1)
    else some (ofRatio negative mant (10 ^ (-e10).toNat))

/-- the `(fp, r2, hadDot)` split of `parseDec` -/
def splitFrac (r1 : List Char) : List Char × List Char × Bool :=
  match r1 with
  | '.' :: r => (r.takeWhile isDigit, r.dropWhile isDigit, true)
  | r => ([], r, false)

/-- `parseDec` after the sign and the special words -/
def parseMant (negative : Bool) (cs : List Char) : Option F64 :=
  let ip := cs.takeWhile isDigit
  let r1 := cs.dropWhile isDigit
  let fr := splitFrac r1
  if ip.isEmpty && fr.1.isEmpty then none
  else parseFinish negative ip fr.1 (parseExpo ip.length fr.1.length fr.2.1)

/-- `parseDec` after the sign split -/
def parseUnsigned (negative : Bool) (cs : List Char) : Option F64 :=
  let low := String.ofList (cs.map lowerAscii)
  if low = "inf" || low = "infinity" then some (if negative then negInf else inf)
  else if low = "nan" then some (if negative then ofNatBits 0xFFF8000000000000 else nan)
  else parseMant negative cs

/-- `parseDec` is the composition of the stages above (definitional) -/
theorem parseDec_eq (s : String) :
    parseDec s = parseUnsigned (splitSign s.toList).1 (splitSign s.toList).2 := by
  unfold parseDec parseUnsigned parseMant parseFinish parseExpo splitFrac splitSign
  rfl

/-! ### small-step lemmas -/

/-- a property of the first character of a text, true of the empty text -/
def HeadSat (p : Char → Prop) : List Char → Prop
  | [] => True
  | c :: _ => p c

/-- `sg` is an optional sign and `neg` tells whether it is a minus -/
def IsSign (sg : List Char) (neg : Bool) : Prop :=
  (sg = [] ∧ neg = false) ∨ (sg = ['+'] ∧ neg = false) ∨ (sg = ['-'] ∧ neg = true)

theorem splitSign_of_head (cs : List Char) (h : HeadSat (fun c => c ≠ '-' ∧ c ≠ '+') cs) :
    splitSign cs = (false, cs) := by
  unfold splitSign
  split
  · exact absurd rfl h.1
  · exact absurd rfl h.2
  · rfl

theorem splitSign_sign (sg : List Char) (neg : Bool) (cs : List Char) (hs : IsSign sg neg)
    (h : HeadSat (fun c => c ≠ '-' ∧ c ≠ '+') cs) : splitSign (sg ++ cs) = (neg, cs) := by
  rcases hs with ⟨rfl, rfl⟩ | ⟨rfl, rfl⟩ | ⟨rfl, rfl⟩
  · exact splitSign_of_head cs h
  · rfl
  · rfl

theorem takeWhile_of_head (p : Char → Bool) (r : List Char) (h : HeadSat (fun c => p c = false) r) :
    r.takeWhile p = [] ∧ r.dropWhile p = r := by
  cases r with
  | nil => exact ⟨rfl, rfl⟩
  | cons c t =>
    have hc : p c = false := h
    simp [hc]

theorem span_digits (ds r : List Char) (hd : ∀ c ∈ ds, isDigit c = true)
    (hr : HeadSat (fun c => isDigit c = false) r) :
    (ds ++ r).takeWhile isDigit = ds ∧ (ds ++ r).dropWhile isDigit = r := by
  rw [List.takeWhile_append_of_pos hd, List.dropWhile_append_of_pos hd,
    (takeWhile_of_head isDigit r hr).1, (takeWhile_of_head isDigit r hr).2, List.append_nil]
  exact ⟨rfl, rfl⟩

theorem lowerAscii_of_lt (c : Char) (h : c.toNat < 65) : lowerAscii c = c := by
  have : ¬ ('A' ≤ c) := by
    rw [Char.le_def, UInt32.le_iff_toNat_le]
    have : c.val.toNat = c.toNat := rfl
    have : 'A'.val.toNat = 65 := rfl
    omega
  simp [lowerAscii, this]

theorem parseUnsigned_of_head (neg : Bool) (c : Char) (t : List Char)
    (h1 : lowerAscii c ≠ 'i') (h2 : lowerAscii c ≠ 'n') :
    parseUnsigned neg (c :: t) = parseMant neg (c :: t) := by
  have e1 : ¬ (String.ofList ((c :: t).map lowerAscii) = "inf") := by
    intro h
    have := congrArg String.toList h
    simp at this
    exact h1 this.1
  have e2 : ¬ (String.ofList ((c :: t).map lowerAscii) = "infinity") := by
    intro h
    have := congrArg String.toList h
    simp at this
    exact h1 this.1
  have e3 : ¬ (String.ofList ((c :: t).map lowerAscii) = "nan") := by
    intro h
    have := congrArg String.toList h
    simp at this
    exact h2 this.1
  simp only [parseUnsigned, e1, e2, e3, decide_false, Bool.or_false, if_false, Bool.false_eq_true]

/-- the first character of a mantissa: a digit or the point -/
def MantHead (c : Char) : Prop := isDigit c = true ∨ c = '.'

theorem MantHead.lower {c : Char} (h : MantHead c) : lowerAscii c ≠ 'i' ∧ lowerAscii c ≠ 'n' := by
  have hl : c.toNat < 65 := by
    rcases h with h | rfl
    · have := (isDigit_iff c).1 h; omega
    · decide
  rw [lowerAscii_of_lt c hl]
  constructor
  · rintro rfl; revert hl; decide
  · rintro rfl; revert hl; decide

theorem MantHead.notSign {c : Char} (h : MantHead c) : c ≠ '-' ∧ c ≠ '+' := by
  constructor
  · rintro rfl
    rcases h with h | h
    · revert h; decide
    · revert h; decide
  · rintro rfl
    rcases h with h | h
    · revert h; decide
    · revert h; decide


/-- head of the text after the mantissa: neither a digit nor a point -/
def TailHead (c : Char) : Prop := isDigit c = false ∧ c ≠ '.'

/-- the text of the fractional part -/
def fracText (dot : Bool) (fp : List Char) : List Char := if dot then '.' :: fp else []

theorem splitFrac_of_head (r : List Char) (h : HeadSat (fun c => c ≠ '.') r) :
    splitFrac r = ([], r, false) := by
  unfold splitFrac
  split
  · exact absurd rfl h
  · rfl

theorem parseMant_lit (neg : Bool) (ip fp : List Char) (dot : Bool) (r : List Char)
    (hip : ∀ c ∈ ip, isDigit c = true) (hfp : ∀ c ∈ fp, isDigit c = true)
    (hne : ip ++ fp ≠ []) (hdot : dot = false → fp = []) (hr : HeadSat TailHead r) :
    parseMant neg (ip ++ fracText dot fp ++ r) =
      parseFinish neg ip fp (parseExpo ip.length fp.length r) := by
  have hr1 : HeadSat (fun c => isDigit c = false) r := by
    cases r with
    | nil => trivial
    | cons c t => exact hr.1
  have hr2 : HeadSat (fun c => c ≠ '.') r := by
    cases r with
    | nil => trivial
    | cons c t => exact hr.2
  cases dot with
  | false =>
    have hfp0 : fp = [] := hdot rfl
    subst hfp0
    have hip0 : ip ≠ [] := by simpa using hne
    have hsp := span_digits ip r hip hr1
    have hcs : ip ++ fracText false [] ++ r = ip ++ r := by simp [fracText]
    have he : (ip.isEmpty && ([] : List Char).isEmpty) = false := by
      cases ip with
      | nil => exact absurd rfl hip0
      | cons a t => rfl
    rw [hcs]
    unfold parseMant
    simp only [hsp.1, hsp.2, splitFrac_of_head r hr2, he, Bool.false_eq_true, if_false]
  | true =>
    have hdotnd : HeadSat (fun c => isDigit c = false) ('.' :: (fp ++ r)) := by
      show isDigit '.' = false
      decide
    have hsp := span_digits ip ('.' :: (fp ++ r)) hip hdotnd
    have hsp2 := span_digits fp r hfp hr1
    have hcs : ip ++ fracText true fp ++ r = ip ++ '.' :: (fp ++ r) := by simp [fracText]
    have hsf : splitFrac ('.' :: (fp ++ r)) = (fp, r, true) := by
      show ((fp ++ r).takeWhile isDigit, (fp ++ r).dropWhile isDigit, true) = _
      rw [hsp2.1, hsp2.2]
    have he : (ip.isEmpty && fp.isEmpty) = false := by
      cases ip with
      | nil =>
        cases fp with
        | nil => exact absurd rfl hne
        | cons a t => rfl
      | cons a t => rfl
    rw [hcs]
    unfold parseMant
    simp only [hsp.1, hsp.2, hsf, he, Bool.false_eq_true, if_false]

/-- `ex` is a well-formed (possibly absent) exponent part denoting `ev`; the digits' value is
    at most `bound` (the model clamps larger exponents). -/
inductive IsExpText (bound : Nat) : List Char → Int → Prop
  | absent : IsExpText bound [] 0
  | present (c : Char) (sg : List Char) (eneg : Bool) (es : List Char) :
      (c = 'e' ∨ c = 'E') → IsSign sg eneg → es ≠ [] → (∀ d ∈ es, isDigit d = true) →
      digitsVal es ≤ bound →
      IsExpText bound (c :: (sg ++ es))
        (if eneg then - Int.ofNat (digitsVal es) else Int.ofNat (digitsVal es))

theorem isDigit_headSat_notSign (es : List Char) (h : ∀ d ∈ es, isDigit d = true) :
    HeadSat (fun c => c ≠ '-' ∧ c ≠ '+') es := by
  cases es with
  | nil => trivial
  | cons c t =>
    exact MantHead.notSign (Or.inl (h c (List.mem_cons_self)))

theorem parseExpo_of_isExpText (ipl fpl : Nat) (ex : List Char) (ev : Int)
    (h : IsExpText (400 + ipl + fpl) ex ev) : parseExpo ipl fpl ex = some ev := by
  cases h with
  | absent => rfl
  | present c sg eneg es hc hsg hne hes hb =>
    have hce : (decide (c = 'e') || decide (c = 'E')) = true := by
      rcases hc with rfl | rfl <;> decide
    have hss := splitSign_sign sg eneg es hsg (isDigit_headSat_notSign es hes)
    have hall : es.all isDigit = true := List.all_eq_true.2 hes
    have hemp : es.isEmpty = false := by
      cases es with
      | nil => exact absurd rfl hne
      | cons a t => rfl
    have hb' : ¬ (digitsVal es > 400 + ipl + fpl) := by omega
    unfold parseExpo
    simp only [hce, if_true, hss, hall, hemp, Bool.not_true, Bool.or_false, Bool.false_eq_true,
      if_false, if_neg hb']

theorem IsExpText.headSat {bound : Nat} {ex : List Char} {ev : Int} (h : IsExpText bound ex ev) :
    HeadSat TailHead ex := by
  cases h with
  | absent => trivial
  | present c sg eneg es hc hsg hne hes hb =>
    show TailHead c
    rcases hc with rfl | rfl <;> exact ⟨by decide, by decide⟩

theorem parseFinish_some (neg : Bool) (ip fp : List Char) (ev : Int) :
    parseFinish neg ip fp (some ev) =
      some (decVal neg (digitsVal (ip ++ fp)) (ev - Int.ofNat fp.length)) := by
  unfold parseFinish decVal
  simp only []
  split <;> rfl

/-! ### the main statement -/

/-- `parseDec` of a well-formed decimal literal
    `[sign] digits [. digits] [(e|E) [sign] digits]` (at least one mantissa digit) is the
    correct rounding of its exact value `± mantissa × 10 ^ (exponent - #fraction digits)`. -/
theorem parseDec_decimal_literal (sg : List Char) (neg : Bool) (ip fp : List Char) (dot : Bool)
    (ex : List Char) (ev : Int)
    (hsg : IsSign sg neg)
    (hip : ∀ c ∈ ip, isDigit c = true) (hfp : ∀ c ∈ fp, isDigit c = true)
    (hne : ip ++ fp ≠ []) (hdot : dot = false → fp = [])
    (hex : IsExpText (400 + ip.length + fp.length) ex ev) :
    parseDec (String.ofList (sg ++ (ip ++ fracText dot fp ++ ex))) =
      some (decVal neg (digitsVal (ip ++ fp)) (ev - Int.ofNat fp.length)) := by
  -- the first character of the mantissa
  obtain ⟨c, t, hct, hc⟩ : ∃ c t, ip ++ fracText dot fp ++ ex = c :: t ∧ MantHead c := by
    cases ip with
    | nil =>
      cases dot with
      | false => exact absurd (by simp [hdot rfl]) hne
      | true => exact ⟨'.', fp ++ ex, by simp [fracText], Or.inr rfl⟩
    | cons a t =>
      exact ⟨a, t ++ fracText dot fp ++ ex, by simp, Or.inl (hip a List.mem_cons_self)⟩
  have hss : splitSign (sg ++ (ip ++ fracText dot fp ++ ex)) = (neg, ip ++ fracText dot fp ++ ex) := by
    apply splitSign_sign _ _ _ hsg
    rw [hct]; exact hc.notSign
  rw [parseDec_eq, String.toList_ofList, hss]
  show parseUnsigned neg (ip ++ fracText dot fp ++ ex) = _
  rw [hct, parseUnsigned_of_head neg c t hc.lower.1 hc.lower.2, ← hct,
    parseMant_lit neg ip fp dot ex hip hfp hne hdot hex.headSat,
    parseExpo_of_isExpText _ _ _ _ hex, parseFinish_some]


/-- the same, for a string given by its characters -/
theorem parseDec_of_toList (s : String) (sg : List Char) (neg : Bool) (ip fp : List Char)
    (dot : Bool) (ex : List Char) (ev : Int)
    (hs : s.toList = sg ++ (ip ++ fracText dot fp ++ ex))
    (hsg : IsSign sg neg)
    (hip : ∀ c ∈ ip, isDigit c = true) (hfp : ∀ c ∈ fp, isDigit c = true)
    (hne : ip ++ fp ≠ []) (hdot : dot = false → fp = [])
    (hex : IsExpText (400 + ip.length + fp.length) ex ev) :
    parseDec s = some (decVal neg (digitsVal (ip ++ fp)) (ev - Int.ofNat fp.length)) := by
  rw [← String.ofList_toList (s := s), hs]
  exact parseDec_decimal_literal sg neg ip fp dot ex ev hsg hip hfp hne hdot hex

/-! ### `decVal` in the usual shapes -/

theorem decVal_nonneg (neg : Bool) (m k : Nat) :
    decVal neg m (Int.ofNat k) = ofRatio neg (m * 10 ^ k) 1 := by
  have h : (Int.ofNat k) ≥ 0 := Int.natCast_nonneg k
  have h2 : (Int.ofNat k).toNat = k := Int.toNat_natCast k
  simp only [decVal, if_pos h, h2]

theorem decVal_zero (neg : Bool) (m : Nat) : decVal neg m 0 = ofRatio neg m 1 := by
  have := decVal_nonneg neg m 0
  rw [Nat.pow_zero, Nat.mul_one] at this
  exact this

theorem decVal_neg (neg : Bool) (m k : Nat) (hk : 0 < k) :
    decVal neg m (- Int.ofNat k) = ofRatio neg m (10 ^ k) := by
  have h : ¬ (- Int.ofNat k ≥ 0) := by simp only [Int.ofNat_eq_natCast]; omega
  have h2 : (- - Int.ofNat k).toNat = k := by simp only [Int.ofNat_eq_natCast]; omega
  simp only [decVal, if_neg h, h2]

theorem isSign_ite (neg : Bool) : IsSign (if neg then ['-'] else []) neg := by
  cases neg with
  | false => exact Or.inl ⟨rfl, rfl⟩
  | true => exact Or.inr (Or.inr ⟨rfl, rfl⟩)

/-! ### corollaries in explicit form -/

/-- plain signed digit strings -/
theorem parseDec_digits (neg : Bool) (ds : List Char) (hds : ∀ c ∈ ds, isDigit c = true)
    (hne : ds ≠ []) :
    parseDec (String.ofList ((if neg then ['-'] else []) ++ ds)) =
      some (ofRatio neg (digitsVal ds) 1) := by
  have h := parseDec_decimal_literal (if neg then ['-'] else []) neg ds [] false [] 0
    (isSign_ite neg) hds (by simp) (by simpa using hne) (fun _ => rfl) IsExpText.absent
  simp only [fracText, List.append_nil, Bool.false_eq_true, if_false, List.length_nil] at h
  rw [h]
  exact congrArg some (decVal_zero neg _)

/-- digits, a point, digits (either side may be empty, not both; `5.` is accepted) -/
theorem parseDec_fraction (neg : Bool) (ip fp : List Char)
    (hip : ∀ c ∈ ip, isDigit c = true) (hfp : ∀ c ∈ fp, isDigit c = true) (hne : ip ++ fp ≠ []) :
    parseDec (String.ofList ((if neg then ['-'] else []) ++ (ip ++ '.' :: fp))) =
      some (if fp = [] then ofRatio neg (digitsVal ip) 1
            else ofRatio neg (digitsVal (ip ++ fp)) (10 ^ fp.length)) := by
  have h := parseDec_decimal_literal (if neg then ['-'] else []) neg ip fp true [] 0
    (isSign_ite neg) hip hfp hne (fun h => by cases h) IsExpText.absent
  simp only [fracText, List.append_nil, if_true] at h
  rw [h]
  congr 1
  by_cases hfp0 : fp = []
  · subst hfp0
    simp only [if_true, List.append_nil, List.length_nil]
    exact decVal_zero neg _
  · have hl : 0 < fp.length := List.length_pos_iff.2 hfp0
    rw [if_neg hfp0, Int.zero_sub]
    exact decVal_neg neg _ _ hl

/-- with an exponent part; `eneg` is the sign of the exponent, written `esg` -/
theorem parseDec_exponent (neg : Bool) (ip fp : List Char) (dot : Bool) (c : Char)
    (esg : List Char) (eneg : Bool) (es : List Char)
    (hip : ∀ c ∈ ip, isDigit c = true) (hfp : ∀ c ∈ fp, isDigit c = true) (hne : ip ++ fp ≠ [])
    (hdot : dot = false → fp = []) (hc : c = 'e' ∨ c = 'E') (hesg : IsSign esg eneg)
    (hes : ∀ c ∈ es, isDigit c = true) (hes0 : es ≠ [])
    (hb : digitsVal es ≤ 400 + ip.length + fp.length) :
    parseDec (String.ofList ((if neg then ['-'] else []) ++
        (ip ++ (if dot then '.' :: fp else []) ++ c :: (esg ++ es)))) =
      some (
        let e10 : Int := (if eneg then - Int.ofNat (digitsVal es) else Int.ofNat (digitsVal es))
          - Int.ofNat fp.length
        if e10 ≥ 0 then ofRatio neg (digitsVal (ip ++ fp) * 10 ^ e10.toNat) 1
        else ofRatio neg (digitsVal (ip ++ fp)) (10 ^ (-e10).toNat)) :=
  parseDec_decimal_literal (if neg then ['-'] else []) neg ip fp dot _ _
    (isSign_ite neg) hip hfp hne hdot (IsExpText.present c esg eneg es hc hesg hes0 hes hb)

example : parseDec "123" = some (ofRatio false 123 1) :=
  parseDec_digits false ['1', '2', '3'] (by decide) (by decide)
example : parseDec "-007" = some (ofRatio true 7 1) :=
  parseDec_digits true ['0', '0', '7'] (by decide) (by decide)
example : parseDec "12.5" = some (ofRatio false 125 10) :=
  parseDec_fraction false ['1', '2'] ['5'] (by decide) (by decide) (by decide)
example : parseDec "-.5" = some (ofRatio true 5 10) :=
  parseDec_fraction true [] ['5'] (by decide) (by decide) (by decide)
example : parseDec "5." = some (ofRatio false 5 1) :=
  parseDec_fraction false ['5'] [] (by decide) (by decide) (by decide)
example : parseDec "-1.25E+3" = some (ofRatio true (125 * 10 ^ 1) 1) :=
  parseDec_exponent true ['1'] ['2', '5'] true 'E' ['+'] false ['3'] (by decide) (by decide)
    (by decide) (by decide) (by decide) (Or.inr (Or.inl ⟨rfl, rfl⟩)) (by decide) (by decide)
    (by decide)
example : parseDec "1e-7" = some (ofRatio false 1 (10 ^ 7)) :=
  parseDec_exponent false ['1'] [] false 'e' ['-'] true ['7'] (by decide) (by decide)
    (by decide) (by decide) (by decide) (Or.inr (Or.inr ⟨rfl, rfl⟩)) (by decide) (by decide)
    (by decide)
example : parseDec "+3" = some (decVal false 3 0) :=
  parseDec_decimal_literal ['+'] false ['3'] [] false [] 0 (Or.inr (Or.inl ⟨rfl, rfl⟩)) (by decide)
    (by decide) (by decide) (by decide) IsExpText.absent


/-! ### `toFixed x 0` on integral values -/

theorem isNaN_of_isFinite (x : F64) (h : x.isFinite = true) : x.isNaN = false := by
  have h2 : x.expField ≠ 2047 := by simpa [isFinite] using h
  simp [isNaN, h2]

theorem isInf_of_isFinite (x : F64) (h : x.isFinite = true) : x.isInf = false := by
  have h2 : x.expField ≠ 2047 := by simpa [isFinite] using h
  simp [isInf, h2]

theorem roundHalfEven_of_dvd (n d : Nat) (h : n % d = 0) : roundHalfEven n d = n / d := by
  have h1 : ¬ (2 * 0 > d) := by omega
  have h2 : ¬ (2 * 0 = d ∧ n / d % 2 = 1) := by
    rintro ⟨h0, h1⟩
    have : d = 0 := by omega
    subst this
    simp at h1
  simp only [roundHalfEven, h, Bool.or_eq_true, decide_eq_true_eq, Bool.and_eq_true, h1, h2,
    or_self, if_false]

theorem natDigits_length_pos (n : Nat) : 0 < (natDigits n).length := by
  rw [← String.length_toList]
  exact List.length_pos_iff.2 (natDigits_toList_ne_nil n)

theorem toFixed_zero_of_integral (x : F64) (hf : x.isFinite = true)
    (hi : x.ratio.1 % x.ratio.2 = 0) :
    toFixed x 0 = (if x.neg then "-" else "") ++ natDigits (x.ratio.1 / x.ratio.2) := by
  have hr : roundHalfEven (x.ratio.1 * 10 ^ 0) x.ratio.2 = x.ratio.1 / x.ratio.2 := by
    rw [Nat.pow_zero, Nat.mul_one]; exact roundHalfEven_of_dvd _ _ hi
  have hl : ¬ ((natDigits (x.ratio.1 / x.ratio.2)).length ≤ 0) := by
    have := natDigits_length_pos (x.ratio.1 / x.ratio.2); omega
  unfold toFixed
  simp only [isNaN_of_isFinite x hf, isInf_of_isFinite x hf, Bool.false_eq_true, if_false, hr,
    if_neg hl, if_true]

theorem signStr_append (neg : Bool) (s : String) :
    ((if neg then "-" else "") ++ s).toList = (if neg then ['-'] else []) ++ s.toList := by
  cases neg with
  | false => simp
  | true => simp

theorem ratio_integral_of_isIntegral (x : F64) (hi : x.isIntegral = true) :
    x.ratio.1 % x.ratio.2 = 0 := by
  unfold isIntegral at hi
  simp only [Bool.and_eq_true, decide_eq_true_eq] at hi
  exact hi.2

/-- the text `{:.0}` of an integral double reads back as the same double -/
theorem parseDec_toFixed_zero (x : F64) (hf : x.isFinite = true) (hi : x.isIntegral = true) :
    parseDec (toFixed x 0) = some x := by
  have hint := ratio_integral_of_isIntegral x hi
  rw [toFixed_zero_of_integral x hf hint, ← String.ofList_toList (s := _ ++ _), signStr_append,
    parseDec_digits x.neg _ (natDigits_all_isDigit _) (natDigits_toList_ne_nil _),
    digitsVal_natDigits, ofRatio_integral x hf hint]


/-! ### positional notation -/

/-- `positional` of a non-empty digit string `ds` and a decimal exponent `e` reads back as the
    correct rounding of `digitsVal ds × 10 ^ e` (all three layouts). -/
theorem parseDec_positional_digits (neg : Bool) (ds : List Char)
    (hds : ∀ c ∈ ds, isDigit c = true) (hne : ds ≠ []) (e : Int) :
    parseDec ((if neg then "-" else "") ++ positional (String.ofList ds) e) =
      some (decVal neg (digitsVal ds) e) := by
  have hlen : 0 < ds.length := List.length_pos_iff.2 hne
  by_cases he : e ≥ 0
  · -- digits followed by zeros
    have hs : ((if neg then "-" else "") ++ positional (String.ofList ds) e).toList =
        (if neg then ['-'] else []) ++
          ((ds ++ List.replicate e.toNat '0') ++ fracText false [] ++ []) := by
      rw [signStr_append]
      simp only [positional, if_pos he, String.toList_append, String.toList_ofList, zeros_toList,
        fracText, Bool.false_eq_true, if_false, List.append_nil]
    have h := parseDec_of_toList _ _ neg (ds ++ List.replicate e.toNat '0') [] false [] 0 hs
      (isSign_ite neg)
      (by
        intro c hc
        rcases List.mem_append.1 hc with h | h
        · exact hds c h
        · exact all_isDigit_replicate_zero _ c h)
      (by simp)
      (fun h => hne (List.append_eq_nil_iff.1 (List.append_eq_nil_iff.1 h).1).1)
      (fun _ => rfl) IsExpText.absent
    rw [h, List.append_nil, digitsVal_append_zeros]
    simp only [List.length_nil]
    have h0 : (0 : Int) - Int.ofNat 0 = 0 := rfl
    rw [h0, decVal_zero]
    have he' : e = Int.ofNat e.toNat := by simp only [Int.ofNat_eq_natCast]; omega
    rw [he', decVal_nonneg]
    simp only [Int.ofNat_eq_natCast, Int.toNat_natCast]
  · have hf : 0 < (-e).toNat := by omega
    have he' : e = - Int.ofNat (-e).toNat := by simp only [Int.ofNat_eq_natCast]; omega
    by_cases hlt : ds.length > (-e).toNat
    · -- digits split by the point
      have hs : ((if neg then "-" else "") ++ positional (String.ofList ds) e).toList =
          (if neg then ['-'] else []) ++
            (ds.take (ds.length - (-e).toNat) ++
              fracText true (ds.drop (ds.length - (-e).toNat)) ++ []) := by
        rw [signStr_append]
        have hpt : ".".toList = ['.'] := rfl
        simp only [positional, if_neg he, String.length_ofList, if_pos hlt, String.toList_append,
          String.toList_ofList, fracText, if_true, List.append_nil, hpt, List.append_assoc,
          List.singleton_append]
      have h := parseDec_of_toList _ _ neg (ds.take (ds.length - (-e).toNat))
        (ds.drop (ds.length - (-e).toNat)) true [] 0 hs (isSign_ite neg)
        (fun c hc => hds c (List.mem_of_mem_take hc))
        (fun c hc => hds c (List.mem_of_mem_drop hc))
        (by rw [List.take_append_drop]; exact hne) (fun h => by cases h)
        IsExpText.absent
      rw [h, List.take_append_drop, List.length_drop]
      have hl : ds.length - (ds.length - (-e).toNat) = (-e).toNat := by omega
      rw [hl, Int.zero_sub, ← he']
    · -- "0." zeros digits
      have hs : ((if neg then "-" else "") ++ positional (String.ofList ds) e).toList =
          (if neg then ['-'] else []) ++
            (['0'] ++ fracText true (List.replicate ((-e).toNat - ds.length) '0' ++ ds) ++ []) := by
        rw [signStr_append]
        have hpt : "0.".toList = ['0', '.'] := rfl
        simp only [positional, if_neg he, String.length_ofList, if_neg hlt, String.toList_append,
          String.toList_ofList, fracText, if_true, List.append_nil, hpt, zeros_toList,
          List.cons_append, List.nil_append]
      have h := parseDec_of_toList _ _ neg ['0']
        (List.replicate ((-e).toNat - ds.length) '0' ++ ds) true [] 0 hs (isSign_ite neg)
        (by decide)
        (by
          intro c hc
          rcases List.mem_append.1 hc with h | h
          · exact all_isDigit_replicate_zero _ c h
          · exact hds c h)
        (by simp) (fun h => by cases h) IsExpText.absent
      rw [h, List.length_append, List.length_replicate]
      have hl : (-e).toNat - ds.length + ds.length = (-e).toNat := by omega
      have hv : digitsVal (['0'] ++ (List.replicate ((-e).toNat - ds.length) '0' ++ ds)) =
          digitsVal ds := by
        rw [digitsVal_append, digitsVal_zeros_append, show digitsVal ['0'] = 0 from rfl,
          Nat.zero_mul, Nat.zero_add]
      rw [hl, hv, Int.zero_sub, ← he']

/-- the bridge used for `toDisplay`: digits of a natural number placed positionally -/
theorem parseDec_positional (neg : Bool) (d : Nat) (e : Int) :
    parseDec ((if neg then "-" else "") ++ positional (natDigits d) e) =
      some (if e ≥ 0 then ofRatio neg (d * 10 ^ e.toNat) 1
            else ofRatio neg d (10 ^ (-e).toNat)) := by
  have h := parseDec_positional_digits neg (natDigits d).toList (natDigits_all_isDigit d)
    (natDigits_toList_ne_nil d) e
  rw [String.ofList_toList, digitsVal_natDigits] at h
  exact h

example : parseDec ((if true then "-" else "") ++ positional (natDigits 125) 2) =
    some (ofRatio true (125 * 10 ^ 2) 1) := by
  rw [parseDec_positional]; rfl
example : parseDec ((if false then "-" else "") ++ positional (natDigits 125) (-2)) =
    some (ofRatio false 125 (10 ^ 2)) := by
  rw [parseDec_positional]; rfl
example : parseDec ((if false then "-" else "") ++ positional (natDigits 125) (-5)) =
    some (ofRatio false 125 (10 ^ 5)) := by
  rw [parseDec_positional]; rfl


example : positional "125" 2 = "12500" ∧ positional "125" (-2) = "1.25" ∧
    positional "125" (-5) = "0.00125" ∧ positional "125" (-3) = "0.125" := by decide
example : toFixed (ofNatBits 0xC008000000000000) 0 = "-3" := by decide
example : parseDec (toFixed (ofNatBits 0xC008000000000000) 0) = some (ofNatBits 0xC008000000000000) :=
  parseDec_toFixed_zero _ (by decide) (by decide)
example : natDigits 1203 = "1203" := by decide
end Blots.F64
