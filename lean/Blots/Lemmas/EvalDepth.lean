import Blots.Lemmas.EvalHof
import Lean.Elab.Tactic
/-
  The call depth only matters through the guard `depth > MAX_DEPTH`: a run that does not end
  in the depth error is the same run when started at any smaller call depth — EXCEPT through
  `sort_by`, which swallows every error of its key function, the depth error included
  (functions.rs `(Ok a, Ok b) => … , _ => Ordering::Equal`): `sort_by([3,1,2], abs)` called at
  depth 999 returns `[3,1,2]`, at depth 998 `[1,2,3]`.  So the statement is proved for runs in
  which no `sort_by` built-in value is reachable (`nsb`: "no sort_by"): not in the expression,
  the function, the arguments, or the environment.
-/
namespace Blots

/-! ### "no `sort_by` built-in inside" -/

mutual
def Expr.nsb : Expr → Bool
  | .builtin n => n != "sort_by"
  | .list items => Item.nsbList items
  | .record es => Entry.nsbList es
  | .lambda _ body => body.nsb
  | .cond c t e => c.nsb && t.nsb && e.nsb
  | .doBlock stmts ret => Item.nsbList stmts && ret.nsb
  | .assign _ v => v.nsb
  | .output e => e.nsb
  | .call f args => f.nsb && Expr.nsbList args
  | .access e i => e.nsb && i.nsb
  | .dot e _ => e.nsb
  | .bin _ l r => l.nsb && r.nsb
  | .un _ e => e.nsb
  | .fact e => e.nsb
  | .spread e => e.nsb
  | .num _ => true
  | .str _ => true
  | .bool _ => true
  | .null => true
  | .ident _ => true
  | .inref _ => true
def Expr.nsbList : List Expr → Bool
  | [] => true
  | e :: es => e.nsb && Expr.nsbList es
def Item.nsb : Item → Bool
  | .mk _ e _ => e.nsb
def Item.nsbList : List Item → Bool
  | [] => true
  | i :: is => i.nsb && Item.nsbList is
def Entry.nsb : Entry → Bool
  | .mk _ k v _ => k.nsb && v.nsb
def Entry.nsbList : List Entry → Bool
  | [] => true
  | e :: es => e.nsb && Entry.nsbList es
def Key.nsb : Key → Bool
  | .dyn e => e.nsb
  | .spread e => e.nsb
  | .static _ => true
  | .short _ => true
end

mutual
def Value.nsb : Value → Bool
  | .builtin n => n != "sort_by"
  | .list xs => Value.nsbList xs
  | .record r => Value.nsbRec r
  | .lambda _ _ body scope => body.nsb && Value.nsbRec scope
  | .spread v => v.nsb
  | .num _ => true
  | .bool _ => true
  | .null => true
  | .str _ => true
def Value.nsbList : List Value → Bool
  | [] => true
  | x :: xs => x.nsb && Value.nsbList xs
def Value.nsbRec : List (String × Value) → Bool
  | [] => true
  | (_, v) :: r => v.nsb && Value.nsbRec r
end

def nsbEnv : List Frame → Bool
  | [] => true
  | f :: fs => Value.nsbRec f && nsbEnv fs

def ES.nsb (s : ES) : Bool := nsbEnv s.env

/-! ### data lemmas -/

theorem nsbList_iff : ∀ (xs : List Value), Value.nsbList xs = true ↔ ∀ x ∈ xs, x.nsb = true
  | [] => by simp [Value.nsbList]
  | x :: xs => by simp [Value.nsbList, nsbList_iff xs]

theorem nsbRec_iff : ∀ (r : List (String × Value)), Value.nsbRec r = true ↔ ∀ kv ∈ r, kv.2.nsb = true
  | [] => by simp [Value.nsbRec]
  | (k, v) :: r => by simp [Value.nsbRec, nsbRec_iff r]

theorem nsbEnv_iff : ∀ (e : List Frame), nsbEnv e = true ↔ ∀ f ∈ e, Value.nsbRec f = true
  | [] => by simp [nsbEnv]
  | f :: fs => by simp [nsbEnv, nsbEnv_iff fs]

theorem nsb_of_mem_list {xs : List Value} {x : Value} (h : Value.nsbList xs = true) (hx : x ∈ xs) :
    x.nsb = true := (nsbList_iff xs).mp h x hx

theorem nsb_getElem? {xs : List Value} {i : Nat} {x : Value} (h : Value.nsbList xs = true)
    (hx : xs[i]? = some x) : x.nsb = true :=
  nsb_of_mem_list h (List.mem_of_getElem? hx)

theorem nsbList_drop {xs : List Value} (h : Value.nsbList xs = true) (k : Nat) :
    Value.nsbList (xs.drop k) = true :=
  (nsbList_iff _).mpr fun _ hx => nsb_of_mem_list h (List.mem_of_mem_drop hx)

theorem nsbList_append {xs ys : List Value} :
    Value.nsbList (xs ++ ys) = true ↔ Value.nsbList xs = true ∧ Value.nsbList ys = true := by
  simp only [nsbList_iff, List.mem_append]
  constructor
  · intro h; exact ⟨fun x hx => h x (Or.inl hx), fun x hx => h x (Or.inr hx)⟩
  · rintro ⟨h1, h2⟩ x (hx | hx); exact h1 x hx; exact h2 x hx

theorem nsb_lookupAL {k : String} {v : Value} : ∀ {r : List (String × Value)},
    Value.nsbRec r = true → lookupAL k r = some v → v.nsb = true
  | [], _, h => by simp [lookupAL] at h
  | (k', v') :: r, hr, h => by
    simp only [Value.nsbRec, Bool.and_eq_true] at hr
    simp only [lookupAL] at h
    split at h
    · injection h with h; subst h; exact hr.1
    · exact nsb_lookupAL hr.2 h

theorem nsb_lookupAL_getD {k : String} {r : List (String × Value)} (hr : Value.nsbRec r = true) :
    ((lookupAL k r).getD .null).nsb = true := by
  cases h : lookupAL k r with
  | none => rfl
  | some v => exact nsb_lookupAL hr h

theorem nsb_insertAL {k : String} {v : Value} (hv : v.nsb = true) : ∀ {r : List (String × Value)},
    Value.nsbRec r = true → Value.nsbRec (insertAL k v r) = true
  | [], _ => by simp [insertAL, Value.nsbRec, hv]
  | (k', v') :: r, hr => by
    simp only [Value.nsbRec, Bool.and_eq_true] at hr
    simp only [insertAL]
    split
    · simp [Value.nsbRec, hv, hr.2]
    · simp [Value.nsbRec, hr.1, nsb_insertAL hv hr.2]

theorem nsb_envGet {k : String} {v : Value} : ∀ {env : List Frame},
    nsbEnv env = true → envGet env k = some v → v.nsb = true
  | [], _, h => by simp [envGet] at h
  | f :: rest, he, h => by
    simp only [nsbEnv, Bool.and_eq_true] at he
    simp only [envGet] at h
    split at h
    · rename_i w hw; injection h with h; subst h; exact nsb_lookupAL he.1 hw
    · exact nsb_envGet he.2 h

theorem nsb_envInsert {k : String} {v : Value} {env : List Frame} (he : nsbEnv env = true)
    (hv : v.nsb = true) : nsbEnv (envInsert env k v) = true := by
  cases env with
  | nil => simp [envInsert, nsbEnv, Value.nsbRec, hv]
  | cons f rest =>
    simp only [nsbEnv, Bool.and_eq_true] at he
    simp [envInsert, nsbEnv, nsb_insertAL hv he.1, he.2]

theorem nsbEnv_drop {env : List Frame} (he : nsbEnv env = true) (k : Nat) :
    nsbEnv (env.drop k) = true :=
  (nsbEnv_iff _).mpr fun f hf => (nsbEnv_iff _).mp he f (List.mem_of_mem_drop hf)

theorem nsb_captureScope {env : List Frame} (he : nsbEnv env = true) (vars : List String) :
    Value.nsbRec (captureScope env vars) = true := by
  unfold captureScope
  suffices h : ∀ (acc : Frame), Value.nsbRec acc = true →
      Value.nsbRec (vars.foldl (fun sc x =>
        match envGet env x with
        | some v => insertAL x v sc
        | none => sc) acc) = true from h [] rfl
  induction vars with
  | nil => intro acc h; exact h
  | cons x xs ih =>
    intro acc h
    simp only [List.foldl_cons]
    apply ih
    split
    · rename_i v hv
      exact nsb_insertAL (nsb_envGet he hv) h
    · exact h

theorem nsb_spreadValues {v : Value} (hv : v.nsb = true) : Value.nsbList (spreadValues v) = true := by
  cases v with
  | list l => simpa [spreadValues, Value.nsb] using hv
  | str s => simp [spreadValues, nsbList_iff, Value.nsb]
  | record r =>
    simp only [Value.nsb] at hv
    simp only [spreadValues, nsbList_iff, List.mem_map]
    rintro x ⟨kv, hkv, rfl⟩
    simp [Value.nsb, Value.nsbList, (nsbRec_iff r).mp hv kv hkv]
  | _ => rfl

theorem nsb_flattenSpreads : ∀ {vs : List Value}, Value.nsbList vs = true →
    Value.nsbList (flattenSpreads vs) = true
  | [], _ => rfl
  | v :: vs, h => by
    simp only [Value.nsbList, Bool.and_eq_true] at h
    have ih := nsb_flattenSpreads h.2
    unfold flattenSpreads at ih ⊢
    simp only [List.flatMap_cons]
    rw [nsbList_append]
    refine ⟨?_, ih⟩
    split
    · rename_i inner; exact nsb_spreadValues (by simpa [Value.nsb] using h.1)
    · simp [Value.nsbList, h.1]

theorem nsb_foldl_insertAL_idx {α} (g : α → Value) (hg : ∀ a, (g a).nsb = true) :
    ∀ (xs : List (α × Nat)) (acc : Frame), Value.nsbRec acc = true →
      Value.nsbRec (xs.foldl (fun r (p : α × Nat) => insertAL (toString p.2) (g p.1) r) acc) = true
  | [], acc, h => h
  | x :: xs, acc, h => by
    simp only [List.foldl_cons]
    exact nsb_foldl_insertAL_idx g hg xs _ (nsb_insertAL (hg _) h)

theorem nsb_spreadIntoRecord {rec : Frame} {v : Value} (hr : Value.nsbRec rec = true)
    (hv : v.nsb = true) : Value.nsbRec (spreadIntoRecord rec v) = true := by
  cases v with
  | list l =>
    simp only [Value.nsb] at hv
    simp only [spreadIntoRecord]
    suffices h : ∀ (xs : List (Value × Nat)) (acc : Frame), (∀ p ∈ xs, p.1.nsb = true) →
        Value.nsbRec acc = true →
        Value.nsbRec (xs.foldl (fun r (x : Value × Nat) => insertAL (toString x.2) x.1 r) acc) = true by
      apply h _ _ _ hr
      intro p hp
      exact nsb_of_mem_list hv (List.fst_mem_of_mem_zipIdx hp)
    intro xs
    induction xs with
    | nil => intro acc _ h; exact h
    | cons x xs ih =>
      intro acc hx h
      simp only [List.foldl_cons]
      exact ih _ (fun p hp => hx p (by simp [hp])) (nsb_insertAL (hx x (by simp)) h)
  | str s =>
    simp only [spreadIntoRecord]
    exact nsb_foldl_insertAL_idx (fun c => .str (String.singleton c)) (fun _ => rfl) _ _ hr
  | record r2 =>
    simp only [Value.nsb] at hv
    simp only [spreadIntoRecord]
    suffices h : ∀ (xs : List (String × Value)) (acc : Frame), Value.nsbRec xs = true →
        Value.nsbRec acc = true →
        Value.nsbRec (xs.foldl (fun r kv => insertAL kv.1 kv.2 r) acc) = true from h _ _ hv hr
    intro xs
    induction xs with
    | nil => intro acc _ h; exact h
    | cons x xs ih =>
      intro acc hx h
      obtain ⟨k, v⟩ := x
      simp only [Value.nsbRec, Bool.and_eq_true] at hx
      simp only [List.foldl_cons]
      exact ih _ hx.2 (nsb_insertAL hx.1 h)
  | _ => exact hr

theorem nsb_foldl_insertAL : ∀ (pf : Frame) (acc : Frame), Value.nsbRec pf = true →
    Value.nsbRec acc = true →
    Value.nsbRec (pf.foldl (fun f kv => insertAL kv.1 kv.2 f) acc) = true
  | [], _, _, h => h
  | (k, v) :: pf, acc, hp, h => by
    simp only [Value.nsbRec, Bool.and_eq_true] at hp
    simp only [List.foldl_cons]
    exact nsb_foldl_insertAL pf _ hp.2 (nsb_insertAL hp.1 h)

theorem nsb_listGetD {l : List Value} (h : Value.nsbList l = true) (k : Nat) :
    (listGetD l k).nsb = true := by
  unfold listGetD
  cases hk : l[k]? with
  | none => rfl
  | some v => exact nsb_getElem? h hk

theorem nsb_bindParams_go {args : List Value} (ha : Value.nsbList args = true) :
    ∀ (ps : List LArg) (idx : Nat) (frame pf : Frame), Value.nsbRec frame = true →
      bindParams.go args ps idx frame = .ok pf → Value.nsbRec pf = true
  | [], _, frame, pf, hf, h => by
    simp only [bindParams.go, Outcome.ok.injEq] at h; subst h; exact hf
  | .req n :: rest, idx, frame, pf, hf, h => by
    simp only [bindParams.go] at h
    split at h
    · rename_i v hv
      exact nsb_bindParams_go ha rest _ _ pf (nsb_insertAL (nsb_getElem? ha hv) hf) h
    · simp at h
  | .opt n :: rest, idx, frame, pf, hf, h => by
    simp only [bindParams.go] at h
    refine nsb_bindParams_go ha rest _ _ pf (nsb_insertAL ?_ hf) h
    cases hv : args[idx]? with
    | none => rfl
    | some v => exact nsb_getElem? ha hv
  | .rest n :: rest, idx, frame, pf, hf, h => by
    simp only [bindParams.go] at h
    exact nsb_bindParams_go ha rest _ _ pf
      (nsb_insertAL (by simpa [Value.nsb] using nsbList_drop ha idx) hf) h

theorem nsb_bindParams {params : List LArg} {args : List Value} {pf : Frame}
    (ha : Value.nsbList args = true) (h : bindParams params args = .ok pf) :
    Value.nsbRec pf = true :=
  nsb_bindParams_go ha params 0 [] pf rfl h

theorem nsb_compareOp {op : BinOp} {a b v : Value} (h : compareOp op a b = .ok v) : v.nsb = true := by
  cases hv : vcmp a b <;> cases op <;>
    simp [compareOp, orderingsOf, checkOrdering, Outcome.bind, hv] at h <;> (subst h; rfl)

theorem nsb_scalarOp {ops : NumOps} {ew : Bool} {op : BinOp} {a b v : Value}
    (ha : a.nsb = true) (hb : b.nsb = true) (h : scalarOp ops ew op a b = .ok v) : v.nsb = true := by
  rw [show scalarOp ops ew op a b = scalarOp ops false op a b by
    cases ew; rfl; exact scalarOp_elementwise_irrelevant ..] at h
  cases op
  case coalesce =>
    simp only [scalarOp, Outcome.ok.injEq] at h
    subst h; split <;> assumption
  case via => simp [scalarOp] at h
  case into => simp [scalarOp] at h
  case where_ => simp [scalarOp] at h
  case eq => exact nsb_compareOp (op := .eq) h
  case ne => exact nsb_compareOp (op := .ne) h
  case lt => exact nsb_compareOp (op := .lt) h
  case le => exact nsb_compareOp (op := .le) h
  case gt => exact nsb_compareOp (op := .gt) h
  case ge => exact nsb_compareOp (op := .ge) h
  case deq => exact nsb_compareOp (op := .deq) h
  case dne => exact nsb_compareOp (op := .dne) h
  case dlt => exact nsb_compareOp (op := .dlt) h
  case dle => exact nsb_compareOp (op := .dle) h
  case dgt => exact nsb_compareOp (op := .dgt) h
  case dge => exact nsb_compareOp (op := .dge) h
  all_goals
    cases a <;> cases b <;>
      simp [scalarOp, logicalOperands, asBool, asNumber, asString, Outcome.bind, bind, pure] at h <;>
      (subst h; rfl)

theorem nsb_mapM' {α} {f : α → Outcome Value} {L : List α} {vs : List Value}
    (hf : ∀ x ∈ L, ∀ v, f x = .ok v → v.nsb = true) (h : Outcome.mapM' f L = .ok vs) :
    Value.nsbList vs = true := by
  obtain ⟨hl, hg⟩ := (Outcome.mapM'_ok_iff_get f L vs).mp h
  rw [nsbList_iff]
  intro x hx
  obtain ⟨i, hi, rfl⟩ := List.getElem_of_mem hx
  exact hf L[i] (List.getElem_mem _) _ (hg i (by omega) hi)

theorem nsb_mapScalar {ops : NumOps} {op : BinOp} {lf : Bool} {L : List Value} {sc v : Value}
    (hL : Value.nsbList L = true) (hs : sc.nsb = true) (h : mapScalar ops op lf L sc = .ok v) :
    v.nsb = true := by
  rw [mapScalar_eq, listOf_eq_ok_iff] at h
  obtain ⟨vs, h, rfl⟩ := h
  simp only [Value.nsb]
  refine nsb_mapM' (fun x hx v hv => ?_) h
  have hx' := nsb_of_mem_list hL hx
  unfold elemScalar at hv
  split at hv
  · exact nsb_scalarOp hx' hs hv
  · exact nsb_scalarOp hx' hs hv
  · exact nsb_scalarOp hx' hs hv
  · split at hv
    · exact nsb_scalarOp hx' hs hv
    · exact nsb_scalarOp hs hx' hv

theorem nsb_zipScalar {ops : NumOps} {op : BinOp} {la lb : List Value} {v : Value}
    (ha : Value.nsbList la = true) (hb : Value.nsbList lb = true) (h : zipScalar ops op la lb = .ok v) :
    v.nsb = true := by
  rw [zipScalar_eq, listOf_eq_ok_iff] at h
  obtain ⟨vs, h, rfl⟩ := h
  simp only [Value.nsb]
  refine nsb_mapM' (fun p hp v hv => ?_) h
  exact nsb_scalarOp (nsb_of_mem_list ha (List.of_mem_zip hp).1) (nsb_of_mem_list hb (List.of_mem_zip hp).2) hv

theorem nsbRec_filter {r : List (String × Value)} (h : Value.nsbRec r = true)
    (p : String × Value → Bool) : Value.nsbRec (r.filter p) = true :=
  (nsbRec_iff _).mpr fun kv hkv => (nsbRec_iff _).mp h kv (List.mem_filter.mp hkv).1

theorem nsb_groupByKeys : ∀ {xs ks : List Value} {r : Frame}, Value.nsbList xs = true →
    groupByKeys xs ks = some r → Value.nsbRec r = true
  | [], [], r, _, h => by simp [groupByKeys] at h; subst h; rfl
  | [], _ :: _, r, _, h => by simp [groupByKeys] at h
  | _ :: _, [], r, _, h => by simp [groupByKeys] at h
  | x :: xs, k :: ks, r, hx, h => by
    simp only [Value.nsbList, Bool.and_eq_true] at hx
    cases k <;> simp only [groupByKeys, reduceCtorEq] at h
    rename_i key
    simp only [Option.map_eq_some_iff] at h
    obtain ⟨rest, hrest, rfl⟩ := h
    have ih := nsb_groupByKeys hx.2 hrest
    split
    · rename_i g hg
      have hgn := nsb_lookupAL ih hg
      simp only [Value.nsb] at hgn
      simp [Value.nsbRec, Value.nsb, Value.nsbList, hx.1, hgn, nsbRec_filter ih]
    · simp [Value.nsbRec, Value.nsb, Value.nsbList, hx.1, ih]

theorem nsb_countByKeys {ops : NumOps} : ∀ {ks : List Value} {r : Frame},
    countByKeys ops ks = some r → Value.nsbRec r = true
  | [], r, h => by simp [countByKeys] at h; subst h; rfl
  | k :: ks, r, h => by
    cases k <;> simp only [countByKeys, reduceCtorEq] at h
    simp only [Option.map_eq_some_iff] at h
    obtain ⟨rest, hrest, rfl⟩ := h
    have ih := nsb_countByKeys hrest
    split <;> simp [Value.nsbRec, Value.nsb, ih, nsbRec_filter ih]

theorem nsb_constants : Value.nsb (.record constantsRecord) = true := by decide
theorem nsbRec_constants : Value.nsbRec constantsRecord = true := by decide

theorem setNameIfLambda_env (s : ES) (n : String) (v : Value) : (setNameIfLambda s n v).env = s.env := by
  unfold setNameIfLambda; split
  · split <;> rfl
  · rfl

/-! ### forward forms of the data lemmas (equation first), for the `fwd` tactic -/

theorem fwd_envGet {env : List Frame} {k : String} {v : Value} (h : envGet env k = some v)
    (he : nsbEnv env = true) : v.nsb = true := nsb_envGet he h
theorem fwd_lookupAL {r : List (String × Value)} {k : String} {v : Value} (h : lookupAL k r = some v)
    (hr : Value.nsbRec r = true) : v.nsb = true := nsb_lookupAL hr h
theorem fwd_getElem? {xs : List Value} {i : Nat} {x : Value} (h : xs[i]? = some x)
    (hx : Value.nsbList xs = true) : x.nsb = true := nsb_getElem? hx h
theorem fwd_bindParams {params : List LArg} {args : List Value} {pf : Frame}
    (h : bindParams params args = .ok pf) (ha : Value.nsbList args = true) :
    Value.nsbRec pf = true := nsb_bindParams ha h
theorem fwd_groupByKeys {xs ks : List Value} {r : Frame} (h : groupByKeys xs ks = some r)
    (hx : Value.nsbList xs = true) : Value.nsbRec r = true := nsb_groupByKeys hx h
theorem fwd_compareOp {op : BinOp} {a b v : Value} (h : compareOp op a b = .ok v) : v.nsb = true :=
  nsb_compareOp h
theorem fwd_scalarOp {ops : NumOps} {ew : Bool} {op : BinOp} {a b v : Value}
    (h : scalarOp ops ew op a b = .ok v) (ha : a.nsb = true) (hb : b.nsb = true) : v.nsb = true :=
  nsb_scalarOp ha hb h
theorem fwd_mapScalar {ops : NumOps} {op : BinOp} {lf : Bool} {L : List Value} {sc v : Value}
    (h : mapScalar ops op lf L sc = .ok v) (hL : Value.nsbList L = true) (hs : sc.nsb = true) :
    v.nsb = true := nsb_mapScalar hL hs h
theorem fwd_zipScalar {ops : NumOps} {op : BinOp} {la lb : List Value} {v : Value}
    (h : zipScalar ops op la lb = .ok v) (ha : Value.nsbList la = true) (hb : Value.nsbList lb = true) :
    v.nsb = true := nsb_zipScalar ha hb h
theorem fwd_countByKeys {ops : NumOps} {ks : List Value} {r : Frame} (h : countByKeys ops ks = some r) :
    Value.nsbRec r = true := nsb_countByKeys h

/-- the pure built-ins do not conjure a `sort_by` value: their results only contain function
    values taken from their arguments (a property of `callPure` alone) -/
def CallPureKeepsNSB (ops : NumOps) : Prop :=
  ∀ (name : String) (args : List Value) (v : Value),
    callPure ops name args = some (.ok v) → Value.nsbList args = true → v.nsb = true

open Lean Elab Tactic Meta in
/-- `fwd [g₁, …]`: for every hypothesis `h : F … = …` add `gᵢ h` for each of the given lemmas
    whose first explicit hypothesis is an equation about the same function `F` -/
elab "fwd " "[" gs:ident,* "]" : tactic => withMainContext do
  -- head function of the first explicit hypothesis of each lemma
  let mut keyed : Array (Syntax.Ident × Name) := #[]
  for g in gs.getElems do
    try
      let e ← Term.withoutErrToSorry (Term.elabTerm g none)
      let mut t ← instantiateMVars (← inferType e)
      while t.isForall && t.bindingInfo! != .default do
        t := t.bindingBody!
      if t.isForall then
        if let some (_, lhs, _) := t.bindingDomain!.eq? then
          if let some c := lhs.getAppFn.constName? then
            keyed := keyed.push (g, c)
    catch _ => pure ()
  let lctx ← getLCtx
  for d in lctx do
    if d.isImplementationDetail then continue
    let ty ← instantiateMVars d.type
    let some (_, lhs, _) := ty.eq? | continue
    let some c := lhs.getAppFn.constName? | continue
    for (g, c') in keyed do
      if c == c' then
        try
          let hstx ← Term.exprToSyntax d.toExpr
          evalTactic (← `(tactic| have := $g:ident $hstx))
        catch _ => pure ()

/-! ### evaluation keeps the invariant -/

/-- results of successful calls on `sort_by`-free inputs are `sort_by`-free (value and state) -/
structure Pres (ops : NumOps) (n : Nat) : Prop where
  eval : ∀ {d e s v s'}, eval ops n d e s = (.ok v, s') → e.nsb = true → nsbEnv s.env = true →
    v.nsb = true ∧ nsbEnv s'.env = true
  evalList : ∀ {d es s vs s'}, evalList ops n d es s = (.ok vs, s') → Expr.nsbList es = true →
    nsbEnv s.env = true → Value.nsbList vs = true ∧ nsbEnv s'.env = true
  evalItems : ∀ {d es s vs s'}, evalItems ops n d es s = (.ok vs, s') → Item.nsbList es = true →
    nsbEnv s.env = true → Value.nsbList vs = true ∧ nsbEnv s'.env = true
  evalEntries : ∀ {d es acc s r s'}, evalEntries ops n d es acc s = (.ok r, s') →
    Entry.nsbList es = true → Value.nsbRec acc = true → nsbEnv s.env = true →
    Value.nsbRec r = true ∧ nsbEnv s'.env = true
  evalDoStmt : ∀ {d e s v s'}, evalDoStmt ops n d e s = (.ok v, s') → e.nsb = true →
    nsbEnv s.env = true → v.nsb = true ∧ nsbEnv s'.env = true
  evalDo : ∀ {d st ret s v s'}, evalDo ops n d st ret s = (.ok v, s') → Item.nsbList st = true →
    ret.nsb = true → nsbEnv s.env = true → v.nsb = true ∧ nsbEnv s'.env = true
  callFn : ∀ {fv this args d s v s'}, callFn ops n fv this args d s = (.ok v, s') → fv.nsb = true →
    this.nsb = true → Value.nsbList args = true → nsbEnv s.env = true →
    v.nsb = true ∧ nsbEnv s'.env = true
  mapCalls : ∀ {f w L i d s vs s'}, mapCalls ops n f w L i d s = (.ok vs, s') → f.nsb = true →
    Value.nsbList L = true → nsbEnv s.env = true → Value.nsbList vs = true ∧ nsbEnv s'.env = true
  quantCalls : ∀ {f w q L i d s v s'}, quantCalls ops n f w q L i d s = (.ok v, s') → f.nsb = true →
    Value.nsbList L = true → nsbEnv s.env = true → v.nsb = true ∧ nsbEnv s'.env = true
  foldCalls : ∀ {f w acc L i d s v s'}, foldCalls ops n f w acc L i d s = (.ok v, s') → f.nsb = true →
    acc.nsb = true → Value.nsbList L = true → nsbEnv s.env = true →
    v.nsb = true ∧ nsbEnv s'.env = true
  callHof : ∀ {name args d s v s'}, callHof ops n name args d s = (.ok v, s') → name ≠ "sort_by" →
    Value.nsbList args = true → nsbEnv s.env = true → v.nsb = true ∧ nsbEnv s'.env = true
  evalBin : ∀ {d op a b s v s'}, evalBin ops n d op a b s = (.ok v, s') → a.nsb = true →
    b.nsb = true → nsbEnv s.env = true → v.nsb = true ∧ nsbEnv s'.env = true
  viaPairs : ∀ {la lb d s v s'}, viaPairs ops n la lb d s = (.ok v, s') → Value.nsbList la = true →
    Value.nsbList lb = true → nsbEnv s.env = true → v.nsb = true ∧ nsbEnv s'.env = true
  whereCalls : ∀ {f w L i d s v s'}, whereCalls ops n f w L i d s = (.ok v, s') → f.nsb = true →
    Value.nsbList L = true → nsbEnv s.env = true → v.nsb = true ∧ nsbEnv s'.env = true

theorem pres_zero (ops : NumOps) : Pres ops 0 := by
  constructor <;> intros <;>
    simp_all [eval.eq_1, evalList.eq_1, evalItems.eq_1, evalEntries.eq_1, evalDoStmt.eq_1, evalDo.eq_1,
      callFn.eq_1, mapCalls.eq_1, quantCalls.eq_1, foldCalls.eq_1, callHof.eq_1, evalBin.eq_1,
      viaPairs.eq_1, whereCalls.eq_1]

section presStep
variable {ops : NumOps} {n : Nat}

/- `pres_leaf`: at a leaf of the run (`h : leaf = (ok v, s')`): name the result, collect what the
   induction hypotheses and the data lemmas say about the intermediate results, conclude -/
set_option hygiene false in
macro "pres_leaf" : tactic => `(tactic|
  ((try simp only [Prod.mk.injEq, Outcome.ok.injEq, reduceCtorEq, false_and, and_false] at h) <;>
   (try (first | (obtain ⟨rfl, rfl⟩ := h) | (obtain ⟨h, rfl⟩ := h))) <;>
   (fwd [gEval, gList, gItems, gEntries, gStmt, gDo, gCall, gMap, gQuant, gFold, gHof, gBin, gVia,
         gWhere, hp, fwd_envGet, fwd_lookupAL, fwd_getElem?, fwd_bindParams, fwd_groupByKeys,
         fwd_countByKeys, fwd_compareOp, fwd_scalarOp, fwd_mapScalar, fwd_zipScalar]) <;>
   (simp_all [Value.nsb, Value.nsbList, Value.nsbRec, Expr.nsb, Expr.nsbList, Item.nsb, Item.nsbList,
      Entry.nsb, Entry.nsbList, Key.nsb, nsbEnv, nsb_lookupAL_getD, nsb_insertAL, nsb_envInsert,
      nsbEnv_drop, nsb_captureScope, nsb_flattenSpreads, nsb_spreadIntoRecord, nsb_foldl_insertAL,
      nsb_listGetD, nsb_constants, nsbRec_constants, setNameIfLambda_env, nsbList_drop, apply_ite Value.nsbList,
      apply_ite Value.nsb, apply_ite Value.nsbRec, apply_ite nsbEnv]) <;>
   (try ((repeat' split) <;> simp_all [Value.nsb]))))

theorem mapCalls_pres (ih : Pres ops n) {f : Value} {w : Bool} {L : List Value} {i d : Nat} {s : ES}
    {vs : List Value} {s' : ES} (h : mapCalls ops (n+1) f w L i d s = (.ok vs, s'))
    (hf : f.nsb = true) (hL : Value.nsbList L = true) (hs : nsbEnv s.env = true) :
    Value.nsbList vs = true ∧ nsbEnv s'.env = true := by
  have gCall := @ih.callFn
  have gMap := @ih.mapCalls
  clear ih
  cases L with
  | nil => simp [mapCalls] at h; obtain ⟨rfl, rfl⟩ := h; simp [Value.nsbList, hs]
  | cons x xs =>
    rw [mapCalls.eq_3] at h
    (repeat' split at h) <;> pres_leaf

theorem whereCalls_pres (ih : Pres ops n) {f : Value} {w : Bool} {L : List Value} {i d : Nat} {s : ES}
    {v : Value} {s' : ES} (h : whereCalls ops (n+1) f w L i d s = (.ok v, s'))
    (hf : f.nsb = true) (hL : Value.nsbList L = true) (hs : nsbEnv s.env = true) :
    v.nsb = true ∧ nsbEnv s'.env = true := by
  have gCall := @ih.callFn
  have gWhere := @ih.whereCalls
  clear ih
  cases L with
  | nil => simp [whereCalls] at h; obtain ⟨rfl, rfl⟩ := h; simp [Value.nsb, Value.nsbList, hs]
  | cons x xs =>
    rw [whereCalls.eq_3] at h
    (repeat' split at h) <;> pres_leaf

theorem quantCalls_pres (ih : Pres ops n) {f : Value} {w q : Bool} {L : List Value} {i d : Nat} {s : ES}
    {v : Value} {s' : ES} (h : quantCalls ops (n+1) f w q L i d s = (.ok v, s'))
    (hf : f.nsb = true) (hL : Value.nsbList L = true) (hs : nsbEnv s.env = true) :
    v.nsb = true ∧ nsbEnv s'.env = true := by
  have gCall := @ih.callFn
  have gQuant := @ih.quantCalls
  clear ih
  cases L with
  | nil => simp [quantCalls] at h; obtain ⟨rfl, rfl⟩ := h; simp [Value.nsb, hs]
  | cons x xs =>
    rw [quantCalls.eq_3] at h
    (repeat' split at h) <;> pres_leaf

theorem foldCalls_pres (ih : Pres ops n) {f : Value} {w : Bool} {acc : Value} {L : List Value} {i d : Nat}
    {s : ES} {v : Value} {s' : ES} (h : foldCalls ops (n+1) f w acc L i d s = (.ok v, s'))
    (hf : f.nsb = true) (ha : acc.nsb = true) (hL : Value.nsbList L = true) (hs : nsbEnv s.env = true) :
    v.nsb = true ∧ nsbEnv s'.env = true := by
  have gCall := @ih.callFn
  have gFold := @ih.foldCalls
  clear ih
  cases L with
  | nil => simp [foldCalls] at h; obtain ⟨rfl, rfl⟩ := h; simp [ha, hs]
  | cons x xs =>
    rw [foldCalls.eq_3] at h
    (repeat' split at h) <;> pres_leaf

theorem viaPairs_pres (ih : Pres ops n) {la lb : List Value} {d : Nat} {s : ES} {v : Value} {s' : ES}
    (h : viaPairs ops (n+1) la lb d s = (.ok v, s')) (ha : Value.nsbList la = true)
    (hb : Value.nsbList lb = true) (hs : nsbEnv s.env = true) : v.nsb = true ∧ nsbEnv s'.env = true := by
  have gCall := @ih.callFn
  have gVia := @ih.viaPairs
  clear ih
  rw [viaPairs.eq_def] at h
  dsimp only at h
  (repeat' split at h) <;> pres_leaf

theorem evalList_pres (ih : Pres ops n) {d : Nat} {es : List Expr} {s : ES} {vs : List Value} {s' : ES}
    (h : evalList ops (n+1) d es s = (.ok vs, s')) (he : Expr.nsbList es = true)
    (hs : nsbEnv s.env = true) : Value.nsbList vs = true ∧ nsbEnv s'.env = true := by
  have gEval := @ih.eval
  have gList := @ih.evalList
  clear ih
  cases es with
  | nil => simp [evalList] at h; obtain ⟨rfl, rfl⟩ := h; simp [Value.nsbList, hs]
  | cons x xs =>
    rw [evalList.eq_3] at h
    (repeat' split at h) <;> pres_leaf

theorem evalItems_pres (ih : Pres ops n) {d : Nat} {es : List Item} {s : ES} {vs : List Value} {s' : ES}
    (h : evalItems ops (n+1) d es s = (.ok vs, s')) (he : Item.nsbList es = true)
    (hs : nsbEnv s.env = true) : Value.nsbList vs = true ∧ nsbEnv s'.env = true := by
  have gEval := @ih.eval
  have gItems := @ih.evalItems
  clear ih
  cases es with
  | nil => simp [evalItems] at h; obtain ⟨rfl, rfl⟩ := h; simp [Value.nsbList, hs]
  | cons x xs =>
    cases x
    rw [evalItems.eq_3] at h
    (repeat' split at h) <;> pres_leaf

theorem evalEntries_pres (ih : Pres ops n) {d : Nat} {es : List Entry} {acc : Frame} {s : ES} {r : Frame}
    {s' : ES} (h : evalEntries ops (n+1) d es acc s = (.ok r, s')) (he : Entry.nsbList es = true)
    (ha : Value.nsbRec acc = true) (hs : nsbEnv s.env = true) :
    Value.nsbRec r = true ∧ nsbEnv s'.env = true := by
  have gEval := @ih.eval
  have gEntries := @ih.evalEntries
  clear ih
  cases es with
  | nil => simp [evalEntries] at h; obtain ⟨rfl, rfl⟩ := h; simp [ha, hs]
  | cons x xs =>
    obtain ⟨l, k, v, t⟩ := x
    cases k
    · rw [evalEntries.eq_3] at h
      (repeat' split at h) <;> pres_leaf
    · rw [evalEntries.eq_4] at h
      (repeat' split at h) <;> pres_leaf
    · rw [evalEntries.eq_5] at h
      (repeat' split at h) <;> pres_leaf
    · rw [evalEntries.eq_6] at h
      (repeat' split at h) <;> pres_leaf

theorem evalDoStmt_pres (ih : Pres ops n) {d : Nat} {e : Expr} {s : ES} {v : Value} {s' : ES}
    (h : evalDoStmt ops (n+1) d e s = (.ok v, s')) (he : e.nsb = true) (hs : nsbEnv s.env = true) :
    v.nsb = true ∧ nsbEnv s'.env = true := by
  have gEval := @ih.eval
  clear ih
  rw [evalDoStmt.eq_def] at h
  dsimp only at h
  (repeat' split at h) <;> pres_leaf

theorem evalDo_pres (ih : Pres ops n) {d : Nat} {st : List Item} {ret : Item} {s : ES} {v : Value}
    {s' : ES} (h : evalDo ops (n+1) d st ret s = (.ok v, s')) (hst : Item.nsbList st = true)
    (hr : ret.nsb = true) (hs : nsbEnv s.env = true) : v.nsb = true ∧ nsbEnv s'.env = true := by
  have gStmt := @ih.evalDoStmt
  have gDo := @ih.evalDo
  clear ih
  cases st with
  | nil =>
    cases ret
    rw [evalDo.eq_2] at h
    pres_leaf
  | cons x xs =>
    cases x
    rw [evalDo.eq_3] at h
    (repeat' split at h) <;> pres_leaf

theorem evalBin_pres (ih : Pres ops n) {d : Nat} {op : BinOp} {a b : Value} {s : ES} {v : Value} {s' : ES}
    (h : evalBin ops (n+1) d op a b s = (.ok v, s')) (ha : a.nsb = true) (hb : b.nsb = true)
    (hs : nsbEnv s.env = true) : v.nsb = true ∧ nsbEnv s'.env = true := by
  have gCall := @ih.callFn
  have gMap := @ih.mapCalls
  have gVia := @ih.viaPairs
  have gWhere := @ih.whereCalls
  clear ih
  rw [evalBin_succ] at h
  (repeat' split at h) <;> pres_leaf

theorem callHof_pres (ih : Pres ops n) {name : String} {args : List Value} {d : Nat} {s : ES} {v : Value}
    {s' : ES} (h : callHof ops (n+1) name args d s = (.ok v, s')) (hn : name ≠ "sort_by")
    (ha : Value.nsbList args = true) (hs : nsbEnv s.env = true) : v.nsb = true ∧ nsbEnv s'.env = true := by
  have gMap := @ih.mapCalls; have gQuant := @ih.quantCalls; have gFold := @ih.foldCalls
  have gWhere := @ih.whereCalls
  clear ih
  rw [callHof.eq_2] at h
  (repeat' split at h) <;> pres_leaf

theorem callFn_pres (hp : ∀ {name args v}, callPure ops name args = some (.ok v) →
      Value.nsbList args = true → v.nsb = true)
    (ih : Pres ops n) {fv this : Value} {args : List Value} {d : Nat} {s : ES} {v : Value}
    {s' : ES} (h : callFn ops (n+1) fv this args d s = (.ok v, s')) (hf : fv.nsb = true)
    (ht : this.nsb = true) (ha : Value.nsbList args = true) (hs : nsbEnv s.env = true) :
    v.nsb = true ∧ nsbEnv s'.env = true := by
  have gEval := @ih.eval; have gHof := @ih.callHof
  clear ih
  cases fv with
  | lambda id params body scope =>
    rw [callFn.eq_2] at h
    simp only [Value.nsb, Bool.and_eq_true] at hf
    split at h
    · split at h
      · simp at h
      · cases hpf : bindParams params args with
        | ok pf =>
          rw [hpf] at h
          simp only [] at h
          have hpfn := nsb_bindParams ha hpf
          generalize hS : ({ env := _ :: _, nextId := s.nextId, names := s.names } : ES) = S at h
          cases he : eval ops n (d + 1) body S with
          | mk r s1 =>
            rw [he] at h
            simp only [Prod.mk.injEq] at h
            obtain ⟨rfl, rfl⟩ := h
            have hSn : nsbEnv S.env = true := by
              subst hS
              simp only [nsbEnv, Bool.and_eq_true]
              refine ⟨nsb_foldl_insertAL _ _ hpfn ?_, ?_⟩
              · split
                · rename_i w hw
                  apply nsb_insertAL (nsb_envGet hs hw)
                  split
                  · split <;> simp [Value.nsbRec, ht]
                  · rfl
                · split
                  · split <;> simp [Value.nsbRec, ht]
                  · rfl
              · split
                · exact hs
                · simp [nsbEnv, hf.2, hs]
            exact ⟨(gEval he hf.1 hSn).1, hs⟩
        | err k => rw [hpf] at h; simp at h
        | panic p => rw [hpf] at h; simp at h
        | fuel => rw [hpf] at h; simp at h
    · simp at h
    · simp at h
    · simp at h
  | builtin name =>
    rw [callFn.eq_3] at h
    simp only [Value.nsb, bne_iff_ne, ne_eq] at hf
    (repeat' split at h) <;> pres_leaf
  | _ => simp [callFn] at h

theorem eval_pres (ih : Pres ops n) {d : Nat} {e : Expr} {s : ES} {v : Value} {s' : ES}
    (h : eval ops (n+1) d e s = (.ok v, s')) (he : e.nsb = true) (hs : nsbEnv s.env = true) :
    v.nsb = true ∧ nsbEnv s'.env = true := by
  have gEval := @ih.eval; have gList := @ih.evalList; have gItems := @ih.evalItems
  have gEntries := @ih.evalEntries; have gDo := @ih.evalDo
  have gCall := @ih.callFn; have gBin := @ih.evalBin
  clear ih
  cases e
  case doBlock stmts ret =>
    rw [eval] at h
    simp only [Expr.nsb, Bool.and_eq_true] at he
    generalize hS : ({ env := [] :: s.env, nextId := s.nextId, names := s.names } : ES) = S at h
    cases hdo : evalDo ops n d stmts ret S with
    | mk r s1 =>
      rw [hdo] at h
      simp only [Prod.mk.injEq] at h
      obtain ⟨rfl, rfl⟩ := h
      have := gDo hdo he.1 he.2 (by subst hS; simp [nsbEnv, Value.nsbRec, hs])
      exact ⟨this.1, nsbEnv_drop this.2 1⟩
  all_goals (rw [eval] at h; (repeat' split at h) <;> pres_leaf)

theorem pres_succ (hp : CallPureKeepsNSB ops) (ih : Pres ops n) : Pres ops (n+1) :=
  ⟨eval_pres ih, evalList_pres ih, evalItems_pres ih, evalEntries_pres ih, evalDoStmt_pres ih,
   evalDo_pres ih, callFn_pres (fun h => hp _ _ _ h) ih, mapCalls_pres ih, quantCalls_pres ih,
   foldCalls_pres ih, callHof_pres ih, evalBin_pres ih, viaPairs_pres ih, whereCalls_pres ih⟩

end presStep

theorem pres {ops : NumOps} (hp : CallPureKeepsNSB ops) : ∀ n, Pres ops n
  | 0 => pres_zero ops
  | n + 1 => pres_succ hp (pres hp n)

end Blots
