import Blots.Lemmas.FormatPieces
import Blots.Lemmas.ExprPegLemmas
/-
  The formatter on the OPERATOR FRAGMENT, at text level (C07 / C08 end to end).

  `Lemmas/ExprPegLemmas.lean` (C10) has the character-level PEG model of the `expression` rule
  for the operator fragment (`Frag t`), concrete syntax trees `CST`, the printer's tree
  `canon t`, and `Relayout t c` (`c` is `canon t` with other ADMISSIBLE layout strings).
  `Model/Format.lean` has the width-driven formatter `fmtImplP` / `formatExpr`.

  Here the two are joined:
  * `fmtCST w indent t` : the concrete syntax tree `format_expr_impl` writes for a fragment
                          tree — the printer's tree wherever the single-line form fits, else
                          `left ⏎ (indent+2 blanks) op ␣ right` for a binary operator (the
                          `via`/`into`/`where`-with-lambda branch of `binLayout` cannot occur:
                          a fragment tree has no lambda), the operator sign directly in front of
                          / behind the (re-formatted) operand for prefix / postfix nodes;
  * `fmtCST_text`       : its text IS `fmtImpl w indent t`, character for character;
  * `fmtCST_relayout`   : it is a `Relayout` of `t` — the line break in front of an operator
                          (symbol or word) and the single blank behind it are admissible
                          (`CST.layOk`) for all 26 operators;
  * `formatExpr_cst`    : `formatExpr` adds at most one redundant pair of parentheses
                          (`protect_statement_start`) — a `Wraps`;
  * `formatExpr_parse`  : hence `parseText (formatExpr t mw) = some t`.
-/
namespace Blots.FormatFrag
open Blots.ExprPeg Blots.FormatP Blots.FormatL

/-- the test of `orSingle`: the single-line text is one line and fits -/
def fits (w indent : Nat) (e : Expr) : Bool :=
  !hasNewline (fmtSingle e) && decide (indent + blen (firstLine (fmtSingle e)) ≤ w)

/-- the layout `format_binary_op_multiline` writes in front of the operator: a line feed and
    `indent + 2` blanks -/
def breakLay (indent : Nat) : Lay := .lf :: List.replicate (indent + INDENT_SIZE) .sp

/-- the concrete syntax tree `format_expr_impl` writes for a tree of the operator fragment -/
def fmtCST (w indent : Nat) : Expr → CST
  | .bin op l r =>
    if fits w indent (.bin op l r) then canon (.bin op l r)
    else
      .bin op (wrap (needsParens l (.binLeft op)) (fmtCST w indent l)) (breakLay indent) [.sp]
        (wrap (needsParens r (.binRight op)) (fmtCST w (indent + INDENT_SIZE) r))
  | .un op e =>
    if fits w indent (.un op e) then canon (.un op e)
    else .un op (wrap (needsParens e .prefix_) (fmtCST w indent e))
  | .fact e =>
    if fits w indent (.fact e) then canon (.fact e)
    else .fact (wrap (needsParens e .postfix_) (fmtCST w indent e))
  | .ident n => canon (.ident n)
  | .builtin n => canon (.builtin n)
  | .bool b => canon (.bool b)
  | .null => canon .null
  | .num x => canon (.num x)
  | e => canon e

/-! ### fragment trees: no comments, no lambda; single-line text = `expr_to_source` -/

theorem frag_bin {op : BinOp} {l r : Expr} (h : Frag (.bin op l r)) : Frag l ∧ Frag r := by
  simpa [Frag, frag] using h

theorem frag_un {op : UnOp} {e : Expr} (h : Frag (.un op e)) : op ≠ .invert ∧ Frag e := by
  simpa [Frag, frag] using h

theorem frag_fact {e : Expr} (h : Frag (.fact e)) : Frag e := by
  simpa [Frag, frag] using h

theorem frag_noComments : ∀ t : Expr, Frag t → containsComments t = false
  | .bin op l r, h => by
    simp [containsComments, frag_noComments l (frag_bin h).1, frag_noComments r (frag_bin h).2]
  | .un op e, h => by simp [containsComments, frag_noComments e (frag_un h).2]
  | .fact e, h => by simp [containsComments, frag_noComments e (frag_fact h)]
  | .ident _, _ | .builtin _, _ | .bool _, _ | .null, _ | .num _, _ => by simp [containsComments]
  | .str _, h | .inref _, h | .list _, h | .record _, h | .lambda _ _, h | .cond _ _ _, h
  | .doBlock _ _, h | .assign _ _, h | .output _, h | .call _ _, h | .access _ _, h | .dot _ _, h
  | .spread _, h => by simp [Frag, frag] at h

theorem frag_notLambda {t : Expr} (h : Frag t) : isLambda t = false := by
  cases t <;> first | rfl | simp [Frag, frag] at h

/-- `format_single_line` of a fragment tree is `expr_to_source` -/
theorem fmtSingle_frag (t : Expr) (h : Frag t) : fmtSingle t = exprToSource t := by
  have hc := frag_noComments t h
  cases t <;> first | (simp [Frag, frag] at h; done) | simp [fmtSingle, hc]

/-! ### rendering -/

theorem render_parenP (b : Bool) (ps : List Piece) : render (parenP b ps) = parenIf b (render ps) := by
  cases b
  · rfl
  · simp only [parenP, parenIf, if_true, render_text, render_append, render_nil,
      String.append_empty, String.append_assoc]

theorem fmtSpelling_eq (op : BinOp) : fmtSpelling op = opSpelling op := by
  cases op <;> decide

theorem makeIndent_toList (n : Nat) : (makeIndent n).toList = List.replicate n ' ' := by
  simp [makeIndent]

theorem layChars_replicate_sp (n : Nat) :
    layChars (List.replicate n LayAtom.sp) = List.replicate n ' ' := by
  induction n with
  | zero => rfl
  | succ k ih => simp [List.replicate_succ, layChars, LayAtom.chars, ih]

theorem layChars_breakLay (indent : Nat) :
    layChars (breakLay indent) = '\n' :: List.replicate (indent + INDENT_SIZE) ' ' := by
  simp [breakLay, layChars, LayAtom.chars, layChars_replicate_sp]

/-! ### the formatter's pieces on the fragment -/

theorem fmtImplP_bin (w indent : Nat) (op : BinOp) (l r : Expr) :
    fmtImplP w indent (.bin op l r) =
      if fits w indent (.bin op l r) then [.text (fmtSingle (.bin op l r))]
      else binLayout w indent op l r (fmtImplP w indent l) (fun _ => fmtImplP w indent r)
        (fun _ => fmtImplP w (indent + INDENT_SIZE) r) := by
  rw [fmtImplP]; rfl

theorem fmtImplP_un (w indent : Nat) (op : UnOp) (e : Expr) :
    fmtImplP w indent (.un op e) =
      if fits w indent (.un op e) then [.text (fmtSingle (.un op e))]
      else .text (unaryOpToSource op) :: parenP (needsParens e .prefix_) (fmtImplP w indent e) := by
  rw [fmtImplP]; rfl

theorem fmtImplP_fact (w indent : Nat) (e : Expr) :
    fmtImplP w indent (.fact e) =
      if fits w indent (.fact e) then [.text (fmtSingle (.fact e))]
      else parenP (needsParens e .postfix_) (fmtImplP w indent e) ++ [.text "!"] := by
  rw [fmtImplP]; rfl

/-- a leaf is printed by `expr_to_source` on both branches -/
theorem fmtImpl_leaf (w indent : Nat) (e : Expr) (h : fmtSingle e = exprToSource e) :
    render (leafP w indent e) = exprToSource e := by
  unfold leafP orSingle
  simp only [h]
  split <;> exact render_single _

/-! ### `fmtCST` is a re-layout of the printer's tree -/

theorem wrap_normalize' (b : Bool) (c : CST) : (wrap b c).normalize = wrap b c.normalize := by
  cases b <;> rfl

/-- a line break and blanks in front of the operator, one blank behind it: admissible for
    every operator, word or symbol -/
theorem layOk_break (op : BinOp) (indent : Nat) : CST.layOk op (breakLay indent) [.sp] = true := by
  cases h : isWordOp op <;> simp [CST.layOk, h, breakLay, wsOnly, LayAtom.isWs]

theorem fmtCST_normalize : ∀ (t : Expr) (w indent : Nat), Frag t →
    (fmtCST w indent t).normalize = canon t
  | .bin op l r, w, indent, h => by
    unfold fmtCST
    split
    · exact canon_normalize _ h
    · simp only [CST.normalize, wrap_normalize', fmtCST_normalize l w indent (frag_bin h).1,
        fmtCST_normalize r w (indent + INDENT_SIZE) (frag_bin h).2, canon]
  | .un op e, w, indent, h => by
    unfold fmtCST
    split
    · exact canon_normalize _ h
    · simp only [CST.normalize, wrap_normalize', fmtCST_normalize e w indent (frag_un h).2, canon]
  | .fact e, w, indent, h => by
    unfold fmtCST
    split
    · exact canon_normalize _ h
    · simp only [CST.normalize, wrap_normalize', fmtCST_normalize e w indent (frag_fact h), canon]
  | .ident _, _, _, _ | .builtin _, _, _, _ | .bool _, _, _, _ | .null, _, _, _ | .num _, _, _, _ => rfl
  | .str _, _, _, h | .inref _, _, _, h | .list _, _, _, h | .record _, _, _, h
  | .lambda _ _, _, _, h | .cond _ _ _, _, _, h | .doBlock _ _, _, _, h | .assign _ _, _, _, h
  | .output _, _, _, h | .call _ _, _, _, h | .access _ _, _, _, h | .dot _ _, _, _, h
  | .spread _, _, _, h => by simp [Frag, frag] at h

theorem fmtCST_layout : ∀ (t : Expr) (w indent : Nat), (fmtCST w indent t).LayoutOk
  | .bin op l r, w, indent => by
    unfold fmtCST
    split
    · exact canon_layout _
    · exact ⟨wrap_layout (fmtCST_layout l w indent),
        wrap_layout (fmtCST_layout r w (indent + INDENT_SIZE)), layOk_break op indent⟩
  | .un op e, w, indent => by
    unfold fmtCST
    split
    · exact canon_layout _
    · exact wrap_layout (fmtCST_layout e w indent)
  | .fact e, w, indent => by
    unfold fmtCST
    split
    · exact canon_layout _
    · exact wrap_layout (fmtCST_layout e w indent)
  | .ident _, _, _ | .builtin _, _, _ | .bool _, _, _ | .null, _, _ | .num _, _, _ => trivial
  | .str _, _, _ | .inref _, _, _ | .list _, _, _ | .record _, _, _ | .lambda _ _, _, _
  | .cond _ _ _, _, _ | .doBlock _ _, _, _ | .assign _ _, _, _ | .output _, _, _ | .call _ _, _, _
  | .access _ _, _, _ | .dot _ _, _, _ | .spread _, _, _ => trivial

theorem fmtCST_relayout (t : Expr) (h : Frag t) (w indent : Nat) :
    Relayout t (fmtCST w indent t) :=
  ⟨fmtCST_normalize t w indent h, fmtCST_layout t w indent⟩

/-! ### … and its text is the formatter's output -/

theorem fmtCST_text : ∀ (t : Expr) (w indent : Nat), Frag t →
    (fmtCST w indent t).text = (fmtImpl w indent t).toList
  | .bin op l r, w, indent, h => by
    have hl := fmtCST_text l w indent (frag_bin h).1
    have hr := fmtCST_text r w (indent + INDENT_SIZE) (frag_bin h).2
    unfold fmtImpl at hl hr ⊢
    rw [fmtImplP_bin]
    unfold fmtCST
    split
    · rw [render_single, fmtSingle_frag _ h]; exact canon_text _ h
    · simp only [binLayout, frag_notLambda (frag_bin h).2, Bool.and_false, Bool.false_eq_true,
        if_false, render_append, render_text, render_parenP, String.toList_append, parenIf_toList,
        CST.text, wrap_text, hl, hr, layChars_breakLay, makeIndent_toList, fmtSpelling_eq, spell,
        layChars, LayAtom.chars, List.append_assoc, List.cons_append, List.nil_append]
      rfl
  | .un op e, w, indent, h => by
    have he := fmtCST_text e w indent (frag_un h).2
    unfold fmtImpl at he ⊢
    rw [fmtImplP_un]
    unfold fmtCST
    split
    · rw [render_single, fmtSingle_frag _ h]; exact canon_text _ h
    · simp only [render_text, render_parenP, String.toList_append, parenIf_toList, CST.text,
        wrap_text, he]
  | .fact e, w, indent, h => by
    have he := fmtCST_text e w indent (frag_fact h)
    unfold fmtImpl at he ⊢
    rw [fmtImplP_fact]
    unfold fmtCST
    split
    · rw [render_single, fmtSingle_frag _ h]; exact canon_text _ h
    · simp only [render_append, render_single, render_parenP, String.toList_append, parenIf_toList,
        CST.text, wrap_text, he]
      rfl
  | .ident n, w, indent, h => by
    unfold fmtImpl; rw [fmtImplP, fmtImpl_leaf _ _ _ (fmtSingle_frag _ h)]; exact canon_text _ h
  | .builtin n, w, indent, h => by
    unfold fmtImpl; rw [fmtImplP, fmtImpl_leaf _ _ _ (fmtSingle_frag _ h)]; exact canon_text _ h
  | .bool b, w, indent, h => by
    unfold fmtImpl; rw [fmtImplP, fmtImpl_leaf _ _ _ (fmtSingle_frag _ h)]; exact canon_text _ h
  | .null, w, indent, h => by
    unfold fmtImpl; rw [fmtImplP, fmtImpl_leaf _ _ _ (fmtSingle_frag _ h)]; exact canon_text _ h
  | .num x, w, indent, h => by
    unfold fmtImpl; rw [fmtImplP, fmtImpl_leaf _ _ _ (fmtSingle_frag _ h)]; exact canon_text _ h
  | .str _, _, _, h | .inref _, _, _, h | .list _, _, _, h | .record _, _, _, h
  | .lambda _ _, _, _, h | .cond _ _ _, _, _, h | .doBlock _ _, _, _, h | .assign _ _, _, _, h
  | .output _, _, _, h | .call _ _, _, _, h | .access _ _, _, _, h | .dot _ _, _, _, h
  | .spread _, _, _, h => by simp [Frag, frag] at h

/-- the string `format_expr_impl` returns is the text of `fmtCST` -/
theorem fmtImpl_eq_text (t : Expr) (h : Frag t) (w indent : Nat) :
    fmtImpl w indent t = String.ofList (fmtCST w indent t).text := by
  rw [fmtCST_text t w indent h, String.ofList_toList]

/-! ### the two shapes of the output, as strings -/

/-- where the single-line form fits, the formatter's text is the printer's -/
theorem fmtImpl_fits (t : Expr) (h : Frag t) (w indent : Nat) (hf : fits w indent t = true) :
    fmtImpl w indent t = exprToSource t := by
  rw [fmtImpl_eq_text t h]
  cases t <;> first
    | (simp [Frag, frag] at h; done)
    | (unfold fmtCST; rw [if_pos hf, canon_text _ h, String.ofList_toList])
    | (unfold fmtCST; rw [canon_text _ h, String.ofList_toList])

/-- where it does not, a binary operator goes to a new line, two columns deeper, followed by
    one blank; the operands are formatted again (the right one at the deeper indent) -/
theorem fmtImpl_bin_break (w indent : Nat) (op : BinOp) (l r : Expr) (hr : isLambda r = false)
    (hf : fits w indent (.bin op l r) = false) :
    fmtImpl w indent (.bin op l r) =
      parenIf (needsParens l (.binLeft op)) (fmtImpl w indent l) ++ "\n" ++
        makeIndent (indent + INDENT_SIZE) ++ opSpelling op ++ " " ++
        parenIf (needsParens r (.binRight op)) (fmtImpl w (indent + INDENT_SIZE) r) := by
  unfold fmtImpl
  rw [fmtImplP_bin, hf]
  simp only [Bool.false_eq_true, if_false, binLayout, hr, Bool.and_false, render_append,
    render_text, render_parenP, fmtSpelling_eq, String.append_assoc]

theorem fmtImpl_un_break (w indent : Nat) (op : UnOp) (e : Expr)
    (hf : fits w indent (.un op e) = false) :
    fmtImpl w indent (.un op e) =
      unaryOpToSource op ++ parenIf (needsParens e .prefix_) (fmtImpl w indent e) := by
  unfold fmtImpl
  rw [fmtImplP_un, hf]
  simp only [Bool.false_eq_true, if_false, render_text, render_parenP]

theorem fmtImpl_fact_break (w indent : Nat) (e : Expr) (hf : fits w indent (.fact e) = false) :
    fmtImpl w indent (.fact e) = parenIf (needsParens e .postfix_) (fmtImpl w indent e) ++ "!" := by
  unfold fmtImpl
  rw [fmtImplP_fact, hf]
  simp only [Bool.false_eq_true, if_false, render_append, render_single, render_parenP]

/-! ### `format_expr` = `protect_statement_start ∘ format_expr_impl` -/

/-- the concrete syntax tree of `format_expr`'s result: a statement that starts with `-` gets
    one extra pair of parentheses -/
def formatCST (t : Expr) (mw : Option Nat) : CST :=
  let c := fmtCST (mw.getD DEFAULT_MAX_COLUMNS) 0 t
  match c.text with
  | '-' :: _ => .paren [] c []
  | _ => c

theorem formatCST_wraps (t : Expr) (mw : Option Nat) :
    Wraps (fmtCST (mw.getD DEFAULT_MAX_COLUMNS) 0 t) (formatCST t mw) := by
  unfold formatCST
  simp only
  split
  · exact .step (.refl _) (.here [] _ [])
  · exact .refl _

theorem formatCST_text (t : Expr) (h : Frag t) (mw : Option Nat) :
    formatExpr t mw = String.ofList (formatCST t mw).text := by
  have ht := fmtCST_text t (mw.getD DEFAULT_MAX_COLUMNS) 0 h
  unfold formatExpr formatCST protectStatementStart
  generalize fmtImpl (mw.getD DEFAULT_MAX_COLUMNS) 0 t = s at ht ⊢
  generalize fmtCST (mw.getD DEFAULT_MAX_COLUMNS) 0 t = c at ht ⊢
  apply String.toList_inj.mp
  simp only [ht, String.toList_ofList]
  split
  · rename_i tl heq
    simp only [heq, String.toList_append, CST.text, layChars, List.nil_append, ht]
    rfl
  · rename_i hne
    split
    · rename_i tl heq
      exact absurd heq (hne tl)
    · exact ht.symm

/-- END TO END: what `format_expr` returns for a fragment tree is read back — PEG recogniser,
    then Pratt parser — to the tree, at every width -/
theorem formatExpr_parse (t : Expr) (h : Frag t) (mw : Option Nat) :
    parseText (formatExpr t mw) = some t := by
  obtain ⟨hwf, _, ht⟩ := relayout_wf h (fmtCST_relayout t h (mw.getD DEFAULT_MAX_COLUMNS) 0)
  obtain ⟨ht', hwf'⟩ := wraps_facts (formatCST_wraps t mw) hwf
  have := cst_roundtrip _ hwf'
  rw [ht', ht] at this
  rw [formatCST_text t h mw]
  exact this

end Blots.FormatFrag
